(* Extraction of the executable models for the correspondence driver.
   ExtrOcamlBasic only: no Extract Constant / Extract Inductive of ours. *)
Require Extraction.
Require Import ExtrOcamlBasic.
From Coq Require Import NArith List.
From OQ3 Require Import Model.Types Model.TypesSpec Model.TypeRules Model.TypeRulesSpec Model.Declared Model.Literals Model.Usage Model.SymTab Model.Scoping Model.Lexer Model.Lexed Model.Parser Model.Grammar Model.Builder Model.Shape Model.Graph Model.Accept Model.Include.
Extraction Language OCaml.
Separate Extraction
  Model.Types Model.TypesSpec Model.TypeRules Model.TypeRulesSpec Model.Declared Model.Literals Model.Usage Model.SymTab Model.Scoping Model.Lexer Model.Lexed Model.Parser Model.Grammar Model.Builder Model.Shape Model.Graph Model.Accept Model.Include
  N.of_nat N.to_nat N.add N.mul N.eqb N.leb N.ltb N.succ N.div N.modulo Pos.to_nat.
