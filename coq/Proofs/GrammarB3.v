(* Theorem B, marker discipline: the Pratt loop, ranges and parameter lists *)
From Coq Require Import NArith Arith List Bool Lia.
From OQ3 Require Import gen.Kinds Model.Parser Model.Grammar Proofs.MarkerB Proofs.GrammarB0 Proofs.GrammarB1 Proofs.GrammarB2.
Import ListNotations.
Local Open Scope nat_scope.

Section B.
Variable inp : list (N * bool).
Variable R : G.
Hypothesis HG : GoodB R.

(* the body of expr_bp once its marker exists *)
Lemma expr_bp_core m ps bp own Lb b0 V W s :
  St [] (m :: own) Lb b0 V W s ->
  WB (expr_bp inp R (Some m) ps bp)
     (fun r s' => St [] own Lb b0 V W s' /\ (forall i, Valid s i -> Valid s' i) /\ m <= nev s' /\
                  match r with Some (cm, _) => Valid s' (fst cm) /\ m <= fst cm | None => True end) s.
Proof.
  intros HS.
  assert (m < nev s) as Hlt by (apply (st_own_lower _ _ _ _ _ _ _ _ HS); left; reflexivity).
  assert (Hc0 : forall i, Valid s i -> Valid s i) by (intros ? Hq; exact Hq).
  unfold expr_bp. apply WB_bind, WB_ret. bgo.
  - split; [assumption|lia].
  - b_loopS (fun (l : cmarker) (s1 : pst) => Valid s1 (fst l) /\ m <= fst l)
            (fun (l : cmarker) (s1 : pst) => Valid s1 (fst l) /\ m <= fst l).
    + split; [assumption|lia].
    + destruct HP as [HP1 HP2]. bgo; cbn [fst]; (split; [assumption|lia]).
    + destruct HP as [HP1 HP2]. bgo. split; assumption.
Qed.

Lemma expr_bp_some_B ps bp :
  SpecC (fun m => expr_bp inp R (Some m) ps bp)
        (fun _ r s' => match r with Some (cm, _) => Valid s' (fst cm) | None => True end).
Proof.
  b_enterC. eapply WB_conseq; [apply expr_bp_core; exact HS0|].
  intros r s' [HS [Hc [Hn Hr]]]. split; [eapply st_exit_c; eassumption|].
  destruct r as [[cm b]|]; [apply Hr|exact I].
Qed.
Lemma expr_bp_none_B ps bp : SpecA (expr_bp inp R None ps bp) ResOCmB.
Proof.
  b_enter. unfold expr_bp. apply WB_bind. b_start.
  eapply WB_conseq; [pose proof (expr_bp_core m ps bp _ _ _ _ _ _ HS) as Hcore; unfold expr_bp in Hcore; exact Hcore|].
  intros r s' [HS' [Hc [Hn Hr]]]. split; [apply st_exit; assumption|].
  destruct r as [[cm b]|]; [|exact I]. destruct Hr as [Hr1 Hr2]. split; [assumption|cbn [fst]; lia].
Qed.
Ltac b_k31 :=
  lazymatch goal with |- WB ?f _ _ =>
    let h := head_of f in
    lazymatch h with
    | @expr_bp => first [ b_callA expr_bp_none_B | b_callC expr_bp_some_B ]
    | _ => b_g2
    end
  end.
Ltac b_known ::= b_k31.
Lemma expr_direct_B : SpecA (expr_direct inp R) ResOCm.
Proof. b_enter. unfold expr_direct. bgo; fin. Qed.
Lemma range_expr_B : SpecA (range_expr inp R) ResOCm.
Proof. b_enter. unfold range_expr. bgo; fin. Qed.
Lemma expr_or_range_expr_B : SpecA (expr_or_range_expr inp R) ResU.
Proof. b_enter. unfold expr_or_range_expr. bgo; fin. Qed.
Lemma at_list_end_token_B fl : SpecA (at_list_end_token inp fl) ResU.
Proof. b_enter. unfold at_list_end_token. destruct fl; bgo; fin. Qed.
Lemma param_untyped_B : SpecC (param_untyped inp) ResU.
Proof. b_enterC. unfold param_untyped. bgo; fin. Qed.
Lemma param_untyped_or_hardware_qubit_B : SpecC (param_untyped_or_hardware_qubit inp) ResU.
Proof. b_enterC. unfold param_untyped_or_hardware_qubit. bgo; fin. Qed.
Lemma param_typed_B : SpecC (param_typed inp R) ResU.
Proof. b_enterC. unfold param_typed. bgo; fin. Qed.
Lemma scalar_type_B : SpecC (scalar_type inp R) ResU.
Proof. b_enterC. unfold scalar_type. bgo; fin. Qed.
Ltac b_k32 :=
  lazymatch goal with |- WB ?f _ _ =>
    let h := head_of f in
    lazymatch h with
    | @expr_direct => b_callA expr_direct_B
    | @range_expr => b_callA range_expr_B
    | @expr_or_range_expr => b_callA expr_or_range_expr_B
    | @at_list_end_token => b_callA at_list_end_token_B
    | @param_untyped => b_callC param_untyped_B
    | @param_untyped_or_hardware_qubit => b_callC param_untyped_or_hardware_qubit_B
    | @param_typed => b_callC param_typed_B
    | @scalar_type => b_callC scalar_type_B
    | _ => b_k31
    end
  end.
Ltac b_known ::= b_k32.
Ltac b_join_guard ::= fail.
Lemma param_list_openqasm_B fl : SpecA (param_list_openqasm inp R fl) ResU.
Proof.
  b_enter. unfold param_list_openqasm. cbv zeta. bgo.
  b_loopS (fun (_ : bool) (_ : pst) => True) (fun (_ : bool) (_ : pst) => True).
  - exact I.
  - bgo; try exact I.
  - bgo; fin.
Qed.
Ltac b_join_guard ::= idtac.
End B.

Ltac b_g3 :=
  lazymatch goal with |- WB ?f _ _ =>
    let h := head_of f in
    lazymatch h with
    | @expr_bp => first [ b_callC expr_bp_some_B | b_callA expr_bp_none_B ]
    | @expr_direct => b_callA expr_direct_B
    | @range_expr => b_callA range_expr_B
    | @expr_or_range_expr => b_callA expr_or_range_expr_B
    | @at_list_end_token => b_callA at_list_end_token_B
    | @param_untyped => b_callC param_untyped_B
    | @param_untyped_or_hardware_qubit => b_callC param_untyped_or_hardware_qubit_B
    | @param_typed => b_callC param_typed_B
    | @scalar_type => b_callC scalar_type_B
    | @param_list_openqasm => b_callA param_list_openqasm_B
    | _ => b_g2
    end
  end.
Ltac b_known ::= b_g3.
