From Coq Require Import NArith List Bool Lia.
From OQ3 Require Import Model.Types Model.Declared.
Import ListNotations.
Open Scope N_scope.

(* kinds that take a designator (for the others a designator is a syntax error) *)
Definition takes_width (k : skind) : bool :=
  match k with KBool | KDuration | KStretch => false | _ => true end.

(* the recorded width is the written one, or the declaration is diagnosed *)
Lemma declared_width_exact k d c :
  takes_width k = true \/ d = DNone ->
  k_nonconst_designator d = false ->
  let '(t, e) := declared_type k d c in
  e <> NoDiag \/ (written_width d = Some (type_width k t)).
Proof.
  unfold declared_type. intros [Hk|Hd] K.
  - destruct d; cbn in *; try discriminate.
    + right. destruct k; reflexivity.
    + destruct (n <? two32); cbn; [right|left; discriminate]. destruct k; try discriminate; reflexivity.
    + left; discriminate.
    + destruct (n <? two32); cbn; [right|left; discriminate]. destruct k; try discriminate; reflexivity.
    + left; discriminate.
  - subst d. cbn. right. destruct k; reflexivity.
Qed.

(* base type and const flag are always the written ones *)
Lemma declared_base_const k d c :
  let t := fst (declared_type k d c) in
  (match k with KQubit => True | _ => is_const t = c end) /\
  (match k, t with
   | KAngle, Angle _ _ | KBool, Bool _ | KComplex, Complex _ _ | KDuration, Duration _
   | KFloat, Float _ _ | KInt, Int _ _ | KStretch, Stretch _ | KUInt, UInt _ _
   | KBit, (Bit _ | BitArray (D1 _) _) | KQubit, (Qubit | QubitArray (D1 _)) => True
   | _, _ => False end).
Proof.
  unfold declared_type. destruct (designator_width d) as [w e]. cbn.
  destruct k, w; cbn; auto.
Qed.

(* a width that does not fit is diagnosed and replaced by zero, never by another number *)
Lemma width_overflow_diagnosed n :
  two32 <= n -> designator_width (DLitInt n) = (Some 0, InvalidDesignatorError) /\
                designator_width (DConstCastInt n) = (Some 0, InvalidDesignatorError).
Proof.
  intros H. cbn. assert (n <? two32 = false) as E by (apply N.ltb_ge; auto). rewrite E. auto.
Qed.
