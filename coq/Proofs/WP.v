(* A weakest-precondition calculus over token POSITIONS for the parser monad.
   Theorem A (termination and token-precondition asserts) depends on the parser state only
   through [pos]: every rule below quantifies over all states with a given position, so
   events and the ghost marker set are havocked.  Marker-discipline panics (SMarker, SDropBomb,
   SProcess) are not excluded here -- they are the subject of theorem B. *)
From Coq Require Import NArith Arith List Bool Lia.
From OQ3 Require Import gen.Kinds Model.Parser Model.Grammar Proofs.TablesP.
Import ListNotations.
Local Open Scope nat_scope.

Section WP.
Variable inp : list (N * bool).
(* the lexer never hands the parser a token of kind EOF *)
Hypothesis Hne : forall i k j, nth_error inp i = Some (k, j) -> k <> K_EOF.
Notation n := (ntoks inp).
Notation kind_at := (kind_at inp).
Notation nth_at_pure := (nth_at_pure inp).

Definition okA (w : site) : Prop :=
  match w with SMarker _ | SDropBomb | SProcess => True | _ => False end.

Definition WP {A} (m : M A) (Q : A -> nat -> Prop) (p : nat) : Prop :=
  forall s, pos s = p -> p <= n ->
  match m s with
  | Ok a s' => p <= pos s' /\ pos s' <= n /\ Q a (pos s')
  | Panic w => okA w
  | OutOfFuel => False
  end.

Lemma WP_conseq {A} (m : M A) (Q Q' : A -> nat -> Prop) p :
  WP m Q p -> (forall a p', p <= p' -> p' <= n -> Q a p' -> Q' a p') -> WP m Q' p.
Proof.
  intros H HQ s Hs Hn. specialize (H s Hs Hn). destruct (m s); auto.
  destruct H as [H1 [H2 H3]]. auto.
Qed.

Lemma WP_guard {A} (m : M A) (Q : A -> nat -> Prop) p : (p <= n -> WP m Q p) -> WP m Q p.
Proof. intros H s Hs Hn. apply H; auto. Qed.

Lemma WP_ret {A} (a : A) (Q : A -> nat -> Prop) p : Q a p -> WP (ret a) Q p.
Proof. intros H s Hs Hn. cbn. subst. auto. Qed.

Lemma WP_bind {A B} (m : M A) (f : A -> M B) Q p :
  WP m (fun a p1 => WP (f a) Q p1) p -> WP (bind m f) Q p.
Proof.
  intros H s Hs Hn. specialize (H s Hs Hn). unfold bind. destruct (m s) as [a s'| |]; auto.
  destruct H as [H1 [H2 H3]]. specialize (H3 s' eq_refl H2).
  destruct (f a s') as [b s''| |]; auto. destruct H3 as [H4 [H5 H6]]. repeat split; auto; lia.
Qed.

(* ---- kinds at positions ---- *)
Lemma kind_at_eof_iff p : kind_at p = K_EOF <-> n <= p.
Proof.
  unfold Parser.kind_at, ntoks. destruct (nth_error inp p) as [[k j]|] eqn:E.
  - split; intros H.
    + exfalso. apply (Hne _ _ _ E). auto.
    + apply nth_error_None in H. congruence.
  - apply nth_error_None in E. split; auto.
Qed.
Lemma kind_at_lt p : kind_at p <> K_EOF -> p < n.
Proof. intros H. destruct (le_lt_dec n p); auto. apply kind_at_eof_iff in l. congruence. Qed.

Lemma composite2_ne : Forall (fun e => fst (snd e) <> K_EOF /\ snd (snd e) <> K_EOF) composite2.
Proof. repeat constructor; cbn; discriminate. Qed.
Lemma composite3_ne :
  Forall (fun e => let '(a, b, c) := snd e in a <> K_EOF /\ b <> K_EOF /\ c <> K_EOF) composite3.
Proof. repeat constructor; cbn; discriminate. Qed.
Lemma assocN_in {B} k (l : list (N * B)) v : assocN k l = Some v -> In (k, v) l.
Proof.
  induction l as [|[x y] l IH]; cbn; [discriminate|].
  destruct (N.eqb k x) eqn:E; intros H.
  - apply N.eqb_eq in E; subst. inversion H; subst; auto.
  - right; auto.
Qed.

Lemma nth_at_pure_bound p k :
  k <> K_EOF -> nth_at_pure p 0 k = true -> p + n_raw_of k <= n.
Proof.
  rewrite n_raw_of_spec. unfold Parser.nth_at_pure. intros Hk.
  destruct (assocN k composite2) as [[k1 k2]|] eqn:E2.
  - apply assocN_in in E2. pose proof composite2_ne as F. rewrite Forall_forall in F.
    specialize (F _ E2). cbn in F. destruct F as [F1 F2].
    rewrite !andb_true_iff, !N.eqb_eq. intros [[H1 H2] _].
    assert (p + 0 + 1 < n) by (apply kind_at_lt; congruence). lia.
  - destruct (assocN k composite3) as [[[k1 k2] k3]|] eqn:E3.
    + apply assocN_in in E3. pose proof composite3_ne as F. rewrite Forall_forall in F.
      specialize (F _ E3). cbn in F. destruct F as [F1 [F2 F3]].
      rewrite !andb_true_iff, !N.eqb_eq. intros [[[[H1 H2] H3] _] _].
      assert (p + 0 + 2 < n) by (apply kind_at_lt; congruence). lia.
    + rewrite N.eqb_eq. intros H. assert (p + 0 < n) by (apply kind_at_lt; congruence). lia.
Qed.
Lemma n_raw_pos k : 0 < n_raw_of k.
Proof. rewrite n_raw_of_spec. destruct (assocN k composite2); [lia|]. destruct (assocN k composite3); lia. Qed.

(* a simple (non-composite) kind: at_ is a test on the current kind *)
Definition simple (k : N) : Prop := assocN k composite2 = None /\ assocN k composite3 = None.
Lemma nth_at_simple p k : simple k -> nth_at_pure p 0 k = N.eqb (kind_at (p + 0)) k.
Proof. intros [H2 H3]. unfold Parser.nth_at_pure. rewrite H2, H3. auto. Qed.
Lemma n_raw_simple k : simple k -> n_raw_of k = 1.
Proof. intros [H2 H3]. rewrite n_raw_of_spec, H2, H3. auto. Qed.

(* ---- primitives ---- *)
Lemma WP_get (Q : pst -> nat -> Prop) p : (forall s0, pos s0 = p -> Q s0 p) -> WP get Q p.
Proof. intros H s Hs Hn. cbn. subst. auto. Qed.
Lemma WP_push e (Q : unit -> nat -> Prop) p : Q tt p -> WP (push e) Q p.
Proof. intros H s Hs Hn. cbn. subst. auto. Qed.
Lemma WP_error (Q : unit -> nat -> Prop) p : Q tt p -> WP error Q p.
Proof. apply WP_push. Qed.
Lemma WP_current (Q : N -> nat -> Prop) p : Q (kind_at p) p -> WP (current inp) Q p.
Proof. intros H s Hs Hn. cbn. subst. auto. Qed.
Lemma WP_nth_tok k (Q : N -> nat -> Prop) p : k <= 3 -> Q (kind_at (p + k)) p -> WP (nth_tok inp k) Q p.
Proof.
  intros Hk H s Hs Hn. unfold nth_tok. destruct (k <=? 3) eqn:E.
  - subst. auto.
  - apply Nat.leb_gt in E. lia.
Qed.
Lemma WP_at k (Q : bool -> nat -> Prop) p : Q (nth_at_pure p 0 k) p -> WP (at_ inp k) Q p.
Proof. intros H s Hs Hn. cbn. subst. auto. Qed.
Lemma WP_at_ts ts (Q : bool -> nat -> Prop) p : Q (ts_contains ts (kind_at p)) p -> WP (at_ts inp ts) Q p.
Proof. intros H s Hs Hn. cbn. subst. auto. Qed.

Lemma WP_eat k (Q : bool -> nat -> Prop) p :
  k <> K_EOF ->
  (nth_at_pure p 0 k = true -> Q true (p + n_raw_of k)) ->
  (nth_at_pure p 0 k = false -> Q false p) ->
  WP (eat inp k) Q p.
Proof.
  intros Hk H1 H2 s Hs Hn. unfold eat. subst p.
  destruct (nth_at_pure (pos s) 0 k) eqn:E; cbn.
  - pose proof (nth_at_pure_bound _ _ Hk E). repeat split; auto; lia.
  - auto.
Qed.
Lemma WP_bump k (Q : unit -> nat -> Prop) p :
  k <> K_EOF -> nth_at_pure p 0 k = true -> Q tt (p + n_raw_of k) -> WP (bump inp k) Q p.
Proof.
  intros Hk E H. unfold bump. apply WP_bind. apply WP_eat; auto.
  - intros _. apply WP_ret; auto.
  - congruence.
Qed.
Lemma WP_bump_any (Q : unit -> nat -> Prop) p :
  (kind_at p = K_EOF -> Q tt p) -> (kind_at p <> K_EOF -> Q tt (p + 1)) -> WP (bump_any inp) Q p.
Proof.
  intros H1 H2 s Hs Hn. unfold bump_any. subst p.
  destruct (N.eqb (kind_at (pos s)) K_EOF) eqn:E.
  - apply N.eqb_eq in E. auto.
  - apply N.eqb_neq in E. cbn. pose proof (kind_at_lt _ E). repeat split; auto; lia.
Qed.
Lemma WP_expect k (Q : bool -> nat -> Prop) p :
  k <> K_EOF ->
  (nth_at_pure p 0 k = true -> Q true (p + n_raw_of k)) ->
  (nth_at_pure p 0 k = false -> Q false p) ->
  WP (expect inp k) Q p.
Proof.
  intros Hk H1 H2. unfold expect. apply WP_bind. apply WP_eat; auto.
  - intros E. apply WP_ret; auto.
  - intros E. apply WP_bind. apply WP_error. apply WP_ret; auto.
Qed.

(* markers: havoc (their panics are theorem B's business) *)
Lemma WP_start (Q : marker -> nat -> Prop) p : (forall m, Q m p) -> WP start Q p.
Proof. intros H s Hs Hn. cbn. subst. auto. Qed.
Lemma WP_use_marker m w (Q : unit -> nat -> Prop) p : Q tt p -> WP (use_marker m w) Q p.
Proof. intros H s Hs Hn. unfold use_marker. destruct (mem_nat m (live s)); cbn; subst; auto. Qed.
Lemma WP_complete m k (Q : cmarker -> nat -> Prop) p : Q (m, k) p -> WP (complete m k) Q p.
Proof.
  intros H. unfold complete. apply WP_bind. apply WP_use_marker.
  intros s Hs Hn. destruct (slot s m) as [[]|]; cbn; subst; auto.
Qed.
Lemma WP_abandon m (Q : unit -> nat -> Prop) p : Q tt p -> WP (abandon m) Q p.
Proof.
  intros H. unfold abandon. apply WP_bind. apply WP_use_marker.
  intros s Hs Hn. destruct (S m =? nev s); [|cbn; subst; auto].
  destruct (evs s) as [|[k [fp|]| | |] r]; cbn; auto.
  destruct (N.eqb k K_TOMBSTONE); cbn; subst; auto.
Qed.
Lemma WP_precede cm (Q : marker -> nat -> Prop) p : (forall m, Q m p) -> WP (precede cm) Q p.
Proof.
  intros H. unfold precede. apply WP_bind. apply WP_start. intros new.
  intros s Hs Hn. destruct (slot s (fst cm)) as [[]|]; cbn; auto.
  destruct (fst cm <=? new); cbn; subst; auto.
Qed.
Lemma WP_extend_to cm m (Q : cmarker -> nat -> Prop) p : Q cm p -> WP (extend_to cm m) Q p.
Proof.
  intros H. unfold extend_to. apply WP_bind. apply WP_use_marker.
  intros s Hs Hn. destruct (slot s m) as [[]|]; cbn; auto.
  destruct (m <=? fst cm); cbn; subst; auto.
Qed.

(* err_recover: consumes at most one token; exactly one unless at EOF, a curly or a recovery token *)
Lemma WP_err_recover ts (Q : unit -> nat -> Prop) p :
  Q tt p -> (kind_at p <> K_EOF -> Q tt (p + 1)) -> WP (err_recover inp ts) Q p.
Proof.
  intros H1 H2. unfold err_recover. apply WP_bind. apply WP_current.
  destruct (_ || _); [apply WP_error; auto|].
  apply WP_bind. apply WP_at_ts. destruct (ts_contains _ _); [apply WP_error; auto|].
  apply WP_bind. apply WP_start. intros m. apply WP_bind. apply WP_error.
  apply WP_bind. apply WP_bump_any; intros; (apply WP_bind; apply WP_complete; apply WP_ret; auto).
Qed.
(* precise version used for progress arguments *)
Lemma WP_err_recover' ts (Q : unit -> nat -> Prop) p :
  (let k := kind_at p in
   if N.eqb k K_L_CURLY || N.eqb k K_R_CURLY || ts_contains ts k || N.eqb k K_EOF
   then Q tt p else Q tt (p + 1)) ->
  WP (err_recover inp ts) Q p.
Proof.
  cbn. intros H. unfold err_recover. apply WP_bind. apply WP_current.
  destruct (N.eqb (kind_at p) K_L_CURLY || N.eqb (kind_at p) K_R_CURLY) eqn:E1; cbn in H;
    [apply WP_error; auto|].
  apply WP_bind. apply WP_at_ts. destruct (ts_contains ts (kind_at p)); cbn in H; [apply WP_error; auto|].
  apply WP_bind. apply WP_start. intros m. apply WP_bind. apply WP_error.
  apply WP_bind. apply WP_bump_any; intros E.
  - rewrite E in H. cbn in H. apply WP_bind; apply WP_complete; apply WP_ret; auto.
  - apply N.eqb_neq in E. rewrite E in H. apply WP_bind; apply WP_complete; apply WP_ret; auto.
Qed.

Lemma WP_panic_never {A} w (Q : A -> nat -> Prop) p : False -> WP (panic w) Q p.
Proof. tauto. Qed.

Lemma WP_assert_at k w (Q : unit -> nat -> Prop) p :
  nth_at_pure p 0 k = true -> Q tt p -> WP (assert_at inp k w) Q p.
Proof. intros E H. unfold assert_at. apply WP_bind. apply WP_at. rewrite E. apply WP_ret; auto. Qed.

Lemma WP_when b (m : M unit) (Q : unit -> nat -> Prop) p :
  (b = true -> WP m Q p) -> (b = false -> Q tt p) -> WP (when_ b m) Q p.
Proof. destruct b; cbn; intros H1 H2; auto. apply WP_ret; auto. Qed.
Lemma WP_ign {A} (m : M A) (Q : unit -> nat -> Prop) p : WP m (fun _ p' => Q tt p') p -> WP (ign m) Q p.
Proof. intros H. unfold ign. apply WP_bind. eapply WP_conseq; [exact H|]. intros. apply WP_ret; auto. Qed.

(* ---- loops: every continuing iteration consumes at least one token ---- *)
Lemma WP_loopS_fuel {A B} (body : A -> M (A + B)) (I : A -> nat -> Prop) (Q : B -> nat -> Prop) :
  (forall a p1, p1 <= n -> I a p1 ->
     WP (body a) (fun r p2 => match r with inl a' => p1 < p2 /\ I a' p2 | inr b => Q b p2 end) p1) ->
  forall fuel a p, n - p < fuel -> I a p -> WP (loopS_fuel fuel body a) Q p.
Proof.
  intros Hb. induction fuel as [|f IH]; intros a p Hf HI; [lia|].
  cbn [loopS_fuel]. apply WP_bind.
  intros s Hs Hn. specialize (Hb a p Hn HI s Hs Hn).
  destruct (body a s) as [[a'|b] s'| |]; auto.
  - destruct Hb as [H1 [H2 [H3 H4]]]. split; [auto|split; [auto|]]. apply IH; auto. lia.
  - destruct Hb as [H1 [H2 H3]]. split; [auto|split; [auto|]]. apply WP_ret; auto.
Qed.
Lemma WP_loopS {A B} (body : A -> M (A + B)) (I : A -> nat -> Prop) (Q : B -> nat -> Prop) a p :
  I a p ->
  (forall a p1, p <= p1 -> p1 <= n -> I a p1 ->
     WP (body a) (fun r p2 => match r with inl a' => p1 < p2 /\ I a' p2 | inr b => Q b p2 end) p1) ->
  WP (loopS inp body a) Q p.
Proof.
  intros HI Hb s Hs Hn. unfold loopS.
  apply (WP_loopS_fuel body (fun a p1 => p <= p1 /\ I a p1) Q); auto.
  - intros a0 p1 Hp1 [Hle HI1]. eapply WP_conseq; [apply Hb; auto|].
    intros [a'|b] p' Hp' Hn' H; auto. destruct H; repeat split; auto; lia.
  - unfold rem. rewrite Hs. lia.
Qed.
Lemma WP_loop (body : M bool) (I : nat -> Prop) (Q : unit -> nat -> Prop) p :
  I p ->
  (forall p1, p <= p1 -> p1 <= n -> I p1 ->
     WP body (fun r p2 => if r then p1 < p2 /\ I p2 else Q tt p2) p1) ->
  WP (loop inp body) Q p.
Proof.
  intros HI Hb. unfold loop. apply (WP_loopS _ (fun _ p1 => I p1)); auto.
  intros [] p1 H1 H2 H3. apply WP_bind. eapply WP_conseq; [apply Hb; auto|].
  intros [] p' Hp' Hn' H; apply WP_ret; auto.
Qed.

End WP.
