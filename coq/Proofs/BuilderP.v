(* Grammar-independent facts about the trivia-interleaving builder and the tree builder:
   whatever step sequence the parser produces, the leaves of the tree that comes out spell,
   in order, the first [b] raw tokens of the token table, where [b] is the builder's final
   position; if the builder ends at the end of the table they spell the whole input. *)
From Coq Require Import NArith Arith List Bool Lia.
From OQ3 Require Import gen.Kinds Model.Lexer Model.Lexed Model.Parser Model.Grammar Model.Builder
                        Proofs.LexerP Proofs.LexedP.
Import ListNotations.
Local Open Scope nat_scope.

(* text of the tokens emitted in a StrStep sequence *)
Fixpoint toks_text (l : list strstep) : list ch :=
  match l with
  | [] => []
  | SToken _ t :: r => t ++ toks_text r
  | _ :: r => toks_text r
  end.
Lemma toks_text_app a b : toks_text (a ++ b) = toks_text a ++ toks_text b.
Proof. induction a as [|[]]; cbn; auto. rewrite IHa, app_assoc; auto. Qed.

(* ---------------- tree_build ---------------- *)
Definition forest_text (l : list tree) : list ch := flat_map tree_text l.
Lemma tree_text_node k c : tree_text (Node k c) = forest_text c.
Proof.
  unfold tree_text, forest_text. cbn [leaves].
  induction c as [|x c IH]; cbn; auto.
  rewrite flat_map_app, IH. reflexivity.
Qed.
Lemma forest_text_app a b : forest_text (a ++ b) = forest_text a ++ forest_text b.
Proof. unfold forest_text. apply flat_map_app. Qed.

(* text held by the open frames, outermost first *)
Fixpoint frames_text (stack : list (N * list tree)) : list ch :=
  match stack with
  | [] => []
  | (_, ch) :: r => frames_text r ++ forest_text (rev ch)
  end.

Lemma forest_text_single x : forest_text [x] = tree_text x.
Proof. unfold forest_text. cbn. apply app_nil_r. Qed.
Lemma tree_text_leaf k x : tree_text (Leaf k x) = x.
Proof. unfold tree_text. cbn. apply app_nil_r. Qed.

Lemma tree_build_text l : forall stack roots errs t e,
  tree_build l stack roots errs = BOk (t, e) ->
  tree_text t = forest_text (rev roots) ++ frames_text stack ++ toks_text l.
Proof.
  induction l as [|x l IH]; intros stack roots errs t e H.
  - cbn in H. destruct stack; [|discriminate]. destruct roots as [|[k c|] [|]]; try discriminate.
    inversion H; subst. cbn [rev app frames_text toks_text].
    rewrite forest_text_single, !app_nil_r. reflexivity.
  - destruct x as [k| |k x|q]; cbn [tree_build] in H.
    + apply IH in H. rewrite H. cbn [frames_text toks_text rev app].
      unfold forest_text at 2. cbn. rewrite app_nil_r. reflexivity.
    + destruct stack as [|[k ch] [|[pk pch] st]]; [discriminate| |].
      * apply IH in H. rewrite H. cbn [frames_text toks_text rev app].
        rewrite forest_text_app, forest_text_single, tree_text_node, <- !app_assoc. reflexivity.
      * apply IH in H. rewrite H. cbn [frames_text toks_text rev app].
        rewrite forest_text_app, forest_text_single, tree_text_node, <- !app_assoc. reflexivity.
    + destruct stack as [|[pk ch] st].
      * apply IH in H. rewrite H. cbn [frames_text toks_text rev app].
        rewrite forest_text_app, forest_text_single, tree_text_leaf, <- !app_assoc. reflexivity.
      * apply IH in H. rewrite H. cbn [frames_text toks_text rev app].
        rewrite forest_text_app, forest_text_single, tree_text_leaf, <- !app_assoc. reflexivity.
    + apply IH in H. rewrite H. reflexivity.
Qed.

(* ---------------- the trivia-interleaving builder ---------------- *)
Section B.
Variable kinds : list N.
Variable texts : list (list ch).
Variable starts : list N.

Definition binv (b : bst) : Prop :=
  bpos b <= length texts /\ toks_text (rev (bout b)) = concat (firstn (bpos b) texts).

Lemma firstn_skipn_concat {A} n m (l : list (list A)) :
  concat (firstn n l) ++ concat (firstn m (skipn n l)) = concat (firstn (n + m) l).
Proof.
  revert l. induction n as [|n IH]; intros l; cbn; auto.
  destruct l as [|x l]; cbn; [destruct m; auto|]. rewrite <- app_assoc, IH. reflexivity.
Qed.

Lemma do_token_inv k n b b' :
  binv b -> do_token texts k n b = BOk b' -> binv b' /\ bpos b <= bpos b'.
Proof.
  unfold do_token, binv, blen_tokens. intros [H1 H2].
  destruct ((0 <? n) && (bpos b + n <=? length texts)) eqn:E; [|discriminate].
  apply andb_true_iff in E as [_ E]. apply Nat.leb_le in E.
  intros H; inversion H; subst; clear H. cbn. split; [|lia]. split; auto.
  rewrite toks_text_app, H2. cbn. rewrite app_nil_r. apply firstn_skipn_concat.
Qed.

Lemma emit_nontoken_inv x b :
  (match x with SToken _ _ => False | _ => True end) -> binv b -> binv (emit x b).
Proof.
  unfold binv, emit. cbn. intros Hx [H1 H2]. split; auto.
  rewrite toks_text_app, H2. destruct x; cbn; try tauto; apply app_nil_r.
Qed.
Lemma set_state_inv st b : binv b -> binv (set_state st b).
Proof. auto. Qed.

Lemma eat_trivias_inv fuel : forall b b',
  binv b -> eat_trivias kinds texts fuel b = BOk b' -> binv b' /\ bpos b <= bpos b'.
Proof.
  induction fuel as [|f IH]; cbn [eat_trivias]; intros b b' Hb H.
  - inversion H; subst; auto.
  - destruct ((bpos b <? blen_tokens texts) && is_trivia (kind_i kinds (bpos b))).
    + destruct (do_token texts (kind_i kinds (bpos b)) 1 b) as [b1|] eqn:E; [|discriminate].
      destruct (do_token_inv _ _ _ _ Hb E) as [H1 H2].
      destruct (IH _ _ H1 H) as [H3 H4]. split; auto; lia.
    + inversion H; subst; auto.
Qed.

Lemma b_step_inv x b b' :
  binv b ->
  (match x with
   | StToken k n => b_token kinds texts k n b
   | StEnter k => b_enter kinds texts k b
   | StExit => b_exit b
   | StError => b_error texts starts b
   end) = BOk b' -> binv b'.
Proof.
  intros Hb. destruct x as [k| |k n|].
  - unfold b_enter. destruct (bstate_ b) eqn:Es.
    + intros H; inversion H; subst. apply emit_nontoken_inv; cbn; auto.
    + destruct (eat_trivias _ _ _ _) as [b2|] eqn:E; [|discriminate].
      intros H; inversion H; subst. apply emit_nontoken_inv; cbn; auto.
      eapply eat_trivias_inv; [|exact E]. apply set_state_inv; auto.
    + destruct (eat_trivias _ _ _ _) as [b2|] eqn:E; [|discriminate].
      intros H; inversion H; subst. apply emit_nontoken_inv; cbn; auto.
      eapply eat_trivias_inv; [|exact E]. apply set_state_inv. apply emit_nontoken_inv; cbn; auto.
  - unfold b_exit. destruct (bstate_ b); [discriminate| |]; intros H; inversion H; subst; auto.
    apply emit_nontoken_inv; cbn; auto.
  - unfold b_token. destruct (bstate_ b) eqn:Es; [discriminate| |].
    + destruct (eat_trivias _ _ _ _) as [b2|] eqn:E; [|discriminate].
      intros H. eapply do_token_inv; [|exact H].
      eapply eat_trivias_inv; [|exact E]. apply set_state_inv; auto.
    + destruct (eat_trivias _ _ _ _) as [b2|] eqn:E; [|discriminate].
      intros H. eapply do_token_inv; [|exact H].
      eapply eat_trivias_inv; [|exact E]. apply set_state_inv. apply emit_nontoken_inv; cbn; auto.
  - unfold b_error. destruct (bpos b <=? blen_tokens texts); [|discriminate].
    intros H; inversion H; subst. apply emit_nontoken_inv; cbn; auto.
Qed.

Lemma b_steps_inv l : forall b b', binv b -> b_steps kinds texts starts l b = BOk b' -> binv b'.
Proof.
  induction l as [|x l IH]; cbn; intros b b' Hb H; [inversion H; subst; auto|].
  match type of H with (match ?c with _ => _ end) = _ => destruct c as [b1|] eqn:E end; [|discriminate].
  eapply IH; [|exact H]. eapply b_step_inv; eauto.
Qed.

(* the StrSteps' tokens spell the first b raw tokens; b = all of them iff is_eof *)
Lemma intersperse_text l ss eof :
  intersperse_trivia kinds texts starts l = BOk (ss, eof) ->
  exists b, b <= length texts /\ toks_text ss = concat (firstn b texts) /\
            (eof = true -> b = length texts).
Proof.
  unfold intersperse_trivia.
  destruct (b_steps _ _ _ l _) as [b1|] eqn:E; [|discriminate].
  assert (binv b1) as H1.
  { eapply b_steps_inv; [|exact E]. split; cbn; auto. lia. }
  destruct (bstate_ b1); try discriminate.
  destruct (eat_trivias _ _ _ _) as [b2|] eqn:E2; [|discriminate].
  intros H; inversion H; subst; clear H.
  destruct (eat_trivias_inv _ _ _ (set_state_inv Normal _ H1) E2) as [[H2 H3] _].
  exists (bpos b2). split; auto. split.
  - cbn [rev]. rewrite toks_text_app, H3. cbn. apply app_nil_r.
  - intros Heq. apply Nat.eqb_eq in Heq. exact Heq.
Qed.
End B.

(* ---------------- the pipeline ---------------- *)
Lemma lexed_texts_spell l : concat (ltexts (lexed_of l)) = l.
Proof.
  unfold lexed_of. destruct (lex_conv (tokenize l) 0%N 0%N) as [[ks ss] es]. cbn.
  apply tokenize_spell.
Qed.

(* whenever the pipeline returns a tree, it is rooted at SOURCE_FILE and its leaves spell, in
   order, a prefix of the input made of whole tokens *)
Theorem parse_source_prefix l r :
  parse_source l = POk r ->
  tree_kind (pr_tree r) = K_SOURCE_FILE /\
  exists b, tree_text (pr_tree r) = concat (firstn b (ltexts (lexed_of l))).
Proof.
  unfold parse_source.
  destruct (run_parser _) as [st|w|]; try discriminate.
  destruct (intersperse_trivia _ _ _ st) as [[ss eof]|] eqn:E1; [|discriminate].
  destruct (tree_build ss [] [] []) as [[t perrs]|] eqn:E2; [|discriminate].
  destruct (validate t 0%N) as [te|]; [|discriminate].
  destruct (N.eqb (tree_kind t) K_SOURCE_FILE) eqn:E3; [|discriminate].
  intros H; inversion H; subst; clear H. cbn. split; [apply N.eqb_eq; auto|].
  apply tree_build_text in E2. cbn in E2.
  destruct (intersperse_text _ _ _ _ _ _ E1) as [b [_ [Hb _]]].
  exists b. change (flat_map snd (leaves t)) with (tree_text t). rewrite E2, Hb. reflexivity.
Qed.
