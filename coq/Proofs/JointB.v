(* Token-joint bookkeeping for C02: every Token event of n > 1 raw tokens was formed from
   adjacent ("joint") input tokens.  The invariant is preserved unconditionally by every
   primitive, so every grammar function preserves it by a purely structural argument. *)
From Coq Require Import NArith Arith List Bool Lia.
From OQ3 Require Import gen.Kinds gen.Ops Model.Parser Model.Grammar Proofs.TablesP Proofs.MarkerB.
Import ListNotations.
Local Open Scope nat_scope.

Section J.
Variable inp : list (N * bool).

(* token p is glued to token p+1 and is not a float (whose joint flag means something else) *)
Definition adj (p : nat) : Prop := joint_at inp p = true /\ kind_at inp p <> K_FLOAT_NUMBER.
Definition jc (n p : nat) : Prop :=
  n = 1 \/ (n = 2 /\ adj p) \/ (n = 3 /\ adj p /\ adj (p + 1)).
(* newest first: a Token event sits at the position given by the tokens before it *)
Fixpoint tw (l : list event) : Prop :=
  match l with
  | [] => True
  | e :: r => tw r /\ match e with EToken _ n => jc n (toksum r) | _ => True end
  end.
Definition JW (s : pst) : Prop := toksum (evs s) = pos s /\ tw (evs s).

Definition Pres {A} (m : M A) : Prop :=
  forall s, JW s -> match m s with Ok _ s' => JW s' | Panic _ => True | OutOfFuel => True end.

Lemma pres_ret {A} (a : A) : Pres (ret a).
Proof. intros s H. exact H. Qed.
Lemma pres_bind {A B} (m : M A) (f : A -> M B) : Pres m -> (forall a, Pres (f a)) -> Pres (bind m f).
Proof.
  intros Hm Hf s H. unfold bind. specialize (Hm s H). destruct (m s) as [a s1| |]; auto. apply Hf. exact Hm.
Qed.
Lemma pres_panic {A} w : Pres (@panic A w).
Proof. intros s H. exact I. Qed.
Lemma pres_oof {A} : Pres (@out_of_fuel A).
Proof. intros s H. exact I. Qed.
Lemma pres_loopS_fuel {A B} (body : A -> M (A + B)) :
  (forall a, Pres (body a)) -> forall fuel a, Pres (loopS_fuel fuel body a).
Proof.
  intros Hb. induction fuel as [|f IH]; intros a; [apply pres_oof|].
  cbn [loopS_fuel]. apply pres_bind; [apply Hb|]. intros [a'|b]; [apply IH|apply pres_ret].
Qed.
Lemma pres_loopS {A B} (body : A -> M (A + B)) a : (forall a, Pres (body a)) -> Pres (loopS inp body a).
Proof. intros Hb s H. unfold loopS. apply (pres_loopS_fuel body Hb (S (rem inp s)) a s H). Qed.
Lemma pres_loop (body : M bool) : Pres body -> Pres (loop inp body).
Proof.
  intros Hb. unfold loop. apply pres_loopS. intros []. apply pres_bind; [exact Hb|]. intros b. apply pres_ret.
Qed.

(* state-reading primitives *)
Lemma pres_read {A} (f : pst -> A) : Pres (fun s => Ok (f s) s).
Proof. intros s H. exact H. Qed.
Lemma pres_current : Pres (current inp). Proof. apply pres_read. Qed.
Lemma pres_at k : Pres (at_ inp k). Proof. apply pres_read. Qed.
Lemma pres_nth_at n k : Pres (nth_at inp n k). Proof. apply pres_read. Qed.
Lemma pres_at_ts ts : Pres (at_ts inp ts). Proof. apply pres_read. Qed.
Lemma pres_current_op : Pres (current_op inp). Proof. apply pres_read. Qed.
Lemma pres_get : Pres get. Proof. apply pres_read. Qed.
Lemma pres_nth_tok n : Pres (nth_tok inp n).
Proof. intros s H. unfold nth_tok. destruct (n <=? 3); [exact H|exact I]. Qed.

(* pushing an event that is not a token *)
Definition nontok (e : event) : Prop := match e with EToken _ _ => False | _ => True end.
Lemma jw_push s e lv : nontok e -> JW s -> JW {| pos := pos s; evs := e :: evs s; live := lv |}.
Proof.
  intros He [H1 H2]. destruct e; try destruct He; (split; [cbn [evs toksum tokn pos]; lia|cbn [evs tw]; auto]).
Qed.
Lemma pres_error : Pres error.
Proof. intros s H. apply (jw_push s EError (live s)); [exact I|exact H]. Qed.

Lemma composite2_not_float k k1 k2 : assocN k composite2 = Some (k1, k2) -> k1 <> K_FLOAT_NUMBER.
Proof.
  unfold composite2, gen_composite2. cbn [assocN].
  repeat match goal with |- context [N.eqb k ?x] => destruct (N.eqb k x); [intros H; injection H as <- <-; vm_compute; discriminate|] end.
  discriminate.
Qed.
Lemma composite3_not_float k k1 k2 k3 :
  assocN k composite3 = Some (k1, k2, k3) -> k1 <> K_FLOAT_NUMBER /\ k2 <> K_FLOAT_NUMBER.
Proof.
  unfold composite3, gen_composite3. cbn [assocN].
  repeat match goal with |- context [N.eqb k ?x] => destruct (N.eqb k x); [intros H; injection H as <- <- <-; split; vm_compute; discriminate|] end.
  discriminate.
Qed.
Lemma nth_at_jc p k : nth_at_pure inp p 0 k = true -> jc (n_raw_of k) p.
Proof.
  rewrite n_raw_of_spec. unfold nth_at_pure, jc, adj. rewrite !Nat.add_0_r.
  destruct (assocN k composite2) as [[k1 k2]|] eqn:E2.
  - intros H. apply andb_true_iff in H. destruct H as [H Hj]. apply andb_true_iff in H. destruct H as [Hk1 _].
    right. left. split; [reflexivity|split; [exact Hj|]]. apply N.eqb_eq in Hk1. rewrite Hk1.
    eapply composite2_not_float; eauto.
  - destruct (assocN k composite3) as [[[k1 k2] k3]|] eqn:E3; [|left; reflexivity].
    intros H. repeat (apply andb_true_iff in H; destruct H as [H ?]).
    destruct (composite3_not_float _ _ _ _ E3) as [N1 N2].
    right. right. split; [reflexivity|]. apply N.eqb_eq in H. 
    match goal with Hb : N.eqb (kind_at inp (p + 1)) k2 = true |- _ => apply N.eqb_eq in Hb; rewrite Hb end.
    rewrite H. auto.
Qed.
Lemma jw_bump s k n : jc n (pos s) -> JW s -> JW {| pos := pos s + n; evs := EToken k n :: evs s; live := live s |}.
Proof.
  intros Hj [H1 H2]. split; [cbn [evs toksum tokn pos]; lia|]. cbn [evs tw]. rewrite H1. auto.
Qed.
Lemma pres_eat k : Pres (eat inp k).
Proof.
  intros s H. unfold eat. destruct (nth_at_pure inp (pos s) 0 k) eqn:E; [|exact H].
  unfold do_bump. apply jw_bump; auto. apply nth_at_jc. exact E.
Qed.
Lemma pres_bump k : Pres (bump inp k).
Proof. unfold bump. apply pres_bind; [apply pres_eat|]. intros []; [apply pres_ret|apply pres_panic]. Qed.
Lemma pres_bump_any : Pres (bump_any inp).
Proof.
  intros s H. unfold bump_any. destruct (N.eqb _ _); [exact H|]. unfold do_bump. apply jw_bump; auto. left. reflexivity.
Qed.
Lemma pres_expect k : Pres (expect inp k).
Proof.
  unfold expect. apply pres_bind; [apply pres_eat|]. intros []; [apply pres_ret|].
  apply pres_bind; [apply pres_error|]. intros; apply pres_ret.
Qed.

(* markers: only Start slots are rewritten *)
Lemma nontok_tokn e : nontok e -> tokn e = 0.
Proof. destruct e; cbn; tauto. Qed.
Lemma tw_set_nth l : forall p x old,
  nth_error l p = Some old -> nontok old -> nontok x -> tw l -> tw (set_nth l p x).
Proof.
  induction l as [|e l IH]; intros [|p] x old H Ho Hx Ht; cbn in H; try discriminate.
  - injection H as ->. cbn [set_nth tw] in *. destruct Ht as [Ht _]. split; [exact Ht|].
    destruct x; auto. destruct Hx.
  - cbn [set_nth tw] in *. destruct Ht as [Ht He]. split; [eapply IH; eauto|].
    rewrite (toksum_set_nth _ _ _ _ H); [exact He|]. rewrite !nontok_tokn; auto.
Qed.
Lemma jw_set_slot s i k fp k0 fp0 :
  slot s i = Some (EStart k0 fp0) -> JW s -> JW (set_slot s i (EStart k fp)).
Proof.
  intros Hs [H1 H2]. apply slot_nth_error in Hs. split.
  - cbn [set_slot evs pos]. rewrite (toksum_set_nth _ _ _ _ Hs); [exact H1|reflexivity].
  - cbn [set_slot evs]. eapply tw_set_nth; eauto; exact I.
Qed.
Lemma jw_live s lv : JW s -> JW {| pos := pos s; evs := evs s; live := lv |}.
Proof. intros H. exact H. Qed.

Lemma pres_start : Pres start.
Proof. intros s H. unfold start. apply (jw_push s (EStart K_TOMBSTONE None)); [exact I|exact H]. Qed.
Lemma pres_use_marker m w : Pres (use_marker m w).
Proof. intros s H. unfold use_marker. destruct (mem_nat m (live s)); [exact H|exact I]. Qed.
Lemma pres_complete m k : Pres (complete m k).
Proof.
  unfold complete. apply pres_bind; [apply pres_use_marker|]. intros _ s H.
  destruct (slot s m) as [[k0 fp| | |]|] eqn:E; try exact I.
  apply (jw_push (set_slot s m (EStart k fp)) EFinish); [exact I|]. eapply jw_set_slot; eauto.
Qed.
Lemma pres_abandon m : Pres (abandon m).
Proof.
  unfold abandon. apply pres_bind; [apply pres_use_marker|]. intros _ s H.
  destruct (S m =? nev s); [|exact H].
  destruct (evs s) as [|[k [d|]| | |] r] eqn:E; try exact I.
  destruct (N.eqb k K_TOMBSTONE); [|exact I].
  destruct H as [H1 H2]. rewrite E in H1, H2. cbn [toksum tokn tw] in *. split; [cbn [evs pos]; lia|cbn [evs]; tauto].
Qed.
Lemma pres_precede cm : Pres (precede cm).
Proof.
  unfold precede. apply pres_bind; [apply pres_start|]. intros new s H.
  destruct (slot s (fst cm)) as [[k0 fp| | |]|] eqn:E; try exact I.
  destruct (fst cm <=? new); [|exact I]. eapply jw_set_slot; eauto.
Qed.
Lemma pres_extend_to cm m : Pres (extend_to cm m).
Proof.
  unfold extend_to. apply pres_bind; [apply pres_use_marker|]. intros _ s H.
  destruct (slot s m) as [[k0 fp| | |]|] eqn:E; try exact I.
  destruct (m <=? fst cm); [|exact I]. eapply jw_set_slot; eauto.
Qed.
End J.

(* ---------------- every grammar function preserves the invariant ---------------- *)
Global Hint Resolve pres_ret pres_panic pres_oof pres_current pres_at pres_nth_at pres_at_ts pres_current_op
  pres_get pres_nth_tok pres_error pres_eat pres_bump pres_bump_any pres_expect pres_start pres_complete
  pres_abandon pres_precede pres_extend_to : pres.

Ltac pres_step :=
  cbv beta zeta;
  lazymatch goal with
  | |- Pres _ (bind _ _) => apply pres_bind; [|intro]
  | |- Pres _ (if ?b then _ else _) => destruct b
  | |- Pres _ (match ?x with _ => _ end) => destruct x
  | |- Pres _ (when_ _ _) => unfold when_
  | |- Pres _ (ign _) => unfold ign
  | |- Pres _ (assert_at _ _ _) => unfold assert_at
  | |- Pres _ (loopS _ _ _) => apply pres_loopS; intro
  | |- Pres _ (loop _ _) => apply pres_loop
  | |- Pres _ _ => solve [eauto with pres]
  end.
Ltac pres := repeat pres_step.

Record GoodP (inp : list (N * bool)) (R : G) : Prop := {
  gp_expr : forall m ps bp, Pres inp (g_expr_bp R m ps bp);
  gp_stmt : Pres inp (g_stmt R);
  gp_type_spec : Pres inp (g_type_spec R);
  gp_non_array_type_spec : Pres inp (g_non_array_type_spec R);
  gp_if_stmt : forall m, Pres inp (g_if_stmt R m);
  gp_param_list : forall fl, Pres inp (g_param_list R fl)
}.
Global Hint Resolve gp_expr gp_stmt gp_type_spec gp_non_array_type_spec gp_if_stmt gp_param_list : pres.

Section PG.
Variable inp : list (N * bool).
Variable R : G.
Hypothesis HG : GoodP inp R.

Lemma err_recover_P ts : Pres inp (err_recover inp ts).
Proof. unfold err_recover. pres. Qed.
Lemma err_and_bump_P : Pres inp (err_and_bump inp).
Proof. apply err_recover_P. Qed.
Local Hint Resolve err_recover_P err_and_bump_P : pres.
Lemma expr_P : Pres inp (expr R).
Proof. unfold expr. pres. Qed.
Local Hint Resolve expr_P : pres.
Lemma name_r_P (x1 : list N) : Pres inp (name_r inp x1).
Proof. unfold name_r. pres. Qed.
Local Hint Resolve name_r_P : pres.
Lemma name_P : Pres inp (name inp).
Proof. unfold name. pres. Qed.
Local Hint Resolve name_P : pres.
Lemma identifier_P : Pres inp (identifier inp).
Proof. unfold identifier. pres. Qed.
Local Hint Resolve identifier_P : pres.
Lemma hardware_qubit_P : Pres inp (hardware_qubit inp).
Proof. unfold hardware_qubit. pres. Qed.
Local Hint Resolve hardware_qubit_P : pres.
Lemma var_name_P : Pres inp (var_name inp).
Proof. unfold var_name. pres. Qed.
Local Hint Resolve var_name_P : pres.
Lemma expression_list_P : Pres inp (expression_list R).
Proof. unfold expression_list. pres. Qed.
Local Hint Resolve expression_list_P : pres.
Lemma arg_list_gate_call_qubits_P : Pres inp (arg_list_gate_call_qubits R).
Proof. unfold arg_list_gate_call_qubits. pres. Qed.
Local Hint Resolve arg_list_gate_call_qubits_P : pres.
Lemma set_expression_P : Pres inp (set_expression inp R).
Proof. unfold set_expression. pres. Qed.
Local Hint Resolve set_expression_P : pres.
Lemma index_operator_P : Pres inp (index_operator inp R).
Proof. unfold index_operator. pres. Qed.
Local Hint Resolve index_operator_P : pres.
Lemma index_expr_P (x1 : cmarker) : Pres inp (index_expr inp R x1).
Proof. unfold index_expr. pres. Qed.
Local Hint Resolve index_expr_P : pres.
Lemma indexed_identifier_P (x1 : cmarker) : Pres inp (indexed_identifier inp R x1).
Proof. unfold indexed_identifier. pres. Qed.
Local Hint Resolve indexed_identifier_P : pres.
Lemma arg_gate_call_qubit_P (x1 : marker) : Pres inp (arg_gate_call_qubit inp R x1).
Proof. unfold arg_gate_call_qubit. pres. Qed.
Local Hint Resolve arg_gate_call_qubit_P : pres.
Lemma designator_P : Pres inp (designator inp R).
Proof. unfold designator. pres. Qed.
Local Hint Resolve designator_P : pres.
Lemma type_name_P : Pres inp (type_name inp).
Proof. unfold type_name. pres. Qed.
Local Hint Resolve type_name_P : pres.
Lemma complex_type_spec_P : Pres inp (complex_type_spec inp R).
Proof. unfold complex_type_spec. pres. Qed.
Local Hint Resolve complex_type_spec_P : pres.
Lemma non_array_type_spec_P : Pres inp (non_array_type_spec inp R).
Proof. unfold non_array_type_spec. pres. Qed.
Local Hint Resolve non_array_type_spec_P : pres.
Lemma array_type_spec_P (x1 : bool) : Pres inp (array_type_spec inp R x1).
Proof. unfold array_type_spec. pres. Qed.
Local Hint Resolve array_type_spec_P : pres.
Lemma type_spec_P : Pres inp (type_spec inp R).
Proof. unfold type_spec. pres. Qed.
Local Hint Resolve type_spec_P : pres.
Lemma param_type_spec_P : Pres inp (param_type_spec inp R).
Proof. unfold param_type_spec. pres. Qed.
Local Hint Resolve param_type_spec_P : pres.
Lemma qubit_type_spec_P : Pres inp (qubit_type_spec inp R).
Proof. unfold qubit_type_spec. pres. Qed.
Local Hint Resolve qubit_type_spec_P : pres.
Lemma opt_return_signature_P : Pres inp (opt_return_signature inp R).
Proof. unfold opt_return_signature. pres. Qed.
Local Hint Resolve opt_return_signature_P : pres.
Lemma q_or_c_reg_param_P : Pres inp (q_or_c_reg_param inp R).
Proof. unfold q_or_c_reg_param. pres. Qed.
Local Hint Resolve q_or_c_reg_param_P : pres.
Lemma call_arg_list_P : Pres inp (call_arg_list inp R).
Proof. unfold call_arg_list. pres. Qed.
Local Hint Resolve call_arg_list_P : pres.
Lemma literal_P : Pres inp (literal inp).
Proof. unfold literal. pres. Qed.
Local Hint Resolve literal_P : pres.
Lemma cast_expr_P : Pres inp (cast_expr inp R).
Proof. unfold cast_expr. pres. Qed.
Local Hint Resolve cast_expr_P : pres.
Lemma gphase_call_expr_P : Pres inp (gphase_call_expr inp R).
Proof. unfold gphase_call_expr. pres. Qed.
Local Hint Resolve gphase_call_expr_P : pres.
Lemma gate_call_expr_P : Pres inp (gate_call_expr inp R).
Proof. unfold gate_call_expr. pres. Qed.
Local Hint Resolve gate_call_expr_P : pres.
Lemma paren_arg_P : Pres inp (paren_arg inp R).
Proof. unfold paren_arg. pres. Qed.
Local Hint Resolve paren_arg_P : pres.
Lemma modified_gate_call_expr_P : Pres inp (modified_gate_call_expr inp R).
Proof. unfold modified_gate_call_expr. pres. Qed.
Local Hint Resolve modified_gate_call_expr_P : pres.
Lemma measure_expression_P : Pres inp (measure_expression inp R).
Proof. unfold measure_expression. pres. Qed.
Local Hint Resolve measure_expression_P : pres.
Lemma tuple_expr_P : Pres inp (tuple_expr inp R).
Proof. unfold tuple_expr. pres. Qed.
Local Hint Resolve tuple_expr_P : pres.
Lemma array_expr_P : Pres inp (array_expr inp R).
Proof. unfold array_expr. pres. Qed.
Local Hint Resolve array_expr_P : pres.
Lemma expr_block_statements_P : Pres inp (expr_block_statements inp R).
Proof. unfold expr_block_statements. pres. Qed.
Local Hint Resolve expr_block_statements_P : pres.
Lemma block_expr_P : Pres inp (block_expr inp R).
Proof. unfold block_expr. pres. Qed.
Local Hint Resolve block_expr_P : pres.
Lemma try_block_expr_P : Pres inp (try_block_expr inp R).
Proof. unfold try_block_expr. pres. Qed.
Local Hint Resolve try_block_expr_P : pres.
Lemma return_expr_P : Pres inp (return_expr inp R).
Proof. unfold return_expr. pres. Qed.
Local Hint Resolve return_expr_P : pres.
Lemma box_expr_P : Pres inp (box_expr inp R).
Proof. unfold box_expr. pres. Qed.
Local Hint Resolve box_expr_P : pres.
Lemma atom_expr_P : Pres inp (atom_expr inp R).
Proof. unfold atom_expr. pres. Qed.
Local Hint Resolve atom_expr_P : pres.
Lemma call_expr_P (x1 : cmarker) : Pres inp (call_expr inp R x1).
Proof. unfold call_expr. pres. Qed.
Local Hint Resolve call_expr_P : pres.
Lemma postfix_expr_P (x1 : cmarker) (x2 : bool) (x3 : bool) : Pres inp (postfix_expr inp R x1 x2 x3).
Proof. unfold postfix_expr. pres. Qed.
Local Hint Resolve postfix_expr_P : pres.
Lemma lhs_P (x1 : bool) : Pres inp (lhs inp R x1).
Proof. unfold lhs. pres. Qed.
Local Hint Resolve lhs_P : pres.
Lemma expr_bp_P (x1 : option marker) (x2 : bool) (x3 : nat) : Pres inp (expr_bp inp R x1 x2 x3).
Proof. unfold expr_bp. pres. Qed.
Local Hint Resolve expr_bp_P : pres.
Lemma expr_direct_P : Pres inp (expr_direct inp R).
Proof. unfold expr_direct. pres. Qed.
Local Hint Resolve expr_direct_P : pres.
Lemma range_expr_P : Pres inp (range_expr inp R).
Proof. unfold range_expr. pres. Qed.
Local Hint Resolve range_expr_P : pres.
Lemma expr_or_range_expr_P : Pres inp (expr_or_range_expr inp R).
Proof. unfold expr_or_range_expr. pres. Qed.
Local Hint Resolve expr_or_range_expr_P : pres.
Lemma at_list_end_token_P (x1 : flavor) : Pres inp (at_list_end_token inp x1).
Proof. unfold at_list_end_token. pres. Qed.
Local Hint Resolve at_list_end_token_P : pres.
Lemma param_untyped_P (x1 : marker) : Pres inp (param_untyped inp x1).
Proof. unfold param_untyped. pres. Qed.
Local Hint Resolve param_untyped_P : pres.
Lemma param_untyped_or_hardware_qubit_P (x1 : marker) : Pres inp (param_untyped_or_hardware_qubit inp x1).
Proof. unfold param_untyped_or_hardware_qubit. pres. Qed.
Local Hint Resolve param_untyped_or_hardware_qubit_P : pres.
Lemma param_typed_P (x1 : marker) : Pres inp (param_typed inp R x1).
Proof. unfold param_typed. pres. Qed.
Local Hint Resolve param_typed_P : pres.
Lemma scalar_type_P (x1 : marker) : Pres inp (scalar_type inp R x1).
Proof. unfold scalar_type. pres. Qed.
Local Hint Resolve scalar_type_P : pres.
Lemma param_list_openqasm_P (x1 : flavor) : Pres inp (param_list_openqasm inp R x1).
Proof. unfold param_list_openqasm. pres. Qed.
Local Hint Resolve param_list_openqasm_P : pres.
Lemma block_or_statement_P : Pres inp (block_or_statement inp R).
Proof. unfold block_or_statement. pres. Qed.
Local Hint Resolve block_or_statement_P : pres.
Lemma switch_case_stmt_P (x1 : marker) : Pres inp (switch_case_stmt inp R x1).
Proof. unfold switch_case_stmt. pres. Qed.
Local Hint Resolve switch_case_stmt_P : pres.
Lemma if_stmt_P (x1 : marker) : Pres inp (if_stmt inp R x1).
Proof. unfold if_stmt. pres. Qed.
Local Hint Resolve if_stmt_P : pres.
Lemma while_stmt_P (x1 : marker) : Pres inp (while_stmt inp R x1).
Proof. unfold while_stmt. pres. Qed.
Local Hint Resolve while_stmt_P : pres.
Lemma for_stmt_P (x1 : marker) : Pres inp (for_stmt inp R x1).
Proof. unfold for_stmt. pres. Qed.
Local Hint Resolve for_stmt_P : pres.
Lemma qubit_declaration_stmt_P (x1 : marker) : Pres inp (qubit_declaration_stmt inp R x1).
Proof. unfold qubit_declaration_stmt. pres. Qed.
Local Hint Resolve qubit_declaration_stmt_P : pres.
Lemma reset_stmt_P (x1 : marker) : Pres inp (reset_stmt inp R x1).
Proof. unfold reset_stmt. pres. Qed.
Local Hint Resolve reset_stmt_P : pres.
Lemma break__P (x1 : marker) : Pres inp (break_ inp x1).
Proof. unfold break_. pres. Qed.
Local Hint Resolve break__P : pres.
Lemma continue__P (x1 : marker) : Pres inp (continue_ inp x1).
Proof. unfold continue_. pres. Qed.
Local Hint Resolve continue__P : pres.
Lemma end__P (x1 : marker) : Pres inp (end_ inp x1).
Proof. unfold end_. pres. Qed.
Local Hint Resolve end__P : pres.
Lemma gate_definition_P (x1 : marker) : Pres inp (gate_definition inp R x1).
Proof. unfold gate_definition. pres. Qed.
Local Hint Resolve gate_definition_P : pres.
Lemma defcal__P (x1 : marker) : Pres inp (defcal_ inp R x1).
Proof. unfold defcal_. pres. Qed.
Local Hint Resolve defcal__P : pres.
Lemma classical_declaration_stmt_P (x1 : marker) : Pres inp (classical_declaration_stmt inp R x1).
Proof. unfold classical_declaration_stmt. pres. Qed.
Local Hint Resolve classical_declaration_stmt_P : pres.
Lemma io_declaration_stmt_P (x1 : marker) : Pres inp (io_declaration_stmt inp R x1).
Proof. unfold io_declaration_stmt. pres. Qed.
Local Hint Resolve io_declaration_stmt_P : pres.
Lemma def_stmt_P (x1 : marker) : Pres inp (def_stmt inp R x1).
Proof. unfold def_stmt. pres. Qed.
Local Hint Resolve def_stmt_P : pres.
Lemma extern_stmt_P (x1 : marker) : Pres inp (extern_stmt inp R x1).
Proof. unfold extern_stmt. pres. Qed.
Local Hint Resolve extern_stmt_P : pres.
Lemma filepath_r_P (x1 : list N) : Pres inp (filepath_r inp x1).
Proof. unfold filepath_r. pres. Qed.
Local Hint Resolve filepath_r_P : pres.
Lemma defcalgrammar__P (x1 : marker) : Pres inp (defcalgrammar_ inp x1).
Proof. unfold defcalgrammar_. pres. Qed.
Local Hint Resolve defcalgrammar__P : pres.
Lemma include_P (x1 : marker) : Pres inp (include inp x1).
Proof. unfold include. pres. Qed.
Local Hint Resolve include_P : pres.
Lemma cal__P (x1 : marker) : Pres inp (cal_ inp R x1).
Proof. unfold cal_. pres. Qed.
Local Hint Resolve cal__P : pres.
Lemma version__P : Pres inp (version_ inp).
Proof. unfold version_. pres. Qed.
Local Hint Resolve version__P : pres.
Lemma version_string_P (x1 : marker) : Pres inp (version_string inp x1).
Proof. unfold version_string. pres. Qed.
Local Hint Resolve version_string_P : pres.
Lemma barrier__P (x1 : marker) : Pres inp (barrier_ inp R x1).
Proof. unfold barrier_. pres. Qed.
Local Hint Resolve barrier__P : pres.
Lemma delay_stmt_P (x1 : marker) : Pres inp (delay_stmt inp R x1).
Proof. unfold delay_stmt. pres. Qed.
Local Hint Resolve delay_stmt_P : pres.
Lemma alias_stmt_P (x1 : marker) : Pres inp (alias_stmt inp R x1).
Proof. unfold alias_stmt. pres. Qed.
Local Hint Resolve alias_stmt_P : pres.
Lemma opt_item_P (x1 : marker) : Pres inp (opt_item inp R x1).
Proof. unfold opt_item. pres. Qed.
Local Hint Resolve opt_item_P : pres.
Lemma let_stmt_P (x1 : marker) : Pres inp (let_stmt inp R x1).
Proof. unfold let_stmt. pres. Qed.
Local Hint Resolve let_stmt_P : pres.
Lemma q_or_c_reg_declaration_P (x1 : marker) : Pres inp (q_or_c_reg_declaration inp R x1).
Proof. unfold q_or_c_reg_declaration. pres. Qed.
Local Hint Resolve q_or_c_reg_declaration_P : pres.
Lemma stmt_P : Pres inp (stmt inp R).
Proof. unfold stmt. pres. Qed.
Local Hint Resolve stmt_P : pres.
Lemma item_P (x1 : bool) : Pres inp (item inp R x1).
Proof. unfold item. pres. Qed.
Local Hint Resolve item_P : pres.
Lemma source_file_contents_P (x1 : bool) : Pres inp (source_file_contents inp R x1).
Proof. unfold source_file_contents. pres. Qed.
Local Hint Resolve source_file_contents_P : pres.
Lemma source_file_P : Pres inp (source_file inp R).
Proof. unfold source_file. pres. Qed.
Local Hint Resolve source_file_P : pres.
End PG.

(* ---------------- the knot and the final state ---------------- *)
Lemma tie_goodP inp n : GoodP inp (tie inp n).
Proof.
  induction n as [|k IH].
  - constructor; cbn [tie bottom g_expr_bp g_stmt g_type_spec g_non_array_type_spec g_if_stmt g_param_list];
      intros; apply pres_oof.
  - constructor; cbn [tie g_expr_bp g_stmt g_type_spec g_non_array_type_spec g_if_stmt g_param_list]; intros.
    + apply expr_bp_P; exact IH.
    + apply stmt_P; exact IH.
    + apply type_spec_P; exact IH.
    + apply non_array_type_spec_P; exact IH.
    + apply if_stmt_P; exact IH.
    + apply param_list_openqasm_P; exact IH.
Qed.

Theorem source_file_jw inp n :
  match source_file inp (tie inp n) init_state with Ok _ s => JW inp s | _ => True end.
Proof.
  pose proof (source_file_P inp _ (tie_goodP inp n) init_state) as H.
  assert (JW inp init_state) as H0 by (split; [reflexivity|exact I]).
  specialize (H H0). destruct (source_file inp (tie inp n) init_state); auto.
Qed.

(* ---------------- the same condition on oldest-first token lists ---------------- *)
Section JL.
Variable inp : list (N * bool).
Fixpoint jwl (p : nat) (ns : list nat) : Prop :=
  match ns with [] => True | n :: r => jc inp n p /\ jwl (p + n) r end.
Lemma jwl_app p a b : jwl p (a ++ b) <-> jwl p a /\ jwl (p + list_sum a) b.
Proof.
  revert p. induction a as [|n a IH]; intros p; cbn [app jwl list_sum].
  - rewrite Nat.add_0_r. tauto.
  - rewrite IH. replace (p + n + list_sum a) with (p + (n + list_sum a)) by lia. tauto.
Qed.
End JL.
