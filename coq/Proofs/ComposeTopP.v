(* C16: all ordered template pairs at top level, by computation on the pipeline model. *)
From Coq Require Import NArith List Bool.
From OQ3 Require Import gen.Templates Model.Accept.
Import ListNotations.

Lemma pairs_compose_top : forallb (fun '(i, j) => k_c16 i j || composes_top i j) id_pairs = true.
Proof. vm_compute. reflexivity. Qed.
(* witnesses of the two C16 classes *)
Lemma let_context_refuted : composes_top T_expr_call T_alias_slice = false /\ composes_block T_decl_int T_alias_slice = false.
Proof. vm_compute. auto. Qed.
Lemma assignment_glues_operator_refuted : composes_top T_assign_lit T_expr_neg = false.
Proof. vm_compute. auto. Qed.
Lemma empty_after_item_refuted : composes_top T_decl_int T_empty = false /\ composes_top T_expr_call T_empty = true /\
                                  composes_block T_decl_int T_empty = true.
Proof. vm_compute. auto. Qed.
