(* Soundness of the declaration / assignment type rules (property C08), all widths. *)
From Coq Require Import NArith List Bool Lia.
From OQ3 Require Import Model.Types Model.TypesSpec Model.TypeRules Model.TypeRulesSpec Proofs.TypesP.
Import ListNotations.
Open Scope N_scope.

Ltac dw := repeat match goal with w : option N |- _ => destruct w end.
Ltac db := repeat match goal with c : bool |- _ => destruct c end.

(* decide every comparison between two width variables at once (in the goal; keep the
   hypotheses that matter reverted into the goal before calling it) *)
Ltac cmpN a b :=
  destruct (N.compare_spec a b) as [?H|?H|?H];
  [ subst b
  | assert ((a =? b) = false) by (apply N.eqb_neq; lia);
    assert ((b =? a) = false) by (apply N.eqb_neq; lia);
    assert ((a <? b) = true) by (apply N.ltb_lt; lia);
    assert ((b <? a) = false) by (apply N.ltb_ge; lia);
    assert (N.max a b = b) by lia; assert (N.max b a = b) by lia
  | assert ((a =? b) = false) by (apply N.eqb_neq; lia);
    assert ((b =? a) = false) by (apply N.eqb_neq; lia);
    assert ((a <? b) = false) by (apply N.ltb_ge; lia);
    assert ((b <? a) = true) by (apply N.ltb_lt; lia);
    assert (N.max a b = a) by lia; assert (N.max b a = a) by lia ];
  repeat first
    [ match goal with
      | H : (?x =? ?y) = _ |- context [?x =? ?y] => rewrite H
      | H : (?x <? ?y) = _ |- context [?x <? ?y] => rewrite H
      | H : N.max ?x ?y = _ |- context [N.max ?x ?y] => rewrite H
      end
    | progress (rewrite ?N.max_id, ?N.eqb_refl, ?N.ltb_irrefl)
    | progress cbn ].
Ltac widths := try (match goal with n : N, n0 : N |- _ => cmpN n n0 end).
Ltac done := intros; try reflexivity; try discriminate; try congruence.

(* literal typing facts the analyser guarantees (C08 "a literal has the type of its class ...
   marked const"): an integer literal has type const int[128]; every literal is const *)
Definition lit_typed (v : Ty) (lit : lit_info) : Prop :=
  match lit with
  | NotLiteral => True
  | LitInt _ => v = Int (Some 128) true
  | LitOther => is_const v = true
  end.

Ltac crunch :=
  cbn; unfold equal_up_to_constness, equal_base_type, base_eqb; cbn;
  dw; db; cbn; rewrite ?N.eqb_refl; cbn;
  try reflexivity; try discriminate; try congruence.

Lemma decl_sound t v lit :
  k_decl_const_narrow t v lit = false -> c08_sound t v (decl_check t v lit) = true.
Proof.
  unfold c08_sound, decl_check, final_type.
  destruct (equal_up_to_constness t v) eqn:E; cbn [cr_cast cr_diag orb].
  { rewrite eutc_sym. auto. }
  destruct lit as [|s|].
  - (* not a literal *)
    intros K. destruct (equal_up_to_constness (promote_types_not_equal t v) t) eqn:EP;
      cbn [cr_cast cr_diag orb]; [apply eutc_refl|].
    rewrite eutc_sym, E. rewrite orb_false_r.
    unfold k_decl_const_narrow in K. revert K E EP.
    destruct t, v; crunch; widths; done.
  - intros _. destruct (can_cast_literal_s t v (LitInt s)); cbn; [apply eutc_refl|reflexivity].
  - intros _. destruct (can_cast_literal_s t v LitOther); cbn; [apply eutc_refl|reflexivity].
Qed.

Lemma decl_downward t v lit :
  lit_typed v lit -> downward_conv t v = true -> k_decl_const_narrow t v lit = false ->
  cr_diag (decl_check t v lit) = true.
Proof.
  unfold decl_check, downward_conv, k_decl_const_narrow, lit_typed. intros HL.
  destruct lit as [|s|].
  - clear HL. destruct t, v; crunch; widths; done.
  - subst v. destruct t; crunch; done.
    all: try (destruct s; cbn in *; done).
    all: try (match goal with n : N |- _ => destruct (N.ltb_spec n 128); destruct (N.eqb_spec n 128); cbn in *; done; try lia end).
  - revert HL. destruct t, v; crunch; widths; done.
Qed.

Lemma assign_sound s v lit :
  k_assign_int_literal s v lit = false -> c08_sound s v (assign_check s v lit) = true.
Proof.
  unfold c08_sound, assign_check, final_type, k_assign_int_literal.
  destruct (ty_eqb v s) eqn:E; cbn [cr_cast cr_diag orb].
  { apply ty_eqb_eq in E. subst. intros _. apply eutc_refl. }
  destruct (equal_up_to_dims v s) eqn:ED; cbn [cr_cast cr_diag orb]; [reflexivity|].
  destruct lit as [|sg|]; cbn [negb andb].
  - intros _. destruct (ty_eqb (promote_types s v) s); cbn; [apply eutc_refl|reflexivity].
  - destruct (is_uint s); cbn; [|discriminate]. intros _. destruct sg; cbn; [apply eutc_refl|reflexivity].
  - intros _. destruct (ty_eqb (promote_types s v) s); cbn; [apply eutc_refl|reflexivity].
Qed.

Lemma assign_downward s v lit :
  lit_typed v lit -> downward_conv s v = true -> k_assign_int_literal s v lit = false ->
  cr_diag (assign_check s v lit) = true.
Proof.
  unfold assign_check, k_assign_int_literal, lit_typed. intros HL D.
  assert (ty_eqb v s = false) as E.
  { destruct (ty_eqb v s) eqn:E; auto. apply ty_eqb_eq in E. subst v. exfalso. revert D.
    unfold downward_conv. destruct s; crunch. all: try (rewrite N.ltb_irrefl; cbn; discriminate). }
  rewrite E. destruct (equal_up_to_dims v s) eqn:ED; [reflexivity|]. cbn [negb andb].
  destruct lit as [|sg|].
  - clear HL. intros _. revert D E ED. unfold downward_conv, promote_types.
    destruct s, v; crunch; widths; done.
  - subst v. destruct (is_uint s) eqn:U; cbn; [|discriminate]. intros _.
    destruct s; try discriminate; reflexivity.
  - intros _. revert HL D E ED. unfold downward_conv, promote_types.
    destruct s, v; crunch; widths; done.
Qed.

(* arithmetic operands: the result has the common type; an operand is left alone exactly when
   it already has that type, otherwise it is wrapped in a cast to exactly that type *)
Lemma arith_cast_spec op tl tr :
  let '(t, cl, cr) := arith_cast op tl tr in
  t = implicit_cast_type op tl tr /\ (cl = false <-> t = tl) /\ (cr = false <-> t = tr).
Proof.
  unfold arith_cast. repeat split; intros H.
  - apply negb_false_iff, ty_eqb_eq in H. auto.
  - apply negb_false_iff, ty_eqb_eq. auto.
  - apply negb_false_iff, ty_eqb_eq in H. auto.
  - apply negb_false_iff, ty_eqb_eq. auto.
Qed.

(* the oracle is silent on the model *)
Lemma c08_decl_laws_model t v lit :
  lit_typed v lit ->
  c08_decl_laws t v lit (cr_cast (decl_check t v lit)) (cr_diag (decl_check t v lit)) = [].
Proof.
  intros HL. unfold c08_decl_laws.
  replace {| cr_cast := cr_cast (decl_check t v lit); cr_diag := cr_diag (decl_check t v lit) |}
    with (decl_check t v lit) by (destruct (decl_check t v lit); reflexivity).
  destruct (k_decl_const_narrow t v lit) eqn:K.
  - rewrite !orb_true_r. reflexivity.
  - rewrite (decl_sound t v lit K). cbn [orb app].
    destruct (downward_conv t v) eqn:D; cbn [negb orb]; [|reflexivity].
    rewrite (decl_downward t v lit HL D K). reflexivity.
Qed.
Lemma c08_assign_laws_model s v lit :
  lit_typed v lit ->
  c08_assign_laws s v lit (cr_cast (assign_check s v lit)) (cr_diag (assign_check s v lit)) = [].
Proof.
  intros HL. unfold c08_assign_laws.
  replace {| cr_cast := cr_cast (assign_check s v lit); cr_diag := cr_diag (assign_check s v lit) |}
    with (assign_check s v lit) by (destruct (assign_check s v lit); reflexivity).
  destruct (k_assign_int_literal s v lit) eqn:K.
  - rewrite !orb_true_r. reflexivity.
  - rewrite (assign_sound s v lit K). cbn [orb app].
    destruct (downward_conv s v) eqn:D; cbn [negb orb]; [|reflexivity].
    rewrite (assign_downward s v lit HL D K). reflexivity.
Qed.
