(* Consistency of the two source tables about composite operators: parser.rs:nth_at (which kinds are
   composites of which characters) and parser.rs:eat (how many raw tokens a kind consumes).  Both are
   translated from the source on every run; that they describe the same operators is re-checked
   here by computation, and gives back the characterisation the other proofs use. *)
From Coq Require Import NArith Arith List Bool Lia.
From OQ3 Require Import gen.Kinds gen.Ops Model.Parser.
Import ListNotations.

Definition keys {B} (l : list (N * B)) : list N := map fst l.
Definition subsetN (a b : list N) : bool := forallb (fun k => memN k b) a.

Lemma memN_true_iff k l : memN k l = true <-> In k l.
Proof.
  induction l as [|x l IH]; cbn; [split; [discriminate|tauto]|].
  rewrite orb_true_iff, N.eqb_eq, IH. split; intros [H|H]; auto.
Qed.
Lemma subsetN_spec a b k : subsetN a b = true -> memN k a = true -> memN k b = true.
Proof.
  unfold subsetN. intros H Hk. rewrite forallb_forall in H. apply memN_true_iff in Hk. apply H. exact Hk.
Qed.
Lemma assocN_keys {B} k (l : list (N * B)) : memN k (keys l) = match assocN k l with Some _ => true | None => false end.
Proof.
  induction l as [|[x v] l IH]; cbn; [reflexivity|]. destruct (N.eqb k x); cbn; auto.
Qed.

Lemma tables_consistent :
  subsetN gen_nraw2 (keys composite2) && subsetN (keys composite2) gen_nraw2 &&
  subsetN gen_nraw3 (keys composite3) && subsetN (keys composite3) gen_nraw3 &&
  forallb (fun k => negb (memN k (keys composite3))) (keys composite2) = true.
Proof. vm_compute. reflexivity. Qed.

Lemma memN_eq a b k : subsetN a b = true -> subsetN b a = true -> memN k a = memN k b.
Proof.
  intros H1 H2. destruct (memN k a) eqn:Ea.
  - symmetry. eapply subsetN_spec; eauto.
  - destruct (memN k b) eqn:Eb; auto. rewrite (subsetN_spec _ _ _ H2 Eb) in Ea. discriminate.
Qed.

Lemma n_raw_of_spec k :
  n_raw_of k = match assocN k composite2 with
               | Some _ => 2%nat
               | None => match assocN k composite3 with Some _ => 3%nat | None => 1%nat end
               end.
Proof.
  pose proof tables_consistent as H. repeat (apply andb_true_iff in H; destruct H as [H ?]).
  unfold n_raw_of.
  rewrite (memN_eq gen_nraw2 (keys composite2) k) by assumption.
  rewrite (memN_eq gen_nraw3 (keys composite3) k) by assumption.
  rewrite !assocN_keys. destruct (assocN k composite2); [reflexivity|]. destruct (assocN k composite3); reflexivity.
Qed.
