From Coq Require Import NArith Arith List Bool Lia.
From OQ3 Require Import gen.Kinds Model.Parser Model.Grammar Proofs.MarkerB Proofs.GrammarB0.
Import ListNotations.
Local Open Scope nat_scope.

Section B.
Variable inp : list (N * bool).
Variable R : G.
Hypothesis HG : GoodB R.

Lemma err_recover_B ts : SpecA (err_recover inp ts) ResU.
Proof.
  b_enter. unfold err_recover. bgo; try (b_done; exact I).
Qed.
Lemma err_and_bump_B : SpecA (err_and_bump inp) ResU.
Proof. apply err_recover_B. Qed.

(* ---------------- grammar.rs / expressions.rs leaves ---------------- *)
Lemma name_r_B ts : SpecA (name_r inp ts) ResU.
Proof.
  b_enter. unfold name_r. bgo; try (b_done; exact I).
  b_callA (err_recover_B ts). b_done. exact I.
Qed.

Ltac b_k0 :=
  lazymatch goal with |- WB ?f _ _ =>
    let h := head_of f in
    lazymatch h with
    | @err_recover => b_callA err_recover_B
    | @err_and_bump => b_callA err_and_bump_B
    | @name_r => b_callA name_r_B
    | _ => fail
    end
  end.
Ltac b_known ::= b_k0.

Lemma name_B : SpecA (name inp) ResU.
Proof. apply name_r_B. Qed.
Lemma expr_B : SpecA (expr R) ResOCm.
Proof.
  b_enter. unfold expr. apply WB_bind. b_callA (gb_expr_none HG false 1). res_unfold; apply WB_ret; fin.
Qed.
Ltac b_k1 :=
  lazymatch goal with |- WB ?f _ _ =>
    let h := head_of f in
    lazymatch h with
    | @name => b_callA name_B
    | @expr => b_callA expr_B
    | @g_expr_bp => first [ b_callA (gb_expr_none HG) | b_callC (gb_expr_some HG) ]
    | @g_stmt => b_callA (gb_stmt HG)
    | @g_type_spec => b_callA (gb_type_spec HG)
    | @g_non_array_type_spec => b_callA (gb_non_array_type_spec HG)
    | @g_param_list => b_callA (gb_param_list HG)
    | @g_if_stmt => b_callC (gb_if_stmt HG)
    | _ => b_k0
    end
  end.
Ltac b_known ::= b_k1.

Lemma identifier_B : SpecA (identifier inp) ResCm.
Proof. b_enter. unfold identifier. bgo. fin. Qed.
Lemma hardware_qubit_B : SpecA (hardware_qubit inp) ResCm.
Proof. b_enter. unfold hardware_qubit. bgo. fin. Qed.
Lemma var_name_B : SpecA (var_name inp) ResU.
Proof. b_enter. unfold var_name. bgo; fin. Qed.
Lemma expression_list_B : SpecA (expression_list R) ResU.
Proof. apply (gb_param_list HG). Qed.
Lemma arg_list_gate_call_qubits_B : SpecA (arg_list_gate_call_qubits R) ResU.
Proof. apply (gb_param_list HG). Qed.
Ltac b_k2 :=
  lazymatch goal with |- WB ?f _ _ =>
    let h := head_of f in
    lazymatch h with
    | @identifier => b_callA identifier_B
    | @hardware_qubit => b_callA hardware_qubit_B
    | @var_name => b_callA var_name_B
    | @expression_list => b_callA expression_list_B
    | @arg_list_gate_call_qubits => b_callA arg_list_gate_call_qubits_B
    | _ => b_k1
    end
  end.
Ltac b_known ::= b_k2.

Lemma set_expression_B : SpecA (set_expression inp R) ResU.
Proof. b_enter. unfold set_expression. bgo; fin. Qed.
Ltac b_k3 :=
  lazymatch goal with |- WB ?f _ _ =>
    let h := head_of f in
    lazymatch h with
    | @set_expression => b_callA set_expression_B
    | _ => b_k2
    end
  end.
Ltac b_known ::= b_k3.

Lemma index_operator_B : SpecA (index_operator inp R) ResU.
Proof. b_enter. unfold index_operator. bgo; fin. Qed.
Ltac b_k4 :=
  lazymatch goal with |- WB ?f _ _ =>
    let h := head_of f in
    lazymatch h with
    | @index_operator => b_callA index_operator_B
    | _ => b_k3
    end
  end.
Ltac b_known ::= b_k4.

Lemma index_expr_B : SpecL (index_expr inp R) ResLCm.
Proof. b_enterL. unfold index_expr. bgo. fin. Qed.
Lemma indexed_identifier_B : SpecL (indexed_identifier inp R) ResLCm.
Proof. b_enterL. unfold indexed_identifier. bgo; try b_inv. fin. Qed.
Ltac b_k5 :=
  lazymatch goal with |- WB ?f _ _ =>
    let h := head_of f in
    lazymatch h with
    | @index_expr => b_callL index_expr_B
    | @indexed_identifier => b_callL indexed_identifier_B
    | _ => b_k4
    end
  end.
Ltac b_known ::= b_k5.

Lemma arg_gate_call_qubit_B : SpecC (arg_gate_call_qubit inp R) ResU.
Proof. b_enterC. unfold arg_gate_call_qubit. bgo; fin. Qed.
Lemma designator_B : SpecA (designator inp R) ResU.
Proof. b_enter. unfold designator. bgo; fin. Qed.
Lemma type_name_B : SpecA (type_name inp) ResU.
Proof. b_enter. unfold type_name. bgo; fin. Qed.
Ltac b_k6 :=
  lazymatch goal with |- WB ?f _ _ =>
    let h := head_of f in
    lazymatch h with
    | @arg_gate_call_qubit => b_callC arg_gate_call_qubit_B
    | @designator => b_callA designator_B
    | @type_name => b_callA type_name_B
    | _ => b_k5
    end
  end.
Ltac b_known ::= b_k6.
Lemma complex_type_spec_B : SpecA (complex_type_spec inp R) ResU.
Proof. b_enter. unfold complex_type_spec. bgo; fin. Qed.
Ltac b_k7 :=
  lazymatch goal with |- WB ?f _ _ =>
    let h := head_of f in
    lazymatch h with
    | @complex_type_spec => b_callA complex_type_spec_B
    | _ => b_k6
    end
  end.
Ltac b_known ::= b_k7.
Lemma non_array_type_spec_B : SpecA (non_array_type_spec inp R) ResU.
Proof. b_enter. unfold non_array_type_spec. bgo; fin. Qed.
Lemma array_type_spec_B w : SpecA (array_type_spec inp R w) ResU.
Proof. b_enter. unfold array_type_spec. bgo; try b_inv; fin. Qed.
Ltac b_k8 :=
  lazymatch goal with |- WB ?f _ _ =>
    let h := head_of f in
    lazymatch h with
    | @non_array_type_spec => b_callA non_array_type_spec_B
    | @array_type_spec => b_callA array_type_spec_B
    | _ => b_k7
    end
  end.
Ltac b_known ::= b_k8.
Lemma type_spec_B : SpecA (type_spec inp R) ResU.
Proof. b_enter. unfold type_spec. bgo; fin. Qed.
Lemma param_type_spec_B : SpecA (param_type_spec inp R) ResU.
Proof. b_enter. unfold param_type_spec. bgo; fin. Qed.
Lemma qubit_type_spec_B : SpecA (qubit_type_spec inp R) ResU.
Proof. b_enter. unfold qubit_type_spec. bgo; fin. Qed.
Ltac b_k9 :=
  lazymatch goal with |- WB ?f _ _ =>
    let h := head_of f in
    lazymatch h with
    | @type_spec => b_callA type_spec_B
    | @param_type_spec => b_callA param_type_spec_B
    | @qubit_type_spec => b_callA qubit_type_spec_B
    | _ => b_k8
    end
  end.
Ltac b_known ::= b_k9.
Lemma opt_return_signature_B : SpecA (opt_return_signature inp R) ResU.
Proof. b_enter. unfold opt_return_signature. bgo; fin. Qed.
Lemma q_or_c_reg_param_B : SpecA (q_or_c_reg_param inp R) ResU.
Proof. b_enter. unfold q_or_c_reg_param. bgo; fin. Qed.
Lemma call_arg_list_B : SpecA (call_arg_list inp R) ResU.
Proof. b_enter. unfold call_arg_list. bgo; try b_inv; fin. Qed.
Ltac b_k10 :=
  lazymatch goal with |- WB ?f _ _ =>
    let h := head_of f in
    lazymatch h with
    | @opt_return_signature => b_callA opt_return_signature_B
    | @q_or_c_reg_param => b_callA q_or_c_reg_param_B
    | @call_arg_list => b_callA call_arg_list_B
    | _ => b_k9
    end
  end.
Ltac b_known ::= b_k10.
End B.

Ltac b_gb :=
  match goal with HG : GoodB _ |- WB ?f _ _ =>
    let h := head_of f in
    lazymatch h with
    | @g_expr_bp => first [ b_callA (gb_expr_none HG) | b_callC (gb_expr_some HG) ]
    | @g_stmt => b_callA (gb_stmt HG)
    | @g_type_spec => b_callA (gb_type_spec HG)
    | @g_non_array_type_spec => b_callA (gb_non_array_type_spec HG)
    | @g_param_list => b_callA (gb_param_list HG)
    | @g_if_stmt => b_callC (gb_if_stmt HG)
    end
  end.
Ltac b_g1 :=
  lazymatch goal with |- WB ?f _ _ =>
    let h := head_of f in
    lazymatch h with
    | @err_recover => b_callA err_recover_B
    | @err_and_bump => b_callA err_and_bump_B
    | @name_r => b_callA name_r_B
    | @name => b_callA name_B
    | @expr => b_callA expr_B
    | @identifier => b_callA identifier_B
    | @hardware_qubit => b_callA hardware_qubit_B
    | @var_name => b_callA var_name_B
    | @expression_list => b_callA expression_list_B
    | @arg_list_gate_call_qubits => b_callA arg_list_gate_call_qubits_B
    | @set_expression => b_callA set_expression_B
    | @index_operator => b_callA index_operator_B
    | @index_expr => b_callL index_expr_B
    | @indexed_identifier => b_callL indexed_identifier_B
    | @arg_gate_call_qubit => b_callC arg_gate_call_qubit_B
    | @designator => b_callA designator_B
    | @type_name => b_callA type_name_B
    | @complex_type_spec => b_callA complex_type_spec_B
    | @non_array_type_spec => b_callA non_array_type_spec_B
    | @array_type_spec => b_callA array_type_spec_B
    | @type_spec => b_callA type_spec_B
    | @param_type_spec => b_callA param_type_spec_B
    | @qubit_type_spec => b_callA qubit_type_spec_B
    | @opt_return_signature => b_callA opt_return_signature_B
    | @q_or_c_reg_param => b_callA q_or_c_reg_param_B
    | @call_arg_list => b_callA call_arg_list_B
    | _ => b_gb
    end
  end.
Ltac b_known ::= b_g1.
