(* Theorem B assembled for texts: SourceFile::parse (the model's parse_source) never hangs and
   never panics in the parser, the trivia builder or the tree builder, for every text; it returns
   a tree rooted at SOURCE_FILE unless the validation pass panics (not proved). *)
From Coq Require Import NArith ZArith Arith List Bool Lia.
From OQ3 Require Import gen.Kinds Model.Lexer Model.Lexed Model.Parser Model.Grammar Model.Builder
  Proofs.LexedP Proofs.MarkerB Proofs.ProcessB Proofs.JointB Proofs.BuilderB Proofs.BuilderP Proofs.PipelineP.
Import ListNotations.
Local Open Scope nat_scope.

Definition ntk (k : N) : bool := negb (is_trivia k).

Lemma to_input_loop_length T : forall ks wj acc,
  length T <= length ks ->
  length (to_input_loop ks T wj acc) = length acc + length (filter ntk (firstn (length T) ks)).
Proof.
  induction T as [|t T IH]; intros ks wj acc Hl.
  - destruct ks; cbn; rewrite rev_length; lia.
  - destruct ks as [|k ks]; [cbn in Hl; lia|]. cbn [to_input_loop length firstn filter].
    unfold ntk at 1. destruct (is_trivia k); cbn [negb].
    + apply IH. cbn in Hl. lia.
    + rewrite IH by (cbn in Hl; lia). cbn [length].
      destruct wj; [destruct acc as [|[k0 j0] a]|]; cbn [length]; lia.
Qed.

Lemma map_nth_seq {A} (l : list A) d : map (fun i => nth i l d) (seq 0 (length l)) = l.
Proof.
  induction l as [|x l IH]; [reflexivity|]. cbn [length seq map nth]. f_equal.
  rewrite <- seq_shift, map_map. exact IH.
Qed.
Lemma filter_map_length {A B} (f : A -> B) (P : B -> bool) l :
  length (filter (fun a => P (f a)) l) = length (filter P (map f l)).
Proof. induction l as [|a l IH]; cbn; [reflexivity|]. destruct (P (f a)); cbn; rewrite IH; reflexivity. Qed.

Lemma cnt_nt_all kinds (texts : list (list ch)) :
  length texts = length kinds -> cnt_nt kinds (length texts) = length (filter ntk kinds).
Proof.
  intros Hl. unfold cnt_nt, ntriv, kind_i. rewrite Hl.
  rewrite (filter_map_length (fun i => nth i kinds K_EOF) ntk). rewrite map_nth_seq. reflexivity.
Qed.

Lemma ntoks_lexed l :
  let lx := lexed_of l in
  ntoks (to_input lx) = cnt_nt (removelast (lkinds lx)) (blen_tokens (ltexts lx)).
Proof.
  cbv zeta. unfold lexed_of. pose proof (lex_conv_spec (tokenize l) 0%N 0%N) as H.
  destruct (lex_conv (tokenize l) 0%N 0%N) as [[ks ss] es]. destruct H as [H1 _].
  unfold to_input, ntoks, blen_tokens. cbn [lkinds ltexts]. subst ks.
  set (ks0 := map (fun t => snd (syntax_kind_of t)) (tokenize l)).
  set (T := map ttext (tokenize l)).
  assert (length T = length ks0) as Hl by (unfold T, ks0; rewrite !map_length; reflexivity).
  rewrite removelast_last.
  rewrite to_input_loop_length by (rewrite app_length; cbn; lia).
  rewrite firstn_app, Hl, firstn_all, Nat.sub_diag. cbn [firstn length]. rewrite app_nil_r.
  rewrite <- Hl. rewrite (cnt_nt_all ks0 T Hl). reflexivity.
Qed.

(* ---------------- the parser input, described without the accumulator ---------------- *)
Definition fj (k : N) (t : list ch) : bool := N.eqb k K_FLOAT_NUMBER && negb (ends_with_dot t).
Definition nextnt (ks : list N) (ts : list (list ch)) : bool :=
  match ks, ts with k :: _, _ :: _ => negb (is_trivia k) | _, _ => false end.
Fixpoint inspec (ks : list N) (ts : list (list ch)) : list (N * bool) :=
  match ks, ts with
  | k :: ks', t :: ts' =>
      if is_trivia k then inspec ks' ts' else (k, fj k t || nextnt ks' ts') :: inspec ks' ts'
  | _, _ => []
  end.
Definition sethead (acc : list (N * bool)) : list (N * bool) :=
  match acc with (k0, _) :: a => (k0, true) :: a | [] => [] end.

Lemma to_input_loop_spec ks : forall ts wj acc,
  to_input_loop ks ts wj acc = rev (if wj && nextnt ks ts then sethead acc else acc) ++ inspec ks ts.
Proof.
  induction ks as [|k ks IH]; intros ts wj acc.
  - cbn. rewrite andb_false_r, app_nil_r. reflexivity.
  - destruct ts as [|t ts].
    + cbn. rewrite andb_false_r, app_nil_r. reflexivity.
    + cbn [to_input_loop inspec nextnt]. destruct (is_trivia k) eqn:Ek; cbn [negb].
      * rewrite IH. cbn [andb]. rewrite andb_false_r. reflexivity.
      * rewrite IH. cbn [andb]. rewrite andb_true_r. fold (fj k t).
        set (acc1 := if wj then sethead acc else acc).
        replace (match acc with (k0, _) :: a => (k0, true) :: a | [] => [] end) with (sethead acc) by reflexivity.
        fold acc1. destruct (nextnt ks ts); cbn [sethead rev]; rewrite <- app_assoc; cbn [app];
          [rewrite orb_true_r|rewrite orb_false_r]; reflexivity.
Qed.

Definition cntl (r : nat) (ks : list N) : nat := length (filter ntk (firstn r ks)).
Lemma inspec_nth ks : forall ts r,
  r < length ts -> length ts <= length ks -> ntk (nth r ks K_EOF) = true ->
  nth_error (inspec ks ts) (cntl r ks) =
    Some (nth r ks K_EOF, fj (nth r ks K_EOF) (nth r ts []) || ((S r <? length ts) && ntk (nth (S r) ks K_EOF))).
Proof.
  induction ks as [|k ks IH]; intros ts r Hr Hl Hn; [cbn in Hl; lia|].
  destruct ts as [|t ts]; [cbn in Hr; lia|].
  destruct r as [|r].
  - cbn [nth] in *. unfold cntl. cbn [firstn filter length inspec]. unfold ntk in Hn.
    destruct (is_trivia k); [discriminate|]. cbn [nth_error]. f_equal. f_equal. f_equal.
    unfold nextnt. cbn [length] in *. destruct ks as [|k' ks], ts as [|t' ts]; cbn [length] in *; try lia; cbn; try reflexivity;
      unfold ntk; destruct (is_trivia k'); reflexivity.
  - cbn [nth length] in *. unfold cntl. cbn [firstn filter inspec].
    fold (cntl r ks). unfold ntk at 1. destruct (is_trivia k); cbn [negb length nth_error].
    + pose proof (IH ts r ltac:(lia) ltac:(lia) Hn) as H. unfold cntl in H. rewrite H. reflexivity.
    + pose proof (IH ts r ltac:(lia) ltac:(lia) Hn) as H. unfold cntl in H. rewrite H. reflexivity.
Qed.

Lemma firstn_snoc {A} (l : list A) r d : r < length l -> firstn (S r) l = firstn r l ++ [nth r l d].
Proof.
  revert r. induction l as [|x l IH]; intros [|r] H; cbn in H; try lia; [reflexivity|].
  cbn [nth]. change (firstn (S (S r)) (x :: l)) with (x :: firstn (S r) l).
  change (firstn (S r) (x :: l)) with (x :: firstn r l). rewrite (IH r) by lia. reflexivity.
Qed.
Lemma cnt_nt_cntl kinds (texts : list (list ch)) r : r <= length kinds -> cnt_nt kinds r = cntl r kinds.
Proof.
  induction r as [|r IH]; intros Hr; [reflexivity|].
  rewrite cnt_nt_S, IH by lia. unfold cntl. rewrite (firstn_snoc kinds r K_EOF) by lia.
  rewrite filter_app, app_length. cbn [filter]. unfold ntriv, kind_i, ntk. destruct (is_trivia (nth r kinds K_EOF)); reflexivity.
Qed.

(* a joint non-float parser token is directly followed by a non-trivia raw token *)
Lemma adjacency l :
  let lx := lexed_of l in
  let kinds := removelast (lkinds lx) in
  forall r, r < blen_tokens (ltexts lx) -> ntriv kinds r = true -> adj (to_input lx) (cnt_nt kinds r) ->
  r + 1 < blen_tokens (ltexts lx) /\ ntriv kinds (r + 1) = true.
Proof.
  cbv zeta. unfold lexed_of. pose proof (lex_conv_spec (tokenize l) 0%N 0%N) as H.
  destruct (lex_conv (tokenize l) 0%N 0%N) as [[ks ss] es]. destruct H as [H1 _].
  unfold to_input, blen_tokens. cbn [lkinds ltexts]. subst ks.
  set (ks0 := map (fun t => snd (syntax_kind_of t)) (tokenize l)).
  set (T := map ttext (tokenize l)).
  assert (length T = length ks0) as Hl by (unfold T, ks0; rewrite !map_length; reflexivity).
  rewrite removelast_last. intros r Hr Hn [Hj Hk].
  rewrite to_input_loop_spec in Hj, Hk. cbn [andb rev app] in Hj, Hk.
  rewrite (cnt_nt_cntl ks0 T r) in Hj, Hk by lia.
  assert (nth r (ks0 ++ [K_EOF]) K_EOF = nth r ks0 K_EOF) as En by (apply app_nth1; lia).
  assert (cntl r (ks0 ++ [K_EOF]) = cntl r ks0) as Ec.
  { unfold cntl. rewrite firstn_app. replace (r - length ks0) with 0 by lia. cbn [firstn]. rewrite app_nil_r. reflexivity. }
  pose proof (inspec_nth (ks0 ++ [K_EOF]) T r Hr) as Hs.
  rewrite En, Ec in Hs. specialize (Hs ltac:(rewrite app_length; cbn; lia) ltac:(exact Hn)).
  unfold joint_at in Hj. unfold kind_at in Hk. rewrite Hs in Hj, Hk.
  unfold fj in Hj. apply N.eqb_neq in Hk. rewrite Hk in Hj. cbn [andb orb] in Hj.
  apply andb_true_iff in Hj. destruct Hj as [Hlt Hnx]. apply Nat.ltb_lt in Hlt.
  split; [lia|]. unfold ntriv, kind_i. replace (r + 1) with (S r) by lia.
  rewrite app_nth1 in Hnx by lia. exact Hnx.
Qed.

(* tokens of the final events satisfy the joint condition *)
Lemma etoksn_app a b : etoksn (a ++ b) = etoksn a ++ etoksn b.
Proof. induction a as [|e a IH]; cbn [app etoksn]; [reflexivity|]. destruct e; rewrite IH; reflexivity. Qed.
Lemma etoksn_sum l : list_sum (etoksn (rev l)) = toksum l.
Proof.
  induction l as [|e l IH]; [reflexivity|]. cbn [rev toksum]. rewrite etoksn_app, list_sum_app, IH.
  destruct e; cbn [etoksn tokn]; cbn; lia.
Qed.
Lemma tw_jwl inp l : tw inp l -> jwl inp 0 (etoksn (rev l)).
Proof.
  induction l as [|e l IH]; [intros _; exact I|]. cbn [tw rev]. intros [Ht He].
  rewrite etoksn_app. apply jwl_app. split; [apply IH; exact Ht|].
  rewrite etoksn_sum. destruct e; cbn [etoksn jwl]; auto.
Qed.

(* the parser's steps carry joint tokens only *)
Lemma run_parser_joint inp st : run_parser inp = Steps st -> jwl inp 0 (stoksn st).
Proof.
  unfold run_parser. pose proof (source_file_jw inp (fuel_for inp)) as HJ.
  destruct (source_file inp (tie inp (fuel_for inp)) init_state) as [[] s|w|]; try discriminate.
  destruct (live s); [|discriminate]. destruct (process (rev (evs s))) as [st'|] eqn:Ep; [|discriminate].
  intros H. injection H as <-. rewrite (process_toks _ _ Ep). apply tw_jwl. apply HJ.
Qed.

(* for every text: no hang, no panic before validation, and the tree spells the whole text *)
Theorem parse_source_total l :
  match parse_source l with
  | POk r => tree_kind (pr_tree r) = K_SOURCE_FILE /\ Builder.tree_text (pr_tree r) = l
  | PPanic stage _ => stage = 4%N
  | PNoTree _ => False
  | PHang => False
  end.
Proof.
  unfold parse_source.
  destruct (run_parser_tree (to_input (lexed_of l)) (to_input_ne_eof l)) as [st [E HT]].
  pose proof (run_parser_joint _ _ E) as HJ.
  rewrite E. rewrite (ntoks_lexed l) in HT.
  destruct (intersperse_total _ _ (lstarts (lexed_of l)) _ (adjacency l) st HT HJ) as [out [Ei [HG [HE Hd]]]].
  rewrite Ei.
  destruct (tree_build_total out HG HE Hd) as [c [errs Et]]. rewrite Et.
  destruct (validate (Node K_SOURCE_FILE c) 0); [|reflexivity].
  cbn [tree_kind]. rewrite N.eqb_refl. cbn [pr_tree]. split; [reflexivity|].
  rewrite (tree_build_text _ _ _ _ _ _ Et). change (rev (@nil tree)) with (@nil tree).
  cbn [forest_text flat_map frames_text app].
  destruct (intersperse_text _ _ _ _ _ _ Ei) as [b [Hb [Ht Heof]]].
  rewrite Ht, (Heof eq_refl), firstn_all. apply lexed_texts_spell.
Qed.

(* the entry point that refuses to parse when lexing reported errors *)
Theorem parse_check_lex_total l :
  match parse_check_lex l with
  | POk r => tree_kind (pr_tree r) = K_SOURCE_FILE /\ Builder.tree_text (pr_tree r) = l
  | PPanic stage _ => stage = 4%N
  | PNoTree _ => True
  | PHang => False
  end.
Proof.
  unfold parse_check_lex. destruct (lerrors (lexed_of l)); [|exact I].
  pose proof (parse_source_total l) as H. destruct (parse_source l); auto.
Qed.
