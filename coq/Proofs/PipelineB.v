(* Theorem B assembled for texts: SourceFile::parse (the model's parse_source) never hangs and
   never panics in the parser, the trivia builder or the tree builder, for every text; it returns
   a tree rooted at SOURCE_FILE unless the validation pass panics (not proved). *)
From Coq Require Import NArith ZArith Arith List Bool Lia.
From OQ3 Require Import gen.Kinds Model.Lexer Model.Lexed Model.Parser Model.Grammar Model.Builder
  Proofs.LexedP Proofs.MarkerB Proofs.ProcessB Proofs.BuilderB Proofs.PipelineP.
Import ListNotations.
Local Open Scope nat_scope.

Definition ntk (k : N) : bool := negb (is_trivia k).

Lemma to_input_loop_length T : forall ks wj acc,
  length T <= length ks ->
  length (to_input_loop ks T wj acc) = length acc + length (filter ntk (firstn (length T) ks)).
Proof.
  induction T as [|t T IH]; intros ks wj acc Hl.
  - destruct ks; cbn; rewrite rev_length; lia.
  - destruct ks as [|k ks]; [cbn in Hl; lia|]. cbn [to_input_loop length firstn filter].
    unfold ntk at 1. destruct (is_trivia k); cbn [negb].
    + apply IH. cbn in Hl. lia.
    + rewrite IH by (cbn in Hl; lia). cbn [length].
      destruct wj; [destruct acc as [|[k0 j0] a]|]; cbn [length]; lia.
Qed.

Lemma map_nth_seq {A} (l : list A) d : map (fun i => nth i l d) (seq 0 (length l)) = l.
Proof.
  induction l as [|x l IH]; [reflexivity|]. cbn [length seq map nth]. f_equal.
  rewrite <- seq_shift, map_map. exact IH.
Qed.
Lemma filter_map_length {A B} (f : A -> B) (P : B -> bool) l :
  length (filter (fun a => P (f a)) l) = length (filter P (map f l)).
Proof. induction l as [|a l IH]; cbn; [reflexivity|]. destruct (P (f a)); cbn; rewrite IH; reflexivity. Qed.

Lemma cnt_nt_all kinds (texts : list (list ch)) :
  length texts = length kinds -> cnt_nt kinds (length texts) = length (filter ntk kinds).
Proof.
  intros Hl. unfold cnt_nt, ntriv, kind_i. rewrite Hl.
  rewrite (filter_map_length (fun i => nth i kinds K_EOF) ntk). rewrite map_nth_seq. reflexivity.
Qed.

Lemma ntoks_lexed l :
  let lx := lexed_of l in
  ntoks (to_input lx) = cnt_nt (removelast (lkinds lx)) (blen_tokens (ltexts lx)).
Proof.
  cbv zeta. unfold lexed_of. pose proof (lex_conv_spec (tokenize l) 0%N 0%N) as H.
  destruct (lex_conv (tokenize l) 0%N 0%N) as [[ks ss] es]. destruct H as [H1 _].
  unfold to_input, ntoks, blen_tokens. cbn [lkinds ltexts]. subst ks.
  set (ks0 := map (fun t => snd (syntax_kind_of t)) (tokenize l)).
  set (T := map ttext (tokenize l)).
  assert (length T = length ks0) as Hl by (unfold T, ks0; rewrite !map_length; reflexivity).
  rewrite removelast_last.
  rewrite to_input_loop_length by (rewrite app_length; cbn; lia).
  rewrite firstn_app, Hl, firstn_all, Nat.sub_diag. cbn [firstn length]. rewrite app_nil_r.
  rewrite <- Hl. rewrite (cnt_nt_all ks0 T Hl). reflexivity.
Qed.

Theorem parse_source_total l :
  match parse_source l with
  | POk r => tree_kind (pr_tree r) = K_SOURCE_FILE
  | PPanic stage _ => stage = 4%N
  | PNoTree _ => False
  | PHang => False
  end.
Proof.
  unfold parse_source.
  destruct (run_parser_tree (to_input (lexed_of l)) (to_input_ne_eof l)) as [st [E HT]].
  rewrite E. rewrite (ntoks_lexed l) in HT.
  destruct (intersperse_total _ _ (lstarts (lexed_of l)) st HT) as [out [eof [Ei [HG [HE Hd]]]]].
  rewrite Ei.
  destruct (tree_build_total out HG HE Hd) as [c [errs Et]]. rewrite Et.
  destruct (validate (Node K_SOURCE_FILE c) 0); [|reflexivity].
  cbn [tree_kind]. rewrite N.eqb_refl. reflexivity.
Qed.

(* the entry point that refuses to parse when lexing reported errors *)
Theorem parse_check_lex_total l :
  match parse_check_lex l with
  | POk r => tree_kind (pr_tree r) = K_SOURCE_FILE
  | PPanic stage _ => stage = 4%N
  | PNoTree _ => True
  | PHang => False
  end.
Proof.
  unfold parse_check_lex. destruct (lerrors (lexed_of l)); [|exact I].
  pose proof (parse_source_total l) as H. destruct (parse_source l); auto.
Qed.
