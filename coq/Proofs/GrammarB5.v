(* Theorem B, marker discipline: closing the recursion knot and the top-level statement.
   OutOfFuel satisfies every WB triple, so the knot closes by plain induction on the fuel;
   that fuel is never exhausted is theorem A (Proofs/GrammarA.v). *)
From Coq Require Import NArith ZArith Arith List Bool Lia.
From OQ3 Require Import gen.Kinds Model.Parser Model.Grammar Proofs.MarkerB Proofs.WP Proofs.GrammarA
  Proofs.GrammarB0 Proofs.GrammarB1 Proofs.GrammarB2 Proofs.GrammarB3 Proofs.GrammarB4.
Import ListNotations.
Local Open Scope nat_scope.

Lemma bottom_good : GoodB bottom.
Proof.
  constructor; cbn [bottom g_expr_bp g_stmt g_type_spec g_non_array_type_spec g_if_stmt g_param_list];
    repeat intro; apply WB_oof.
Qed.

Lemma tie_good inp n : GoodB (tie inp n).
Proof.
  induction n as [|k IH]; [apply bottom_good|].
  constructor; cbn [tie g_expr_bp g_stmt g_type_spec g_non_array_type_spec g_if_stmt g_param_list].
  - intros ps bp. apply (expr_bp_none_B inp _ IH).
  - intros ps bp. apply (expr_bp_some_B inp _ IH).
  - apply (stmt_B inp _ IH).
  - apply (type_spec_B inp _ IH).
  - apply (non_array_type_spec_B inp _ IH).
  - apply (if_stmt_B inp _ IH).
  - intros fl. apply (param_list_openqasm_B inp _ IH).
Qed.

Lemma init_liveok : LiveOK init_state /\ NoDup (live init_state).
Proof.
  split; [split; [|split; [|split]]|constructor].
  - intros m Hm; destruct Hm.
  - intros i d [k H]. unfold slot in H. cbn in H. discriminate.
  - split; [intros [|j]; cbn; lia|reflexivity].
  - split; [reflexivity|constructor].
Qed.

(* the grammar never trips a marker assertion and returns with no live marker and with every
   forward-parent pointer leading strictly forward to a Start event, for every token sequence
   and every recursion fuel *)
Theorem source_file_markers inp n :
  match source_file inp (tie inp n) init_state with
  | Ok _ s => live s = [] /\ EvOK s
  | Panic w => ~ mark w
  | OutOfFuel => True
  end.
Proof.
  destruct init_liveok as [HL HN].
  pose proof (source_file_B inp _ (tie_good inp n) init_state HL HN) as H.
  unfold WB in H. destruct (source_file inp (tie inp n) init_state) as [a s|w|]; auto.
  destruct H as [[[_ [HE _]] [Hl _]] _]. split; [exact Hl|exact HE].
Qed.

(* ---------------- event::process ---------------- *)
(* the same well-formedness on an oldest-first event list *)
Definition WFL (L : list event) : Prop :=
  forall i k d, nth_error L i = Some (EStart k (Some d)) ->
    0 < d /\ exists k' fp', nth_error L (i + d) = Some (EStart k' fp').

Lemma set_nth'_length {A} (l : list A) i x : length (set_nth' l i x) = length l.
Proof. revert i. induction l as [|y l IH]; intros [|i]; cbn; auto. Qed.
Lemma nth_error_set_nth'_same {A} (l : list A) i x : i < length l -> nth_error (set_nth' l i x) i = Some x.
Proof. revert i. induction l as [|y l IH]; intros [|i] H; cbn in *; try lia; auto. apply IH. lia. Qed.
Lemma nth_error_set_nth'_other {A} (l : list A) i j x : i <> j -> nth_error (set_nth' l i x) j = nth_error l j.
Proof. revert i j. induction l as [|y l IH]; intros [|i] [|j] H; cbn; auto; try lia. Qed.

(* tombstoning a Start slot keeps the list well-formed *)
Lemma wfl_tomb L j k fp :
  WFL L -> nth_error L j = Some (EStart k fp) -> WFL (set_nth' L j (EStart K_TOMBSTONE None)).
Proof.
  intros HW Hj i k1 d Hi.
  assert (j < length L) as Hlt by (apply nth_error_Some; congruence).
  destruct (Nat.eq_dec j i) as [->|Hne].
  - rewrite nth_error_set_nth'_same in Hi by exact Hlt. discriminate.
  - rewrite nth_error_set_nth'_other in Hi by exact Hne.
    destruct (HW i k1 d Hi) as [Hd [k' [fp' Ht]]]. split; auto.
    destruct (Nat.eq_dec j (i + d)) as [->|Hne2].
    + eexists _, _. apply nth_error_set_nth'_same. exact Hlt.
    + exists k', fp'. rewrite nth_error_set_nth'_other by exact Hne2. exact Ht.
Qed.

(* a pointer fp leaving slot idx is good when it leads strictly forward to a Start slot *)
Definition good_fp (L : list event) (idx : nat) (fp : option nat) : Prop :=
  match fp with
  | None => True
  | Some d => 0 < d /\ exists k' fp', nth_error L (idx + d) = Some (EStart k' fp')
  end.

Lemma fp_chain_total fuel : forall L idx fp acc,
  WFL L -> good_fp L idx fp -> length L - idx <= fuel ->
  exists kinds L', fp_chain fuel L idx fp acc = Some (kinds, L') /\ WFL L' /\ length L' = length L.
Proof.
  induction fuel as [|f IH]; intros L idx fp acc HW Hg Hf.
  - destruct fp as [d|]; [|exists acc, L; cbn; auto].
    destruct Hg as [Hd [k' [fp' Ht]]].
    assert (idx + d < length L) by (apply nth_error_Some; congruence). lia.
  - destruct fp as [d|]; [|exists acc, L; cbn; auto].
    destruct Hg as [Hd [k' [fp' Ht]]].
    assert (idx + d < length L) as Hlt by (apply nth_error_Some; congruence).
    cbn [fp_chain]. rewrite Ht.
    set (L1 := set_nth' L (idx + d) (EStart K_TOMBSTONE None)).
    assert (WFL L1) as HW1 by (eapply wfl_tomb; eauto).
    assert (good_fp L1 (idx + d) fp') as Hg1.
    { destruct fp' as [d'|]; [|exact I]. destruct (HW _ _ _ Ht) as [Hd' [k2 [fp2 Ht2]]].
      split; auto. exists k2, fp2. unfold L1. rewrite nth_error_set_nth'_other by lia. exact Ht2. }
    destruct (IH L1 (idx + d) fp' (k' :: acc) HW1 Hg1) as [kinds [L' [E [HW' Hl']]]].
    { unfold L1. rewrite set_nth'_length. lia. }
    exists kinds, L'. split; [exact E|split; [exact HW'|]].
    rewrite Hl'. unfold L1. apply set_nth'_length.
Qed.

Lemma process_loop_total fuel : forall L i out, WFL L -> exists st, process_loop fuel L i out = Some st.
Proof.
  induction fuel as [|f IH]; intros L i out HW; [eexists; reflexivity|].
  cbn [process_loop]. destruct (nth_error L i) as [[k fp| |k n|]|] eqn:E; try (apply IH; exact HW);
    [|eexists; reflexivity].
  assert (good_fp L i fp) as Hg.
  { destruct fp as [d|]; [|exact I]. apply (HW _ _ _ E). }
  destruct (fp_chain_total (length L) L i fp [k] HW Hg) as [kinds [L' [E' [HW' _]]]]; [lia|].
  rewrite E'. apply IH. exact HW'.
Qed.

Lemma evok_wfl s : EvOK s -> WFL (rev (evs s)).
Proof.
  intros HE i k d Hi. rewrite <- slot_rev in Hi.
  destruct (HE i d (ex_intro _ k Hi)) as [Hd [k' [fp' Ht]]]. split; auto.
  exists k', fp'. rewrite <- slot_rev. exact Ht.
Qed.

Theorem process_total s : EvOK s -> exists st, process (rev (evs s)) = Some st.
Proof. intros HE. unfold process. apply process_loop_total. apply evok_wfl. exact HE. Qed.

(* with theorem A: the grammar phase returns normally, all tokens consumed, no marker left *)
Theorem grammar_phase_total inp :
  (forall i k j, nth_error inp i = Some (k, j) -> k <> K_EOF) ->
  exists s, source_file inp (tie inp (fuel_for inp)) init_state = Ok tt s /\
            pos s = ntoks inp /\ live s = [] /\ EvOK s.
Proof.
  intros Hno. pose proof (source_file_total inp Hno) as HA.
  pose proof (source_file_markers inp (fuel_for inp)) as HB.
  destruct (source_file inp (tie inp (fuel_for inp)) init_state) as [[] s|w|].
  - exists s. destruct HB. auto.
  - exfalso. apply HB. destruct w; cbn in HA |- *; auto.
  - destruct HA.
Qed.

(* hence the parser model returns its steps on every token sequence: no panic site of
   parser.rs, marker.rs (Marker, CompletedMarker, DropBomb), the grammar or event.rs is reachable
   and there is no hang *)
Theorem run_parser_total_AB inp :
  (forall i k j, nth_error inp i = Some (k, j) -> k <> K_EOF) ->
  exists st, run_parser inp = Steps st.
Proof.
  intros Hno. destruct (grammar_phase_total inp Hno) as [s [E [_ [Hl HE]]]].
  destruct (process_total s HE) as [st Hp].
  exists st. unfold run_parser. rewrite E, Hl, Hp. reflexivity.
Qed.
