(* Theorem B, marker discipline: closing the recursion knot and the top-level statement.
   OutOfFuel satisfies every WB triple, so the knot closes by plain induction on the fuel;
   that fuel is never exhausted is theorem A (Proofs/GrammarA.v). *)
From Coq Require Import NArith Arith List Bool Lia.
From OQ3 Require Import gen.Kinds Model.Parser Model.Grammar Proofs.MarkerB Proofs.WP Proofs.GrammarA
  Proofs.GrammarB0 Proofs.GrammarB1 Proofs.GrammarB2 Proofs.GrammarB3 Proofs.GrammarB4.
Import ListNotations.
Local Open Scope nat_scope.

Lemma bottom_good : GoodB bottom.
Proof.
  constructor; cbn [bottom g_expr_bp g_stmt g_type_spec g_non_array_type_spec g_if_stmt g_param_list];
    repeat intro; apply WB_oof.
Qed.

Lemma tie_good inp n : GoodB (tie inp n).
Proof.
  induction n as [|k IH]; [apply bottom_good|].
  constructor; cbn [tie g_expr_bp g_stmt g_type_spec g_non_array_type_spec g_if_stmt g_param_list].
  - intros ps bp. apply (expr_bp_none_B inp _ IH).
  - intros ps bp. apply (expr_bp_some_B inp _ IH).
  - apply (stmt_B inp _ IH).
  - apply (type_spec_B inp _ IH).
  - apply (non_array_type_spec_B inp _ IH).
  - apply (if_stmt_B inp _ IH).
  - intros fl. apply (param_list_openqasm_B inp _ IH).
Qed.

Lemma init_liveok : LiveOK init_state /\ NoDup (live init_state).
Proof. split; [intros m Hm; destruct Hm|constructor]. Qed.

(* the grammar never trips a marker assertion and returns with no live marker, for every
   token sequence and every recursion fuel *)
Theorem source_file_markers inp n :
  match source_file inp (tie inp n) init_state with
  | Ok _ s => live s = []
  | Panic w => ~ mark w
  | OutOfFuel => True
  end.
Proof.
  destruct init_liveok as [HL HN].
  pose proof (source_file_B inp _ (tie_good inp n) init_state HL HN) as H.
  unfold WB in H. destruct (source_file inp (tie inp n) init_state) as [a s|w|]; auto.
  destruct H as [[_ [Hl _]] _]. exact Hl.
Qed.

(* with theorem A: the grammar phase returns normally, all tokens consumed, no marker left *)
Theorem grammar_phase_total inp :
  (forall i k j, nth_error inp i = Some (k, j) -> k <> K_EOF) ->
  exists s, source_file inp (tie inp (fuel_for inp)) init_state = Ok tt s /\
            pos s = ntoks inp /\ live s = [].
Proof.
  intros Hno. pose proof (source_file_total inp Hno) as HA.
  pose proof (source_file_markers inp (fuel_for inp)) as HB.
  destruct (source_file inp (tie inp (fuel_for inp)) init_state) as [[] s|w|].
  - exists s. auto.
  - exfalso. apply HB. destruct w; cbn in HA |- *; auto.
  - destruct HA.
Qed.

(* hence the only panic site the parser model can still reach is event::process *)
Theorem run_parser_B inp :
  (forall i k j, nth_error inp i = Some (k, j) -> k <> K_EOF) ->
  match run_parser inp with
  | Steps _ => True
  | Panicked w => w = SProcess
  | Hang => False
  end.
Proof.
  intros Hno. destruct (grammar_phase_total inp Hno) as [s [E [_ Hl]]].
  unfold run_parser. rewrite E, Hl. destruct (process _); auto.
Qed.
