(* Per-class lexer lemmas: malformed lexemes get the malformed flag wherever they occur (C11),
   well-formed lexemes are munched maximally whatever follows (C15). *)
From Coq Require Import NArith Arith List Bool Lia.
From OQ3 Require Import gen.Kinds Model.Lexer Model.Lexed Proofs.LexerP Proofs.LexedP.
Import ListNotations.
Open Scope N_scope.

Lemma eat_while_all p pre rest :
  Forall (fun c => p c = true) pre -> (match rest with [] => True | c :: _ => p c = false end) ->
  eat_while p (pre ++ rest) = rest.
Proof.
  induction 1 as [|c pre Hc _ IH]; cbn; intros Hr.
  - destruct rest as [|c r]; cbn; auto. rewrite Hr. auto.
  - rewrite Hc. auto.
Qed.

(* ---------- C11: unterminated strings ---------- *)
(* a quote-free body never terminates the string, whatever it contains *)
Lemma quoted_string_unterminated q body : forall o c n p,
  Forall (fun x => is x q = false) body ->
  exists o' c', quoted_string q body o c n p = ((false, o', c'), []).
Proof.
  induction body as [body IH] using list_len_ind. intros o c n p Hb.
  destruct body as [|a r]; cbn [quoted_string]; [eauto|].
  inversion Hb as [|? ? Ha Hr]; subst. rewrite Ha.
  destruct (is a 92 && (is (firstc r) 92 || is (firstc r) q)).
  - destruct r as [|a2 r2]; [apply IH; cbn; auto; lia|].
    inversion Hr; subst. apply IH; cbn; auto; lia.
  - destruct (is a 10); [apply IH; cbn; auto; lia|].
    destruct (is a 95); [apply IH; cbn; auto; lia|].
    destruct (is a 48 || is a 49); apply IH; cbn; auto; lia.
Qed.

Definition plain (k : N) : ch := {| cp := k; xs := false; xc := false; em := false |}.

(* an opening quote followed by a body without that quote lexes, to the end of the input, as one
   string / bit-string literal flagged unterminated *)
Theorem unterminated_string_flagged q body :
  (q = 34 \/ q = 39) -> Forall (fun x => is x q = false) body ->
  exists k ss, advance_token (plain q :: body) = Some (Literal k ss, []) /\
               malformed (Literal k ss) = true.
Proof.
  intros Hq Hb.
  destruct (quoted_string_unterminated q body true false 0 0 Hb) as [o' [c' E]].
  destruct Hq; subst q; cbn [advance_token plain cp]; cbn -[quoted_string];
    rewrite E; cbn; destruct o'; cbn; eauto.
Qed.

(* ---------- C11: unterminated block comments ---------- *)
Fixpoint no_close (l : list ch) : bool :=
  match l with
  | c :: (c2 :: _) as r => negb (is c 42 && is c2 47) && no_close r
  | _ => true
  end.
Lemma no_close_cons a a2 r2 :
  no_close (a :: a2 :: r2) = true -> (is a 42 && is a2 47) = false /\ no_close (a2 :: r2) = true.
Proof.
  change (no_close (a :: a2 :: r2)) with (negb (is a 42 && is a2 47) && no_close (a2 :: r2)).
  intros H. apply andb_true_iff in H as [H1 H2]. apply negb_true_iff in H1. auto.
Qed.
Lemma no_close_tl a r : no_close (a :: r) = true -> no_close r = true.
Proof. destruct r as [|a2 r2]; auto. intros H. apply no_close_cons in H. tauto. Qed.

Lemma block_comment_unterminated body : forall d,
  no_close body = true -> block_comment_loop body d = (false, []).
Proof.
  induction body as [body IH] using list_len_ind. intros d Hn.
  destruct body as [|a r]; cbn [block_comment_loop]; auto.
  pose proof (no_close_tl _ _ Hn) as Hr.
  destruct r as [|a2 r2].
  - destruct (is a 47); [apply IH; cbn; auto|]. destruct (is a 42); apply IH; cbn; auto.
  - destruct (no_close_cons _ _ _ Hn) as [H1 _].
    pose proof (no_close_tl _ _ Hr) as Hr2.
    destruct (is a 47).
    + destruct (is a2 42); apply IH; auto; cbn; lia.
    + destruct (is a 42).
      * cbn in H1. rewrite H1. apply IH; auto; cbn; lia.
      * apply IH; auto; cbn; lia.
Qed.
Theorem unterminated_block_comment_flagged body :
  no_close body = true ->
  advance_token (plain 47 :: plain 42 :: body) = Some (BlockComment false, []).
Proof.
  intros H. cbn -[block_comment_loop]. rewrite (block_comment_unterminated body O H). reflexivity.
Qed.

(* ---------- C11: base prefix without digits ---------- *)
Definition dig (k : N) : ch := {| cp := k; xs := false; xc := true; em := false |}.
Definition letter (k : N) : ch := {| cp := k; xs := true; xc := true; em := false |}.

Theorem empty_int_flagged pfx rest :
  (pfx = 98 \/ pfx = 111 \/ pfx = 120) ->
  (match rest with [] => True | c :: _ => is c 95 = false /\ is_hex c = false /\ is_digit c = false end) ->
  exists k ss r, advance_token (dig 48 :: letter pfx :: rest) = Some (Literal k ss, r) /\
                 malformed (Literal k ss) = true.
Proof.
  intros Hp Hr.
  assert (eat_decimal_digits rest = (false, rest) /\ eat_hexadecimal_digits rest = (false, rest)) as [E1 E2].
  { destruct rest as [|c r]; cbn; auto. destruct Hr as [H1 [H2 H3]]. rewrite H1, H2, H3. auto. }
  destruct Hp as [Hp|[Hp|Hp]]; subst pfx;
    cbn -[eat_decimal_digits eat_hexadecimal_digits finish_number];
    rewrite ?E1, ?E2; cbn -[finish_number]; unfold finish_number; cbn -[blen]; eauto.
Qed.

(* ---------- C15: maximal munch ---------- *)
(* identifiers (not starting with p or O, which have their own dispatch): the whole run of
   XID_Continue characters is one Ident token, whatever follows *)
Theorem ident_munch c body rest :
  is_id_start c = true -> cp c <> 112 -> cp c <> 79 -> cp c <> 47 -> is_whitespace c = false ->
  Forall (fun x => xc x = true) body ->
  (match rest with [] => True | x :: _ => xc x = false /\ is_emoji_nonascii x = false end) ->
  advance_token (c :: body ++ rest) = Some (Ident, rest).
Proof.
  intros Hs H1 H2 H3 Hw Hb Hr. cbn [advance_token].
  apply N.eqb_neq in H1, H2, H3. rewrite H1, H2, H3, Hw, Hs.
  unfold ident_or_unknown_prefix.
  rewrite (eat_while_all is_id_continue body rest); auto.
  - destruct rest as [|x r]; cbn; auto. destruct Hr as [_ Hr]. unfold firstc. rewrite Hr. auto.
  - destruct rest; auto. tauto.
Qed.

(* whitespace runs *)
Theorem whitespace_munch c body rest :
  is_whitespace c = true -> Forall (fun x => is_whitespace x = true) body ->
  (match rest with [] => True | x :: _ => is_whitespace x = false end) ->
  advance_token (c :: body ++ rest) = Some (Whitespace, rest).
Proof.
  intros Hw Hb Hr. cbn [advance_token].
  assert (cp c =? 47 = false) as H47.
  { apply N.eqb_neq. intros E. unfold is_whitespace in Hw. rewrite E in Hw. vm_compute in Hw. discriminate. }
  rewrite H47, Hw. rewrite (eat_while_all is_whitespace body rest); auto.
Qed.

(* line comments run to the end of the line *)
Theorem line_comment_munch body rest :
  Forall (fun x => is x 10 = false) body ->
  (match rest with [] => True | x :: _ => is x 10 = true end) ->
  advance_token (plain 47 :: plain 47 :: body ++ rest) = Some (LineComment, rest).
Proof.
  intros Hb Hr. cbn -[eat_while]. cbn [tl].
  rewrite (eat_while_all not_newline body rest); auto.
  - eapply Forall_impl; [|exact Hb]. intros a Ha. unfold not_newline. rewrite Ha. auto.
  - destruct rest; auto. unfold not_newline. rewrite Hr. auto.
Qed.

(* single-character punctuation that no other rule can extend *)
Definition solo_punct : list (N * TokenKind) :=
  [(59, Semi); (44, Comma); (40, OpenParen); (41, CloseParen); (123, OpenBrace); (125, CloseBrace);
   (91, OpenBracket); (93, CloseBracket); (126, Tilde); (63, Question); (58, Colon); (61, Eq);
   (33, Bang); (60, Lt); (62, Gt); (45, Minus); (38, And); (124, Or); (43, Plus); (42, Star);
   (94, Caret); (37, Percent)].
Theorem punct_solo : forall k tk rest, In (k, tk) solo_punct ->
  advance_token (plain k :: rest) = Some (tk, rest).
Proof.
  intros k tk rest H. cbn in H.
  repeat (destruct H as [H|H]; [inversion H; subst; reflexivity|]). destruct H.
Qed.
