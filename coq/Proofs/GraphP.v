(* C06: structure of the translation (order, blocks, includes in place, annotations). *)
From Coq Require Import NArith List Bool Lia.
From OQ3 Require Import Model.Graph.
Import ListNotations.
Open Scope N_scope.

Section GnInd.
  Variable P : gn -> Prop.
  Hypothesis H : forall l ks, Forall P ks -> P (GN l ks).
  Fixpoint gn_ind2 (g : gn) : P g :=
    match g with
    | GN l ks => H l ks ((fix go (x : list gn) : Forall P x :=
                            match x with [] => Forall_nil P | k :: r => Forall_cons k (gn_ind2 k) (go r) end) ks)
    end.
End GnInd.

Lemma ann_free_no_anns : forall s, ann_free s = true -> anns_of s = [].
Proof.
  apply (gn_ind2 (fun s => ann_free s = true -> anns_of s = [])).
  intros l ks IH HF. cbn [ann_free] in HF. apply andb_true_iff in HF. destruct HF as [HL HK].
  cbn [anns_of]. apply negb_true_iff in HL. rewrite HL.
  destruct ((l =? L_INC_FILE) || (l =? L_LEAF)); auto.
  induction ks as [|k r IHr]; auto. cbn [flat_map forallb] in *.
  apply andb_true_iff in HK. destruct HK as [Hk Hr]. inversion IH; subst.
  rewrite (H1 Hk), IHr; auto.
Qed.

(* the statement loops of blocks and of the file agree *)
Lemma tr_top_stmt_include pend ks : tr_top_stmt pend (GN L_INC_FILE ks) = tr_top pend ks.
Proof. cbn [tr_top_stmt]. rewrite N.eqb_refl. revert pend. induction ks as [|y r IH]; intros pend; cbn; auto. Qed.

Lemma tr_top_stmt_plain pend x :
  is_inc_file x = false ->
  tr_top_stmt pend x =
  match tr_stmt x with
  | Some g => ([wrap g (pend ++ anns_of x)], [])
  | None => ([], pend ++ anns_of x)
  end.
Proof. destruct x as [l ks]. unfold is_inc_file; cbn [label_of tr_top_stmt]. intros H; rewrite H. reflexivity. Qed.

Lemma tr_top_app a : forall b pend,
  tr_top pend (a ++ b) =
  let '(o1, p1) := tr_top pend a in let '(o2, p2) := tr_top p1 b in (o1 ++ o2, p2).
Proof.
  induction a as [|x a IH]; intros b pend; cbn [app tr_top].
  - destruct (tr_top pend b); reflexivity.
  - destruct (tr_top_stmt pend x) as [o1 p1]. rewrite IH.
    destruct (tr_top p1 a) as [o2 p2]. destruct (tr_top p2 b) as [o3 p3]. rewrite app_assoc. reflexivity.
Qed.

(* includes are expanded in place: the graph is the one of the program with the included
   statements written at the include site *)
Theorem include_in_place pre inc post pend :
  tr_top pend (pre ++ GN L_INC_FILE inc :: post) = tr_top pend (pre ++ inc ++ post).
Proof.
  rewrite !tr_top_app. destruct (tr_top pend pre) as [o1 p1].
  cbn [tr_top]. rewrite tr_top_stmt_include. rewrite tr_top_app.
  destruct (tr_top p1 inc) as [o2 p2]. destruct (tr_top p2 post) as [o3 p3]. reflexivity.
Qed.

(* without annotations and file includes: the program's statements are the translations of the
   source statements, in source order; only the version line and the standard-library include
   produce nothing *)
Theorem order_preserved ss :
  Forall (fun s => ann_free s = true /\ is_inc_file s = false) ss ->
  tr_top [] ss = (tr_list ss, []).
Proof.
  induction 1 as [|x r [HA HI] _ IH]; cbn [tr_top tr_list]; auto.
  rewrite (tr_top_stmt_plain [] x HI), (ann_free_no_anns x HA). cbn [app].
  destruct (tr_stmt x) as [g|]; rewrite IH; reflexivity.
Qed.

(* annotations attach to the statement that follows them *)
Theorem annotations_attach anns s g rest pend :
  Forall (fun a => exists t, a = GN L_ANN [t]) anns ->
  is_inc_file s = false -> ann_free s = true -> tr_stmt s = Some g ->
  tr_top pend (anns ++ s :: rest) =
  (wrap g (pend ++ flat_map kids_of anns) :: fst (tr_top [] rest), snd (tr_top [] rest)).
Proof.
  intros HA HI HF HS. revert pend. induction HA as [|a r [t Ht] _ IH]; intros pend.
  - cbn [app tr_top flat_map]. rewrite (tr_top_stmt_plain pend s HI), HS, (ann_free_no_anns s HF).
    rewrite !app_nil_r. destruct (tr_top [] rest); reflexivity.
  - subst a. cbn [app tr_top]. cbn [tr_top_stmt]. change (L_ANN =? L_INC_FILE) with false. cbn iota.
    change (tr_stmt (GN L_ANN [t])) with (@None gn). cbn [anns_of]. rewrite N.eqb_refl.
    rewrite IH. cbn [flat_map kids_of]. rewrite <- !app_assoc. reflexivity.
Qed.

(* roles: branches, bodies, cases and default hold exactly the translations of their statements *)
Lemma if_roles c t e :
  tr_stmt (GN L_IF [c; GN L_BLOCK t; GN L_BLOCK e]) =
  Some (GN O_IF [c; GN O_BLOCK (tr_list t); some (GN O_BLOCK (tr_list e))]).
Proof. reflexivity. Qed.
Lemma if_no_else c t :
  tr_stmt (GN L_IF [c; GN L_BLOCK t]) = Some (GN O_IF [c; GN O_BLOCK (tr_list t); none]).
Proof. reflexivity. Qed.
Lemma if_single_statement_bodies c x y gx gy :
  tr_stmt x = Some gx -> tr_stmt y = Some gy ->
  tr_stmt (GN L_IF [c; GN L_SINGLE [x]; GN L_SINGLE [y]]) =
  Some (GN O_IF [c; GN O_BLOCK [gx]; some (GN O_BLOCK [gy])]).
Proof.
  intros Hx Hy.
  assert (is_empty_single (GN L_SINGLE [y]) = false) as He.
  { destruct y as [l2 k2]. cbn [is_empty_single]. destruct (N.eqb_spec l2 L_EMPTY) as [->|Hne]; [|reflexivity].
    cbn in Hy. discriminate. }
  cbn. cbn in Hx, Hy, He. rewrite Hx, Hy, ?He. reflexivity.
Qed.
Lemma while_roles c b : tr_stmt (GN L_WHILE [c; GN L_BLOCK b]) = Some (GN O_WHILE [c; GN O_BLOCK (tr_list b)]).
Proof. reflexivity. Qed.
Lemma for_roles v it b : tr_stmt (GN L_FOR [v; it; GN L_BLOCK b]) = Some (GN O_FOR [v; it; GN O_BLOCK (tr_list b)]).
Proof. reflexivity. Qed.
Lemma gatedef_roles n ps qs l b :
  tr_stmt (GN L_GATEDEF [n; ps; qs; GN l b]) = Some (GN O_GATEDEF [n; ps; qs; GN O_BLOCK (tr_list b)]).
Proof. reflexivity. Qed.
Lemma def_roles n ps r l b :
  tr_stmt (GN L_DEF [n; ps; r; GN l b]) = Some (GN O_DEF [n; ps; GN O_BLOCK (tr_list b); r]).
Proof. reflexivity. Qed.
Lemma switch_roles c v1 b1 v2 b2 d l0 l1 l2 l3 l4 l5 :
  tr_stmt (GN L_SWITCH [c; GN l0 [GN l1 [v1; GN l2 b1]; GN l3 [v2; GN l4 b2]]; GN l5 d]) =
  Some (GN O_SWITCH [c; GN O_STMTS [GN O_CASE [v1; GN O_STMTS (tr_list b1)]; GN O_CASE [v2; GN O_STMTS (tr_list b2)]];
                     some (GN O_STMTS (tr_list d))]).
Proof. reflexivity. Qed.

(* blocks keep order and drop nothing but annotations, the version line and includes *)
Lemma tr_list_app a b : tr_list (a ++ b) = tr_list a ++ tr_list b.
Proof. induction a as [|x a IH]; cbn [app tr_list]; auto. destruct (tr_stmt x); cbn; rewrite IH; auto. Qed.

(* known finding: an annotation inside a block is attached to the enclosing top-level statement,
   not to the statement that follows it in the block *)
Lemma annotation_in_block_refuted :
  let a := GN 1000 [] in let x := GN L_LEAF [GN 1001 []] in let c := GN 1002 [] in
  translate [GN L_IF [c; GN L_BLOCK [GN L_ANN [a]; x]]] =
    [GN O_ANNOTATED [GN O_IF [c; GN O_BLOCK [GN O_LEAF [GN 1001 []]]; none]; GN O_ANNS [a]]].
Proof. vm_compute. reflexivity. Qed.

(* operator table *)
Lemma asg_binop_same o : o <> 18 -> asg_binop o = o.
Proof. intros H. unfold asg_binop. destruct (N.eqb_spec o 18); [contradiction|reflexivity]. Qed.
Lemma asg_binop_power_refuted : asg_binop 18 = 19.
Proof. reflexivity. Qed.
