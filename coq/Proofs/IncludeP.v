(* C18: ordered path search. *)
From Coq Require Import NArith List Bool.
From OQ3 Require Import Model.Include.
Import ListNotations.
Open Scope N_scope.

Lemma find_first {A} (f : A -> bool) l x :
  find f l = Some x <-> exists l1 l2, l = l1 ++ x :: l2 /\ f x = true /\ forall y, In y l1 -> f y = false.
Proof.
  split.
  - induction l as [|a l IH]; cbn; [discriminate|]. destruct (f a) eqn:E.
    + intros H; inversion H; subst. exists [], l. repeat split; auto. intros y [].
    + intros H. destruct (IH H) as [l1 [l2 [H1 [H2 H3]]]]. exists (a :: l1), l2. subst.
      repeat split; auto. intros y [Hy|Hy]; subst; auto.
  - intros [l1 [l2 [H1 [H2 H3]]]]. subst. induction l1 as [|a l1 IH]; cbn.
    + rewrite H2. reflexivity.
    + rewrite (H3 a (or_introl eq_refl)). apply IH. intros y Hy. apply H3. right. exact Hy.
Qed.
Lemma find_none {A} (f : A -> bool) l : find f l = None <-> forall y, In y l -> f y = false.
Proof.
  split.
  - intros H y Hy. apply (find_none f l H y Hy).
  - induction l as [|a l IH]; cbn; auto. intros H. rewrite (H a (or_introl eq_refl)). apply IH.
    intros y Hy. apply H. right. exact Hy.
Qed.

Definition dirs_of (search env : option (list N)) : list N :=
  match search with Some l => l | None => match env with Some l => l | None => [] end end.

(* an absolute path is the file itself, whatever the lists say *)
Theorem absolute_is_itself fs search env d f : resolve fs search env (PAbs d f) = RFile d f.
Proof. reflexivity. Qed.

(* a relative path resolves to the first directory of the list in force that has the file *)
Theorem relative_first_match fs search env f d :
  resolve fs search env (PRel f) = RFile d f <->
  exists l1 l2, dirs_of search env = l1 ++ d :: l2 /\ has fs d f = true /\
                forall d', In d' l1 -> has fs d' f = false.
Proof.
  unfold resolve. fold (dirs_of search env).
  destruct (find (fun d0 => has fs d0 f) (dirs_of search env)) as [d0|] eqn:E.
  - split.
    + intros H. inversion H; subst. apply find_first in E. exact E.
    + intros H. assert (find (fun d0 => has fs d0 f) (dirs_of search env) = Some d) as E2 by (apply find_first; exact H).
      rewrite E in E2. inversion E2; subst. reflexivity.
  - split; [discriminate|]. intros [l1 [l2 [H1 [H2 H3]]]].
    rewrite find_none in E. rewrite (E d) in H2; [discriminate|]. rewrite H1. apply in_or_app. right. left. reflexivity.
Qed.

(* found in no directory of the list in force: the path as written *)
Theorem relative_no_match fs search env f :
  resolve fs search env (PRel f) = RAsGiven f <-> forall d, In d (dirs_of search env) -> has fs d f = false.
Proof.
  unfold resolve. fold (dirs_of search env).
  destruct (find (fun d0 => has fs d0 f) (dirs_of search env)) as [d0|] eqn:E.
  - split; [discriminate|]. intros H. apply find_some in E. destruct E as [E1 E2]. rewrite (H d0 E1) in E2. discriminate.
  - split; auto. intros _. apply find_none. exact E.
Qed.

(* the environment list is consulted only when no search list is given *)
Theorem search_list_shadows_environment fs l env1 env2 p :
  resolve fs (Some l) env1 p = resolve fs (Some l) env2 p.
Proof. destruct p; reflexivity. Qed.

(* expansion: an include is replaced, in place, by the expansion of the resolved file; the
   standard library include contributes nothing; an unreadable include is one event *)
Theorem expand_app fs search env content fuel a b :
  expand fs search env content fuel (a ++ b) =
  expand fs search env content fuel a ++ expand fs search env content fuel b.
Proof.
  destruct fuel as [|fuel].
  - induction a as [|x a IH]; [reflexivity|].
    destruct x as [t|p|]; cbn [app expand] in *; rewrite IH; auto. rewrite app_assoc. reflexivity.
  - induction a as [|x a IH]; [reflexivity|].
    destruct x as [t|p|]; cbn [app expand] in *; rewrite IH; auto. rewrite app_assoc. reflexivity.
Qed.
Theorem expand_include_in_place fs search env content fuel pre p post d f :
  resolve fs search env p = RFile d f -> has fs d f = true ->
  expand fs search env content (S fuel) (pre ++ IInc p :: post) =
  expand fs search env content (S fuel) pre ++ expand fs search env content fuel (content d f) ++
  expand fs search env content (S fuel) post.
Proof.
  intros HR HH. rewrite expand_app. cbn [expand]. rewrite HR. cbn [readable]. rewrite HH. reflexivity.
Qed.
Theorem expand_unreadable fs search env content fuel pre p post :
  readable fs (resolve fs search env p) = false ->
  expand fs search env content fuel (pre ++ IInc p :: post) =
  expand fs search env content fuel pre ++ EUnreadable (resolve fs search env p) :: expand fs search env content fuel post.
Proof. intros H. rewrite expand_app. destruct fuel; cbn [expand]; rewrite H; reflexivity. Qed.
