(* Lemmas about Model/Types.v used by Props/C20.v (and C08). *)
From Coq Require Import NArith List Bool Lia.
From OQ3 Require Import Model.Types Model.TypesSpec.
Import ListNotations.
Open Scope N_scope.

(* ---------- basic equalities ---------- *)

Lemma width_eqb_refl w : width_eqb w w = true.
Proof. destruct w; cbn; auto using N.eqb_refl. Qed.
Lemma width_eqb_eq a b : width_eqb a b = true <-> a = b.
Proof. destruct a, b; cbn; split; intros H; try discriminate; auto.
  - apply N.eqb_eq in H; subst; auto.
  - inversion H; apply N.eqb_refl. Qed.
Lemma dims_eqb_eq a b : dims_eqb a b = true <-> a = b.
Proof.
  destruct a, b; cbn; split; intros H; try discriminate;
    rewrite ?andb_true_iff, ?N.eqb_eq in *;
    try (inversion H; subst; auto; fail); try (intuition congruence).
  all: inversion H; subst; auto.
Qed.
Lemma dims_eqb_refl d : dims_eqb d d = true.
Proof. apply dims_eqb_eq; auto. Qed.

Lemma ty_eqb_eq : forall a b, ty_eqb a b = true <-> a = b.
Proof.
  induction a; destruct b; cbn; split; intros H; try discriminate; auto;
    rewrite ?andb_true_iff, ?width_eqb_eq, ?dims_eqb_eq, ?N.eqb_eq, ?eqb_true_iff in *;
    try (destruct H; subst; auto; fail);
    try (inversion H; subst; auto; fail).
  - destruct H as [H1 H2]. apply IHa in H2. subst; auto.
  - inversion H; subst. split; auto. apply IHa; auto.
Qed.
Lemma ty_eqb_refl a : ty_eqb a a = true.
Proof. apply ty_eqb_eq; auto. Qed.
Lemma ty_eqb_sym a b : ty_eqb a b = ty_eqb b a.
Proof.
  destruct (ty_eqb a b) eqn:E.
  - apply ty_eqb_eq in E; subst. symmetry; apply ty_eqb_refl.
  - destruct (ty_eqb b a) eqn:E2; auto. apply ty_eqb_eq in E2; subst.
    rewrite ty_eqb_refl in E; discriminate.
Qed.

Lemma width_eqb_sym a b : width_eqb a b = width_eqb b a.
Proof. destruct a, b; cbn; auto using N.eqb_sym. Qed.
Lemma dims_eqb_sym a b : dims_eqb a b = dims_eqb b a.
Proof. destruct a, b; cbn; auto; rewrite ?(N.eqb_sym a), ?(N.eqb_sym a0), ?(N.eqb_sym b), ?(N.eqb_sym c); auto. Qed.

(* equal_up_to_constness characterised by erasing const flags *)
Definition erase (t : Ty) : Ty :=
  match t with
  | Bit _ => Bit false | Int w _ => Int w false | UInt w _ => UInt w false
  | Float w _ => Float w false | Angle w _ => Angle w false
  | Complex w _ => Complex w false | Bool _ => Bool false
  | Duration _ => Duration false | Stretch _ => Stretch false
  | BitArray d _ => BitArray d false
  | t => t
  end.

Lemma eutc_erase a b : equal_up_to_constness a b = true <-> erase a = erase b.
Proof.
  unfold equal_up_to_constness.
  destruct (ty_eqb a b) eqn:E.
  - apply ty_eqb_eq in E; subst; split; auto.
  - assert (a <> b) as N0 by (intro; subst; rewrite ty_eqb_refl in E; discriminate).
    clear E.
    destruct a, b; cbn; split; intros H; try discriminate; auto;
      rewrite ?width_eqb_eq, ?dims_eqb_eq in *; subst; auto;
      try (inversion H; subst; auto; fail);
      try (exfalso; apply N0; congruence).
Qed.

Lemma eutc_refl a : equal_up_to_constness a a = true.
Proof. apply eutc_erase; auto. Qed.
Lemma eutc_sym a b : equal_up_to_constness a b = equal_up_to_constness b a.
Proof.
  destruct (equal_up_to_constness a b) eqn:E1, (equal_up_to_constness b a) eqn:E2; auto.
  - apply eutc_erase in E1. symmetry in E1. apply eutc_erase in E1. congruence.
  - apply eutc_erase in E2. symmetry in E2. apply eutc_erase in E2. congruence.
Qed.
Lemma eutc_trans a b c :
  equal_up_to_constness a b = true -> equal_up_to_constness b c = true ->
  equal_up_to_constness a c = true.
Proof. rewrite !eutc_erase; congruence. Qed.

Lemma erase_level a : level (erase a) = level a.
Proof. destruct a; auto. Qed.
Lemma eutc_level a b : equal_up_to_constness a b = true -> level a = level b.
Proof. intros H; apply eutc_erase in H. rewrite <- (erase_level a), <- (erase_level b); congruence. Qed.
Lemma erase_base a : base_type (erase a) = base_type a.
Proof. destruct a; auto. Qed.
Lemma eutc_base a b : equal_up_to_constness a b = true -> equal_base_type a b = true.
Proof.
  intros H; apply eutc_erase in H. unfold equal_base_type.
  rewrite <- (erase_base a), <- (erase_base b), H. unfold base_eqb; apply N.eqb_refl.
Qed.

Lemma base_eqb_refl b : base_eqb b b = true.
Proof. unfold base_eqb; apply N.eqb_refl. Qed.
Lemma base_eqb_sym a b : base_eqb a b = base_eqb b a.
Proof. unfold base_eqb; apply N.eqb_sym. Qed.
Lemma base_index_inj a b : base_index a = base_index b -> a = b.
Proof. destruct a, b; cbn; intros H; try discriminate; auto. Qed.
Lemma base_eqb_eq a b : base_eqb a b = true <-> a = b.
Proof. unfold base_eqb; rewrite N.eqb_eq; split; [apply base_index_inj|congruence]. Qed.

(* equal_base_type is an equivalence *)
Lemma ebt_refl a : equal_base_type a a = true.
Proof. apply base_eqb_refl. Qed.
Lemma ebt_sym a b : equal_base_type a b = equal_base_type b a.
Proof. apply base_eqb_sym. Qed.
Lemma ebt_trans a b c : equal_base_type a b = true -> equal_base_type b c = true -> equal_base_type a c = true.
Proof. unfold equal_base_type; rewrite !base_eqb_eq; congruence. Qed.

(* ---------- promotion laws ---------- *)

Lemma promote_idempotent a : promote_types a a = a.
Proof. unfold promote_types; rewrite eutc_refl; auto. Qed.

Lemma max_comm_opt a b : promote_width a b = promote_width b a.
Proof. unfold promote_width; destruct (width a), (width b); auto. f_equal; lia. Qed.

Lemma promote_symmetric_upto_const a b :
  equal_up_to_constness (promote_types a b) (promote_types b a) = true.
Proof.
  unfold promote_types. rewrite (eutc_sym b a).
  destruct (equal_up_to_constness a b) eqn:E; auto.
  unfold promote_type_width, promote_constness.
  rewrite (max_comm_opt b a), (andb_comm (is_const b)).
  destruct a, b; cbn [negb is_void promote_base_type]; apply eutc_refl.
Qed.

Lemma width_le_refl w : width_le w w = true.
Proof. destruct w; cbn; auto. apply N.leb_refl. Qed.

Lemma ty_le_refl a : ty_le a a = true.
Proof. unfold ty_le; rewrite eutc_refl; auto. Qed.

Lemma promote_upper_bound a b :
  is_void (promote_types a b) = false ->
  ty_le a (promote_types a b) = true /\ ty_le b (promote_types a b) = true.
Proof.
  unfold promote_types.
  destruct (equal_up_to_constness a b) eqn:E.
  - intros _. split; [apply ty_le_refl|]. unfold ty_le. rewrite eutc_sym, E; auto.
  - clear E. destruct a, b; cbn; try discriminate; intros _; split; unfold ty_le, equal_up_to_constness; cbn;
      repeat match goal with w : option N |- _ => destruct w end; cbn;
      rewrite ?orb_true_r; try reflexivity.
    all: try (apply orb_true_iff; right; apply N.leb_le; lia).
Qed.

Lemma promote_const_iff_both a b :
  k_const_eq a b = false -> k_const_cross a b = false ->
  is_void (promote_types a b) = false ->
  is_const (promote_types a b) = is_const a && is_const b.
Proof.
  unfold promote_types, k_const_eq.
  destruct (equal_up_to_constness a b) eqn:E.
  - cbn. intros H _ _. destruct (is_const a) eqn:Ca, (is_const b) eqn:Cb; cbn in *; auto; try discriminate.
    (* a non-const, b const or not: result a non-const: rhs false *)
  - intros _. destruct a, b; cbn; try discriminate; auto;
      intros H _; destruct c, c0; cbn in *; auto; discriminate.
Qed.

Lemma numeric_le_complex a : numeric a = true -> ty_le a (Complex None false) = true.
Proof.
  destruct a; cbn; try discriminate; intros _; unfold ty_le; cbn; auto.
  destruct w, c; cbn; auto.
Qed.

Lemma ty_le_numeric_r a c : ty_le a c = true -> numeric c = true -> numeric a = true.
Proof.
  unfold ty_le, numeric. intros H Hc.
  apply orb_true_iff in H as [H|H].
  - rewrite (eutc_level _ _ H); auto.
  - destruct (level a); auto; discriminate.
Qed.
Lemma ty_le_numeric_l a c : ty_le a c = true -> equal_up_to_constness a c = false -> numeric a = true /\ numeric c = true.
Proof.
  unfold ty_le, numeric. intros H E. rewrite E in H. cbn in H.
  destruct (level a), (level c); try discriminate; auto.
Qed.

Lemma has_bound_spec a b : has_bound a b = true <-> exists c, ub a b c = true.
Proof.
  unfold has_bound, ub. split.
  - intros H. apply orb_true_iff in H as [H|H].
    + exists a. rewrite ty_le_refl. cbn. unfold ty_le. rewrite eutc_sym, H; auto.
    + apply andb_true_iff in H as [Ha Hb]. exists (Complex None false).
      rewrite !numeric_le_complex; auto.
  - intros [c H]. apply andb_true_iff in H as [Ha Hb].
    destruct (equal_up_to_constness a c) eqn:Ea, (equal_up_to_constness b c) eqn:Eb.
    + rewrite (eutc_trans a c b); auto. rewrite eutc_sym; auto.
    + destruct (ty_le_numeric_l _ _ Hb Eb) as [Nb Nc].
      rewrite (ty_le_numeric_r _ _ Ha Nc), Nb. apply orb_true_r.
    + destruct (ty_le_numeric_l _ _ Ha Ea) as [Na Nc].
      rewrite (ty_le_numeric_r _ _ Hb Nc), Na. apply orb_true_r.
    + destruct (ty_le_numeric_l _ _ Ha Ea) as [Na _].
      destruct (ty_le_numeric_l _ _ Hb Eb) as [Nb _]. rewrite Na, Nb. apply orb_true_r.
Qed.

Lemma promote_void_iff_no_bound_b a b :
  is_void a && is_void b = false -> k_complex a b = false -> k_sign a b = false ->
  is_void (promote_types a b) = negb (has_bound a b).
Proof.
  unfold promote_types, has_bound.
  destruct (equal_up_to_constness a b) eqn:E.
  - cbn. intros H _ _. destruct a; auto. destruct b; cbn in *; try discriminate.
  - intros _. destruct a, b; cbn; auto; try discriminate.
    cbn in E. intros H. unfold equal_up_to_constness in E. cbn in E.
    destruct (width_eqb w w0); cbn in *; try discriminate.
    destruct (Bool.eqb c c0); discriminate.
Qed.

Lemma promote_void_iff_no_bound a b :
  is_void a && is_void b = false -> k_complex a b = false -> k_sign a b = false ->
  (is_void (promote_types a b) = true <-> ~ exists c, ub a b c = true).
Proof.
  intros H1 H2 H3. rewrite (promote_void_iff_no_bound_b a b H1 H2 H3).
  rewrite <- has_bound_spec. destruct (has_bound a b); cbn; split; intros H; auto;
    try discriminate; exfalso; apply H; reflexivity.
Qed.

Lemma can_cast_literal_superset t l :
  is_void (promote_types t l) = false ->
  equal_up_to_constness (promote_types t l) t = true -> can_cast_literal t l = true.
Proof.
  unfold promote_types.
  destruct (equal_up_to_constness t l) eqn:E.
  - intros _ _. unfold can_cast_literal. rewrite (eutc_base _ _ E); auto.
  - destruct t, l; cbn; auto; unfold equal_up_to_constness; cbn; try discriminate.
Qed.

Lemma can_cast_literal_never_downward t l lt ll :
  level t = Some lt -> level l = Some ll -> lt < ll -> can_cast_literal t l = false.
Proof.
  destruct t, l; cbn; try discriminate; intros H1 H2 H; inversion H1; inversion H2; subst; auto; lia.
Qed.

(* ---------- implicit_cast_type (asg.rs) ---------- *)
Lemma implicit_cast_is_promotion_or_float op a b :
  implicit_cast_type op a b = promote_types a b \/
  (op = ODiv /\ implicit_cast_type op a b = Float None false).
Proof. destruct op; cbn; auto. destruct (is_float_ty a || is_float_ty b); auto. Qed.

(* ---------- the executable oracle of C20 flags nothing on the model ---------- *)
Lemma downward_spec t l : downward t l = true ->
  exists lt ll, level t = Some lt /\ level l = Some ll /\ lt < ll.
Proof.
  unfold downward. destruct (level t) as [lt|]; [|discriminate].
  destruct (level l) as [ll|]; [|discriminate]. intros H. exists lt, ll. repeat split; auto.
  apply N.ltb_lt; auto.
Qed.

Section Laws.
Variables a b : Ty.
Let p := promote_types a b.
Let ccl := can_cast_literal a b.

Lemma law3 : is_void p || (ty_le a p && ty_le b p) = true.
Proof.
  destruct (is_void p) eqn:EV; auto. destruct (promote_upper_bound a b EV) as [U1 U2].
  subst p. rewrite U1, U2; auto.
Qed.
Lemma law4 : is_void p || (k_const_eq a b || k_const_cross a b
                    || Bool.eqb (is_const p) (is_const a && is_const b)) = true.
Proof.
  destruct (is_void p) eqn:EV; auto.
  destruct (k_const_eq a b) eqn:E1; auto. destruct (k_const_cross a b) eqn:E2; auto.
  subst p. rewrite (promote_const_iff_both a b E1 E2 EV). cbn. apply eqb_reflx.
Qed.
Lemma law5 : (is_void a && is_void b) || k_complex a b || k_sign a b
      || Bool.eqb (is_void p) (negb (has_bound a b)) = true.
Proof.
  destruct (is_void a && is_void b) eqn:E1; auto.
  destruct (k_complex a b) eqn:E2; auto. destruct (k_sign a b) eqn:E3; auto.
  subst p. rewrite (promote_void_iff_no_bound_b a b E1 E2 E3). cbn. apply eqb_reflx.
Qed.
Lemma law6 : is_void p || negb (equal_up_to_constness p a) || ccl = true.
Proof.
  destruct (is_void p) eqn:EV; auto.
  destruct (equal_up_to_constness p a) eqn:EQ; auto.
  subst p ccl. rewrite (can_cast_literal_superset a b EV EQ); auto.
Qed.
Lemma law7 : downward a b && ccl = false.
Proof.
  destruct (downward a b) eqn:D; auto. cbn.
  destruct (downward_spec _ _ D) as [lt [ll [H1 [H2 H3]]]].
  apply (can_cast_literal_never_downward _ _ _ _ H1 H2 H3).
Qed.
End Laws.

Lemma c20_laws_model a b :
  c20_laws a b (promote_types a b) (promote_types b a) (promote_types a a) (can_cast_literal a b) = [].
Proof.
  unfold c20_laws.
  rewrite promote_symmetric_upto_const, promote_idempotent, ty_eqb_refl.
  rewrite law3, law4, law5, law6, law7. reflexivity.
Qed.
