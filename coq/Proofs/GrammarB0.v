(* Theorem B, first part, for the grammar: no marker is completed, abandoned, preceded or
   extended unless it is live / valid, every marker a function starts is completed or abandoned
   by it, and the parser ends with no live marker (no drop bomb).  Token tests are irrelevant
   here: every branch is followed. *)
From Coq Require Import NArith Arith List Bool Lia.
From OQ3 Require Import gen.Kinds Model.Parser Model.Grammar Proofs.MarkerB.
Import ListNotations.
Local Open Scope nat_scope.

(* friendlier forms of the primitive rules *)
Lemma WB_start' (Q : marker -> pst -> Prop) own Lb b0 V W s :
  St [] own Lb b0 V W s ->
  (forall m s', St [] (m :: own) Lb b0 V W s' -> m = nev s -> nev s' = S m ->
                (forall i, Valid s i -> Valid s' i) -> Q m s') ->
  WB start Q s.
Proof. intros HS H. eapply WB_start; [exact HS|]. intros s' H1 H2 H3. apply H; auto. Qed.
Lemma WB_precede' cm (Q : marker -> pst -> Prop) own Lb b0 V W s :
  St [] own Lb b0 V W s -> Valid s (fst cm) ->
  (forall m s', St [m] own Lb b0 V W s' -> m = nev s -> nev s' = S m -> fst cm < m ->
                (forall i, Valid s i -> Valid s' i) -> Q m s') ->
  WB (precede cm) Q s.
Proof.
  intros HS HV H. eapply WB_precede; [exact HS|exact HV|]. intros s' H1 H2 H3. apply H; auto.
  destruct HV as [[k [fp Hs]] _]. apply slot_some_lt in Hs. exact Hs.
Qed.

Lemma WB_loop_inv inp (body : M bool) (Iv : pst -> Prop) (Q : unit -> pst -> Prop) s :
  Iv s -> (forall s1, Iv s1 -> WB body (fun _ s2 => Iv s2) s1) -> (forall s2, Iv s2 -> Q tt s2) ->
  WB (loop inp body) Q s.
Proof.
  intros HI Hb Hq. apply WB_loop with (Iv := Iv); auto. intros s1 H1.
  eapply WB_conseq; [apply Hb; exact H1|]. intros [] s2 H2; auto.
Qed.
Lemma WB_loopS_inv {A B} inp (body : A -> M (A + B)) (Iv : A -> pst -> Prop) (J : B -> pst -> Prop)
      (Q : B -> pst -> Prop) a s :
  Iv a s ->
  (forall a s1, Iv a s1 -> WB (body a) (fun r s2 => match r with inl a' => Iv a' s2 | inr b => J b s2 end) s1) ->
  (forall b s2, J b s2 -> Q b s2) ->
  WB (loopS inp body a) Q s.
Proof.
  intros HI Hb Hq. apply WB_loopS with (Iv := Iv); auto. intros a1 s1 H1.
  eapply WB_conseq; [apply Hb; exact H1|]. intros [a'|b] s2 H2; auto.
Qed.

Lemma pure_current_op inp : Pure (current_op inp).
Proof. intros s. apply appends_refl. Qed.
Lemma pure_get : Pure get.
Proof. intros s. apply appends_refl. Qed.
Lemma WB_join {A B} (m : M A) (f : A -> M B) (J : pst -> Prop) (Q : B -> pst -> Prop) s :
  WB m (fun _ s1 => J s1) s -> (forall a s1, J s1 -> WB (f a) Q s1) -> WB (bind m f) Q s.
Proof. intros Hm Hf. apply WB_bind. eapply WB_conseq; [exact Hm|]. intros a s1 HJ. apply Hf; exact HJ. Qed.

Definition SpecA {A} (f : M A) (Res : pst -> A -> pst -> Prop) : Prop :=
  forall s, LiveOK s -> NoDup (live s) -> WB f (fun r s' => Frame s s' /\ Res s r s') s.
Definition ResU {A} : pst -> A -> pst -> Prop := fun _ _ _ => True.
Definition ResCm (s : pst) (cm : cmarker) (s' : pst) : Prop := Valid s' (fst cm) /\ nev s <= fst cm.
Definition ResOCm (s : pst) (r : option cmarker) (s' : pst) : Prop :=
  match r with Some cm => ResCm s cm s' | None => True end.
Definition ResOCmB (s : pst) (r : option (cmarker * bool)) (s' : pst) : Prop :=
  match r with Some (cm, _) => ResCm s cm s' | None => True end.
Definition ResCmB (s : pst) (r : cmarker * bool) (s' : pst) : Prop := ResCm s (fst r) s'.
(* consumes the newest live marker *)
Definition SpecC {A} (f : marker -> M A) (Res : pst -> A -> pst -> Prop) : Prop :=
  forall s m L, LiveOK s -> NoDup (live s) -> live s = m :: L -> NT s m ->
  WB (f m) (fun r s' => FrameC m s s' /\ Res s r s') s.
(* takes a completed marker *)
Definition SpecL {A} (f : cmarker -> M A) (Res : cmarker -> pst -> A -> pst -> Prop) : Prop :=
  forall s lhs, LiveOK s -> NoDup (live s) -> Valid s (fst lhs) ->
  WB (f lhs) (fun r s' => Frame s s' /\ Res lhs s r s') s.
Definition ResLCmB (lhs : cmarker) (s : pst) (r : cmarker * bool) (s' : pst) : Prop :=
  Valid s' (fst (fst r)) /\ fst lhs <= fst (fst r).
Definition ResLCm (lhs : cmarker) (s : pst) (cm : cmarker) (s' : pst) : Prop :=
  Valid s' (fst cm) /\ fst lhs <= fst cm.

Record GoodB (R : G) : Prop := {
  gb_expr_none : forall ps bp, SpecA (g_expr_bp R None ps bp) ResOCmB;
  gb_expr_some : forall ps bp, SpecC (fun m => g_expr_bp R (Some m) ps bp)
                   (fun _ r s' => match r with Some (cm, _) => Valid s' (fst cm) | None => True end);
  gb_stmt : SpecA (g_stmt R) ResU;
  gb_type_spec : SpecA (g_type_spec R) ResU;
  gb_non_array_type_spec : SpecA (g_non_array_type_spec R) ResU;
  gb_if_stmt : SpecC (g_if_stmt R) ResU;
  gb_param_list : forall fl, SpecA (g_param_list R fl) ResU
}.
Arguments gb_expr_none {R}. Arguments gb_expr_some {R}. Arguments gb_stmt {R}. Arguments gb_type_spec {R}.
Arguments gb_non_array_type_spec {R}. Arguments gb_if_stmt {R}. Arguments gb_param_list {R}.

(* ---------------- tactics ---------------- *)
Ltac st_of s := match goal with H : St _ _ _ _ _ _ s |- _ => constr:(H) end.
Ltac transport Hm s :=
  repeat match goal with Hv : Valid s _ |- _ => apply Hm in Hv end;
  match type of Hm with (forall i, Valid _ i -> Valid ?s' i) =>
    repeat match goal with Hc : (forall i, Valid ?a i -> Valid s i) |- _ =>
      let Hc' := fresh "Hc" in
      assert (Hc' : forall i, Valid a i -> Valid s' i)
        by (let i := fresh in let H := fresh in intros i H; apply Hm; apply Hc; exact H);
      clear Hc end
  end.
Ltac in_own := solve [ cbn [In]; auto 6 ].
Ltac fix_own H := cbn [remove_nat] in H; rewrite ?Nat.eqb_refl in H.

Ltac bpure :=
  repeat first
    [ apply pure_ret | apply pure_current | apply pure_nth_tok | apply pure_at | apply pure_nth_at
    | apply pure_at_ts | apply pure_eat | apply pure_bump | apply pure_bump_any | apply pure_error
    | apply pure_expect | apply pure_current_op | apply pure_get
    | apply pure_bind; [|intro]
    | match goal with |- Pure (if ?b then _ else _) => destruct b end
    | match goal with |- Pure (when_ ?b _) => unfold when_; destruct b end
    | match goal with |- Pure (assert_at _ _ _) => unfold assert_at end
    | match goal with |- Pure (ign _) => unfold ign end
    | apply pure_panic; cbn; tauto ].

(* one pure step: the state predicate and the validity facts move to the new state *)
Ltac b_pure :=
  match goal with |- WB _ _ ?s =>
    let HS := st_of s in
    apply WB_pure; [bpure; fail|];
    let r := fresh "r" in let s' := fresh "s" in let HA := fresh "HA" in
    intros r s' HA;
    let HS' := fresh "HS" in
    pose proof (st_appends _ _ _ _ _ _ _ _ HS HA) as HS';
    let Hn := fresh "Hn" in pose proof (appends_nev _ _ HA) as Hn;
    let Hm := fresh "Hm" in
    assert (Hm : forall i, Valid s i -> Valid s' i) by (intros ? ?; eapply appends_valid; eauto);
    transport Hm s; clear HS HA Hm
  end.

Ltac b_start :=
  match goal with |- WB start _ ?s =>
    let HS := st_of s in
    eapply WB_start'; [exact HS|];
    let m := fresh "m" in let s' := fresh "s" in let HS' := fresh "HS" in
    let Em := fresh "Em" in let En := fresh "En" in let Hm := fresh "Hm" in
    intros m s' HS' Em En Hm; transport Hm s; clear HS Hm
  end.

(* the kind a marker is completed with is never TOMBSTONE *)
Ltac ktomb :=
  solve [ repeat match goal with |- context [match ?x with _ => _ end] => destruct x end;
          let Hk := fresh in intro Hk; vm_compute in Hk; discriminate Hk ].
Ltac b_complete :=
  match goal with |- WB (complete ?m _) _ ?s =>
    let HS := st_of s in
    first [ eapply WB_complete; [ktomb|exact HS|in_own|] | eapply WB_complete_pre; [ktomb|exact HS|] ];
    let s' := fresh "s" in let HS' := fresh "HS" in let Hv := fresh "Hv" in
    let Hn := fresh "Hn" in let Hm := fresh "Hm" in
    intros s' HS' Hv Hn Hm; fix_own HS'; transport Hm s; clear HS Hm
  end.

Ltac b_abandon :=
  match goal with |- WB (abandon ?m) _ ?s =>
    let HS := st_of s in
    eapply WB_abandon; [exact HS|in_own|];
    let s' := fresh "s" in let HS' := fresh "HS" in let Hm := fresh "Hm" in let Hn := fresh "Hn" in
    intros s' HS' Hm Hn; fix_own HS'; transport Hm s; clear HS Hm
  end.

Ltac b_precede :=
  match goal with |- WB (precede ?cm) _ ?s =>
    let HS := st_of s in
    eapply WB_precede'; [exact HS|eassumption|];
    let m := fresh "m" in let s' := fresh "s" in let HS' := fresh "HS" in
    let Em := fresh "Em" in let En := fresh "En" in let Hlt := fresh "Hlt" in let Hm := fresh "Hm" in
    intros m s' HS' Em En Hlt Hm; transport Hm s; clear HS Hm
  end.

Ltac b_extend :=
  match goal with |- WB (extend_to _ _) _ ?s =>
    let HS := st_of s in
    eapply WB_extend_to; [exact HS|in_own|eassumption|lia|];
    let s' := fresh "s" in let HS' := fresh "HS" in let Hv1 := fresh "Hv" in let Hv2 := fresh "Hv" in
    let Hn := fresh "Hn" in let Hm := fresh "Hm" in
    intros s' HS' Hv1 Hv2 Hn Hm; fix_own HS'; transport Hm s; clear HS Hm
  end.
(* a call to a function with a SpecA specification *)
Ltac b_callA H :=
  match goal with |- WB _ _ ?s =>
    let HS := st_of s in
    let HL := fresh "HL" in let HN := fresh "HN" in
    destruct (st_liveok _ _ _ _ _ _ _ HS) as [HL HN];
    eapply WB_conseq; [eapply H; eassumption|];
    let r := fresh "r" in let s' := fresh "s" in let HF := fresh "HF" in let HR := fresh "HR" in
    intros r s' [HF HR];
    let HS' := fresh "HS" in pose proof (st_frame _ _ _ _ _ _ _ _ HS HF) as HS';
    let Hn := fresh "Hn" in
    assert (nev s <= nev s') as Hn by (destruct HF as [_ [_ [_ [? _]]]]; assumption);
    let Hm := fresh "Hm" in
    assert (forall i, Valid s i -> Valid s' i) as Hm by (destruct HF as [_ [_ [? _]]]; assumption);
    transport Hm s; clear HS HL HN Hm HF; cbv beta in HR
  end.

(* a call to a function that consumes the newest live marker *)
Ltac b_callC H :=
  match goal with |- WB _ _ ?s =>
    let HS := st_of s in
    let HL := fresh "HL" in let HN := fresh "HN" in
    destruct (st_liveok _ _ _ _ _ _ _ HS) as [HL HN];
    let HH := fresh "HH" in pose proof (st_live_head _ _ _ _ _ _ _ HS) as HH;
    let HT := fresh "HT" in pose proof (st_head_nt _ _ _ _ _ _ _ HS) as HT;
    eapply WB_conseq; [eapply H; eassumption|]; clear HH HT;
    let r := fresh "r" in let s' := fresh "s" in let HF := fresh "HF" in let HR := fresh "HR" in
    intros r s' [HF HR];
    let HS' := fresh "HS" in pose proof (st_framec _ _ _ _ _ _ _ _ HS HF) as HS';
    let Hm := fresh "Hm" in
    assert (forall i, Valid s i -> Valid s' i) as Hm by (destruct HF as [_ [_ [? _]]]; assumption);
    let Hb := fresh "Hb" in
    match type of HF with FrameC ?m _ _ =>
      assert (forall b, b <= m -> b <= nev s') as Hb by (destruct HF as [_ [_ [_ [? _]]]]; assumption);
      let Hb' := fresh "Hb" in assert (m <= nev s') as Hb' by (apply Hb; apply le_n) end;
    transport Hm s; clear HS HL HN Hm HF; cbv beta in HR
  end.
(* a call to a function that takes a completed marker *)
Ltac b_callL H :=
  match goal with |- WB _ _ ?s =>
    let HS := st_of s in
    let HL := fresh "HL" in let HN := fresh "HN" in
    destruct (st_liveok _ _ _ _ _ _ _ HS) as [HL HN];
    eapply WB_conseq; [eapply H; eassumption|];
    let r := fresh "r" in let s' := fresh "s" in let HF := fresh "HF" in let HR := fresh "HR" in
    intros r s' [HF HR];
    let HS' := fresh "HS" in pose proof (st_frame _ _ _ _ _ _ _ _ HS HF) as HS';
    let Hn := fresh "Hn" in
    assert (nev s <= nev s') as Hn by (destruct HF as [_ [_ [_ [? _]]]]; assumption);
    let Hm := fresh "Hm" in
    assert (forall i, Valid s i -> Valid s' i) as Hm by (destruct HF as [_ [_ [? _]]]; assumption);
    transport Hm s; clear HS HL HN Hm HF; cbv beta in HR
  end.
Ltac res_unfold :=
  repeat match goal with
  | H : ResU _ _ _ |- _ => clear H
  | H : ResCm _ _ _ |- _ => destruct H as [? ?]
  | H : ResCmB _ _ _ |- _ => unfold ResCmB, ResCm in H; destruct H as [? ?]
  | H : ResLCm _ _ _ _ |- _ => destruct H as [? ?]
  | H : ResLCmB _ _ _ _ |- _ => destruct H as [? ?]
  | H : ResOCm _ ?r _ |- _ => unfold ResOCm in H; destruct r; [destruct H as [? ?]|clear H]
  | H : ResOCmB _ ?r _ |- _ => unfold ResOCmB in H; destruct r as [[? ?]|]; [destruct H as [? ?]|clear H]
  end.

(* finishing a SpecA proof *)
Ltac b_done :=
  match goal with |- _ /\ _ => split; [first [apply st_exit; assumption | eapply st_exit_c; eassumption]|] end.

Ltac b_loop :=
  match goal with |- WB (loop _ _) _ ?s =>
    let HS := st_of s in
    match type of HS with St ?pre ?own ?Lb ?b0 ?V ?W s =>
      apply WB_loop_inv with
        (Iv := fun s1 => St pre own Lb b0 V W s1 /\ (forall i, Valid s i -> Valid s1 i) /\ nev s <= nev s1);
      [ split; [exact HS | split; [intros ? Hq; exact Hq | lia]]
      | let s1 := fresh "s" in let HS1 := fresh "HS" in let Hc := fresh "Hc" in let Hn := fresh "Hn" in
        intros s1 [HS1 [Hc Hn]]; clear HS; transport Hc s
      | let s1 := fresh "s" in let HS1 := fresh "HS" in let Hc := fresh "Hc" in let Hn := fresh "Hn" in
        intros s1 [HS1 [Hc Hn]]; clear HS; transport Hc s; clear Hc ]
    end
  end.
(* loop with an accumulator: [PA]/[PB] are the accumulator-dependent parts of the invariant
   and of the exit condition *)
Ltac b_loopS PA PB :=
  match goal with |- WB (loopS _ _ _) _ ?s =>
    let HS := st_of s in
    match type of HS with St ?pre ?own ?Lb ?b0 ?V ?W s =>
      apply WB_loopS_inv with
        (Iv := fun a s1 => St pre own Lb b0 V W s1 /\ (forall i, Valid s i -> Valid s1 i) /\ nev s <= nev s1 /\ PA a s1)
        (J := fun b s1 => St pre own Lb b0 V W s1 /\ (forall i, Valid s i -> Valid s1 i) /\ nev s <= nev s1 /\ PB b s1);
      [ split; [exact HS | split; [intros ? Hq; exact Hq | split; [lia|]]]
      | let a := fresh "a" in let s1 := fresh "s" in let HS1 := fresh "HS" in let Hc := fresh "Hc" in
        let Hn := fresh "Hn" in let HP := fresh "HP" in
        intros a s1 [HS1 [Hc [Hn HP]]]; clear HS; transport Hc s; cbv beta in HP
      | let b := fresh "b" in let s1 := fresh "s" in let HS1 := fresh "HS" in let Hc := fresh "Hc" in
        let Hn := fresh "Hn" in let HP := fresh "HP" in
        intros b s1 [HS1 [Hc [Hn HP]]]; clear HS; transport Hc s; clear Hc; cbv beta in HP ]
    end
  end.
(* a branching step whose result carries no marker: prove a state-only mid-condition in each
   branch and continue once *)
Ltac b_join :=
  match goal with |- WB (bind _ _) _ ?s =>
    let HS := st_of s in
    match type of HS with St ?pre ?own ?Lb ?b0 ?V ?W s =>
      apply WB_join with
        (J := fun s1 => St pre own Lb b0 V W s1 /\ (forall i, Valid s i -> Valid s1 i) /\ nev s <= nev s1);
      [ let Hc := fresh "Hc" in assert (Hc : forall i, Valid s i -> Valid s i) by (intros ? Hq; exact Hq)
      | let a := fresh "a" in let s1 := fresh "s" in let HS1 := fresh "HS" in let Hc := fresh "Hc" in
        let Hn := fresh "Hn" in
        intros a s1 [HS1 [Hc Hn]]; clear HS; transport Hc s; clear Hc ]
    end
  end.
Ltac b_inv := split; [assumption|split; [assumption|first [lia | split; [lia|]]]].

Ltac head_of t := lazymatch t with ?f _ => head_of f | _ => t end.
Ltac b_known := fail.
(* switched off where the branches change the set of owned markers *)
Ltac b_join_guard := idtac.
Ltac b_simpl :=
  lazymatch goal with
  | |- WB (@bind unit _ (when_ _ _) _) _ _ => b_join
  | |- WB (@bind unit _ (if _ then _ else _) _) _ _ => b_join
  | |- WB (@bind bool _ (match _ with _ => _ end) _) _ _ => first [ b_join_guard; b_join | apply WB_bind ]
  | |- WB (@bind unit _ (match _ with _ => _ end) _) _ _ => first [ b_join_guard; b_join | apply WB_bind ]
  | |- WB (bind _ _) _ _ => apply WB_bind
  | |- WB (ret _) _ _ => apply WB_ret
  | |- WB (ign _) _ _ => unfold ign
  | |- WB (when_ ?b _) _ _ => unfold when_; destruct b
  | |- WB (if ?b then _ else _) _ _ => destruct b
  | |- WB (assert_at _ _ _) _ _ => b_pure
  | |- WB start _ _ => b_start
  | |- WB (complete _ _) _ _ => b_complete
  | |- WB (abandon _) _ _ => b_abandon
  | |- WB (precede _) _ _ => b_precede
  | |- WB (extend_to _ _) _ _ => b_extend
  | |- WB (current_op _) _ _ => b_pure
  | |- WB get _ _ => b_pure
  | |- WB (loop _ _) _ _ => b_loop
  | |- WB (current _) _ _ => b_pure
  | |- WB (nth_tok _ _) _ _ => b_pure
  | |- WB (at_ _ _) _ _ => b_pure
  | |- WB (nth_at _ _ _) _ _ => b_pure
  | |- WB (at_ts _ _) _ _ => b_pure
  | |- WB (eat _ _) _ _ => b_pure
  | |- WB (bump _ _) _ _ => b_pure
  | |- WB (bump_any _) _ _ => b_pure
  | |- WB (expect _ _) _ _ => b_pure
  | |- WB error _ _ => b_pure
  | |- WB (loopS _ _ _) _ _ => fail
  | |- WB (match ?r with _ => _ end) _ _ => destruct r
  | |- WB _ _ _ => b_known
  end.
Ltac bgo := repeat (res_unfold; b_simpl); try b_inv.

Ltac b_enter :=
  let s := fresh "s" in let HL := fresh "HL" in let HN := fresh "HN" in
  intros s HL HN; pose proof (st_enter s HL HN) as HS0; clear HL HN.

Ltac fin := try (b_done; try exact I; unfold ResU, ResOCm, ResOCmB, ResCmB, ResLCm, ResLCmB;
  repeat match goal with |- context [let (_, _) := ?r in _] => destruct r end; cbn [fst snd option_map]; unfold ResCm; cbn [fst snd] in *; auto; try (split; [assumption|lia])).
Ltac b_enterL :=
  let s := fresh "s" in let lhs := fresh "lhs" in let HL := fresh "HL" in let HN := fresh "HN" in
  let HV := fresh "HV" in
  intros s lhs HL HN HV; pose proof (st_enter s HL HN) as HS0; clear HL HN.
Ltac b_enterC :=
  let s := fresh "s" in let m := fresh "m" in let L := fresh "L" in
  let HL := fresh "HL" in let HN := fresh "HN" in let HE := fresh "HE" in
  intros s m L HL HN HE HT; pose proof (st_enter_c m L s HL HN HE HT) as HS0; clear HL HN HT.

