(* Refinement of the symbol-table model to a stack of maps, and id stability. *)
From Coq Require Import NArith Arith List Bool Lia.
From OQ3 Require Import Model.Types Model.SymTab.
Import ListNotations.
Open Scope N_scope.

(* every id stored in a scope indexes a symbol with that name *)
Definition scope_ok (a : list (name * Ty)) (sc : scope) : Prop :=
  forall n i, In (n, i) (snd sc) -> exists t, nth_error a (N.to_nat i) = Some (n, t).
Definition Inv (s : state) : Prop := Forall (scope_ok (all s)) (scopes s).

Lemma assoc_in n m i : assoc n m = Some i -> In (n, i) m.
Proof.
  induction m as [|[k j] m IH]; cbn; [discriminate|].
  destruct (N.eqb n k) eqn:E; intros H.
  - apply N.eqb_eq in E; subst. inversion H; subst; auto.
  - right; auto.
Qed.

Lemma sassoc_abs a n m :
  sassoc n (map (fun '(n, i) => (n, (i, ty_at a i))) m) =
  option_map (fun i => (i, ty_at a i)) (assoc n m).
Proof.
  induction m as [|[k j] m IH]; cbn; auto.
  destruct (N.eqb n k); auto.
Qed.

Lemma abs_scope_eq a sc :
  abs_scope a sc = (fst sc, map (fun '(n, i) => (n, (i, ty_at a i))) (snd sc)).
Proof. reflexivity. Qed.

Lemma slookup_abs a n ss :
  slookup n (map (abs_scope a) ss) =
  option_map (fun i => (i, ty_at a i)) (lookup_scopes n ss).
Proof.
  induction ss as [|[st m] ss IH]; cbn; auto.
  rewrite sassoc_abs. destruct (assoc n m); cbn; auto.
Qed.

Lemma lookup_scopes_in n ss i :
  lookup_scopes n ss = Some i -> exists sc, In sc ss /\ In (n, i) (snd sc).
Proof.
  induction ss as [|[st m] ss IH]; cbn; [discriminate|].
  destruct (assoc n m) eqn:E; intros H.
  - inversion H; subst. exists (st, m); split; auto. apply assoc_in; auto.
  - destruct (IH H) as [sc [H1 H2]]. exists sc; auto.
Qed.

Lemma nth_error_app_old {A} (l : list A) x k v :
  nth_error l k = Some v -> nth_error (l ++ [x]) k = Some v.
Proof.
  intros H. rewrite nth_error_app1; auto. apply nth_error_Some. congruence.
Qed.

Lemma scope_ok_grow a x sc : scope_ok a sc -> scope_ok (a ++ [x]) sc.
Proof.
  intros H n i Hin. destruct (H n i Hin) as [t Ht]. exists t.
  apply nth_error_app_old; auto.
Qed.

Lemma abs_scope_grow a x sc : scope_ok a sc -> abs_scope (a ++ [x]) sc = abs_scope a sc.
Proof.
  intros H. rewrite !abs_scope_eq. f_equal.
  apply map_ext_in. intros [n i] Hin. f_equal. f_equal.
  destruct (H n i Hin) as [t Ht]. unfold ty_at.
  rewrite (nth_error_app_old _ x _ _ Ht), Ht; auto.
Qed.

Lemma abs_scopes_grow a x ss :
  Forall (scope_ok a) ss -> map (abs_scope (a ++ [x])) ss = map (abs_scope a) ss.
Proof.
  induction 1; cbn; auto. rewrite abs_scope_grow; auto. f_equal; auto.
Qed.

Lemma nlen_to_nat {A} (l : list A) : N.to_nat (nlen l) = length l.
Proof. unfold nlen. apply Nnat.Nat2N.id. Qed.

Lemma nth_error_last {A} (l : list A) x : nth_error (l ++ [x]) (length l) = Some x.
Proof. rewrite nth_error_app2; auto. rewrite Nat.sub_diag; auto. Qed.

Lemma nlen_map {A B} (f : A -> B) l : nlen (map f l) = nlen l.
Proof. unfold nlen; rewrite map_length; auto. Qed.

Lemma bind_refines s n t s' x :
  Inv s -> bind_no_check s n t = (s', x) ->
  sbind (abs s) n t = (abs s', x) /\ Inv s'.
Proof.
  unfold bind_no_check, sbind, Inv. intros HI.
  destruct s as [ss a]; cbn in *.
  destruct ss as [|[st m] r]; cbn.
  - intros H; inversion H; subst; cbn; auto.
  - intros H; inversion H; subst; clear H. cbn.
    inversion HI as [|? ? Hsc Hr]; subst.
    split.
    + unfold abs; cbn. f_equal. f_equal.
      rewrite abs_scopes_grow; auto.
      rewrite !abs_scope_eq; cbn. f_equal. f_equal. f_equal.
      * f_equal. unfold ty_at. rewrite nlen_to_nat, nth_error_last; auto.
      * apply map_ext_in. intros [k j] Hin. f_equal. f_equal.
        destruct (Hsc k j Hin) as [t0 Ht0]. unfold ty_at.
        rewrite (nth_error_app_old _ (n,t) _ _ Ht0), Ht0; auto.
    + constructor.
      * intros k j [Hin|Hin]; cbn in *.
        -- inversion Hin; subst. exists t. rewrite nlen_to_nat. apply nth_error_last.
        -- destruct (Hsc k j Hin) as [t0 Ht0]. exists t0. apply nth_error_app_old; auto.
      * eapply Forall_impl; [|exact Hr]. intros sc. apply scope_ok_grow.
Qed.

Lemma step_refines s o s' x :
  Inv s -> step s o = (s', x) -> sstep (abs s) o = (abs s', x) /\ Inv s'.
Proof.
  intros HI. destruct o as [st| |n t|n|n t].
  - (* Enter *)
    destruct s as [ss a]. unfold abs, Inv in *; cbn in *. rewrite nlen_map.
    destruct (is_global st && negb (nlen ss =? 0)); intros H; inversion H; subst; cbn; auto.
    split; [reflexivity|]. constructor; auto. intros n i [].
  - (* Exit *)
    destruct s as [ss a]. unfold abs, Inv in *; cbn in *.
    destruct ss as [|sc [|sc2 r]]; cbn; intros H; inversion H; subst; cbn; auto.
    split; [reflexivity|]. inversion HI; auto.
  - (* Bind *)
    cbn [step sstep].
    destruct (scopes s) as [|[st m] r] eqn:E.
    + unfold abs at 1; rewrite E; cbn. intros H; inversion H; subst. split; auto;
      try (unfold abs; rewrite E; auto).
    + unfold abs at 1; rewrite E; cbn. rewrite sassoc_abs.
      destruct (assoc n m) eqn:EA; cbn.
      * intros H; inversion H; subst. split; auto; try (unfold abs; rewrite E; auto).
      * intros H. destruct (bind_refines s n t s' x HI H) as [H1 H2]. split; auto.
  - (* Lookup *)
    cbn [step sstep]. unfold abs at 1; cbn [sstack]. rewrite slookup_abs.
    destruct (lookup_scopes n (scopes s)) as [i|] eqn:EL; cbn.
    + destruct (lookup_scopes_in _ _ _ EL) as [sc [Hsc Hin]].
      pose proof HI as HI0. unfold Inv in HI0. rewrite Forall_forall in HI0.
      destruct (HI0 sc Hsc n i Hin) as [t Ht]. unfold ty_at. rewrite Ht.
      intros H; inversion H; subst; auto.
    + intros H; inversion H; subst; auto.
  - (* LookupOrNew *)
    cbn [step sstep]. unfold abs at 1; cbn [sstack]. rewrite slookup_abs.
    destruct (lookup_scopes n (scopes s)) as [i|] eqn:EL; cbn.
    + destruct (lookup_scopes_in _ _ _ EL) as [sc [Hsc Hin]].
      pose proof HI as HI0. unfold Inv in HI0. rewrite Forall_forall in HI0.
      destruct (HI0 sc Hsc n i Hin) as [t0 Ht]. rewrite Ht.
      intros H; inversion H; subst; auto.
    + intros H. destruct (bind_refines s n t s' x HI H) as [H1 H2]. split; auto.
Qed.

Lemma run_refines h : forall s s' xs,
  Inv s -> run s h = (s', xs) -> srun (abs s) h = (abs s', xs) /\ Inv s'.
Proof.
  induction h as [|o h IH]; cbn; intros s s' xs HI H.
  - inversion H; subst; auto.
  - destruct (step s o) as [s1 x] eqn:ES.
    destruct (step_refines s o s1 x HI ES) as [H1 H2]. rewrite H1.
    destruct x; try (inversion H; subst; auto; fail);
      destruct (run s1 h) as [s2 xs2] eqn:ER;
      destruct (IH s1 s2 xs2 H2 ER) as [H3 H4]; rewrite H3;
      inversion H; subst; auto.
Qed.

Lemma Inv_empty : Inv empty.
Proof. constructor. Qed.

(* every history, started from the real initial table, answers like the stack of maps *)
Theorem refines : forall h,
  snd (run init h) = snd (srun sinit h) /\ abs (fst (run init h)) = fst (srun sinit h).
Proof.
  intros h.
  assert (Inv init /\ abs init = sinit) as [HI HA].
  { unfold init, sinit.
    destruct (run empty builtin_ops) as [s0 x0] eqn:E0.
    destruct (run_refines builtin_ops empty s0 x0 Inv_empty E0) as [H1 H2].
    change (abs empty) with sempty in H1. rewrite H1; auto. }
  destruct (run init h) as [s' xs] eqn:E.
  destruct (run_refines h init s' xs HI E) as [H1 H2].
  rewrite HA in H1. rewrite H1; auto.
Qed.

(* ---------------- spec-level facts: ids ---------------- *)

(* every binding in the stack agrees with the record of handed-out ids *)
Definition sscope_ok (hist : list (name * Ty)) (sc : ScopeType * list (name * (id * Ty))) : Prop :=
  forall n i t, In (n, (i, t)) (snd sc) -> nth_error hist (N.to_nat i) = Some (n, t).
Definition SInv (s : sstate) : Prop := Forall (sscope_ok (shist s)) (sstack s).

Lemma sassoc_in n m v : sassoc n m = Some v -> In (n, v) m.
Proof.
  induction m as [|[k j] m IH]; cbn; [discriminate|].
  destruct (N.eqb n k) eqn:E; intros H.
  - apply N.eqb_eq in E; subst. inversion H; subst; auto.
  - right; auto.
Qed.
Lemma slookup_in n ss v :
  slookup n ss = Some v -> exists sc, In sc ss /\ In (n, v) (snd sc).
Proof.
  induction ss as [|[st m] ss IH]; cbn; [discriminate|].
  destruct (sassoc n m) eqn:E; intros H.
  - inversion H; subst. exists (st, m); split; auto. apply sassoc_in; auto.
  - destruct (IH H) as [sc [H1 H2]]. exists sc; auto.
Qed.

Lemma sbind_spec s n t s' x :
  SInv s -> sbind s n t = (s', x) ->
  SInv s' /\ (x = OPanic /\ s' = s \/
              x = OBound (nlen (shist s)) /\ shist s' = shist s ++ [(n, t)]).
Proof.
  unfold sbind, SInv. destruct s as [ss hs]; cbn.
  destruct ss as [|[st m] r]; intros HI H; inversion H; subst; clear H; cbn; auto.
  inversion HI as [|? ? Hsc Hr]; subst. split; auto.
  constructor.
  - intros k j u [Hin|Hin]; cbn in *.
    + inversion Hin; subst. rewrite nlen_to_nat. apply nth_error_last.
    + apply nth_error_app_old; auto.
  - eapply Forall_impl; [|exact Hr]. intros sc Hs k j u Hin. apply nth_error_app_old; auto.
Qed.

(* one step: the record of ids only grows at its end; a fresh id is the next index;
   a found or re-used id denotes the recorded name and type *)
Lemma sstep_ids s o s' x :
  SInv s -> sstep s o = (s', x) ->
  SInv s' /\
  (exists ext, shist s' = shist s ++ ext) /\
  (forall i n t, x = OFound i n t -> nth_error (shist s) (N.to_nat i) = Some (n, t)) /\
  (forall i, x = OBound i -> exists n t, nth_error (shist s') (N.to_nat i) = Some (n, t)).
Proof.
  intros HI. destruct o as [st| |n t|n|n t]; cbn.
  - destruct (is_global st && negb (nlen (sstack s) =? 0)); intros H; inversion H; subst.
    + repeat split; auto; try (exists []; rewrite app_nil_r; auto); intros; discriminate.
    + repeat split; cbn; auto; try (exists []; rewrite app_nil_r; auto); try (intros; discriminate).
      constructor; auto. intros ? ? ? [].
  - destruct (sstack s) as [|sc [|sc2 r]] eqn:E; intros H; inversion H; subst;
      repeat split; cbn; auto; try (exists []; rewrite app_nil_r; auto); try (intros; discriminate).
    unfold SInv in *; cbn. rewrite E in HI. inversion HI; auto.
  - destruct (sstack s) as [|[st m] r] eqn:E.
    + intros H; inversion H; subst.
      repeat split; auto; try (exists []; rewrite app_nil_r; auto); intros; discriminate.
    + destruct (sassoc n m).
      * intros H; inversion H; subst.
        repeat split; auto; try (exists []; rewrite app_nil_r; auto); intros; discriminate.
      * intros H. destruct (sbind_spec s n t s' x HI H) as [H1 [[H2 H3]|[H2 H3]]]; subst.
        -- repeat split; auto; try (exists []; rewrite app_nil_r; auto); intros; discriminate.
        -- repeat split; auto; try (eexists; eauto; fail); try (intros; discriminate).
           intros i Hi. inversion Hi; subst. exists n, t. rewrite H3, nlen_to_nat. apply nth_error_last.
  - destruct (slookup n (sstack s)) as [[i t]|] eqn:EL; intros H; inversion H; subst.
    + repeat split; auto; try (exists []; rewrite app_nil_r; auto); try (intros; discriminate).
      intros i0 n0 t0 Hx. inversion Hx; subst.
      destruct (slookup_in _ _ _ EL) as [sc [Hsc Hin]].
      unfold SInv in HI. rewrite Forall_forall in HI. apply (HI sc Hsc); auto.
    + repeat split; auto; try (exists []; rewrite app_nil_r; auto); intros; discriminate.
  - destruct (slookup n (sstack s)) as [[i t0]|] eqn:EL.
    + intros H; inversion H; subst.
      repeat split; auto; try (exists []; rewrite app_nil_r; auto); try (intros; discriminate).
      intros i0 Hx. inversion Hx; subst.
      destruct (slookup_in _ _ _ EL) as [sc [Hsc Hin]].
      unfold SInv in HI. rewrite Forall_forall in HI. exists n, t0. apply (HI sc Hsc); auto.
    + intros H. destruct (sbind_spec s n t s' x HI H) as [H1 [[H2 H3]|[H2 H3]]]; subst.
      * repeat split; auto; try (exists []; rewrite app_nil_r; auto); intros; discriminate.
      * repeat split; auto; try (eexists; eauto; fail); try (intros; discriminate).
        intros i Hi. inversion Hi; subst. exists n, t. rewrite H3, nlen_to_nat. apply nth_error_last.
Qed.

Lemma srun_hist h : forall s s' xs,
  SInv s -> srun s h = (s', xs) -> SInv s' /\ exists ext, shist s' = shist s ++ ext.
Proof.
  induction h as [|o h IH]; cbn; intros s s' xs HI H.
  - inversion H; subst. split; auto. exists []; rewrite app_nil_r; auto.
  - destruct (sstep s o) as [s1 x] eqn:ES.
    destruct (sstep_ids s o s1 x HI ES) as [H1 [[e1 H2] _]].
    destruct x; try (inversion H; subst; split; auto; eexists; eauto; fail);
      destruct (srun s1 h) as [s2 xs2] eqn:ER;
      destruct (IH s1 s2 xs2 H1 ER) as [H3 [e2 H4]];
      inversion H; subst; split; auto; exists (e1 ++ e2); rewrite H4, H2, app_assoc; auto.
Qed.

Lemma srun_app h1 : forall h2 s s1 xs1,
  srun s h1 = (s1, xs1) -> ~ In OPanic xs1 ->
  srun s (h1 ++ h2) = (fst (srun s1 h2), xs1 ++ snd (srun s1 h2)).
Proof.
  induction h1 as [|o h1 IH]; cbn; intros h2 s s1 xs1 H HN.
  - inversion H; subst. destruct (srun s1 h2); auto.
  - destruct (sstep s o) as [sa x] eqn:ES.
    assert (forall y, y <> OPanic ->
              (let '(s'', xs) := srun sa h1 in (s'', y :: xs)) = (s1, xs1) ->
              (let '(s'', xs) := srun sa (h1 ++ h2) in (s'', y :: xs)) =
              (fst (srun s1 h2), xs1 ++ snd (srun s1 h2))) as K.
    { intros y Hy H0. destruct (srun sa h1) as [sb xsb] eqn:ER. inversion H0; subst.
      rewrite (IH h2 sa s1 xsb ER).
      - destruct (srun s1 h2); auto.
      - intros HC; apply HN; right; auto. }
    destruct x; try (apply K; [discriminate|exact H]).
    inversion H; subst. exfalso; apply HN; left; auto.
Qed.

Lemma SInv_sempty : SInv sempty.
Proof. constructor. Qed.
Lemma SInv_sinit : SInv sinit.
Proof.
  unfold sinit. destruct (srun sempty builtin_ops) as [s x] eqn:E.
  destruct (srun_hist _ _ _ _ SInv_sempty E); auto.
Qed.

(* ids are never reused and keep denoting the same name and type: the record after a
   longer history extends the record after any prefix of it *)
Theorem ids_stable : forall h1 h2,
  ~ In OPanic (snd (srun sinit h1)) ->
  exists ext, shist (fst (srun sinit (h1 ++ h2))) = shist (fst (srun sinit h1)) ++ ext.
Proof.
  intros h1 h2 HN.
  destruct (srun sinit h1) as [s1 xs1] eqn:E1. cbn [fst snd] in *.
  rewrite (srun_app h1 h2 sinit s1 xs1 E1 HN). cbn [fst snd].
  destruct (srun_hist h1 _ _ _ SInv_sinit E1) as [HI1 _].
  destruct (srun s1 h2) as [s2 xs2] eqn:E2.
  destruct (srun_hist h2 _ _ _ HI1 E2) as [_ H]. exact H.
Qed.

(* reachable spec states satisfy SInv *)
Lemma reach_SInv h : SInv (fst (srun sinit h)).
Proof.
  destruct (srun sinit h) as [s xs] eqn:E.
  destruct (srun_hist h _ _ _ SInv_sinit E); auto.
Qed.

(* in any reachable state: a look-up answers with the innermost binding, its id denotes the
   recorded (name, type); a new binding fails iff the current scope has the name and its id
   is the next unused index; exit pops exactly the innermost scope *)
Theorem lookup_innermost : forall h n,
  let s := fst (srun sinit h) in
  match snd (sstep s (Lookup n)) with
  | OFound i m t => m = n /\ slookup n (sstack s) = Some (i, t) /\
                    nth_error (shist s) (N.to_nat i) = Some (n, t)
  | OMissing => slookup n (sstack s) = None
  | _ => False
  end.
Proof.
  intros h n s. pose proof (reach_SInv h) as HI. fold s in HI. cbn.
  destruct (slookup n (sstack s)) as [[i t]|] eqn:EL; cbn; auto.
  repeat split; auto.
  destruct (slookup_in _ _ _ EL) as [sc [Hsc Hin]].
  unfold SInv in HI. rewrite Forall_forall in HI. apply (HI sc Hsc); auto.
Qed.

Theorem bind_fails_iff_current_has : forall h n t sc r,
  let s := fst (srun sinit h) in
  sstack s = sc :: r ->
  (snd (sstep s (Bind n t)) = OAlready <-> sassoc n (snd sc) <> None) /\
  (sassoc n (snd sc) = None ->
     snd (sstep s (Bind n t)) = OBound (nlen (shist s)) /\
     sstack (fst (sstep s (Bind n t))) = (fst sc, (n, (nlen (shist s), t)) :: snd sc) :: r /\
     shist (fst (sstep s (Bind n t))) = shist s ++ [(n, t)]).
Proof.
  intros h n t [st m] r s E. cbn. rewrite E. cbn.
  destruct (sassoc n m) eqn:EA; cbn.
  - split; [split; intros; congruence|intros; discriminate].
  - unfold sbind. rewrite E. cbn. split; [split; intros H; [discriminate|congruence]|auto].
Qed.

Theorem exit_removes_own : forall h sc sc2 r,
  let s := fst (srun sinit h) in
  sstack s = sc :: sc2 :: r ->
  sstep s Exit = ({| sstack := sc2 :: r; shist := shist s |}, OOk).
Proof. intros h sc sc2 r s E. cbn. rewrite E. reflexivity. Qed.

Theorem global_never_popped : forall h sc,
  let s := fst (srun sinit h) in
  sstack s = [sc] -> sstep s Exit = (s, OPanic).
Proof. intros h sc s E. cbn. rewrite E. reflexivity. Qed.

(* the stack is never empty after the initial table was built, so the unwraps in
   current_scope()/current_scope_mut() cannot fail *)
Lemma sstep_nonempty s o : sstack s <> [] -> sstack (fst (sstep s o)) <> [].
Proof.
  destruct o as [st| |n t|n|n t]; cbn; intros H.
  - destruct (is_global st && negb (nlen (sstack s) =? 0)); cbn; auto. discriminate.
  - destruct (sstack s) as [|sc [|sc2 r]] eqn:E; cbn; try rewrite E; auto; discriminate.
  - destruct (sstack s) as [|[st m] r] eqn:E; cbn; [rewrite E; auto|].
    destruct (sassoc n m); cbn; [rewrite E; discriminate|].
    unfold sbind. rewrite E. cbn. discriminate.
  - destruct (slookup n (sstack s)) as [[i t]|]; cbn; auto.
  - destruct (slookup n (sstack s)) as [[i t0]|]; cbn; auto.
    unfold sbind. destruct (sstack s) as [|[st m] r] eqn:E; cbn; [rewrite E; auto|discriminate].
Qed.
Lemma srun_nonempty h : forall s, sstack s <> [] -> sstack (fst (srun s h)) <> [].
Proof.
  induction h as [|o h IH]; cbn; intros s H; auto.
  pose proof (sstep_nonempty s o H) as H1.
  destruct (sstep s o) as [s1 x] eqn:ES. cbn in H1.
  destruct x; cbn; auto; specialize (IH s1 H1); destruct (srun s1 h); auto.
Qed.
Theorem stack_never_empty : forall h, sstack (fst (srun sinit h)) <> [].
Proof. intros h. apply srun_nonempty. vm_compute. discriminate. Qed.

(* built-ins: pi, π, euler, ℇ, tau, τ : const float[64]; U : gate(3,1); present from the start *)
Theorem builtins_present :
  (forall n, In n builtin_names ->
     exists i, snd (sstep sinit (Lookup n)) = OFound i n (Float (Some 64) true)) /\
  (exists i, snd (sstep sinit (Lookup name_U)) = OFound i name_U (Gate 3 1)) /\
  nlen (shist sinit) = 7 /\ length (sstack sinit) = 1%nat.
Proof.
  split; [|split; [|split]].
  - intros n Hn. cbn in Hn.
    repeat (destruct Hn as [Hn|Hn]; [subst; eexists; vm_compute; reflexivity|]). destruct Hn.
  - eexists; vm_compute; reflexivity.
  - vm_compute; reflexivity.
  - vm_compute; reflexivity.
Qed.
