(* C13: a usage diagnostic is logged at a site if and only if the site breaks that rule. *)
From Coq Require Import NArith List Bool Lia.
From OQ3 Require Import Model.Usage.
Import ListNotations.
Open Scope N_scope.

Lemma operand_incompat o : In DIncompatibleTypes (operand_diags o) <-> ~ operand_ok o.
Proof.
  destruct o as [s|s|]; cbn; [destruct s; cbn; intuition congruence ..|tauto].
Qed.

Lemma operand_undef o : In DUndefVar (operand_diags o) <-> (o = OIdent YUndef \/ o = OIndexed YUndef).
Proof.
  destruct o as [s|s|]; cbn; [destruct s; cbn; intuition congruence ..|intuition congruence].
Qed.

Lemma operand_only d o : In d (operand_diags o) -> d = DIncompatibleTypes \/ d = DUndefVar.
Proof.
  destruct o as [s|s|]; cbn; [| |intros []];
    destruct s; cbn; intros H; repeat (destruct H as [H|H]; [subst; auto|]); try destruct H.
Qed.

Lemma flat_incompat ops :
  In DIncompatibleTypes (flat_map operand_diags ops) <-> exists o, In o ops /\ ~ operand_ok o.
Proof.
  rewrite in_flat_map. split; intros [o [Ho H]]; exists o; split; auto; apply operand_incompat; auto.
Qed.
Lemma flat_undef ops :
  In DUndefVar (flat_map operand_diags ops) <->
  exists o, In o ops /\ (o = OIdent YUndef \/ o = OIndexed YUndef).
Proof.
  rewrite in_flat_map. split; intros [o [Ho H]]; exists o; split; auto; apply operand_undef; auto.
Qed.
Lemma flat_only d ops : In d (flat_map operand_diags ops) -> d = DIncompatibleTypes \/ d = DUndefVar.
Proof. rewrite in_flat_map. intros [o [_ H]]. eapply operand_only; eauto. Qed.

Lemma in_flat d ops :
  In d (flat_map operand_diags ops) <->
  (d = DIncompatibleTypes /\ exists o, In o ops /\ ~ operand_ok o) \/
  (d = DUndefVar /\ exists o, In o ops /\ (o = OIdent YUndef \/ o = OIndexed YUndef)).
Proof.
  split.
  - intros H. destruct (flat_only _ _ H); subst d; [left|right]; split; auto;
      [apply flat_incompat|apply flat_undef]; auto.
  - intros [[E H]|[E H]]; subst d; [apply flat_incompat|apply flat_undef]; auto.
Qed.
Lemma in_operand d o :
  In d (operand_diags o) <->
  (d = DIncompatibleTypes /\ ~ operand_ok o) \/
  (d = DUndefVar /\ (o = OIdent YUndef \/ o = OIndexed YUndef)).
Proof.
  split.
  - intros H. destruct (operand_only _ _ H); subst d; [left|right]; split; auto;
      [apply operand_incompat|apply operand_undef]; auto.
  - intros [[E H]|[E H]]; subst d; [apply operand_incompat|apply operand_undef]; auto.
Qed.

Ltac fin := cbn; intuition (try discriminate; try congruence).

Theorem site_diags_iff d s : In d (site_diags s) <-> violates d s.
Proof.
  destruct s as [callee n ops|o|o|ops|lq rq|e n|t fits|sc|sc|sc|sc|du]; cbn [site_diags].
  - rewrite in_app_iff, in_flat.
    destruct callee as [np nq| | | | | |]; cbn [violates].
    + rewrite in_app_iff.
      destruct (N.eqb_spec np n), (N.eqb_spec nq (N.of_nat (length ops))); destruct d; fin.
    + destruct d; fin.
    + destruct d; fin.
    + destruct d; fin.
    + destruct d; fin.
    + destruct d; fin.
    + destruct d; fin.
  - rewrite in_operand. destruct d; fin.
  - rewrite in_operand. destruct d; fin.
  - rewrite in_flat. destruct d; fin.
  - destruct lq, rq, d; fin.
  - destruct (N.eqb_spec e n), d; fin.
  - destruct t as [| | | | |c|]; try destruct c; destruct fits; destruct d; fin.
  - destruct sc, d; fin.
  - destruct sc, d; fin.
  - destruct sc, d; fin.
  - destruct sc, d; fin.
  - destruct du, d; fin.
Qed.

(* a site that breaks no rule gets no usage diagnostic at all *)
Corollary clean_site s : (forall d, ~ violates d s) -> site_diags s = [].
Proof.
  intros H. destruct (site_diags s) as [|d l] eqn:E; auto.
  exfalso. apply (H d). apply site_diags_iff. rewrite E. left. auto.
Qed.
