(* The lexer never hands the parser a token of kind EOF, hence theorem A applies to the parser
   input built from any text. *)
From Coq Require Import NArith Arith List Bool Lia.
From OQ3 Require Import gen.Kinds Model.Lexer Model.Lexed Model.Parser Model.Grammar
                        Proofs.WP Proofs.GrammarA Proofs.LexerP Proofs.LexedP.
Import ListNotations.
Local Open Scope nat_scope.

Lemma table_find_in t s v : table_find t s = Some v -> In v (map snd t).
Proof.
  induction t as [|[k x] t IH]; cbn; [discriminate|].
  destruct (list_N_eqb k s); intros H; [inversion H; auto|auto].
Qed.
Lemma keyword_table_ne : Forall (fun v => v <> K_EOF) (map snd keyword_table).
Proof. repeat constructor; vm_compute; discriminate. Qed.
Lemma scalar_type_table_ne : Forall (fun v => v <> K_EOF) (map snd scalar_type_table).
Proof. repeat constructor; vm_compute; discriminate. Qed.

Lemma syntax_kind_ne_eof t : snd (syntax_kind_of t) <> K_EOF.
Proof.
  unfold syntax_kind_of. destruct (tkind t); try (cbn; vm_compute; discriminate).
  - destruct (list_N_eqb (cps (ttext t)) [95%N]); [cbn; vm_compute; discriminate|].
    destruct (table_find keyword_table (cps (ttext t))) eqn:E1.
    + apply table_find_in in E1. pose proof keyword_table_ne as F. rewrite Forall_forall in F. cbn. auto.
    + destruct (table_find scalar_type_table (cps (ttext t))) eqn:E2; [|cbn; vm_compute; discriminate].
      apply table_find_in in E2. pose proof scalar_type_table_ne as F. rewrite Forall_forall in F. cbn. auto.
  - destruct (table_find keyword_table (cps (ttext t))) eqn:E1; [|cbn; vm_compute; discriminate].
    apply table_find_in in E1. pose proof keyword_table_ne as F. rewrite Forall_forall in F. cbn. auto.
  - destruct k; cbn; vm_compute; discriminate.
Qed.

(* every kind pushed by to_input is the kind of some token of the table *)
Lemma to_input_loop_kinds ks : forall ts wj acc,
  (forall k j, In (k, j) acc -> k <> K_EOF) ->
  (forall i k, nth_error ks i = Some k -> i < length ts -> k <> K_EOF) ->
  forall k j, In (k, j) (to_input_loop ks ts wj acc) -> k <> K_EOF.
Proof.
  induction ks as [|k0 ks IH]; intros ts wj acc Hacc Hks k j Hin.
  - cbn in Hin. apply in_rev in Hin. eauto.
  - destruct ts as [|t ts]; [cbn in Hin; apply in_rev in Hin; eauto|].
    cbn [to_input_loop] in Hin.
    assert (forall i k, nth_error ks i = Some k -> i < length ts -> k <> K_EOF) as Hks'.
    { intros i k1 H1 H2. apply (Hks (S i) k1); cbn; auto. lia. }
    destruct (is_trivia k0).
    + eapply IH; eauto.
    + eapply IH; [| exact Hks' | exact Hin].
      intros k1 j1 [H|H].
      * inversion H; subst. apply (Hks 0 k1); cbn; auto. lia.
      * destruct wj; [|eauto]. destruct acc as [|[k2 j2] a]; [destruct H|].
        destruct H as [H|H]; [inversion H; subst; apply (Hacc k1 j2); left; auto|].
        apply (Hacc k1 j1). right; auto.
Qed.

Lemma lexed_kinds_ne l i k :
  nth_error (lkinds (lexed_of l)) i = Some k -> i < length (ltexts (lexed_of l)) -> k <> K_EOF.
Proof.
  unfold lexed_of. pose proof (lex_conv_spec (tokenize l) 0%N 0%N) as H.
  destruct (lex_conv (tokenize l) 0%N 0%N) as [[ks ss] es]. destruct H as [H1 _]. cbn. subst ks.
  rewrite map_length. intros Hn Hi.
  rewrite nth_error_app1 in Hn by (rewrite map_length; auto).
  rewrite nth_error_map in Hn. destruct (nth_error (tokenize l) i); [|discriminate].
  inversion Hn. apply syntax_kind_ne_eof.
Qed.

Lemma to_input_ne_eof l : forall i k j, nth_error (to_input (lexed_of l)) i = Some (k, j) -> k <> K_EOF.
Proof.
  intros i k j H. apply nth_error_In in H. unfold to_input in H.
  eapply to_input_loop_kinds; [| |exact H].
  - intros ? ? [].
  - intros. eapply lexed_kinds_ne; eauto.
Qed.

(* Theorem A for every text *)
Theorem parse_text_total l :
  match run_parser (to_input (lexed_of l)) with
  | Steps _ => True
  | Panicked w => okA w
  | Hang => False
  end.
Proof. apply run_parser_total. apply to_input_ne_eof. Qed.
