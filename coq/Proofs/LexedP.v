(* Facts about the parser-facing token table (Model/Lexed.v). *)
From Coq Require Import NArith Arith List Bool Lia Sorted.
From OQ3 Require Import gen.Kinds Model.Lexer Model.Lexed Proofs.LexerP.
Import ListNotations.
Open Scope N_scope.

Fixpoint offsets (ts : list token) (off : N) : list N :=
  match ts with [] => [off] | t :: r => off :: offsets r (off + tlen t) end.

Lemma lex_conv_spec ts : forall idx off,
  let '(ks, ss, es) := lex_conv ts idx off in
  ks = map (fun t => snd (syntax_kind_of t)) ts ++ [K_EOF] /\ ss = offsets ts off /\
  (forall i, In i es <-> exists t, idx <= i /\ nth_error ts (N.to_nat (i - idx)) = Some t /\
                                   fst (syntax_kind_of t) = true).
Proof.
  induction ts as [|t r IH]; intros idx off; cbn.
  - repeat split; auto; [intros []|]. intros [t [_ [H _]]]. destruct (N.to_nat (i - idx)); discriminate.
  - destruct (syntax_kind_of t) as [err k] eqn:E.
    specialize (IH (idx + 1) (off + tlen t)). destruct (lex_conv r (idx + 1) (off + tlen t)) as [[ks ss] es].
    destruct IH as [H1 [H2 H3]]. subst ks ss. repeat split; auto.
    + intros Hin.
      assert (i = idx /\ err = true \/ In i es) as [[-> ->]|Hin'].
      { destruct err; cbn in Hin; auto. destruct Hin as [Hin|Hin]; auto. }
      * exists t. rewrite N.sub_diag. cbn. rewrite E. repeat split; auto. lia.
      * apply H3 in Hin' as [t' [Hi [Hn Hf]]]. exists t'. repeat split; auto; [lia|].
        replace (N.to_nat (i - idx)) with (S (N.to_nat (i - (idx + 1)))) by lia. auto.
    + intros [t' [Hi [Hn Hf]]].
      destruct (N.eq_dec i idx) as [->|Hne].
      * rewrite N.sub_diag in Hn. cbn in Hn. inversion Hn; subst t'. rewrite E in Hf. cbn in Hf. subst.
        left; auto.
      * assert (In i es) as Hin.
        { apply H3. exists t'. repeat split; auto; [lia|].
          replace (N.to_nat (i - idx)) with (S (N.to_nat (i - (idx + 1)))) in Hn by lia. auto. }
        destruct err; cbn; auto.
Qed.

Lemma offsets_sorted ts : forall off, Forall (fun t => 0 < tlen t) ts ->
  StronglySorted N.lt (offsets ts off) /\ Forall (fun x => off <= x) (offsets ts off).
Proof.
  induction ts as [|t r IH]; intros off H; cbn.
  - split; repeat constructor. lia.
  - inversion H as [|? ? Ht Hr]; subst. destruct (IH (off + tlen t) Hr) as [S1 S2]. split.
    + constructor; auto. eapply Forall_impl; [|exact S2]. cbn. intros; lia.
    + constructor; [lia|]. eapply Forall_impl; [|exact S2]. cbn. intros; lia.
Qed.

Lemma offsets_last ts : forall off, last (offsets ts off) 0 = off + sum_tlen ts.
Proof.
  induction ts as [|t r IH]; intros off; cbn [offsets sum_tlen]; [cbn; lia|].
  change (last (off :: offsets r (off + tlen t)) 0) with
    (match offsets r (off + tlen t) with [] => off | _ => last (offsets r (off + tlen t)) 0 end).
  destruct (offsets r (off + tlen t)) eqn:E; [destruct r; discriminate|].
  rewrite <- E, IH. lia.
Qed.

(* the i-th start offset is the byte length of the first i tokens' text:
   every token starts (and ends) on a character boundary *)
Lemma offsets_nth ts : forall off i, (i <= length ts)%nat ->
  nth_error (offsets ts off) i = Some (off + blen (concat (map ttext (firstn i ts)))).
Proof.
  induction ts as [|t r IH]; intros off i Hi.
  - destruct i; [cbn; f_equal; lia|cbn in Hi; lia].
  - destruct i; [cbn; f_equal; lia|]. cbn [offsets nth_error firstn map concat].
    rewrite IH by (cbn in Hi; lia). rewrite blen_app. unfold tlen. f_equal. lia.
Qed.

Lemma lexed_starts l :
  lstarts (lexed_of l) = offsets (tokenize l) 0 /\
  StronglySorted N.lt (lstarts (lexed_of l)) /\
  last (lstarts (lexed_of l)) 0 = blen l /\
  length (lstarts (lexed_of l)) = S (length (tokenize l)).
Proof.
  unfold lexed_of. pose proof (lex_conv_spec (tokenize l) 0 0) as H.
  destruct (lex_conv (tokenize l) 0 0) as [[ks ss] es]. destruct H as [_ [H2 _]]. cbn. subst ss.
  destruct (tokens_lengths l) as [T1 T2].
  repeat split; auto.
  - apply offsets_sorted; auto.
  - rewrite offsets_last, T1. lia.
  - clear. generalize 0. induction (tokenize l); intros; cbn; auto.
Qed.

Lemma lexed_errors l i :
  In i (lerrors (lexed_of l)) <->
  exists t, nth_error (tokenize l) (N.to_nat i) = Some t /\ fst (syntax_kind_of t) = true.
Proof.
  unfold lexed_of. pose proof (lex_conv_spec (tokenize l) 0 0) as H.
  destruct (lex_conv (tokenize l) 0 0) as [[ks ss] es]. destruct H as [_ [_ H3]]. cbn.
  rewrite H3. split; intros [t H]; exists t.
  - rewrite N.sub_0_r in H. tauto.
  - rewrite N.sub_0_r. repeat split; try tauto. lia.
Qed.

(* which tokens are malformed (the flags the lexer stores in the token kind) *)
Definition malformed (k : TokenKind) : bool :=
  match k with
  | BlockComment terminated => negb terminated
  | OpenQasmVersionStmt ma mi => negb (ma && mi)
  | InvalidIdent => true
  | Literal (LInt _ e) _ => e
  | Literal (LFloat _ e) _ => e
  | Literal (LByte t) _ => negb t
  | Literal (LStr t) _ => negb t
  | Literal (LBitStr t c) _ => negb t || c
  | _ => false
  end.

Lemma malformed_iff_error t : fst (syntax_kind_of t) = malformed (tkind t).
Proof.
  unfold syntax_kind_of, malformed. destruct (tkind t); try reflexivity.
  - destruct (list_N_eqb (cps (ttext t)) [95]); [reflexivity|].
    destruct (table_find keyword_table (cps (ttext t))); [reflexivity|].
    destruct (table_find scalar_type_table (cps (ttext t))); reflexivity.
  - destruct (table_find keyword_table (cps (ttext t))); reflexivity.
  - destruct k; try reflexivity; destruct terminated; reflexivity.
Qed.
