(* C04: all templates in all contexts, by computation on the pipeline model. *)
From Coq Require Import NArith List Bool.
From OQ3 Require Import gen.Templates Model.Accept.
Import ListNotations.

Lemma templates_accepted :
  forallb (fun c => forallb (fun i => k_c04_rejected i || k_ctx_empty c i || k_box_top c i || accepted_in c i) ids) ctx_ids = true.
Proof. vm_compute. reflexivity. Qed.
Lemma known_rejected_everywhere :
  forallb (fun c => forallb (fun i => negb (k_c04_rejected i) || negb (accepted_in c i)) ids) ctx_ids = true.
Proof. vm_compute. reflexivity. Qed.

Lemma box_needs_semicolon_refuted :
  accepted_in 0 T_box_stmt = false /\ accepted_in 3 T_box_stmt = false /\ accepted_in 4 T_box_stmt = true.
Proof. vm_compute. auto. Qed.
