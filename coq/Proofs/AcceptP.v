(* C04 / C16: all templates in all contexts, all ordered pairs, by computation on the pipeline model. *)
From Coq Require Import NArith List Bool.
From OQ3 Require Import gen.Templates Model.Accept.
Import ListNotations.

Lemma templates_accepted :
  forallb (fun c => forallb (fun i => k_c04_rejected i || accepted_in c i) ids) ctx_ids = true.
Proof. vm_compute. reflexivity. Qed.
Lemma known_rejected_everywhere :
  forallb (fun c => forallb (fun i => negb (k_c04_rejected i) || negb (accepted_in c i)) ids) ctx_ids = true.
Proof. vm_compute. reflexivity. Qed.

Lemma pairs_compose_top : forallb (fun '(i, j) => k_c16 i j || composes_top i j) id_pairs = true.
Proof. vm_compute. reflexivity. Qed.
Lemma pairs_compose_block : forallb (fun '(i, j) => k_c16 i j || composes_block i j) id_pairs = true.
Proof. vm_compute. reflexivity. Qed.

(* witnesses of the two C16 classes *)
Lemma let_context_refuted : composes_top T_expr_call T_alias_slice = false /\ composes_block T_decl_int T_alias_slice = false.
Proof. vm_compute. auto. Qed.
Lemma assignment_glues_operator_refuted : composes_top T_assign_lit T_expr_neg = false.
Proof. vm_compute. auto. Qed.
