(* C04: all templates in all contexts, by computation on the pipeline model. *)
From Coq Require Import NArith List Bool.
From OQ3 Require Import gen.Templates Model.Accept.
Import ListNotations.

Lemma templates_accepted :
  forallb (fun c => forallb (fun i => k_c04_rejected i || k_ctx_empty c i || accepted_in c i) ids) ctx_ids = true.
Proof. vm_compute. reflexivity. Qed.
Lemma known_rejected_everywhere :
  forallb (fun c => forallb (fun i => negb (k_c04_rejected i) || negb (accepted_in c i)) ids) ctx_ids = true.
Proof. vm_compute. reflexivity. Qed.

