(* C07: the stack discipline of the symbol table implements lexical scoping. *)
From Coq Require Import NArith List Bool Lia.
From OQ3 Require Import Model.Types Model.SymTab Model.Scoping Proofs.SymTabP.
Import ListNotations.
Open Scope N_scope.

(* induction principle for the nested type *)
Section ItemInd.
  Variable P : item -> Prop.
  Hypothesis Hd : forall x t, P (IDecl x t).
  Hypothesis Hu : forall x, P (IUse x).
  Hypothesis Hs : forall sub b, Forall P b -> P (IScope sub b).
  Fixpoint item_ind2 (it : item) : P it :=
    match it with
    | IDecl x t => Hd x t
    | IUse x => Hu x
    | IScope sub b =>
        Hs sub b ((fix go (l : list item) : Forall P l :=
                     match l with [] => Forall_nil P | i :: r => Forall_cons i (item_ind2 i) (go r) end) b)
    end.
End ItemInd.

Definition outer_of (rest : list (ScopeType * list (name * (id * Ty)))) : env :=
  fun x => option_map fst (slookup x rest).

Lemma assoc_loc_of x m : assoc x (loc_of m) = option_map fst (sassoc x m).
Proof.
  induction m as [|[n [i t]] m IH]; cbn; auto. destruct (N.eqb x n); auto.
Qed.

Lemma outer_cons st m rest outer x :
  (forall y, outer y = outer_of rest y) ->
  ext outer (loc_of m) x = outer_of ((st, m) :: rest) x.
Proof.
  intros H. unfold ext, outer_of. cbn. rewrite assoc_loc_of, H.
  destruct (sassoc x m) as [[i t]|]; cbn; auto.
Qed.

Lemma nlen_snoc {A} (l : list A) x : nlen (l ++ [x]) = N.succ (nlen l).
Proof. unfold nlen. rewrite app_length. cbn. lia. Qed.

Lemma evs_app a b : evs (a ++ b) = evs a ++ evs b.
Proof. unfold evs. apply flat_map_app. Qed.

(* what running the operations of one item does, against the reference *)
Definition item_ok (it : item) : Prop :=
  forall outer s st m rest,
    sstack s = (st, m) :: rest -> (forall y, outer y = outer_of rest y) ->
    exists s' xs m',
      srun s (compile it) = (s', xs) /\ ~ In OPanic xs /\
      sstack s' = (st, m') :: rest /\
      lres_item outer (loc_of m) (nlen (shist s)) it = (evs xs, loc_of m', nlen (shist s')).

Definition items_ok (its : list item) : Prop :=
  forall outer s st m rest,
    sstack s = (st, m) :: rest -> (forall y, outer y = outer_of rest y) ->
    exists s' xs m',
      srun s (compile_all its) = (s', xs) /\ ~ In OPanic xs /\
      sstack s' = (st, m') :: rest /\
      lres_list (lres_item outer) (loc_of m) (nlen (shist s)) its = (evs xs, loc_of m', nlen (shist s')).

Lemma items_of_item its : Forall item_ok its -> items_ok its.
Proof.
  induction 1 as [|it its Hit _ IH]; intros outer s st m rest Hs Ho.
  - exists s, [], m. cbn. repeat split; auto.
  - destruct (Hit outer s st m rest Hs Ho) as [s1 [x1 [m1 [R1 [N1 [S1 L1]]]]]].
    destruct (IH outer s1 st m1 rest S1 Ho) as [s2 [x2 [m2 [R2 [N2 [S2 L2]]]]]].
    exists s2, (x1 ++ x2), m2. unfold compile_all. cbn [flat_map].
    rewrite (srun_app _ _ _ _ _ R1 N1). fold (compile_all its). rewrite R2. cbn [fst snd].
    repeat split; auto.
    + intros H. apply in_app_or in H. tauto.
    + cbn [lres_list]. rewrite L1, L2, evs_app. reflexivity.
Qed.

Lemma item_all_ok : forall it, item_ok it.
Proof.
  apply item_ind2.
  - (* declaration *)
    intros x t outer s st m rest Hs Ho. cbn [compile lres_item srun sstep]. rewrite Hs. cbn [snd].
    rewrite assoc_loc_of. destruct (sassoc x m) as [[i t']|] eqn:E; cbn [option_map].
    + exists s, [OAlready], m. repeat split; auto. intros [H|[]]; discriminate.
    + unfold sbind. rewrite Hs.
      eexists _, [OBound (nlen (shist s))], ((x, (nlen (shist s), t)) :: m). cbn.
      repeat split; auto.
      * intros [H|[]]; discriminate.
      * cbn [shist]. rewrite nlen_snoc. reflexivity.
  - (* use *)
    intros x outer s st m rest Hs Ho. cbn [compile lres_item srun sstep]. rewrite Hs.
    rewrite (outer_cons st m rest outer x Ho). unfold outer_of.
    destruct (slookup x ((st, m) :: rest)) as [[i t]|]; cbn [option_map fst].
    + exists s, [OFound i x t], m. repeat split; auto. intros [H|[]]; discriminate.
    + exists s, [OMissing], m. repeat split; auto. intros [H|[]]; discriminate.
  - (* scope construct *)
    intros sub b Hb outer s st m rest Hs Ho.
    pose proof (items_of_item b Hb) as IB.
    set (s0 := {| sstack := (scope_ty sub, []) :: sstack s; shist := shist s |}).
    assert (sstack s0 = (scope_ty sub, []) :: (st, m) :: rest) as Hs0 by (cbn; rewrite Hs; auto).
    destruct (IB (ext outer (loc_of m)) s0 (scope_ty sub) [] ((st, m) :: rest) Hs0
                 (fun y => outer_cons st m rest outer y Ho)) as [s1 [x1 [m1 [R1 [N1 [S1 L1]]]]]].
    cbn [compile]. change (Enter (scope_ty sub) :: flat_map compile b ++ [Exit])
      with ([Enter (scope_ty sub)] ++ (compile_all b ++ [Exit])).
    assert (srun s [Enter (scope_ty sub)] = (s0, [OOk])) as RE.
    { cbn. destruct sub; cbn; reflexivity. }
    rewrite (srun_app _ _ _ _ _ RE) by (intros [H|[]]; discriminate).
    rewrite (srun_app _ _ _ _ _ R1 N1).
    assert (srun s1 [Exit] = ({| sstack := (st, m) :: rest; shist := shist s1 |}, [OOk])) as RX.
    { cbn. rewrite S1. reflexivity. }
    rewrite RX. cbn [fst snd].
    eexists _, ([OOk] ++ x1 ++ [OOk]), m. repeat split.
    + intros H. cbn in H. destruct H as [H|H]; [discriminate|].
      apply in_app_or in H. destruct H as [H|[H|[]]]; [tauto|discriminate].
    + cbn [lres_item]. change (loc_of []) with (@nil (name * id)) in L1.
      change (shist s0) with (shist s) in L1. rewrite L1.
      rewrite !evs_app. cbn. rewrite app_nil_r. reflexivity.
Qed.

Lemma sinit_stack : exists st m, sstack sinit = [(st, m)].
Proof. vm_compute. eauto. Qed.

(* every program: the events of the symbol-table run are those of the lexical reference, and
   only the global scope is open afterwards *)
Lemma all_items_ok its : Forall item_ok its.
Proof. apply Forall_forall. intros it _. apply item_all_ok. Qed.

Theorem lexical_spec its :
  evs (snd (srun sinit (compile_all its))) = lres_prog its /\
  ~ In OPanic (snd (srun sinit (compile_all its))) /\
  exists sc, sstack (fst (srun sinit (compile_all its))) = [sc].
Proof.
  destruct sinit_stack as [st [m Hs]].
  destruct (items_of_item its (all_items_ok its) (fun _ => None) sinit st m [] Hs)
    as [s1 [x1 [m1 [R1 [N1 [S1 L1]]]]]]; [reflexivity|].
  rewrite R1. cbn [fst snd]. repeat split; auto; [|eexists; eauto].
  unfold lres_prog, init_loc, init_next. rewrite Hs, L1. reflexivity.
Qed.

(* the same for the model of SymbolTable itself (through the refinement theorem of C19) *)
Theorem lexical its :
  evs (snd (run init (compile_all its))) = lres_prog its /\
  ~ In OPanic (snd (run init (compile_all its))) /\
  open_scopes (compile_all its) = 1.
Proof.
  destruct (refines (compile_all its)) as [R A].
  destruct (lexical_spec its) as [E [NP [sc S]]].
  rewrite R. repeat split; auto.
  unfold open_scopes. unfold abs in A.
  assert (length (scopes (fst (run init (compile_all its)))) = 1%nat) as HL.
  { rewrite <- (map_length (abs_scope (all (fst (run init (compile_all its)))))).
    change (map (abs_scope (all (fst (run init (compile_all its))))) (scopes (fst (run init (compile_all its)))))
      with (sstack (abs (fst (run init (compile_all its))))).
    unfold abs. rewrite A, S. reflexivity. }
  unfold nlen. rewrite HL. reflexivity.
Qed.

(* consequences stated on the reference *)
(* a second declaration in the same block never replaces the first; inner blocks shadow silently *)
Lemma redeclaration_keeps_first outer loc nx x t i :
  assoc x loc = Some i -> lres_item outer loc nx (IDecl x t) = ([EDup], loc, nx).
Proof. intros H. cbn. rewrite H. reflexivity. Qed.
Lemma shadowing_is_silent outer loc nx x t :
  assoc x loc = None -> lres_item outer loc nx (IDecl x t) = ([EBound nx], (x, nx) :: loc, N.succ nx).
Proof. intros H. cbn. rewrite H. reflexivity. Qed.
(* names declared in a block are not visible after it: the block leaves loc unchanged *)
Lemma scope_exit_restores outer loc nx sub b :
  snd (fst (lres_item outer loc nx (IScope sub b))) = loc.
Proof. cbn. destruct (lres_list _ _ _ _) as [[es l] n]. reflexivity. Qed.
