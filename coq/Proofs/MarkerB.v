(* Theorem B, first part: the marker discipline.  A Hoare logic over the whole parser state that
   ignores token data (every branch is explored) and tracks only the event slots that are
   Start events and the ghost set of live markers.  Outcomes: a marker panic (SMarker,
   SDropBomb, SProcess) is forbidden; the other panics and fuel exhaustion are theorem A's. *)
From Coq Require Import NArith Arith List Bool Lia.
From OQ3 Require Import gen.Kinds Model.Parser Model.Grammar.
Import ListNotations.
Local Open Scope nat_scope.

Definition mark (w : site) : Prop :=
  match w with SMarker _ | SDropBomb | SProcess => True | _ => False end.

Definition WB {A} (m : M A) (Q : A -> pst -> Prop) (s : pst) : Prop :=
  match m s with
  | Ok a s' => Q a s'
  | Panic w => ~ mark w
  | OutOfFuel => True
  end.

Lemma WB_ret {A} (a : A) (Q : A -> pst -> Prop) s : Q a s -> WB (ret a) Q s.
Proof. auto. Qed.
Lemma WB_bind {A B} (m : M A) (f : A -> M B) (Q : B -> pst -> Prop) s :
  WB m (fun a s1 => WB (f a) Q s1) s -> WB (bind m f) Q s.
Proof. unfold WB, bind. destruct (m s); auto. Qed.
Lemma WB_conseq {A} (m : M A) (Q Q' : A -> pst -> Prop) s :
  WB m Q s -> (forall a s', Q a s' -> Q' a s') -> WB m Q' s.
Proof. unfold WB. destruct (m s); auto. Qed.
Lemma WB_panic {A} w (Q : A -> pst -> Prop) s : ~ mark w -> WB (panic w) Q s.
Proof. auto. Qed.
Lemma WB_oof {A} (Q : A -> pst -> Prop) s : WB out_of_fuel Q s.
Proof. exact I. Qed.

(* ---- slots ---- *)
Lemma nth_error_rev_idx {A} (l : list A) i :
  i < length l -> nth_error (rev l) i = nth_error l (length l - 1 - i).
Proof.
  revert i. induction l as [|a l IH]; intros i H; cbn [length rev] in *; [lia|].
  destruct (Nat.eq_dec i (length l)) as [E|E].
  - subst i. rewrite nth_error_app2 by (rewrite rev_length; lia). rewrite rev_length, Nat.sub_diag.
    replace (S (length l) - 1 - length l) with 0 by lia. reflexivity.
  - rewrite nth_error_app1 by (rewrite rev_length; lia). rewrite IH by lia.
    replace (S (length l) - 1 - i) with (S (length l - 1 - i)) by lia. reflexivity.
Qed.
Lemma slot_rev s i : slot s i = nth_error (rev (evs s)) i.
Proof.
  unfold slot, nev. destruct (i <? length (evs s)) eqn:E.
  - apply Nat.ltb_lt in E. rewrite nth_error_rev_idx by lia. reflexivity.
  - apply Nat.ltb_ge in E. symmetry. apply nth_error_None. rewrite rev_length. exact E.
Qed.
Lemma slot_some_lt s i e : slot s i = Some e -> i < nev s.
Proof. unfold slot. destruct (i <? nev s) eqn:E; [apply Nat.ltb_lt in E; auto|discriminate]. Qed.

Definition is_start (s : pst) (i : nat) : Prop := exists k fp, slot s i = Some (EStart k fp).
(* a Start slot that no live marker owns: completed, or abandoned in place *)
Definition Valid (s : pst) (i : nat) : Prop := is_start s i /\ ~ In i (live s).
Definition LiveOK (s : pst) : Prop :=
  forall m, In m (live s) -> slot s m = Some (EStart K_TOMBSTONE None).

(* events appended, nothing else touched *)
Definition Appends (s s' : pst) : Prop := live s' = live s /\ exists l, evs s' = l ++ evs s.

Lemma appends_slot s s' i e : Appends s s' -> slot s i = Some e -> slot s' i = Some e.
Proof.
  intros [_ [l Hl]] H. rewrite slot_rev in *. rewrite Hl, rev_app_distr.
  rewrite nth_error_app1; auto. apply nth_error_Some. congruence.
Qed.
Lemma appends_nev s s' : Appends s s' -> nev s <= nev s'.
Proof. intros [_ [l Hl]]. unfold nev. rewrite Hl, app_length. lia. Qed.
Lemma appends_valid s s' i : Appends s s' -> Valid s i -> Valid s' i.
Proof.
  intros HA [[k [fp H]] HN]. split.
  - exists k, fp. eapply appends_slot; eauto.
  - destruct HA as [HL _]. rewrite HL. exact HN.
Qed.
Lemma appends_liveok s s' : Appends s s' -> LiveOK s -> LiveOK s'.
Proof.
  intros HA HL m Hm. pose proof HA as [E _]. rewrite E in Hm. eapply appends_slot; eauto.
Qed.
Lemma appends_refl s : Appends s s.
Proof. split; auto. exists []; auto. Qed.
Lemma appends_trans a b c : Appends a b -> Appends b c -> Appends a c.
Proof.
  intros [H1 [l1 E1]] [H2 [l2 E2]]. split; [congruence|]. exists (l2 ++ l1). rewrite E2, E1, app_assoc. auto.
Qed.

(* ---- the threaded state predicate ----
   own : live markers started (or received) by the function being verified, newest first
   Lb  : the live markers of the caller (untouched)
   b0  : a lower bound of nev that the function never goes below
   V   : Start slots that were valid at entry and must stay valid *)
Definition St (own Lb : list nat) (b0 : nat) (V : nat -> Prop) (s : pst) : Prop :=
  LiveOK s /\ live s = own ++ Lb /\ (forall i, V i -> Valid s i) /\ b0 <= nev s /\
  Forall (fun m => b0 <= m) own /\ NoDup (live s).

Lemma st_appends own Lb b0 V s s' : St own Lb b0 V s -> Appends s s' -> St own Lb b0 V s'.
Proof.
  intros [H1 [H2 [H3 [H4 [H5 H6]]]]] HA. split; [|split; [|split; [|split; [|split]]]]; auto.
  - eapply appends_liveok; eauto.
  - destruct HA as [E _]. congruence.
  - intros i Hi. eapply appends_valid; eauto.
  - pose proof (appends_nev _ _ HA). lia.
  - destruct HA as [E _]. rewrite E. exact H6.
Qed.

(* primitives that only append events *)
Definition Pure {A} (m : M A) : Prop :=
  forall s, match m s with Ok _ s' => Appends s s' | Panic w => ~ mark w | OutOfFuel => True end.

Lemma WB_pure {A} (m : M A) (Q : A -> pst -> Prop) s :
  Pure m -> (forall a s', Appends s s' -> Q a s') -> WB m Q s.
Proof. intros HP H. unfold WB. specialize (HP s). destruct (m s); auto. Qed.

Lemma pure_ret {A} (a : A) : Pure (ret a).
Proof. intros s. apply appends_refl. Qed.
Lemma pure_bind {A B} (m : M A) (f : A -> M B) : Pure m -> (forall a, Pure (f a)) -> Pure (bind m f).
Proof.
  intros Hm Hf s. unfold bind. specialize (Hm s). destruct (m s) as [a s1| |]; auto.
  specialize (Hf a s1). destruct (f a s1); auto. eapply appends_trans; eauto.
Qed.
Lemma pure_push e : Pure (push e).
Proof. intros s. split; auto. exists [e]; auto. Qed.
Lemma pure_panic {A} w : ~ mark w -> Pure (@panic A w).
Proof. intros H s. exact H. Qed.

Section Prims.
Variable inp : list (N * bool).
Lemma pure_current : Pure (current inp). Proof. intros s. apply appends_refl. Qed.
Lemma pure_nth_tok n : Pure (nth_tok inp n).
Proof. intros s. unfold nth_tok. destruct (n <=? 3); [apply appends_refl|cbn; tauto]. Qed.
Lemma pure_at k : Pure (at_ inp k). Proof. intros s. apply appends_refl. Qed.
Lemma pure_nth_at n k : Pure (nth_at inp n k). Proof. intros s. apply appends_refl. Qed.
Lemma pure_at_ts ts : Pure (at_ts inp ts). Proof. intros s. apply appends_refl. Qed.
Lemma pure_do_bump k n : Pure (do_bump k n).
Proof. intros s. split; auto. exists [EToken k n]; auto. Qed.
Lemma pure_eat k : Pure (eat inp k).
Proof.
  intros s. unfold eat. destruct (nth_at_pure inp (pos s) 0 k); [|apply appends_refl].
  cbn. split; auto. eexists [_]; reflexivity.
Qed.
Lemma pure_bump k : Pure (bump inp k).
Proof. unfold bump. apply pure_bind; [apply pure_eat|]. intros []; [apply pure_ret|apply pure_panic; cbn; tauto]. Qed.
Lemma pure_bump_any : Pure (bump_any inp).
Proof.
  intros s. unfold bump_any. destruct (N.eqb _ _); [apply appends_refl|].
  cbn. split; auto. eexists [_]; reflexivity.
Qed.
Lemma pure_error : Pure error. Proof. apply pure_push. Qed.
Lemma pure_expect k : Pure (expect inp k).
Proof.
  unfold expect. apply pure_bind; [apply pure_eat|]. intros []; [apply pure_ret|].
  apply pure_bind; [apply pure_error|]. intros; apply pure_ret.
Qed.
End Prims.

(* ---- marker primitives ---- *)
Lemma nev_cons s e : nev {| pos := pos s; evs := e :: evs s; live := live s |} = S (nev s).
Proof. reflexivity. Qed.

Lemma slot_push_old s e lv p i x :
  slot s i = Some x -> slot {| pos := p; evs := e :: evs s; live := lv |} i = Some x.
Proof.
  intros H. rewrite slot_rev in *. cbn [evs rev]. rewrite nth_error_app1; auto.
  apply nth_error_Some. congruence.
Qed.
Lemma slot_push_new s e lv p :
  slot {| pos := p; evs := e :: evs s; live := lv |} (nev s) = Some e.
Proof.
  rewrite slot_rev. cbn [evs rev]. rewrite nth_error_app2 by (rewrite rev_length; unfold nev; lia).
  rewrite rev_length. unfold nev. rewrite Nat.sub_diag. reflexivity.
Qed.

Lemma In_remove_nat x y l : In x (remove_nat y l) -> In x l.
Proof.
  induction l as [|z l IH]; cbn; auto. destruct (y =? z); auto. intros [H|H]; auto.
Qed.
Lemma mem_nat_In x l : mem_nat x l = true <-> In x l.
Proof.
  induction l as [|y l IH]; cbn; [split; [discriminate|tauto]|].
  rewrite orb_true_iff, Nat.eqb_eq, IH. split; intros [H|H]; auto.
Qed.
Lemma remove_nat_head m l : remove_nat m (m :: l) = l.
Proof. cbn. rewrite Nat.eqb_refl. reflexivity. Qed.

(* set_slot: rewriting a Start slot in place keeps every Start slot a Start slot *)
Lemma set_nth_length {A} (l : list A) i x : length (set_nth l i x) = length l.
Proof. revert i. induction l as [|y l IH]; intros [|i]; cbn; auto. Qed.
Lemma nth_error_set_nth_same {A} (l : list A) i x : i < length l -> nth_error (set_nth l i x) i = Some x.
Proof. revert i. induction l as [|y l IH]; intros [|i] H; cbn in *; try lia; auto. apply IH. lia. Qed.
Lemma nth_error_set_nth_other {A} (l : list A) i j x : i <> j -> nth_error (set_nth l i x) j = nth_error l j.
Proof. revert i j. induction l as [|y l IH]; intros [|i] [|j] H; cbn; auto; try lia. Qed.

Lemma slot_set_same s i e : i < nev s -> slot (set_slot s i e) i = Some e.
Proof.
  intros H. unfold slot, set_slot, nev in *. cbn [evs]. rewrite set_nth_length.
  destruct (i <? length (evs s)) eqn:E; [|apply Nat.ltb_ge in E; lia].
  apply nth_error_set_nth_same. lia.
Qed.
Lemma slot_set_other s i j e : i <> j -> i < nev s -> slot (set_slot s i e) j = slot s j.
Proof.
  intros H Hi. unfold slot, set_slot, nev in *. cbn [evs]. rewrite set_nth_length.
  destruct (j <? length (evs s)) eqn:E; auto. apply Nat.ltb_lt in E.
  apply nth_error_set_nth_other. lia.
Qed.
Lemma nev_set_slot s i e : nev (set_slot s i e) = nev s.
Proof. unfold nev, set_slot. cbn. apply set_nth_length. Qed.

(* start *)
Lemma WB_start (Q : marker -> pst -> Prop) own Lb b0 V s :
  St own Lb b0 V s ->
  (forall s', St (nev s :: own) Lb b0 V s' -> nev s' = S (nev s) ->
              (forall i, Valid s i -> Valid s' i) -> Q (nev s) s') ->
  WB start Q s.
Proof.
  intros [H1 [H2 [H3 [H4 [H5 H6]]]]] HQ. unfold WB, start. apply HQ.
  - split; [|split; [|split; [|split; [|split]]]].
    + intros m [Hm|Hm].
      * subst m. apply slot_push_new.
      * apply slot_push_old. apply H1. exact Hm.
    + cbn [live]. rewrite H2. reflexivity.
    + intros i Hi. destruct (H3 i Hi) as [[k [fp Hs]] Hn]. split.
      * exists k, fp. apply slot_push_old. exact Hs.
      * cbn [live]. intros [E|E]; [|auto]. subst i. apply slot_some_lt in Hs. lia.
    + unfold nev in *. cbn [evs length]. lia.
    + constructor; auto.
    + cbn [live]. constructor; auto. intros Hin. apply H1 in Hin. apply slot_some_lt in Hin. lia.
  - reflexivity.
  - intros i [[k [fp Hs]] Hn]. split.
    + exists k, fp. apply slot_push_old. exact Hs.
    + cbn [live]. intros [E|E]; [|auto]. subst i. apply slot_some_lt in Hs. lia.
Qed.

Lemma remove_nat_app m own Lb : In m own -> remove_nat m (own ++ Lb) = remove_nat m own ++ Lb.
Proof.
  induction own as [|x own IH]; cbn; [tauto|]. intros [H|H].
  - subst. rewrite Nat.eqb_refl. reflexivity.
  - destruct (m =? x); auto. rewrite IH; auto.
Qed.
Lemma remove_nat_notin m x l : NoDup l -> In x (remove_nat m l) -> x <> m /\ In x l.
Proof.
  induction l as [|y l IH]; cbn; [tauto|]. intros HN. inversion HN; subst.
  destruct (m =? y) eqn:E.
  - apply Nat.eqb_eq in E. subst y. intros H. split; auto. intros ->. contradiction.
  - intros [H|H].
    + subst y. split; auto. apply Nat.eqb_neq in E. auto.
    + destruct (IH H2 H); auto.
Qed.
Lemma remove_nat_nodup m l : NoDup l -> NoDup (remove_nat m l).
Proof.
  induction l as [|y l IH]; cbn; auto. intros HN. inversion HN; subst.
  destruct (m =? y); auto. constructor; auto. intros H. apply In_remove_nat in H. contradiction.
Qed.
Lemma forall_remove_nat (P : nat -> Prop) m l : Forall P l -> Forall P (remove_nat m l).
Proof. induction 1; cbn; auto. destruct (m =? x); auto. Qed.

Lemma WB_use_marker m w (Q : unit -> pst -> Prop) s :
  In m (live s) ->
  Q tt {| pos := pos s; evs := evs s; live := remove_nat m (live s) |} ->
  WB (use_marker m w) Q s.
Proof.
  intros Hin HQ. unfold WB, use_marker. apply mem_nat_In in Hin. rewrite Hin. exact HQ.
Qed.

(* complete *)
Lemma WB_complete m k (Q : cmarker -> pst -> Prop) own Lb b0 V s :
  St own Lb b0 V s -> In m own ->
  (forall s', St (remove_nat m own) Lb b0 V s' -> Valid s' m -> nev s <= nev s' ->
              (forall i, Valid s i -> Valid s' i) -> Q (m, k) s') ->
  WB (complete m k) Q s.
Proof.
  intros [H1 [H2 [H3 [H4 [H5 H6]]]]] Hin HQ.
  assert (In m (live s)) as Hl by (rewrite H2; apply in_or_app; auto).
  unfold complete. apply WB_bind. apply WB_use_marker; auto.
  set (s1 := {| pos := pos s; evs := evs s; live := remove_nat m (live s) |}).
  assert (slot s1 m = Some (EStart K_TOMBSTONE None)) as Hs by (apply (H1 m Hl)).
  unfold WB. rewrite Hs.
  pose proof (slot_some_lt _ _ _ Hs) as Hlt.
  assert (forall j, j <> m -> forall x, slot s j = Some x ->
            slot {| pos := pos (set_slot s1 m (EStart k None)); evs := EFinish :: evs (set_slot s1 m (EStart k None));
                    live := live (set_slot s1 m (EStart k None)) |} j = Some x) as Hother.
  { intros j Hj x Hx. apply slot_push_old. rewrite slot_set_other; auto. }
  apply HQ.
  - split; [|split; [|split; [|split; [|split]]]].
    + intros m' Hm'. cbn [live set_slot] in Hm'. apply (remove_nat_notin _ _ _ H6) in Hm'.
      destruct Hm' as [Hne Hm']. apply Hother; auto.
    + cbn [live set_slot s1]. rewrite H2. apply remove_nat_app; auto.
    + intros i Hi. destruct (H3 i Hi) as [[k' [fp Hsi]] Hn]. split.
      * exists k', fp. apply Hother; auto. intros ->. contradiction.
      * cbn [live set_slot s1]. intros Hc. apply In_remove_nat in Hc. contradiction.
    + unfold nev in *. cbn [evs set_slot s1]. cbn [length]. rewrite set_nth_length. lia.
    + apply forall_remove_nat; auto.
    + cbn [live set_slot s1]. apply remove_nat_nodup; auto.
  - split.
    + exists k, None. apply slot_push_old. apply slot_set_same. exact Hlt.
    + cbn [live set_slot s1]. intros Hc. apply (remove_nat_notin _ _ _ H6) in Hc. tauto.
  - unfold nev. cbn [evs set_slot s1 length]. rewrite set_nth_length. lia.
  - intros i [[k' [fp Hsi]] Hn]. split.
    + exists k', fp. apply Hother; auto. intros ->. contradiction.
    + cbn [live set_slot s1]. intros Hc. apply In_remove_nat in Hc. contradiction.
Qed.

(* popping the newest event *)
Lemma slot_pop s e r lv p i x :
  evs s = e :: r -> i < length r -> slot s i = Some x ->
  slot {| pos := p; evs := r; live := lv |} i = Some x.
Proof.
  intros He Hi H. rewrite slot_rev in *. cbn [evs]. rewrite He in H. cbn [rev] in H.
  rewrite nth_error_app1 in H by (rewrite rev_length; lia). exact H.
Qed.

(* abandon *)
Lemma WB_abandon m (Q : unit -> pst -> Prop) own Lb b0 V s :
  St own Lb b0 V s -> In m own ->
  (forall s', St (remove_nat m own) Lb b0 V s' -> (forall i, Valid s i -> Valid s' i) -> m <= nev s' -> Q tt s') ->
  WB (abandon m) Q s.
Proof.
  intros [H1 [H2 [H3 [H4 [H5 H6]]]]] Hin HQ.
  assert (In m (live s)) as Hl by (rewrite H2; apply in_or_app; auto).
  assert (b0 <= m) as Hb by (rewrite Forall_forall in H5; auto).
  unfold abandon. apply WB_bind. apply WB_use_marker; auto.
  set (s1 := {| pos := pos s; evs := evs s; live := remove_nat m (live s) |}).
  pose proof (H1 m Hl) as Hs. pose proof (slot_some_lt _ _ _ Hs) as Hlt.
  unfold WB. change (nev s1) with (nev s). destruct (S m =? nev s) eqn:E.
  - apply Nat.eqb_eq in E. change (evs s1) with (evs s).
    destruct (evs s) as [|e r] eqn:Ev; [unfold nev in E; rewrite Ev in E; cbn in E; lia|].
    assert (e = EStart K_TOMBSTONE None) as ->.
    { rewrite slot_rev, Ev in Hs. cbn [rev] in Hs. unfold nev in E. rewrite Ev in E. cbn in E.
      rewrite nth_error_app2 in Hs by (rewrite rev_length; lia). rewrite rev_length in Hs.
      replace (m - length r) with 0 in Hs by lia. cbn in Hs. congruence. }
    rewrite N.eqb_refl.
    assert (length r = m) as Hr by (unfold nev in E; rewrite Ev in E; cbn in E; lia).
    assert (forall j x, j <> m -> slot s j = Some x ->
              slot {| pos := pos s1; evs := r; live := live s1 |} j = Some x) as Hother.
    { intros j x Hj Hx. eapply slot_pop; eauto. apply slot_some_lt in Hx. lia. }
    apply HQ.
    + split; [|split; [|split; [|split; [|split]]]].
      * intros m' Hm'. cbn [live s1] in Hm'. apply (remove_nat_notin _ _ _ H6) in Hm'.
        destruct Hm' as [Hne Hm']. apply Hother; auto.
      * cbn [live s1]. rewrite H2. apply remove_nat_app; auto.
      * intros i Hi. destruct (H3 i Hi) as [[k' [fp Hsi]] Hn]. split.
        -- exists k', fp. apply Hother; auto. intros ->. contradiction.
        -- cbn [live s1]. intros Hc. apply In_remove_nat in Hc. contradiction.
      * unfold nev. cbn [evs]. lia.
      * apply forall_remove_nat; auto.
      * cbn [live s1]. apply remove_nat_nodup; auto.
    + intros i [[k' [fp Hsi]] Hn]. split.
      * exists k', fp. apply Hother; auto. intros ->. contradiction.
      * cbn [live s1]. intros Hc. apply In_remove_nat in Hc. contradiction.
    + unfold nev. cbn [evs]. lia.
  - apply HQ.
    + split; [|split; [|split; [|split; [|split]]]].
      * intros m' Hm'. cbn [live s1] in Hm'. apply In_remove_nat in Hm'. apply (H1 m' Hm').
      * cbn [live s1]. rewrite H2. apply remove_nat_app; auto.
      * intros i Hi. destruct (H3 i Hi) as [Hst Hn]. split; auto.
        cbn [live s1]. intros Hc. apply In_remove_nat in Hc. contradiction.
      * exact H4.
      * apply forall_remove_nat; auto.
      * cbn [live s1]. apply remove_nat_nodup; auto.
    + intros i [Hst Hn]. split; auto. cbn [live s1]. intros Hc. apply In_remove_nat in Hc. contradiction.
    + change (nev s1) with (nev s). lia.
Qed.

(* precede *)
Lemma WB_precede cm (Q : marker -> pst -> Prop) own Lb b0 V s :
  St own Lb b0 V s -> Valid s (fst cm) ->
  (forall s', St (nev s :: own) Lb b0 V s' -> nev s' = S (nev s) ->
              (forall i, Valid s i -> Valid s' i) -> Q (nev s) s') ->
  WB (precede cm) Q s.
Proof.
  intros HS [[k [fp Hc]] Hn] HQ. unfold precede. apply WB_bind.
  eapply WB_start; [exact HS|]. intros s1 HS1 Hnev Hmono.
  destruct (Hmono (fst cm) (conj (ex_intro _ k (ex_intro _ fp Hc)) Hn)) as [[k1 [fp1 Hc1]] Hn1].
  unfold WB. rewrite Hc1. pose proof (slot_some_lt _ _ _ Hc) as Hlt.
  destruct (fst cm <=? nev s) eqn:E; [|apply Nat.leb_gt in E; lia].
  destruct HS1 as [H1 [H2 [H3 [H4 [H5 H6]]]]].
  pose proof (slot_some_lt _ _ _ Hc1) as Hlt1.
  assert (forall j x, j <> fst cm -> slot s1 j = Some x ->
            slot (set_slot s1 (fst cm) (EStart k1 (Some (nev s - fst cm)))) j = Some x) as Hother.
  { intros j x Hj Hx. rewrite slot_set_other; auto. }
  assert (forall j, is_start s1 j -> is_start (set_slot s1 (fst cm) (EStart k1 (Some (nev s - fst cm)))) j) as Hst.
  { intros j [kj [fj Hj]]. destruct (Nat.eq_dec j (fst cm)) as [->|Hne].
    - eexists _, _. apply slot_set_same. exact Hlt1.
    - exists kj, fj. apply Hother; auto. }
  apply HQ.
  - split; [|split; [|split; [|split; [|split]]]].
    + intros m' Hm'. cbn [live set_slot] in Hm'. apply Hother; [|apply H1; exact Hm'].
      intros ->. contradiction.
    + exact H2.
    + intros i Hi. destruct (H3 i Hi) as [Hs Hnn]. split; auto.
    + rewrite nev_set_slot. exact H4.
    + exact H5.
    + exact H6.
  - rewrite nev_set_slot. exact Hnev.
  - intros i Hi. destruct (Hmono i Hi) as [Hs Hnn]. split; auto.
Qed.

(* extend_to *)
Lemma WB_extend_to cm m (Q : cmarker -> pst -> Prop) own Lb b0 V s :
  St own Lb b0 V s -> In m own -> Valid s (fst cm) -> m <= fst cm ->
  (forall s', St (remove_nat m own) Lb b0 V s' -> Valid s' (fst cm) -> Valid s' m ->
              nev s' = nev s -> (forall i, Valid s i -> Valid s' i) -> Q cm s') ->
  WB (extend_to cm m) Q s.
Proof.
  intros [H1 [H2 [H3 [H4 [H5 H6]]]]] Hin [[kc [fc Hc]] Hnc] Hle HQ.
  assert (In m (live s)) as Hl by (rewrite H2; apply in_or_app; auto).
  unfold extend_to. apply WB_bind. apply WB_use_marker; auto.
  set (s1 := {| pos := pos s; evs := evs s; live := remove_nat m (live s) |}).
  pose proof (H1 m Hl) as Hs. pose proof (slot_some_lt _ _ _ Hs) as Hlt.
  unfold WB. change (slot s1 m) with (slot s m). rewrite Hs.
  destruct (m <=? fst cm) eqn:E; [|apply Nat.leb_gt in E; lia].
  assert (m <> fst cm) as Hne by (intros ->; contradiction).
  assert (forall j x, j <> m -> slot s j = Some x ->
            slot (set_slot s1 m (EStart K_TOMBSTONE (Some (fst cm - m)))) j = Some x) as Hother.
  { intros j x Hj Hx. rewrite slot_set_other; auto. }
  apply HQ.
  - split; [|split; [|split; [|split; [|split]]]].
    + intros m' Hm'. cbn [live set_slot s1] in Hm'. apply (remove_nat_notin _ _ _ H6) in Hm'.
      destruct Hm' as [Hn' Hm']. apply Hother; auto.
    + cbn [live set_slot s1]. rewrite H2. apply remove_nat_app; auto.
    + intros i Hi. destruct (H3 i Hi) as [[k' [fp Hsi]] Hn]. split.
      * exists k', fp. apply Hother; auto. intros ->. contradiction.
      * cbn [live set_slot s1]. intros Hcc. apply In_remove_nat in Hcc. contradiction.
    + rewrite nev_set_slot. exact H4.
    + apply forall_remove_nat; auto.
    + cbn [live set_slot s1]. apply remove_nat_nodup; auto.
  - split.
    + exists kc, fc. apply Hother; auto.
    + cbn [live set_slot s1]. intros Hcc. apply In_remove_nat in Hcc. contradiction.
  - split.
    + eexists _, _. apply slot_set_same. exact Hlt.
    + cbn [live set_slot s1]. intros Hcc. apply (remove_nat_notin _ _ _ H6) in Hcc. tauto.
  - rewrite nev_set_slot. reflexivity.
  - intros i [[k' [fp Hsi]] Hn]. split.
    + exists k', fp. apply Hother; auto. intros ->. contradiction.
    + cbn [live set_slot s1]. intros Hcc. apply In_remove_nat in Hcc. contradiction.
Qed.

(* ---- effects of whole functions ---- *)
(* leaves the live markers as it found them *)
Definition Frame (s s' : pst) : Prop :=
  LiveOK s' /\ live s' = live s /\ (forall i, Valid s i -> Valid s' i) /\ nev s <= nev s' /\ NoDup (live s').
(* consumes (completes or abandons) the newest live marker m *)
Definition FrameC (m : nat) (s s' : pst) : Prop :=
  LiveOK s' /\ live s = m :: live s' /\ (forall i, Valid s i -> Valid s' i) /\
  (forall b, b <= m -> b <= nev s') /\ NoDup (live s').

Lemma frame_refl s : LiveOK s -> NoDup (live s) -> Frame s s.
Proof. intros H1 H2. split; [|split; [|split; [|split]]]; auto. Qed.
Lemma st_frame own Lb b0 V s s' : St own Lb b0 V s -> Frame s s' -> St own Lb b0 V s'.
Proof.
  intros [H1 [H2 [H3 [H4 [H5 H6]]]]] [F1 [F2 [F3 [F4 F5]]]].
  split; [|split; [|split; [|split; [|split]]]]; auto; try congruence; try lia.
Qed.
Lemma st_framec m own Lb b0 V s s' : St (m :: own) Lb b0 V s -> FrameC m s s' -> St own Lb b0 V s'.
Proof.
  intros [H1 [H2 [H3 [H4 [H5 H6]]]]] [F1 [F2 [F3 [F4 F5]]]].
  inversion H5; subst.
  split; [|split; [|split; [|split; [|split]]]]; auto.
  rewrite H2 in F2. cbn in F2. congruence.
Qed.
(* entry and exit of a proof about a function *)
Lemma st_enter s : LiveOK s -> NoDup (live s) -> St [] (live s) (nev s) (Valid s) s.
Proof. intros H1 H2. split; [|split; [|split; [|split; [|split]]]]; auto. Qed.
Lemma st_exit s s' : St [] (live s) (nev s) (Valid s) s' -> Frame s s'.
Proof. intros [H1 [H2 [H3 [H4 [H5 H6]]]]]. repeat split; auto; apply H3; auto. Qed.
Lemma st_enter_c m L s : LiveOK s -> NoDup (live s) -> live s = m :: L -> St [m] L m (Valid s) s.
Proof.
  intros H1 H2 H3. assert (m < nev s) by (eapply slot_some_lt; apply H1; rewrite H3; left; auto).
  split; [|split; [|split; [|split; [|split]]]]; auto. lia.
Qed.
Lemma st_exit_c m L s s' : live s = m :: L -> St [] L m (Valid s) s' -> FrameC m s s'.
Proof.
  intros HL [H1 [H2 [H3 [H4 [H5 H6]]]]]. cbn in H2. split; [|split; [|split; [|split]]]; auto.
  - congruence.
  - intros b Hb. lia.
Qed.
Lemma st_liveok own Lb b0 V s : St own Lb b0 V s -> LiveOK s /\ NoDup (live s).
Proof. intros [H1 [_ [_ [_ [_ H6]]]]]. auto. Qed.
Lemma st_lower own Lb b0 V s : St own Lb b0 V s -> b0 <= nev s.
Proof. intros [_ [_ [_ [H _]]]]. auto. Qed.
Lemma st_own_lower own Lb b0 V s m : St own Lb b0 V s -> In m own -> b0 <= m /\ m < nev s.
Proof.
  intros [H1 [H2 [_ [_ [H5 _]]]]] Hin. rewrite Forall_forall in H5. split; auto.
  eapply slot_some_lt. apply H1. rewrite H2. apply in_or_app. auto.
Qed.

(* loops: the invariant is the threaded state predicate itself (plus a user part) *)
Lemma WB_loopS_fuel {A B} (body : A -> M (A + B)) (Iv : A -> pst -> Prop) (Q : B -> pst -> Prop) :
  (forall a s1, Iv a s1 -> WB (body a) (fun r s2 => match r with inl a' => Iv a' s2 | inr b => Q b s2 end) s1) ->
  forall fuel a s, Iv a s -> WB (loopS_fuel fuel body a) Q s.
Proof.
  intros Hb. induction fuel as [|f IH]; intros a s HI; [exact I|].
  cbn [loopS_fuel]. apply WB_bind. eapply WB_conseq; [apply Hb; exact HI|].
  intros [a'|b] s' H; [apply IH; exact H|apply WB_ret; exact H].
Qed.
Lemma WB_loopS {A B} inp (body : A -> M (A + B)) (Iv : A -> pst -> Prop) (Q : B -> pst -> Prop) a s :
  Iv a s ->
  (forall a s1, Iv a s1 -> WB (body a) (fun r s2 => match r with inl a' => Iv a' s2 | inr b => Q b s2 end) s1) ->
  WB (loopS inp body a) Q s.
Proof. intros HI Hb. unfold loopS. change (WB (loopS_fuel (S (rem inp s)) body a) Q s). apply WB_loopS_fuel with (Iv := Iv); auto. Qed.
Lemma WB_loop inp (body : M bool) (Iv : pst -> Prop) (Q : unit -> pst -> Prop) s :
  Iv s ->
  (forall s1, Iv s1 -> WB body (fun r s2 => if r then Iv s2 else Q tt s2) s1) ->
  WB (loop inp body) Q s.
Proof.
  intros HI Hb. unfold loop. apply WB_loopS with (Iv := fun _ s1 => Iv s1); auto.
  intros [] s1 H1. apply WB_bind. eapply WB_conseq; [apply Hb; exact H1|].
  intros [] s2 H2; apply WB_ret; exact H2.
Qed.
