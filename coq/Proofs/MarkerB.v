(* Theorem B, first part: the marker discipline.  A Hoare logic over the whole parser state that
   ignores token data (every branch is explored) and tracks only the event slots that are
   Start events and the ghost set of live markers.  Outcomes: a marker panic (SMarker,
   SDropBomb, SProcess) is forbidden; the other panics and fuel exhaustion are theorem A's. *)
From Coq Require Import NArith ZArith Arith List Bool Lia.
From OQ3 Require Import gen.Kinds Model.Parser Model.Grammar Proofs.TablesP.
Import ListNotations.
Local Open Scope nat_scope.

Definition mark (w : site) : Prop :=
  match w with SMarker _ | SDropBomb | SProcess => True | _ => False end.

Definition WB {A} (m : M A) (Q : A -> pst -> Prop) (s : pst) : Prop :=
  match m s with
  | Ok a s' => Q a s'
  | Panic w => ~ mark w
  | OutOfFuel => True
  end.

Lemma WB_ret {A} (a : A) (Q : A -> pst -> Prop) s : Q a s -> WB (ret a) Q s.
Proof. auto. Qed.
Lemma WB_bind {A B} (m : M A) (f : A -> M B) (Q : B -> pst -> Prop) s :
  WB m (fun a s1 => WB (f a) Q s1) s -> WB (bind m f) Q s.
Proof. unfold WB, bind. destruct (m s); auto. Qed.
Lemma WB_conseq {A} (m : M A) (Q Q' : A -> pst -> Prop) s :
  WB m Q s -> (forall a s', Q a s' -> Q' a s') -> WB m Q' s.
Proof. unfold WB. destruct (m s); auto. Qed.
Lemma WB_panic {A} w (Q : A -> pst -> Prop) s : ~ mark w -> WB (panic w) Q s.
Proof. auto. Qed.
Lemma WB_oof {A} (Q : A -> pst -> Prop) s : WB out_of_fuel Q s.
Proof. exact I. Qed.

(* ---- slots ---- *)
Lemma nth_error_rev_idx {A} (l : list A) i :
  i < length l -> nth_error (rev l) i = nth_error l (length l - 1 - i).
Proof.
  revert i. induction l as [|a l IH]; intros i H; cbn [length rev] in *; [lia|].
  destruct (Nat.eq_dec i (length l)) as [E|E].
  - subst i. rewrite nth_error_app2 by (rewrite rev_length; lia). rewrite rev_length, Nat.sub_diag.
    replace (S (length l) - 1 - length l) with 0 by lia. reflexivity.
  - rewrite nth_error_app1 by (rewrite rev_length; lia). rewrite IH by lia.
    replace (S (length l) - 1 - i) with (S (length l - 1 - i)) by lia. reflexivity.
Qed.
Lemma slot_rev s i : slot s i = nth_error (rev (evs s)) i.
Proof.
  unfold slot, nev. destruct (i <? length (evs s)) eqn:E.
  - apply Nat.ltb_lt in E. rewrite nth_error_rev_idx by lia. reflexivity.
  - apply Nat.ltb_ge in E. symmetry. apply nth_error_None. rewrite rev_length. exact E.
Qed.
Lemma slot_some_lt s i e : slot s i = Some e -> i < nev s.
Proof. unfold slot. destruct (i <? nev s) eqn:E; [apply Nat.ltb_lt in E; auto|discriminate]. Qed.

Definition is_start (s : pst) (i : nat) : Prop := exists k fp, slot s i = Some (EStart k fp).
(* a Start slot that no live marker owns: completed, or abandoned in place *)
Definition Valid (s : pst) (i : nat) : Prop := is_start s i /\ ~ In i (live s).
(* slot i carries a forward-parent pointer of length d *)
Definition Ptr (s : pst) (i d : nat) : Prop := exists k, slot s i = Some (EStart k (Some d)).
(* every forward-parent pointer moves strictly forward to a Start slot (what event::process
   relies on) *)
Definition EvOK (s : pst) : Prop := forall i d, Ptr s i d -> 0 < d /\ is_start s (i + d).
(* no forward-parent pointer targets slot m: abandoning m may pop its event *)
Definition NT (s : pst) (m : nat) : Prop := forall i d, Ptr s i d -> i + d <> m.
(* bracket counting: a Start slot whose kind is no longer TOMBSTONE has been completed (it
   will emit an Enter), a Finish emits an Exit; among the oldest i events, for every i, there
   are at least as many completed Starts as Finishes, and overall equally many *)
Definition ctr (e : event) : Z :=
  match e with
  | EStart k _ => if N.eqb k K_TOMBSTONE then 0 else 1
  | EFinish => -1
  | _ => 0
  end%Z.
Fixpoint exc (l : list event) : Z := match l with [] => 0 | e :: r => ctr e + exc r end%Z.
Definition Bal (s : pst) : Prop := (forall j, 0 <= exc (skipn j (evs s)))%Z /\ exc (evs s) = 0%Z.

(* token accounting: the Token events carry exactly the input tokens consumed so far, each at
   least one raw token *)
Definition tokn (e : event) : nat := match e with EToken _ n => n | _ => 0 end.
Fixpoint toksum (l : list event) : nat := match l with [] => 0 | e :: r => tokn e + toksum r end.
Definition tokpos (e : event) : Prop := match e with EToken _ n => 0 < n | _ => True end.
Definition TokOK (s : pst) : Prop := toksum (evs s) = pos s /\ Forall tokpos (evs s).

Definition LiveOK (s : pst) : Prop :=
  (forall m, In m (live s) -> slot s m = Some (EStart K_TOMBSTONE None)) /\ EvOK s /\ Bal s /\ TokOK s.

Definition plainev (e : event) : Prop := match e with EToken _ n => 0 < n | EError => True | _ => False end.

Lemma toksum_app a b : toksum (a ++ b) = toksum a + toksum b.
Proof. induction a as [|e a IH]; cbn [app toksum]; [reflexivity|]. rewrite IH. lia. Qed.
Lemma toksum_set_nth l p x old :
  nth_error l p = Some old -> tokn x = tokn old -> toksum (set_nth l p x) = toksum l.
Proof.
  revert p. induction l as [|e l IH]; intros [|p] H Hx; cbn in H; try discriminate.
  - injection H as ->. cbn. lia.
  - cbn [set_nth toksum]. rewrite (IH p H Hx). reflexivity.
Qed.
Lemma forall_set_nth {A} (P : A -> Prop) l p x : Forall P l -> P x -> Forall P (set_nth l p x).
Proof.
  intros H Hx. revert p. induction H as [|e l He Hl IH]; intros [|p]; cbn; auto.
Qed.
Lemma plain_tokpos l : Forall plainev l -> Forall tokpos l.
Proof. induction 1 as [|e l He _ IH]; constructor; auto. destruct e; cbn in *; auto. Qed.

Lemma exc_app a b : exc (a ++ b) = (exc a + exc b)%Z.
Proof. induction a as [|e a IH]; cbn [app exc]; [reflexivity|]. rewrite IH. lia. Qed.
Lemma exc_plain l : Forall plainev l -> exc l = 0%Z.
Proof. induction 1 as [|e l He _ IH]; cbn [exc]; [reflexivity|]. rewrite IH. destruct e; cbn in *; try tauto; lia. Qed.
Lemma skipn_app_le {A} (a b : list A) j : j <= length a -> skipn j (a ++ b) = skipn j a ++ b.
Proof. revert j. induction a as [|x a IH]; intros [|j] H; cbn in *; auto; try lia. apply IH. lia. Qed.
Lemma skipn_app_ge {A} (a b : list A) j : length a <= j -> skipn j (a ++ b) = skipn (j - length a) b.
Proof. revert j. induction a as [|x a IH]; intros [|j] H; cbn in *; auto; try lia. apply IH. lia. Qed.
Lemma exc_skipn_plain a j : Forall plainev a -> exc (skipn j a) = 0%Z.
Proof.
  intros H. apply exc_plain. revert j. induction H as [|e l He Hl IH]; intros [|j]; cbn; auto.
Qed.
Lemma bal_app_plain l evs0 :
  Forall plainev l -> ((forall j, 0 <= exc (skipn j evs0)) /\ exc evs0 = 0)%Z ->
  ((forall j, 0 <= exc (skipn j (l ++ evs0))) /\ exc (l ++ evs0) = 0)%Z.
Proof.
  intros Hp [H1 H2]. split.
  - intros j. destruct (le_lt_dec j (length l)) as [Hj|Hj].
    + rewrite skipn_app_le by exact Hj. rewrite exc_app, exc_skipn_plain by exact Hp. lia.
    + rewrite skipn_app_ge by lia. apply H1.
  - rewrite exc_app, exc_plain by exact Hp. lia.
Qed.
(* rewriting slot p *)
Lemma exc_skipn_set_nth l p x old j :
  nth_error l p = Some old ->
  exc (skipn j (set_nth l p x)) = (exc (skipn j l) + (if Nat.leb j p then ctr x - ctr old else 0))%Z.
Proof.
  revert p j. induction l as [|e l IH]; intros [|p] [|j] H; cbn in H; try discriminate.
  - injection H as ->. cbn. lia.
  - injection H as ->. cbn [set_nth skipn]. cbn. lia.
  - cbn [set_nth skipn exc]. specialize (IH p 0 H). cbn [skipn] in IH. rewrite IH. cbn. lia.
  - cbn [set_nth skipn]. rewrite (IH p j H). reflexivity.
Qed.
Lemma slot_nth_error s i e : slot s i = Some e -> nth_error (evs s) (nev s - 1 - i) = Some e.
Proof. unfold slot. destruct (i <? nev s); [auto|discriminate]. Qed.
Lemma bal_set_slot s i e old :
  slot s i = Some old -> (ctr old <= ctr e)%Z ->
  (forall j, 0 <= exc (skipn j (evs s)))%Z ->
  (forall j, 0 <= exc (skipn j (evs (set_slot s i e))))%Z /\
  exc (evs (set_slot s i e)) = (exc (evs s) + ctr e - ctr old)%Z.
Proof.
  intros Hs Hc HB. apply slot_nth_error in Hs. cbn [set_slot evs]. split.
  - intros j. rewrite (exc_skipn_set_nth _ _ _ _ j Hs). specialize (HB j). destruct (Nat.leb j _); lia.
  - pose proof (exc_skipn_set_nth _ _ e _ 0 Hs) as H. cbn [skipn] in H. rewrite H. cbn. lia.
Qed.
(* token/error events appended, nothing else touched *)
Definition Appends (s s' : pst) : Prop :=
  live s' = live s /\ exists l, evs s' = l ++ evs s /\ Forall plainev l /\ pos s' = pos s + toksum l.

Lemma appends_slot s s' i e : Appends s s' -> slot s i = Some e -> slot s' i = Some e.
Proof.
  intros [_ [l [Hl _]]] H. rewrite slot_rev in *. rewrite Hl, rev_app_distr.
  rewrite nth_error_app1; auto. apply nth_error_Some. congruence.
Qed.
Lemma appends_slot_inv s s' i e : Appends s s' -> slot s' i = Some e -> slot s i = Some e \/ plainev e.
Proof.
  intros [_ [l [Hl [Hp _]]]] H. rewrite slot_rev in *. rewrite Hl, rev_app_distr in H.
  destruct (lt_dec i (length (rev (evs s)))) as [Hi|Hi].
  - left. rewrite nth_error_app1 in H by exact Hi. exact H.
  - right. rewrite nth_error_app2 in H by lia. apply nth_error_In in H. apply in_rev in H.
    rewrite Forall_forall in Hp. apply Hp. exact H.
Qed.
Lemma appends_nev s s' : Appends s s' -> nev s <= nev s'.
Proof. intros [_ [l [Hl _]]]. unfold nev. rewrite Hl, app_length. lia. Qed.
Lemma appends_is_start s s' i : Appends s s' -> is_start s i -> is_start s' i.
Proof. intros HA [k [fp H]]. exists k, fp. eapply appends_slot; eauto. Qed.
Lemma appends_valid s s' i : Appends s s' -> Valid s i -> Valid s' i.
Proof.
  intros HA [H HN]. split; [eapply appends_is_start; eauto|].
  destruct HA as [HL _]. rewrite HL. exact HN.
Qed.
Lemma appends_ptr s s' i d : Appends s s' -> Ptr s' i d -> Ptr s i d.
Proof. intros HA [k H]. destruct (appends_slot_inv _ _ _ _ HA H) as [H'|[]]. exists k. exact H'. Qed.
Lemma appends_nt s s' m : Appends s s' -> NT s m -> NT s' m.
Proof. intros HA H i d Hp. apply H. eapply appends_ptr; eauto. Qed.
Lemma appends_liveok s s' : Appends s s' -> LiveOK s -> LiveOK s'.
Proof.
  intros HA [HL [HE [HB [HT1 HT2]]]]. split; [|split; [|split]].
  - intros m Hm. pose proof HA as [E _]. rewrite E in Hm. eapply appends_slot; eauto.
  - intros i d Hp. apply (appends_ptr _ _ _ _ HA) in Hp. destruct (HE i d Hp) as [H1 H2].
    split; auto. eapply appends_is_start; eauto.
  - destruct HA as [_ [l [El [Hp _]]]]. unfold Bal. rewrite El. apply bal_app_plain; auto.
  - destruct HA as [_ [l [El [Hp Hpos]]]]. split.
    + rewrite El, toksum_app, Hpos, HT1. lia.
    + rewrite El. apply Forall_app. split; [apply plain_tokpos; exact Hp|exact HT2].
Qed.
Lemma appends_refl s : Appends s s.
Proof. split; auto. exists []. cbn. auto. Qed.
Lemma appends_trans a b c : Appends a b -> Appends b c -> Appends a c.
Proof.
  intros [H1 [l1 [E1 [P1 Q1]]]] [H2 [l2 [E2 [P2 Q2]]]]. split; [congruence|]. exists (l2 ++ l1).
  split; [rewrite E2, E1, app_assoc; auto|split; [apply Forall_app; auto|rewrite toksum_app; lia]].
Qed.

(* ---- the threaded state predicate ----
   pre : the live marker obtained from precede (at most one at a time; it is a forward-parent
         target and must be completed, never abandoned)
   own : live markers started (or received) by the function being verified, newest first
   Lb  : the live markers of the caller (untouched)
   b0  : a lower bound of nev that the function never goes below
   V   : Start slots that were valid at entry and must stay valid
   W   : caller's markers that were not pointer targets at entry and must stay so *)
Definition St (pre own Lb : list nat) (b0 : nat) (V W : nat -> Prop) (s : pst) : Prop :=
  LiveOK s /\ live s = pre ++ own ++ Lb /\ (forall i, V i -> Valid s i) /\ b0 <= nev s /\
  Forall (fun m => b0 <= m) (pre ++ own) /\ NoDup (live s) /\
  (forall i, In i own -> NT s i) /\ (forall i, In i Lb -> W i -> NT s i).

Lemma st_appends pre own Lb b0 V W s s' : St pre own Lb b0 V W s -> Appends s s' -> St pre own Lb b0 V W s'.
Proof.
  intros [H1 [H2 [H3 [H4 [H5 [H6 [H7 H8]]]]]]] HA.
  split; [|split; [|split; [|split; [|split; [|split; [|split]]]]]]; auto.
  - eapply appends_liveok; eauto.
  - destruct HA as [E _]. congruence.
  - intros i Hi. eapply appends_valid; eauto.
  - pose proof (appends_nev _ _ HA). lia.
  - destruct HA as [E _]. rewrite E. exact H6.
  - intros i Hi. eapply appends_nt; eauto.
  - intros i Hi Hw. eapply appends_nt; eauto.
Qed.

(* primitives that only append events *)
Definition Pure {A} (m : M A) : Prop :=
  forall s, match m s with Ok _ s' => Appends s s' | Panic w => ~ mark w | OutOfFuel => True end.

Lemma WB_pure {A} (m : M A) (Q : A -> pst -> Prop) s :
  Pure m -> (forall a s', Appends s s' -> Q a s') -> WB m Q s.
Proof. intros HP H. unfold WB. specialize (HP s). destruct (m s); auto. Qed.

Lemma pure_ret {A} (a : A) : Pure (ret a).
Proof. intros s. apply appends_refl. Qed.
Lemma pure_bind {A B} (m : M A) (f : A -> M B) : Pure m -> (forall a, Pure (f a)) -> Pure (bind m f).
Proof.
  intros Hm Hf s. unfold bind. specialize (Hm s). destruct (m s) as [a s1| |]; auto.
  specialize (Hf a s1). destruct (f a s1); auto. eapply appends_trans; eauto.
Qed.
Lemma pure_push e : plainev e -> tokn e = 0 -> Pure (push e).
Proof. intros He Ht s. split; auto. exists [e]. cbn [app toksum pos]. rewrite Ht. split; [reflexivity|split; [auto|lia]]. Qed.
Lemma pure_panic {A} w : ~ mark w -> Pure (@panic A w).
Proof. intros H s. exact H. Qed.

Section Prims.
Variable inp : list (N * bool).
Lemma pure_current : Pure (current inp). Proof. intros s. apply appends_refl. Qed.
Lemma pure_nth_tok n : Pure (nth_tok inp n).
Proof. intros s. unfold nth_tok. destruct (n <=? 3); [apply appends_refl|cbn; tauto]. Qed.
Lemma pure_at k : Pure (at_ inp k). Proof. intros s. apply appends_refl. Qed.
Lemma pure_nth_at n k : Pure (nth_at inp n k). Proof. intros s. apply appends_refl. Qed.
Lemma pure_at_ts ts : Pure (at_ts inp ts). Proof. intros s. apply appends_refl. Qed.
Lemma n_raw_of_pos k : 0 < n_raw_of k.
Proof. rewrite n_raw_of_spec. destruct (assocN k composite2); [lia|]. destruct (assocN k composite3); lia. Qed.
Lemma pure_do_bump k n : 0 < n -> Pure (do_bump k n).
Proof.
  intros Hn s. split; auto. exists [EToken k n]. cbn [app toksum tokn pos].
  split; [reflexivity|split; [repeat constructor; exact Hn|lia]].
Qed.
Lemma pure_eat k : Pure (eat inp k).
Proof.
  intros s. unfold eat. destruct (nth_at_pure inp (pos s) 0 k); [|apply appends_refl].
  pose proof (pure_do_bump k (n_raw_of k) (n_raw_of_pos k) s) as H. unfold do_bump in *. exact H.
Qed.
Lemma pure_bump k : Pure (bump inp k).
Proof. unfold bump. apply pure_bind; [apply pure_eat|]. intros []; [apply pure_ret|apply pure_panic; cbn; tauto]. Qed.
Lemma pure_bump_any : Pure (bump_any inp).
Proof.
  intros s. unfold bump_any. destruct (N.eqb _ _); [apply appends_refl|].
  apply (pure_do_bump _ 1 ltac:(lia) s).
Qed.
Lemma pure_error : Pure error. Proof. apply pure_push; [exact I|reflexivity]. Qed.
Lemma pure_expect k : Pure (expect inp k).
Proof.
  unfold expect. apply pure_bind; [apply pure_eat|]. intros []; [apply pure_ret|].
  apply pure_bind; [apply pure_error|]. intros; apply pure_ret.
Qed.
End Prims.

(* ---- marker primitives ---- *)
Lemma nev_cons s e : nev {| pos := pos s; evs := e :: evs s; live := live s |} = S (nev s).
Proof. reflexivity. Qed.

Lemma slot_push_old s e lv p i x :
  slot s i = Some x -> slot {| pos := p; evs := e :: evs s; live := lv |} i = Some x.
Proof.
  intros H. rewrite slot_rev in *. cbn [evs rev]. rewrite nth_error_app1; auto.
  apply nth_error_Some. congruence.
Qed.
Lemma slot_push_new s e lv p :
  slot {| pos := p; evs := e :: evs s; live := lv |} (nev s) = Some e.
Proof.
  rewrite slot_rev. cbn [evs rev]. rewrite nth_error_app2 by (rewrite rev_length; unfold nev; lia).
  rewrite rev_length. unfold nev. rewrite Nat.sub_diag. reflexivity.
Qed.

Lemma In_remove_nat x y l : In x (remove_nat y l) -> In x l.
Proof.
  induction l as [|z l IH]; cbn; auto. destruct (y =? z); auto. intros [H|H]; auto.
Qed.
Lemma mem_nat_In x l : mem_nat x l = true <-> In x l.
Proof.
  induction l as [|y l IH]; cbn; [split; [discriminate|tauto]|].
  rewrite orb_true_iff, Nat.eqb_eq, IH. split; intros [H|H]; auto.
Qed.
Lemma remove_nat_head m l : remove_nat m (m :: l) = l.
Proof. cbn. rewrite Nat.eqb_refl. reflexivity. Qed.

(* set_slot: rewriting a Start slot in place keeps every Start slot a Start slot *)
Lemma set_nth_length {A} (l : list A) i x : length (set_nth l i x) = length l.
Proof. revert i. induction l as [|y l IH]; intros [|i]; cbn; auto. Qed.
Lemma nth_error_set_nth_same {A} (l : list A) i x : i < length l -> nth_error (set_nth l i x) i = Some x.
Proof. revert i. induction l as [|y l IH]; intros [|i] H; cbn in *; try lia; auto. apply IH. lia. Qed.
Lemma nth_error_set_nth_other {A} (l : list A) i j x : i <> j -> nth_error (set_nth l i x) j = nth_error l j.
Proof. revert i j. induction l as [|y l IH]; intros [|i] [|j] H; cbn; auto; try lia. Qed.

Lemma slot_set_same s i e : i < nev s -> slot (set_slot s i e) i = Some e.
Proof.
  intros H. unfold slot, set_slot, nev in *. cbn [evs]. rewrite set_nth_length.
  destruct (i <? length (evs s)) eqn:E; [|apply Nat.ltb_ge in E; lia].
  apply nth_error_set_nth_same. lia.
Qed.
Lemma slot_set_other s i j e : i <> j -> i < nev s -> slot (set_slot s i e) j = slot s j.
Proof.
  intros H Hi. unfold slot, set_slot, nev in *. cbn [evs]. rewrite set_nth_length.
  destruct (j <? length (evs s)) eqn:E; auto. apply Nat.ltb_lt in E.
  apply nth_error_set_nth_other. lia.
Qed.
Lemma nev_set_slot s i e : nev (set_slot s i e) = nev s.
Proof. unfold nev, set_slot. cbn. apply set_nth_length. Qed.

(* ---- how the primitives change slots and pointers ---- *)
Lemma slot_push_inv s e lv p i x :
  slot {| pos := p; evs := e :: evs s; live := lv |} i = Some x ->
  (i = nev s /\ x = e) \/ slot s i = Some x.
Proof.
  intros H. rewrite slot_rev in *. cbn [evs rev] in H.
  destruct (lt_dec i (length (rev (evs s)))) as [Hi|Hi].
  - right. rewrite nth_error_app1 in H by exact Hi. exact H.
  - left. rewrite nth_error_app2 in H by lia. rewrite rev_length in *.
    destruct (i - length (evs s)) as [|j] eqn:E; cbn in H.
    + split; [unfold nev; lia|congruence].
    + destruct j; discriminate.
Qed.
Lemma slot_set_inv s i e j x :
  i < nev s -> slot (set_slot s i e) j = Some x -> (j = i /\ x = e) \/ (j <> i /\ slot s j = Some x).
Proof.
  intros Hi H. destruct (Nat.eq_dec j i) as [->|Hne].
  - left. rewrite slot_set_same in H by exact Hi. split; congruence.
  - right. rewrite slot_set_other in H by auto. auto.
Qed.
Lemma ptr_push s e lv p i d :
  (forall k d', e <> EStart k (Some d')) ->
  Ptr {| pos := p; evs := e :: evs s; live := lv |} i d -> Ptr s i d.
Proof.
  intros He [k H]. apply slot_push_inv in H. destruct H as [[_ H]|H]; [|exists k; exact H].
  exfalso. eapply He. symmetry. exact H.
Qed.
Lemma is_start_push s e lv p i : is_start s i -> is_start {| pos := p; evs := e :: evs s; live := lv |} i.
Proof. intros [k [fp H]]. exists k, fp. apply slot_push_old. exact H. Qed.
Lemma is_start_lt s i : is_start s i -> i < nev s.
Proof. intros [k [fp H]]. eapply slot_some_lt; eauto. Qed.
Lemma evok_push s e lv p :
  (forall k d', e <> EStart k (Some d')) -> EvOK s -> EvOK {| pos := p; evs := e :: evs s; live := lv |}.
Proof.
  intros He HE i d Hp. apply ptr_push in Hp; auto. destruct (HE i d Hp) as [H1 H2]. split; auto.
  apply is_start_push. exact H2.
Qed.
Lemma nt_push s e lv p m :
  (forall k d', e <> EStart k (Some d')) -> NT s m -> NT {| pos := p; evs := e :: evs s; live := lv |} m.
Proof. intros He H i d Hp. apply H. eapply ptr_push; eauto. Qed.

(* rewriting a Start slot into a Start slot with the same pointer changes no pointer *)
Lemma ptr_set_same_fp s m k k' fp i d :
  slot s m = Some (EStart k fp) -> Ptr (set_slot s m (EStart k' fp)) i d -> Ptr s i d.
Proof.
  intros Hs [k1 H]. pose proof (slot_some_lt _ _ _ Hs) as Hlt.
  apply slot_set_inv in H; auto. destruct H as [[-> H]|[_ H]].
  - injection H as _ <-. exists k. exact Hs.
  - exists k1. exact H.
Qed.
Lemma is_start_set s m e i :
  m < nev s -> (exists k fp, e = EStart k fp) -> is_start s i -> is_start (set_slot s m e) i.
Proof.
  intros Hm [k [fp ->]] [k1 [fp1 H]]. pose proof (slot_some_lt _ _ _ H) as Hlt.
  destruct (Nat.eq_dec i m) as [->|Hne].
  - exists k, fp. apply slot_set_same. exact Hlt.
  - exists k1, fp1. rewrite slot_set_other; auto.
Qed.

Lemma bal_push s e lv p : ctr e = 0%Z -> Bal s -> Bal {| pos := p; evs := e :: evs s; live := lv |}.
Proof.
  intros He [H1 H2]. split.
  - intros [|j]; cbn [skipn evs exc]; [lia|apply H1].
  - cbn [evs exc]. lia.
Qed.
Lemma ctr_tomb fp : ctr (EStart K_TOMBSTONE fp) = 0%Z.
Proof. reflexivity. Qed.
Lemma tokok_push s e lv : tokn e = 0 -> tokpos e -> TokOK s -> TokOK {| pos := pos s; evs := e :: evs s; live := lv |}.
Proof. intros He Hp [H1 H2]. split; [cbn [evs toksum pos]; lia|constructor; auto]. Qed.
Lemma tokok_set_slot s i e old :
  slot s i = Some old -> tokn e = tokn old -> tokpos e -> TokOK s -> TokOK (set_slot s i e).
Proof.
  intros Hs He Hp [H1 H2]. apply slot_nth_error in Hs. split.
  - cbn [set_slot evs pos]. rewrite (toksum_set_nth _ _ _ _ Hs He). exact H1.
  - cbn [set_slot evs]. apply forall_set_nth; auto.
Qed.
Lemma tokok_live s lv : TokOK s -> TokOK {| pos := pos s; evs := evs s; live := lv |}.
Proof. intros H. exact H. Qed.

(* start *)
Lemma WB_start (Q : marker -> pst -> Prop) own Lb b0 V W s :
  St [] own Lb b0 V W s ->
  (forall s', St [] (nev s :: own) Lb b0 V W s' -> nev s' = S (nev s) ->
              (forall i, Valid s i -> Valid s' i) -> Q (nev s) s') ->
  WB start Q s.
Proof.
  intros [[H1 [HE [HB HT]]] [H2 [H3 [H4 [H5 [H6 [H7 H8]]]]]]] HQ. unfold WB, start.
  assert (forall k d', EStart K_TOMBSTONE None <> EStart k (Some d')) as Hne by (intros; discriminate).
  cbn [app] in *. apply HQ.
  - split; [split; [|split; [|split]]|split; [|split; [|split; [|split; [|split; [|split]]]]]].
    + intros m [Hm|Hm].
      * subst m. apply slot_push_new.
      * apply slot_push_old. apply H1. exact Hm.
    + apply evok_push; auto.
    + apply bal_push; auto.
    + apply tokok_push; [reflexivity|exact I|exact HT].
    + cbn [live app]. rewrite H2. reflexivity.
    + intros i Hi. destruct (H3 i Hi) as [Hs Hn]. split.
      * apply is_start_push. exact Hs.
      * cbn [live]. intros [E|E]; [|auto]. subst i. apply is_start_lt in Hs. lia.
    + unfold nev in *. cbn [evs length]. lia.
    + cbn [app]. constructor; auto.
    + cbn [live]. constructor; auto. intros Hin. apply H1 in Hin. apply slot_some_lt in Hin. lia.
    + intros i [<-|Hi].
      * intros j d Hp. apply ptr_push in Hp; auto. destruct (HE j d Hp) as [_ Hst].
        apply is_start_lt in Hst. lia.
      * apply nt_push; auto.
    + intros i Hi Hw. apply nt_push; auto.
  - reflexivity.
  - intros i [Hs Hn]. split.
    + apply is_start_push. exact Hs.
    + cbn [live]. intros [E|E]; [|auto]. subst i. apply is_start_lt in Hs. lia.
Qed.

Lemma remove_nat_app m own Lb : In m own -> remove_nat m (own ++ Lb) = remove_nat m own ++ Lb.
Proof.
  induction own as [|x own IH]; cbn; [tauto|]. intros [H|H].
  - subst. rewrite Nat.eqb_refl. reflexivity.
  - destruct (m =? x); auto. rewrite IH; auto.
Qed.
Lemma remove_nat_app_notin m pre l : ~ In m pre -> remove_nat m (pre ++ l) = pre ++ remove_nat m l.
Proof.
  induction pre as [|x pre IH]; cbn; auto. intros H.
  destruct (m =? x) eqn:E; [apply Nat.eqb_eq in E; subst; tauto|]. rewrite IH; auto.
Qed.
Lemma remove_nat_notin m x l : NoDup l -> In x (remove_nat m l) -> x <> m /\ In x l.
Proof.
  induction l as [|y l IH]; cbn; [tauto|]. intros HN. inversion HN; subst.
  destruct (m =? y) eqn:E.
  - apply Nat.eqb_eq in E. subst y. intros H. split; auto. intros ->. contradiction.
  - intros [H|H].
    + subst y. split; auto. apply Nat.eqb_neq in E. auto.
    + destruct (IH H2 H); auto.
Qed.
Lemma remove_nat_nodup m l : NoDup l -> NoDup (remove_nat m l).
Proof.
  induction l as [|y l IH]; cbn; auto. intros HN. inversion HN; subst.
  destruct (m =? y); auto. constructor; auto. intros H. apply In_remove_nat in H. contradiction.
Qed.
Lemma forall_remove_nat (P : nat -> Prop) m l : Forall P l -> Forall P (remove_nat m l).
Proof. induction 1; cbn; auto. destruct (m =? x); auto. Qed.

Lemma WB_use_marker m w (Q : unit -> pst -> Prop) s :
  In m (live s) ->
  Q tt {| pos := pos s; evs := evs s; live := remove_nat m (live s) |} ->
  WB (use_marker m w) Q s.
Proof.
  intros Hin HQ. unfold WB, use_marker. apply mem_nat_In in Hin. rewrite Hin. exact HQ.
Qed.

(* a step of the threaded predicate from the facts about the new state *)
Lemma st_step pre own Lb b0 V W s pre' own' s' :
  St pre own Lb b0 V W s ->
  LiveOK s' -> live s' = pre' ++ own' ++ Lb -> NoDup (live s') ->
  (forall i, Valid s i -> Valid s' i) -> b0 <= nev s' -> Forall (fun m => b0 <= m) (pre' ++ own') ->
  (forall i, In i own' -> NT s' i) -> (forall i, In i Lb -> NT s i -> NT s' i) ->
  St pre' own' Lb b0 V W s'.
Proof.
  intros [H1 [H2 [H3 [H4 [H5 [H6 [H7 H8]]]]]]] A1 A2 A3 A4 A5 A6 A7 A8.
  split; [|split; [|split; [|split; [|split; [|split; [|split]]]]]]; auto.
Qed.

(* complete, on the bare state *)
Lemma WB_complete_gen m k (Q : cmarker -> pst -> Prop) s :
  k <> K_TOMBSTONE -> LiveOK s -> NoDup (live s) -> In m (live s) ->
  (forall s', LiveOK s' -> live s' = remove_nat m (live s) -> NoDup (live s') ->
              (forall i, is_start s i -> is_start s' i) -> Valid s' m -> nev s' = S (nev s) ->
              (forall i, NT s i -> NT s' i) -> Q (m, k) s') ->
  WB (complete m k) Q s.
Proof.
  intros Hk [H1 [HE [[HB1 HB2] HT]]] H6 Hl HQ.
  unfold complete. apply WB_bind. apply WB_use_marker; auto.
  set (s1 := {| pos := pos s; evs := evs s; live := remove_nat m (live s) |}).
  assert (slot s1 m = Some (EStart K_TOMBSTONE None)) as Hs by (apply (H1 m Hl)).
  unfold WB. rewrite Hs.
  pose proof (slot_some_lt _ _ _ Hs) as Hlt.
  set (s2 := set_slot s1 m (EStart k None)).
  assert (forall k d', EFinish <> EStart k d') as Hfin by (intros; discriminate).
  assert (forall i d, Ptr {| pos := pos s2; evs := EFinish :: evs s2; live := live s2 |} i d -> Ptr s i d) as Hptr.
  { intros i d Hp. apply ptr_push in Hp; [|intros; apply Hfin].
    apply (ptr_set_same_fp s1 m K_TOMBSTONE k None i d Hs) in Hp. exact Hp. }
  assert (forall i, is_start s i -> is_start {| pos := pos s2; evs := EFinish :: evs s2; live := live s2 |} i) as Hst.
  { intros i Hi. apply is_start_push. apply is_start_set; auto. eexists _, _; reflexivity. }
  assert (ctr (EStart k None) = 1%Z) as Hck.
  { cbn [ctr]. destruct (N.eqb_spec k K_TOMBSTONE); [contradiction|reflexivity]. }
  destruct (bal_set_slot s1 m (EStart k None) _ Hs ltac:(rewrite Hck, ctr_tomb; lia) HB1) as [HB1' HB2'].
  fold s2 in HB1', HB2'. change (evs s1) with (evs s) in HB2'. rewrite HB2, Hck, ctr_tomb in HB2'.
  apply HQ.
  - split; [|split; [|split]].
    + intros m' Hm'. cbn [live set_slot s2 s1] in Hm'. apply (remove_nat_notin _ _ _ H6) in Hm'.
      destruct Hm' as [Hne Hm']. apply slot_push_old. unfold s2. rewrite slot_set_other; auto.
      apply (H1 m' Hm').
    + intros i d Hp. apply Hptr in Hp. destruct (HE i d Hp) as [Hd Hi]. split; auto.
    + split.
      * intros [|j]; cbn [skipn evs exc ctr]; [lia|apply HB1'].
      * cbn [evs exc ctr]. lia.
    + apply (tokok_push s2 EFinish (live s2)); [reflexivity|exact I|].
      apply (tokok_set_slot s1 m _ _ Hs); [reflexivity|exact I|exact HT].
  - reflexivity.
  - cbn [live set_slot s2 s1]. apply remove_nat_nodup; auto.
  - exact Hst.
  - split.
    + exists k, None. apply slot_push_old. apply slot_set_same. exact Hlt.
    + cbn [live set_slot s2 s1]. intros Hc. apply (remove_nat_notin _ _ _ H6) in Hc. tauto.
  - unfold nev. cbn [evs set_slot s2 s1 length]. rewrite set_nth_length. reflexivity.
  - intros i Hi j d Hp. apply Hi. apply Hptr. exact Hp.
Qed.

Lemma in_own_live pre own Lb b0 V W s m : St pre own Lb b0 V W s -> In m own -> In m (live s).
Proof. intros [_ [H2 _]] H. rewrite H2. apply in_or_app. right. apply in_or_app. auto. Qed.
Lemma own_notin_pre pre own Lb b0 V W s m : St pre own Lb b0 V W s -> In m own -> ~ In m pre.
Proof.
  intros [_ [H2 [_ [_ [_ [H6 _]]]]]] H Hp. rewrite H2 in H6. clear H2.
  induction pre as [|x pre IH]; [destruct Hp|]. cbn in H6. inversion H6; subst. destruct Hp as [->|Hp].
  - apply H2. apply in_or_app. right. apply in_or_app. auto.
  - auto.
Qed.
Lemma valid_shrink s s' : (forall i, is_start s i -> is_start s' i) -> (forall i, In i (live s') -> In i (live s)) ->
  forall i, Valid s i -> Valid s' i.
Proof. intros A B i [H1 H2]. split; auto. Qed.

Lemma WB_complete m k (Q : cmarker -> pst -> Prop) pre own Lb b0 V W s :
  k <> K_TOMBSTONE -> St pre own Lb b0 V W s -> In m own ->
  (forall s', St pre (remove_nat m own) Lb b0 V W s' -> Valid s' m -> nev s <= nev s' ->
              (forall i, Valid s i -> Valid s' i) -> Q (m, k) s') ->
  WB (complete m k) Q s.
Proof.
  intros Hk HS Hin HQ. pose proof HS as [H1 [H2 [H3 [H4 [H5 [H6 [H7 H8]]]]]]].
  pose proof (in_own_live _ _ _ _ _ _ _ _ HS Hin) as Hl.
  pose proof (own_notin_pre _ _ _ _ _ _ _ _ HS Hin) as Hnp.
  apply WB_complete_gen; auto. intros s' A1 A2 A3 A4 A5 A6 A7.
  assert (forall i, Valid s i -> Valid s' i) as Hv.
  { apply valid_shrink; auto. intros i Hi. rewrite A2 in Hi. apply In_remove_nat in Hi. exact Hi. }
  apply HQ; auto; [|lia].
  eapply st_step; eauto.
  - rewrite A2, H2. rewrite remove_nat_app_notin by auto. rewrite remove_nat_app by auto. reflexivity.
  - lia.
  - rewrite Forall_app in *. destruct H5. split; auto. apply forall_remove_nat; auto.
  - intros i Hi. apply In_remove_nat in Hi. auto.
Qed.
Lemma WB_complete_pre m k (Q : cmarker -> pst -> Prop) own Lb b0 V W s :
  k <> K_TOMBSTONE -> St [m] own Lb b0 V W s ->
  (forall s', St [] own Lb b0 V W s' -> Valid s' m -> nev s <= nev s' ->
              (forall i, Valid s i -> Valid s' i) -> Q (m, k) s') ->
  WB (complete m k) Q s.
Proof.
  intros Hk HS HQ. pose proof HS as [H1 [H2 [H3 [H4 [H5 [H6 [H7 H8]]]]]]].
  assert (In m (live s)) as Hl by (rewrite H2; left; reflexivity).
  apply WB_complete_gen; auto. intros s' A1 A2 A3 A4 A5 A6 A7.
  assert (forall i, Valid s i -> Valid s' i) as Hv.
  { apply valid_shrink; auto. intros i Hi. rewrite A2 in Hi. apply In_remove_nat in Hi. exact Hi. }
  apply HQ; auto; [|lia].
  eapply st_step; eauto.
  - rewrite A2, H2. cbn [app]. apply remove_nat_head.
  - lia.
  - cbn [app] in *. inversion H5; auto.
Qed.

(* popping the newest event *)
Lemma slot_pop s e r lv p i x :
  evs s = e :: r -> i < length r -> slot s i = Some x ->
  slot {| pos := p; evs := r; live := lv |} i = Some x.
Proof.
  intros He Hi H. rewrite slot_rev in *. cbn [evs]. rewrite He in H. cbn [rev] in H.
  rewrite nth_error_app1 in H by (rewrite rev_length; lia). exact H.
Qed.
Lemma slot_pop_inv s e r lv p i x :
  evs s = e :: r -> slot {| pos := p; evs := r; live := lv |} i = Some x -> slot s i = Some x.
Proof.
  intros He H. rewrite slot_rev in *. cbn [evs] in H. rewrite He. cbn [rev].
  rewrite nth_error_app1; auto. apply nth_error_Some. congruence.
Qed.

(* abandon, on the bare state: the marker must not be a forward-parent target *)
Lemma WB_abandon_gen m (Q : unit -> pst -> Prop) s :
  LiveOK s -> NoDup (live s) -> In m (live s) -> NT s m ->
  (forall s', LiveOK s' -> live s' = remove_nat m (live s) -> NoDup (live s') ->
              (forall i, i <> m -> is_start s i -> is_start s' i) -> m <= nev s' -> nev s' <= nev s ->
              (nev s' = nev s \/ S (nev s') = nev s) ->
              (forall i, NT s i -> NT s' i) -> Q tt s') ->
  WB (abandon m) Q s.
Proof.
  intros [H1 [HE [[HB1 HB2] [HT1 HT2]]]] H6 Hl Hnt HQ.
  unfold abandon. apply WB_bind. apply WB_use_marker; auto.
  set (s1 := {| pos := pos s; evs := evs s; live := remove_nat m (live s) |}).
  pose proof (H1 m Hl) as Hs. pose proof (slot_some_lt _ _ _ Hs) as Hlt.
  unfold WB. change (nev s1) with (nev s). destruct (S m =? nev s) eqn:E.
  - apply Nat.eqb_eq in E. change (evs s1) with (evs s).
    destruct (evs s) as [|e r] eqn:Ev; [unfold nev in E; rewrite Ev in E; cbn in E; lia|].
    assert (e = EStart K_TOMBSTONE None) as ->.
    { rewrite slot_rev, Ev in Hs. cbn [rev] in Hs. unfold nev in E. rewrite Ev in E. cbn in E.
      rewrite nth_error_app2 in Hs by (rewrite rev_length; lia). rewrite rev_length in Hs.
      replace (m - length r) with 0 in Hs by lia. cbn in Hs. congruence. }
    rewrite N.eqb_refl.
    assert (length r = m) as Hr by (unfold nev in E; rewrite Ev in E; cbn in E; lia).
    set (s2 := {| pos := pos s1; evs := r; live := live s1 |}).
    assert (forall j x, j <> m -> slot s j = Some x -> slot s2 j = Some x) as Hother.
    { intros j x Hj Hx. eapply slot_pop; eauto. apply slot_some_lt in Hx. lia. }
    assert (forall i d, Ptr s2 i d -> Ptr s i d) as Hptr.
    { intros i d [k Hp]. exists k. eapply slot_pop_inv; eauto. }
    apply HQ.
    + split; [|split; [|split]].
      * intros m' Hm'. cbn [live s2 s1] in Hm'. apply (remove_nat_notin _ _ _ H6) in Hm'.
        destruct Hm' as [Hne Hm']. apply Hother; auto.
      * intros i d Hp. apply Hptr in Hp. destruct (HE i d Hp) as [Hd [k' [fp' Hi]]]. split; auto.
        exists k', fp'. apply Hother; auto.
      * split.
        -- intros j. specialize (HB1 (S j)). cbn [skipn] in HB1. exact HB1.
        -- cbn [evs s2]. cbn [exc] in HB2. rewrite ctr_tomb in HB2. lia.
      * split; [cbn [evs s2 pos s1]; cbn [toksum tokn] in HT1; lia|inversion HT2; auto].
    + reflexivity.
    + cbn [live s2 s1]. apply remove_nat_nodup; auto.
    + intros i Hi [k' [fp' Hs']]. exists k', fp'. apply Hother; auto.
    + unfold nev. cbn [evs s2]. lia.
    + unfold nev. cbn [evs s2]. rewrite Ev. cbn [length]. lia.
    + right. unfold nev. cbn [evs s2]. rewrite Ev. reflexivity.
    + intros i Hi j d Hp. apply Hi. apply Hptr. exact Hp.
  - apply HQ.
    + split; [|split; [|split]].
      * intros m' Hm'. cbn [live s1] in Hm'. apply In_remove_nat in Hm'. apply (H1 m' Hm').
      * exact HE.
      * split; [exact HB1|exact HB2].
      * split; [exact HT1|exact HT2].
    + reflexivity.
    + cbn [live s1]. apply remove_nat_nodup; auto.
    + intros i _ Hi. exact Hi.
    + change (nev s1) with (nev s). lia.
    + change (nev s1) with (nev s). lia.
    + left. reflexivity.
    + intros i Hi. exact Hi.
Qed.

Lemma WB_abandon m (Q : unit -> pst -> Prop) pre own Lb b0 V W s :
  St pre own Lb b0 V W s -> In m own ->
  (forall s', St pre (remove_nat m own) Lb b0 V W s' -> (forall i, Valid s i -> Valid s' i) ->
              m <= nev s' -> Q tt s') ->
  WB (abandon m) Q s.
Proof.
  intros HS Hin HQ. pose proof HS as [H1 [H2 [H3 [H4 [H5 [H6 [H7 H8]]]]]]].
  pose proof (in_own_live _ _ _ _ _ _ _ _ HS Hin) as Hl.
  pose proof (own_notin_pre _ _ _ _ _ _ _ _ HS Hin) as Hnp.
  assert (b0 <= m) as Hb.
  { rewrite Forall_forall in H5. apply H5. apply in_or_app. auto. }
  apply WB_abandon_gen; auto. intros s' A1 A2 A3 A4 A5 A6 A6' A7.
  assert (forall i, Valid s i -> Valid s' i) as Hv.
  { intros i [Hi Hn]. split.
    - apply A4; auto. intros ->. contradiction.
    - rewrite A2. intros Hc. apply In_remove_nat in Hc. contradiction. }
  apply HQ; auto.
  eapply st_step; eauto.
  - rewrite A2, H2. rewrite remove_nat_app_notin by auto. rewrite remove_nat_app by auto. reflexivity.
  - lia.
  - rewrite Forall_app in *. destruct H5. split; auto. apply forall_remove_nat; auto.
  - intros i Hi. apply In_remove_nat in Hi. auto.
Qed.

(* precede, on the bare state *)
Lemma WB_precede_gen cm (Q : marker -> pst -> Prop) s :
  LiveOK s -> NoDup (live s) -> Valid s (fst cm) ->
  (forall s', LiveOK s' -> live s' = nev s :: live s -> NoDup (live s') ->
              (forall i, is_start s i -> is_start s' i) -> nev s' = S (nev s) -> fst cm < nev s ->
              (forall i, i <> nev s -> NT s i -> NT s' i) -> Q (nev s) s') ->
  WB (precede cm) Q s.
Proof.
  intros [H1 [HE [[HB1 HB2] HT]]] H6 [[k [fp Hc]] Hn] HQ. unfold precede, WB, bind, start.
  set (s1 := {| pos := pos s; evs := EStart K_TOMBSTONE None :: evs s; live := nev s :: live s |}).
  assert (slot s1 (fst cm) = Some (EStart k fp)) as Hc1 by (apply slot_push_old; exact Hc).
  rewrite Hc1. pose proof (slot_some_lt _ _ _ Hc) as Hlt.
  destruct (fst cm <=? nev s) eqn:E; [|apply Nat.leb_gt in E; lia].
  pose proof (slot_some_lt _ _ _ Hc1) as Hlt1.
  set (s2 := set_slot s1 (fst cm) (EStart k (Some (nev s - fst cm)))).
  assert (forall i, is_start s i -> is_start s2 i) as Hst.
  { intros i Hi. apply is_start_set; auto; [eexists _, _; reflexivity|]. apply is_start_push. exact Hi. }
  assert (forall i d, Ptr s2 i d -> Ptr s i d \/ (i = fst cm /\ d = nev s - fst cm)) as Hptr.
  { intros i d [k1 Hp]. apply slot_set_inv in Hp; auto. destruct Hp as [[-> Hp]|[Hne Hp]].
    - right. split; auto. congruence.
    - left. apply (ptr_push s (EStart K_TOMBSTONE None) (nev s :: live s) (pos s));
        [intros; discriminate|]. exists k1. exact Hp. }
  assert (is_start s2 (nev s)) as Hnew.
  { exists K_TOMBSTONE, None. unfold s2. rewrite slot_set_other by lia. apply slot_push_new. }
  assert (Bal s1) as [HB1' HB2'] by (apply bal_push; [apply ctr_tomb|split; auto]).
  destruct (bal_set_slot s1 (fst cm) (EStart k (Some (nev s - fst cm))) _ Hc1
              ltac:(cbn [ctr]; lia) HB1') as [HB1'' HB2''].
  apply HQ.
  - split; [|split; [|split]].
    + intros m' Hm'. cbn [live set_slot s2 s1] in Hm'. unfold s2.
      assert (fst cm <> m') as Hne by (intros <-; destruct Hm' as [Hm'|Hm']; [lia|contradiction]).
      rewrite slot_set_other by auto.
      destruct Hm' as [<-|Hm']; [apply slot_push_new|apply slot_push_old; apply H1; exact Hm'].
    + intros i d Hp. apply Hptr in Hp. destruct Hp as [Hp|[-> ->]].
      * destruct (HE i d Hp) as [Hd Hi]. split; auto.
      * split; [lia|]. replace (fst cm + (nev s - fst cm)) with (nev s) by lia. exact Hnew.
    + split; [exact HB1''|]. fold s2 in HB2''. rewrite HB2''. cbn [ctr]. lia.
    + apply (tokok_set_slot s1 (fst cm) _ _ Hc1); [reflexivity|exact I|].
      apply (tokok_push s (EStart K_TOMBSTONE None) (nev s :: live s)); [reflexivity|exact I|exact HT].
  - reflexivity.
  - cbn [live set_slot s2 s1]. constructor; auto. intros Hin. apply H1 in Hin. apply slot_some_lt in Hin. lia.
  - exact Hst.
  - unfold s2. rewrite nev_set_slot. reflexivity.
  - exact Hlt.
  - intros i Hne Hi j d Hp. apply Hptr in Hp. destruct Hp as [Hp|[-> ->]]; [apply Hi; exact Hp|lia].
Qed.

Lemma WB_precede cm (Q : marker -> pst -> Prop) own Lb b0 V W s :
  St [] own Lb b0 V W s -> Valid s (fst cm) ->
  (forall s', St [nev s] own Lb b0 V W s' -> nev s' = S (nev s) ->
              (forall i, Valid s i -> Valid s' i) -> Q (nev s) s') ->
  WB (precede cm) Q s.
Proof.
  intros HS HV HQ. pose proof HS as [H1 [H2 [H3 [H4 [H5 [H6 [H7 H8]]]]]]].
  apply WB_precede_gen; auto. intros s' A1 A2 A3 A4 A5 A6 A7.
  assert (forall i, In i (live s) -> i <> nev s) as Hlive.
  { intros i Hi. destruct H1 as [H1 _]. apply H1 in Hi. apply slot_some_lt in Hi. lia. }
  assert (forall i, Valid s i -> Valid s' i) as Hv.
  { intros i [Hi Hn]. split; auto. rewrite A2. intros [<-|Hc]; [|contradiction].
    apply is_start_lt in Hi. lia. }
  apply HQ; auto.
  eapply st_step; eauto.
  - rewrite A2, H2. reflexivity.
  - lia.
  - cbn [app] in *. constructor; auto.
  - intros i Hi. apply A7; auto. apply Hlive. rewrite H2. cbn [app]. apply in_or_app. auto.
  - intros i Hi Hnt. apply A7; auto. apply Hlive. rewrite H2. cbn [app]. apply in_or_app. auto.
Qed.

(* extend_to, on the bare state: the marker must lie strictly before the completed one *)
Lemma WB_extend_to_gen cm m (Q : cmarker -> pst -> Prop) s :
  LiveOK s -> NoDup (live s) -> In m (live s) -> Valid s (fst cm) -> m < fst cm ->
  (forall s', LiveOK s' -> live s' = remove_nat m (live s) -> NoDup (live s') ->
              (forall i, is_start s i -> is_start s' i) -> Valid s' m -> nev s' = nev s ->
              (forall i, i <> fst cm -> NT s i -> NT s' i) -> Q cm s') ->
  WB (extend_to cm m) Q s.
Proof.
  intros [H1 [HE [[HB1 HB2] HT]]] H6 Hl [Hcs Hnc] Hlt0 HQ.
  unfold extend_to. apply WB_bind. apply WB_use_marker; auto.
  set (s1 := {| pos := pos s; evs := evs s; live := remove_nat m (live s) |}).
  pose proof (H1 m Hl) as Hs. pose proof (slot_some_lt _ _ _ Hs) as Hlt.
  unfold WB. change (slot s1 m) with (slot s m). rewrite Hs.
  destruct (m <=? fst cm) eqn:E; [|apply Nat.leb_gt in E; lia].
  set (s2 := set_slot s1 m (EStart K_TOMBSTONE (Some (fst cm - m)))).
  assert (forall i, is_start s i -> is_start s2 i) as Hst.
  { intros i Hi. apply is_start_set; auto. eexists _, _; reflexivity. }
  assert (forall i d, Ptr s2 i d -> Ptr s i d \/ (i = m /\ d = fst cm - m)) as Hptr.
  { intros i d [k1 Hp]. apply slot_set_inv in Hp; auto. destruct Hp as [[-> Hp]|[Hne Hp]].
    - right. split; auto. congruence.
    - left. exists k1. exact Hp. }
  destruct (bal_set_slot s1 m (EStart K_TOMBSTONE (Some (fst cm - m))) _ Hs
              ltac:(rewrite !ctr_tomb; lia) HB1) as [HB1' HB2'].
  apply HQ.
  - split; [|split; [|split]].
    + intros m' Hm'. cbn [live set_slot s2 s1] in Hm'. apply (remove_nat_notin _ _ _ H6) in Hm'.
      destruct Hm' as [Hn' Hm']. unfold s2. rewrite slot_set_other; auto. apply (H1 m' Hm').
    + intros i d Hp. apply Hptr in Hp. destruct Hp as [Hp|[-> ->]].
      * destruct (HE i d Hp) as [Hd Hi]. split; auto.
      * split; [lia|]. replace (m + (fst cm - m)) with (fst cm) by lia. apply Hst. exact Hcs.
    + split; [exact HB1'|]. fold s2 in HB2'. rewrite HB2'. rewrite !ctr_tomb.
      change (evs s1) with (evs s). lia.
    + apply (tokok_set_slot s1 m _ _ Hs); [reflexivity|exact I|exact HT].
  - reflexivity.
  - cbn [live set_slot s2 s1]. apply remove_nat_nodup; auto.
  - exact Hst.
  - split.
    + eexists _, _. apply slot_set_same. exact Hlt.
    + cbn [live set_slot s2 s1]. intros Hcc. apply (remove_nat_notin _ _ _ H6) in Hcc. tauto.
  - unfold s2. rewrite nev_set_slot. reflexivity.
  - intros i Hne Hi j d Hp. apply Hptr in Hp. destruct Hp as [Hp|[-> ->]]; [apply Hi; exact Hp|lia].
Qed.

Lemma WB_extend_to cm m (Q : cmarker -> pst -> Prop) pre own Lb b0 V W s :
  St pre own Lb b0 V W s -> In m own -> Valid s (fst cm) -> m < fst cm ->
  (forall s', St pre (remove_nat m own) Lb b0 V W s' -> Valid s' (fst cm) -> Valid s' m ->
              nev s' = nev s -> (forall i, Valid s i -> Valid s' i) -> Q cm s') ->
  WB (extend_to cm m) Q s.
Proof.
  intros HS Hin HV Hlt HQ. pose proof HS as [H1 [H2 [H3 [H4 [H5 [H6 [H7 H8]]]]]]].
  pose proof (in_own_live _ _ _ _ _ _ _ _ HS Hin) as Hl.
  pose proof (own_notin_pre _ _ _ _ _ _ _ _ HS Hin) as Hnp.
  apply WB_extend_to_gen; auto. intros s' A1 A2 A3 A4 A5 A6 A7.
  assert (forall i, Valid s i -> Valid s' i) as Hv.
  { apply valid_shrink; auto. intros i Hi. rewrite A2 in Hi. apply In_remove_nat in Hi. exact Hi. }
  assert (forall i, In i (live s) -> i <> fst cm) as Hlive.
  { intros i Hi ->. destruct HV as [_ HV]. contradiction. }
  apply HQ; auto.
  eapply st_step; eauto.
  - rewrite A2, H2. rewrite remove_nat_app_notin by auto. rewrite remove_nat_app by auto. reflexivity.
  - lia.
  - rewrite Forall_app in *. destruct H5. split; auto. apply forall_remove_nat; auto.
  - intros i Hi. apply In_remove_nat in Hi. apply A7; auto. apply Hlive.
    rewrite H2. apply in_or_app. right. apply in_or_app. auto.
  - intros i Hi Hnt. apply A7; auto. apply Hlive. rewrite H2. apply in_or_app. right. apply in_or_app. auto.
Qed.

(* ---- effects of whole functions ---- *)
(* leaves the live markers as it found them *)
Definition Frame (s s' : pst) : Prop :=
  LiveOK s' /\ live s' = live s /\ (forall i, Valid s i -> Valid s' i) /\ nev s <= nev s' /\
  NoDup (live s') /\ (forall i, In i (live s) -> NT s i -> NT s' i).
(* consumes (completes or abandons) the newest live marker m *)
Definition FrameC (m : nat) (s s' : pst) : Prop :=
  LiveOK s' /\ live s = m :: live s' /\ (forall i, Valid s i -> Valid s' i) /\
  (forall b, b <= m -> b <= nev s') /\ NoDup (live s') /\ (forall i, In i (live s') -> NT s i -> NT s' i).

Lemma st_frame pre own Lb b0 V W s s' : St pre own Lb b0 V W s -> Frame s s' -> St pre own Lb b0 V W s'.
Proof.
  intros HS [F1 [F2 [F3 [F4 [F5 F6]]]]]. pose proof HS as [H1 [H2 [H3 [H4 [H5 [H6 [H7 H8]]]]]]].
  eapply st_step; eauto; try congruence; try lia.
  - intros i Hi. apply F6; auto. eapply in_own_live; eauto.
  - intros i Hi. apply F6. rewrite H2. apply in_or_app. right. apply in_or_app. auto.
Qed.
Lemma st_framec m own Lb b0 V W s s' :
  St [] (m :: own) Lb b0 V W s -> FrameC m s s' -> St [] own Lb b0 V W s'.
Proof.
  intros HS [F1 [F2 [F3 [F4 [F5 F6]]]]]. pose proof HS as [H1 [H2 [H3 [H4 [H5 [H6 [H7 H8]]]]]]].
  cbn [app] in *. inversion H5; subst.
  assert (live s' = own ++ Lb) as HL by (rewrite H2 in F2; congruence).
  eapply st_step; eauto.
  - intros i Hi. apply F6; [rewrite HL; apply in_or_app; auto|]. apply H7. right. exact Hi.
  - intros i Hi. apply F6. rewrite HL. apply in_or_app. auto.
Qed.
(* entry and exit of a proof about a function *)
Lemma st_enter s : LiveOK s -> NoDup (live s) -> St [] [] (live s) (nev s) (Valid s) (NT s) s.
Proof.
  intros H1 H2. split; [|split; [|split; [|split; [|split; [|split; [|split]]]]]]; auto.
  - constructor.
  - intros i [].
Qed.
Lemma st_exit s s' : St [] [] (live s) (nev s) (Valid s) (NT s) s' -> Frame s s'.
Proof. intros [H1 [H2 [H3 [H4 [H5 [H6 [H7 H8]]]]]]]. split; [|split; [|split; [|split; [|split]]]]; auto. Qed.
Lemma st_enter_c m L s :
  LiveOK s -> NoDup (live s) -> live s = m :: L -> NT s m -> St [] [m] L m (Valid s) (NT s) s.
Proof.
  intros H1 H2 H3 H4.
  assert (m < nev s) by (eapply slot_some_lt; apply H1; rewrite H3; left; auto).
  split; [|split; [|split; [|split; [|split; [|split; [|split]]]]]]; auto; try lia.
  - cbn [app]. constructor; auto.
  - intros i [<-|[]]. exact H4.
Qed.
Lemma st_exit_c m L s s' : live s = m :: L -> St [] [] L m (Valid s) (NT s) s' -> FrameC m s s'.
Proof.
  intros HL [H1 [H2 [H3 [H4 [H5 [H6 [H7 H8]]]]]]]. cbn in H2.
  split; [|split; [|split; [|split; [|split]]]]; auto.
  - congruence.
  - intros b Hb. lia.
  - intros i Hi. apply H8. congruence.
Qed.
Lemma st_liveok pre own Lb b0 V W s : St pre own Lb b0 V W s -> LiveOK s /\ NoDup (live s).
Proof. intros [H1 [_ [_ [_ [_ [H6 _]]]]]]. auto. Qed.
Lemma st_lower pre own Lb b0 V W s : St pre own Lb b0 V W s -> b0 <= nev s.
Proof. intros [_ [_ [_ [H _]]]]. auto. Qed.
Lemma st_own_lower pre own Lb b0 V W s m : St pre own Lb b0 V W s -> In m own -> b0 <= m /\ m < nev s.
Proof.
  intros HS Hin. pose proof HS as [H1 [H2 [_ [_ [H5 _]]]]]. rewrite Forall_forall in H5. split.
  - apply H5. apply in_or_app. auto.
  - eapply slot_some_lt. apply H1. eapply in_own_live; eauto.
Qed.
Lemma st_live_head m own Lb b0 V W s : St [] (m :: own) Lb b0 V W s -> live s = m :: (own ++ Lb).
Proof. intros [_ [H _]]. exact H. Qed.
Lemma st_head_nt m own Lb b0 V W s : St [] (m :: own) Lb b0 V W s -> NT s m.
Proof. intros [_ [_ [_ [_ [_ [_ [H _]]]]]]]. apply H. left. reflexivity. Qed.

(* loops: the invariant is the threaded state predicate itself (plus a user part) *)
Lemma WB_loopS_fuel {A B} (body : A -> M (A + B)) (Iv : A -> pst -> Prop) (Q : B -> pst -> Prop) :
  (forall a s1, Iv a s1 -> WB (body a) (fun r s2 => match r with inl a' => Iv a' s2 | inr b => Q b s2 end) s1) ->
  forall fuel a s, Iv a s -> WB (loopS_fuel fuel body a) Q s.
Proof.
  intros Hb. induction fuel as [|f IH]; intros a s HI; [exact I|].
  cbn [loopS_fuel]. apply WB_bind. eapply WB_conseq; [apply Hb; exact HI|].
  intros [a'|b] s' H; [apply IH; exact H|apply WB_ret; exact H].
Qed.
Lemma WB_loopS {A B} inp (body : A -> M (A + B)) (Iv : A -> pst -> Prop) (Q : B -> pst -> Prop) a s :
  Iv a s ->
  (forall a s1, Iv a s1 -> WB (body a) (fun r s2 => match r with inl a' => Iv a' s2 | inr b => Q b s2 end) s1) ->
  WB (loopS inp body a) Q s.
Proof. intros HI Hb. unfold loopS. change (WB (loopS_fuel (S (rem inp s)) body a) Q s). apply WB_loopS_fuel with (Iv := Iv); auto. Qed.
Lemma WB_loop inp (body : M bool) (Iv : pst -> Prop) (Q : unit -> pst -> Prop) s :
  Iv s ->
  (forall s1, Iv s1 -> WB body (fun r s2 => if r then Iv s2 else Q tt s2) s1) ->
  WB (loop inp body) Q s.
Proof.
  intros HI Hb. unfold loop. apply WB_loopS with (Iv := fun _ s1 => Iv s1); auto.
  intros [] s1 H1. apply WB_bind. eapply WB_conseq; [apply Hb; exact H1|].
  intros [] s2 H2; apply WB_ret; exact H2.
Qed.
