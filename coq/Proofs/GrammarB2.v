From Coq Require Import NArith Arith List Bool Lia.
From OQ3 Require Import gen.Kinds Model.Parser Model.Grammar Proofs.MarkerB Proofs.GrammarB0 Proofs.GrammarB1.
Import ListNotations.
Local Open Scope nat_scope.

Section B.
Variable inp : list (N * bool).
Variable R : G.
Hypothesis HG : GoodB R.

Lemma literal_B : SpecA (literal inp) ResOCm.
Proof. b_enter. unfold literal. bgo; fin. Qed.
Lemma cast_expr_B : SpecA (cast_expr inp R) ResCm.
Proof. b_enter. unfold cast_expr. bgo; fin. Qed.
Lemma gphase_call_expr_B : SpecA (gphase_call_expr inp R) ResCm.
Proof. b_enter. unfold gphase_call_expr. bgo; fin. Qed.
Lemma gate_call_expr_B : SpecA (gate_call_expr inp R) ResCm.
Proof. b_enter. unfold gate_call_expr. bgo; fin. Qed.
Lemma paren_arg_B : SpecA (paren_arg inp R) ResU.
Proof. b_enter. unfold paren_arg. bgo; fin. Qed.
Ltac b_k11 :=
  lazymatch goal with |- WB ?f _ _ =>
    let h := head_of f in
    lazymatch h with
    | @literal => b_callA literal_B
    | @cast_expr => b_callA cast_expr_B
    | @gphase_call_expr => b_callA gphase_call_expr_B
    | @gate_call_expr => b_callA gate_call_expr_B
    | @paren_arg => b_callA paren_arg_B
    | _ => b_g1
    end
  end.
Ltac b_known ::= b_k11.
Lemma modified_gate_call_expr_B : SpecA (modified_gate_call_expr inp R) ResCm.
Proof. b_enter. unfold modified_gate_call_expr. bgo; try b_inv; fin. Qed.
Lemma measure_expression_B : SpecA (measure_expression inp R) ResCm.
Proof. b_enter. unfold measure_expression. bgo; fin. Qed.
Lemma tuple_expr_B : SpecA (tuple_expr inp R) ResCm.
Proof.
  b_enter. unfold tuple_expr. bgo.
  b_loopS (fun (_ : bool * bool) (_ : pst) => True) (fun (_ : bool * bool) (_ : pst) => True).
  - exact I.
  - destruct a as [sc se]. bgo; try (split; [lia|exact I]).
  - bgo; fin.
Qed.
Lemma array_expr_B : SpecA (array_expr inp R) ResCm.
Proof.
  b_enter. unfold array_expr. bgo.
  b_loopS (fun (_ : bool * bool) (_ : pst) => True) (fun (_ : unit) (_ : pst) => True).
  - exact I.
  - destruct a as [sc se]. bgo; try (split; [lia|exact I]).
  - bgo; fin.
Qed.
Lemma expr_block_statements_B : SpecA (expr_block_statements inp R) ResU.
Proof. b_enter. unfold expr_block_statements. bgo; fin. Qed.
Ltac b_k12 :=
  lazymatch goal with |- WB ?f _ _ =>
    let h := head_of f in
    lazymatch h with
    | @modified_gate_call_expr => b_callA modified_gate_call_expr_B
    | @measure_expression => b_callA measure_expression_B
    | @tuple_expr => b_callA tuple_expr_B
    | @array_expr => b_callA array_expr_B
    | @expr_block_statements => b_callA expr_block_statements_B
    | _ => b_k11
    end
  end.
Ltac b_known ::= b_k12.
Lemma block_expr_B : SpecA (block_expr inp R) ResCm.
Proof. b_enter. unfold block_expr. bgo; fin. Qed.
Lemma return_expr_B : SpecA (return_expr inp R) ResCm.
Proof. b_enter. unfold return_expr. bgo; fin. Qed.
Lemma box_expr_B : SpecA (box_expr inp R) ResCm.
Proof. b_enter. unfold box_expr. bgo; fin. Qed.
Ltac b_k13 :=
  lazymatch goal with |- WB ?f _ _ =>
    let h := head_of f in
    lazymatch h with
    | @block_expr => b_callA block_expr_B
    | @return_expr => b_callA return_expr_B
    | @box_expr => b_callA box_expr_B
    | _ => b_k12
    end
  end.
Ltac b_known ::= b_k13.
Lemma try_block_expr_B : SpecA (try_block_expr inp R) ResU.
Proof. b_enter. unfold try_block_expr. bgo; fin. Qed.
Lemma atom_expr_B : SpecA (atom_expr inp R) ResOCmB.
Proof. b_enter. unfold atom_expr. bgo; fin. Qed.
Lemma call_expr_B : SpecL (call_expr inp R) ResLCm.
Proof. b_enterL. unfold call_expr. bgo; fin. Qed.
Ltac b_k14 :=
  lazymatch goal with |- WB ?f _ _ =>
    let h := head_of f in
    lazymatch h with
    | @try_block_expr => b_callA try_block_expr_B
    | @atom_expr => b_callA atom_expr_B
    | @call_expr => b_callL call_expr_B
    | _ => b_k13
    end
  end.
Ltac b_known ::= b_k14.
Lemma postfix_expr_B bl ac : SpecL (fun l => postfix_expr inp R l bl ac) ResLCmB.
Proof.
  b_enterL. unfold postfix_expr.
  b_loopS (fun (a : cmarker * bool * bool) (s1 : pst) => Valid s1 (fst (fst (fst a))) /\ fst lhs <= fst (fst (fst a)))
          (fun (b : cmarker * bool) (s1 : pst) => Valid s1 (fst (fst b)) /\ fst lhs <= fst (fst b)).
  - cbn [fst]. split; [assumption|lia].
  - destruct a as [[l b1] a1]. cbn [fst] in HP. destruct HP as [HP1 HP2]. bgo; cbn [fst]; (split; [assumption|lia]).
  - destruct HP as [HP1 HP2]. fin.
Qed.
Ltac b_k15 :=
  lazymatch goal with |- WB ?f _ _ =>
    let h := head_of f in
    lazymatch h with
    | @postfix_expr => b_callL postfix_expr_B
    | _ => b_k14
    end
  end.
Ltac b_known ::= b_k15.
Lemma lhs_B ps : SpecA (lhs inp R ps) ResOCmB.
Proof.
  b_enter. unfold lhs. bgo; fin.
Qed.
End B.

Ltac b_g2 :=
  lazymatch goal with |- WB ?f _ _ =>
    let h := head_of f in
    lazymatch h with
    | @literal => b_callA literal_B
    | @cast_expr => b_callA cast_expr_B
    | @gphase_call_expr => b_callA gphase_call_expr_B
    | @gate_call_expr => b_callA gate_call_expr_B
    | @paren_arg => b_callA paren_arg_B
    | @modified_gate_call_expr => b_callA modified_gate_call_expr_B
    | @measure_expression => b_callA measure_expression_B
    | @tuple_expr => b_callA tuple_expr_B
    | @array_expr => b_callA array_expr_B
    | @expr_block_statements => b_callA expr_block_statements_B
    | @block_expr => b_callA block_expr_B
    | @return_expr => b_callA return_expr_B
    | @box_expr => b_callA box_expr_B
    | @try_block_expr => b_callA try_block_expr_B
    | @atom_expr => b_callA atom_expr_B
    | @call_expr => b_callL call_expr_B
    | @postfix_expr => b_callL postfix_expr_B
    | @lhs => b_callA lhs_B
    | _ => b_g1
    end
  end.
Ltac b_known ::= b_g2.
