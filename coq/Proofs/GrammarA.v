(* Theorem A for the grammar model: for every token sequence the parse terminates (no loop or
   recursion fuel is ever exhausted) and no token-precondition assertion fires.
   One lemma per grammar function, in dependency order; [Good R mu] is the induction hypothesis
   on the recursion measure 3*(remaining tokens) + rank. *)
From Coq Require Import NArith Arith List Bool Lia.
From OQ3 Require Import gen.Kinds gen.Ops Model.Parser Model.Grammar Proofs.WP.
Import ListNotations.
Local Open Scope nat_scope.

Section A.
Variable inp : list (N * bool).
Hypothesis Hne : forall i k j, nth_error inp i = Some (k, j) -> k <> K_EOF.
Notation n := (ntoks inp).
Notation kind_at := (kind_at inp).
Notation nth_at_pure := (nth_at_pure inp).
Notation W := (WP inp).

Definition lvl (p c : nat) : nat := 3 * (n - p) + c.

Definition first_ok (p : nat) : bool :=
  ts_contains EXPR_FIRST (kind_at p)
  || (is_classical_type (kind_at p)
      && (keq (kind_at (p + 1)) K_L_PAREN || keq (kind_at (p + 1)) K_L_BRACK)).

Definition Post_expr_bp (p : nat) (r : option (cmarker * bool)) (p' : nat) : Prop :=
  (r <> None -> p < p') /\ (first_ok p = true -> p < p').
Definition Post_stmt (p : nat) (_ : unit) (p' : nat) : Prop :=
  kind_at p <> K_EOF -> kind_at p <> K_R_CURLY -> p < p'.

Record Good (R : G) (mu : nat) : Prop := {
  good_expr_bp : forall m ps bp p, 1 <= bp -> (p <= n -> lvl p 0 < mu) -> W (g_expr_bp R m ps bp) (Post_expr_bp p) p;
  good_stmt : forall p, (p <= n -> lvl p 2 < mu) -> W (g_stmt R) (Post_stmt p) p;
  good_type_spec : forall p, (p <= n -> lvl p 0 < mu) -> W (g_type_spec R) (fun _ _ => True) p;
  good_non_array : forall p, (p <= n -> lvl p 0 < mu) -> W (g_non_array_type_spec R) (fun _ _ => True) p;
  good_if_stmt : forall m p, nth_at_pure p 0 K_IF_KW = true -> (p <= n -> lvl p 0 < mu) ->
                 W (g_if_stmt R m) (fun _ _ => True) p;
  good_param_list : forall fl p, (p <= n -> lvl p 1 < mu) -> W (g_param_list R fl) (fun _ _ => True) p
}.

Variable R : G.
Variable mu : nat.
Hypothesis HR : Good R mu.

(* ---------------- tactics ---------------- *)
Ltac kne := let H := fresh in intro H; vm_compute in H; discriminate.
Ltac nraw :=
  repeat match goal with
  | |- context [n_raw_of ?k] => let v := eval vm_compute in (n_raw_of k) in change (n_raw_of k) with v
  end.

(* a test on the current kind implies the at-test for a simple kind *)
Lemma at_of_keq p k : simple k -> keq (kind_at p) k = true -> nth_at_pure p 0 k = true.
Proof. intros Hs H. rewrite (nth_at_simple inp _ _ Hs), Nat.add_0_r. exact H. Qed.
Lemma keq_of_at p k : simple k -> nth_at_pure p 0 k = true -> kind_at p = k.
Proof. intros Hs H. rewrite (nth_at_simple inp _ _ Hs), Nat.add_0_r in H. apply N.eqb_eq; auto. Qed.
Lemma not_at p k : simple k -> nth_at_pure p 0 k = false -> kind_at p <> k.
Proof. intros Hs H. rewrite (nth_at_simple inp _ _ Hs), Nat.add_0_r in H. apply N.eqb_neq; auto. Qed.
Ltac simp_k := split; vm_compute; reflexivity.
Lemma ne_eof_of_at p k : simple k -> k <> K_EOF -> nth_at_pure p 0 k = true -> kind_at p <> K_EOF.
Proof. intros Hs Hk H. rewrite (keq_of_at p k Hs H). auto. Qed.
Ltac ne_eof :=
  match goal with
  | H : Parser.nth_at_pure _ ?p 0 ?k = true |- Parser.kind_at _ ?p <> K_EOF =>
      apply (ne_eof_of_at p k); [simp_k | (let X := fresh in intro X; vm_compute in X; discriminate) | exact H]
  end.

Ltac have_at :=
  first [ assumption
        | apply at_of_keq; [simp_k | assumption] ].

Ltac eof_contra :=
  match goal with
  | H : Parser.kind_at _ ?p = K_EOF, Ha : Parser.nth_at_pure _ ?p 0 ?k = true |- _ =>
      exfalso; apply (ne_eof_of_at p k) in Ha;
      [exact (Ha H) | simp_k | (let X := fresh in intro X; vm_compute in X; discriminate)]
  | H : Parser.kind_at _ ?p = K_EOF, Ha : keq (Parser.kind_at _ ?p) ?k = true |- _ =>
      exfalso; unfold keq in Ha; rewrite H in Ha; vm_compute in Ha; discriminate
  end.
Ltac wp_hook := fail.
Ltac wp1core :=
  lazymatch goal with
  | |- WP _ (bind _ _) _ _ => apply WP_bind
  | |- WP _ (ret _) _ _ => apply WP_ret
  | |- WP _ start _ _ => apply WP_start; intro
  | |- WP _ (complete _ _) _ _ => apply WP_complete
  | |- WP _ (abandon _) _ _ => apply WP_abandon
  | |- WP _ (precede _) _ _ => apply WP_precede; intro
  | |- WP _ (extend_to _ _) _ _ => apply WP_extend_to
  | |- WP _ error _ _ => apply WP_error
  | |- WP _ (current _) _ _ => apply WP_current
  | |- WP _ get _ _ => apply WP_get; intros ?s0 ?Hs0
  | |- WP _ (nth_tok _ _) _ _ => apply WP_nth_tok; [lia|]
  | |- WP _ (at_ _ _) _ _ => apply WP_at
  | |- WP _ (at_ts _ _) _ _ => apply WP_at_ts
  | |- WP _ (eat _ _) _ _ => apply (WP_eat inp Hne); [kne | intro | intro]; nraw
  | |- WP _ (expect _ _) _ _ => apply (WP_expect inp Hne); [kne | intro | intro]; nraw
  | |- WP _ (bump_any _) _ _ => apply (WP_bump_any inp Hne); intro; try eof_contra
  | |- WP _ (bump _ _) _ _ => apply (WP_bump inp Hne); [kne | have_at | ]; nraw
  | |- WP _ (assert_at _ _ _) _ _ => apply WP_assert_at; [have_at | ]
  | |- WP _ (when_ _ _) _ _ => apply WP_when; intro
  | |- WP _ (ign _) _ _ => apply WP_ign
  | |- WP _ (if ?c then _ else _) _ _ =>
      let rec leftmost b :=
        lazymatch b with
        | ?x || _ => leftmost x | ?x && _ => leftmost x | negb ?x => leftmost x | _ => b
        end in
      let a := leftmost c in destruct a eqn:?; cbn [orb andb negb]
  | |- WP _ (match ?x with Some _ => _ | None => _ end) _ _ => destruct x eqn:?
  | |- WP _ (let '(_, _) := ?x in _) _ _ => destruct x
  end.
Ltac wp1 := first [wp1core | wp_hook].
Ltac wp := repeat (wp1; cbn beta).
Ltac wp0 := repeat (wp1core; cbn beta).
Ltac posfix :=
  repeat match goal with H : pos ?s = _ |- _ => rewrite H in *; clear H end;
  repeat match goal with
         | H : (_ =? _) = false |- _ => apply Nat.eqb_neq in H
         | H : (_ =? _) = true |- _ => apply Nat.eqb_eq in H
         end.
Ltac fin := try eof_contra; try ne_eof; try lia; try (intros; lia); try congruence; try (split; lia); try (intros; congruence); auto.
Tactic Notation "wloop" constr(I) :=
  apply (WP_loop inp _ I); [try exact Logic.I; try lia | cbn beta; intros ?p1 ?Hp1 ?Hn1 ?HI1].

Ltac lv := intros; unfold lvl in *; lia.
(* call a proved function lemma / a call-back, then continue with its postcondition *)
Tactic Notation "wcall" constr(L) "as" ident(r) ident(q) ident(HP) :=
  eapply WP_conseq; [eapply L; eauto; try lv | cbn beta; intros r q ?Hle ?Hn HP].
Tactic Notation "wcall" constr(L) := let r := fresh "r" in let q := fresh "q" in let HP := fresh "HP" in
  eapply WP_conseq; [eapply L; eauto; try lv | cbn beta; intros r q ?Hle ?Hn HP].
Ltac wguard H := apply WP_guard; intro H.

(* ---------------- grammar.rs / leaves ---------------- *)
Lemma name_r_A rec p : W (name_r inp rec) (fun _ _ => True) p.
Proof. unfold name_r. wp; auto. apply (WP_err_recover inp Hne); auto. Qed.

Lemma identifier_A p :
  W (identifier inp) (fun _ p' => kind_at p = K_IDENT -> p < p') p.
Proof.
  unfold identifier. wp; intros E; try lia.
  exfalso. apply (not_at p K_IDENT) in H; auto. simp_k.
Qed.

Lemma hardware_qubit_A p :
  nth_at_pure p 0 K_HARDWAREIDENT = true -> W (hardware_qubit inp) (fun _ p' => p < p') p.
Proof. intros H. unfold hardware_qubit. wp. lia. Qed.

Lemma var_name_A p : W (var_name inp) (fun _ _ => True) p.
Proof. unfold var_name. wp; auto. Qed.

Lemma expression_list_A p : (p <= n -> lvl p 1 < mu) -> W (expression_list R) (fun _ _ => True) p.
Proof. intros H. unfold expression_list. apply (good_param_list _ _ HR); auto. Qed.
Lemma arg_list_gate_call_qubits_A p :
  (p <= n -> lvl p 1 < mu) -> W (arg_list_gate_call_qubits R) (fun _ _ => True) p.
Proof. intros H. unfold arg_list_gate_call_qubits. apply (good_param_list _ _ HR); auto. Qed.

Lemma expr_A p : (p <= n -> lvl p 0 < mu) ->
  W (expr R) (fun r p' => (r <> None -> p < p') /\ (first_ok p = true -> p < p')) p.
Proof.
  intros H. unfold expr. wp. wcall (good_expr_bp _ _ HR) as r q HP. wp.
  destruct HP as [H3 H4]. split; auto. intros Hr. apply H3. destruct r; cbn in *; congruence.
Qed.

Lemma set_expression_A p :
  (p <= n -> lvl p 0 <= mu) -> nth_at_pure p 0 K_L_CURLY = true ->
  W (set_expression inp R) (fun _ p' => p < p') p.
Proof.
  intros Hl Ha. unfold set_expression. wp. wguard Hg. wcall expression_list_A. wp; lia.
Qed.

Lemma index_operator_A p :
  (p <= n -> lvl p 0 <= mu) -> nth_at_pure p 0 K_L_BRACK = true ->
  W (index_operator inp R) (fun _ p' => p < p') p.
Proof.
  intros Hl Ha. unfold index_operator. wp; try congruence.
  - wguard Hg. wcall set_expression_A. wp; lia.
  - wguard Hg. wcall expression_list_A. wp; lia.
Qed.

Lemma index_expr_A lhs p :
  (p <= n -> lvl p 0 <= mu) -> nth_at_pure p 0 K_L_BRACK = true ->
  W (index_expr inp R lhs) (fun _ p' => p < p') p.
Proof. intros Hl Ha. unfold index_expr. wp. wcall index_operator_A. wp. lia. Qed.

Lemma indexed_identifier_A lhs p :
  (p <= n -> lvl p 0 <= mu) -> nth_at_pure p 0 K_L_BRACK = true ->
  W (indexed_identifier inp R lhs) (fun _ p' => p < p') p.
Proof.
  intros Hl Ha. unfold indexed_identifier. wp.
  apply (WP_loop inp _ (fun p1 => p < p1 \/ p1 = p)); [lia|]. intros p1 H1 H2 H3. wp; fin.
  - destruct H3; [lia|subst]. apply (keq_of_at p K_EOF) in Heqb0; [|simp_k].
    apply (keq_of_at p K_L_BRACK) in Ha; [|simp_k]. rewrite Ha in Heqb0. vm_compute in Heqb0. discriminate.
  - wcall index_operator_A. wp. split; lia.
  - destruct H3; [lia|subst]. congruence.
Qed.

Lemma arg_gate_call_qubit_A m p :
  (p <= n -> lvl p 0 <= mu) ->
  W (arg_gate_call_qubit inp R m) (fun r p' => r = true -> p < p') p.
Proof.
  intros Hl. unfold arg_gate_call_qubit. wp; try (intros; lia); try discriminate.
  wguard Hg. wcall indexed_identifier_A. wp. intros; lia.
Qed.

Lemma designator_A p :
  (p <= n -> lvl p 0 <= mu) -> nth_at_pure p 0 K_L_BRACK = true ->
  W (designator inp R) (fun _ p' => p < p') p.
Proof.
  intros Hl Ha. unfold designator. wp; wguard Hg; wcall expr_A; wp; lia.
Qed.

Ltac wp_hook ::=
  lazymatch goal with
  | |- WP _ (g_type_spec _) _ _ => let Hg := fresh "Hg" in wguard Hg; wcall (good_type_spec _ _ HR)
  | |- WP _ (g_non_array_type_spec _) _ _ => let Hg := fresh "Hg" in wguard Hg; wcall (good_non_array _ _ HR)
  | |- WP _ (expr _) _ _ => let Hg := fresh "Hg" in wguard Hg; wcall expr_A
  | |- WP _ (expression_list _) _ _ => let Hg := fresh "Hg" in wguard Hg; wcall expression_list_A
  | |- WP _ (arg_list_gate_call_qubits _) _ _ => let Hg := fresh "Hg" in wguard Hg; wcall arg_list_gate_call_qubits_A
  | |- WP _ (designator _ _) _ _ => let Hg := fresh "Hg" in wguard Hg; wcall designator_A
  | |- WP _ (index_operator _ _) _ _ => let Hg := fresh "Hg" in wguard Hg; wcall index_operator_A
  | |- WP _ (set_expression _ _) _ _ => let Hg := fresh "Hg" in wguard Hg; wcall set_expression_A
  | |- WP _ (identifier _) _ _ => wcall identifier_A
  | |- WP _ (var_name _) _ _ => wcall var_name_A
  | |- WP _ (name_r _ _) _ _ => wcall name_r_A
  | |- WP _ (name _) _ _ => unfold name; wcall name_r_A
  end.

(* ---------------- types ---------------- *)
Lemma memN_In k l : memN k l = true -> In k l.
Proof.
  induction l as [|x l IH]; cbn; [discriminate|]. destruct (N.eqb k x) eqn:E; cbn; auto.
  apply N.eqb_eq in E; auto.
Qed.
Definition type_kinds : list N := is_scalar_type_list ++ [K_ARRAY_KW; K_QUBIT_KW; K_HARDWARE_QUBIT].
Lemma is_type_in k : is_type k = true -> In k type_kinds.
Proof.
  unfold is_type, is_classical_type, is_quantum_type, is_scalar_type, kin, keq, type_kinds.
  rewrite !orb_true_iff, !N.eqb_eq. intros [[H|H]|[H|H]]; subst; apply in_or_app.
  - left. apply memN_In; auto.
  - right. cbn; auto.
  - right. cbn; auto.
  - right. cbn; auto.
Qed.
Lemma type_kinds_simple : Forall (fun k => simple k /\ k <> K_EOF) type_kinds.
Proof. repeat constructor; try (vm_compute; reflexivity); vm_compute; discriminate. Qed.
Lemma is_type_simple k : is_type k = true -> simple k /\ k <> K_EOF.
Proof. intros H. apply is_type_in in H. pose proof type_kinds_simple as F. rewrite Forall_forall in F. auto. Qed.

Lemma type_name_A p :
  W (type_name inp) (fun _ p' => is_type (kind_at p) = true -> p < p') p.
Proof.
  unfold type_name. wp; [|intros; discriminate].
  destruct (is_type_simple _ Heqb) as [Hs Hk].
  apply (WP_bump inp Hne); auto.
  - rewrite (nth_at_simple inp _ _ Hs), Nat.add_0_r. apply N.eqb_refl.
  - rewrite (n_raw_simple _ Hs). intros; lia.
Qed.


Lemma complex_type_spec_A p :
  (p <= n -> lvl p 0 <= mu) -> nth_at_pure p 0 K_COMPLEX_TY = true ->
  W (complex_type_spec inp R) (fun _ p' => p < p') p.
Proof.
  intros Hl Ha. unfold complex_type_spec. wp; fin.
  all: try (exfalso; apply (ne_eof_of_at p K_COMPLEX_TY) in Ha; [congruence|simp_k|kne]).
Qed.

Lemma non_array_type_spec_A p :
  (p <= n -> lvl p 0 <= mu) ->
  W (non_array_type_spec inp R) (fun _ p' => is_type (kind_at p) = true -> p < p') p.
Proof.
  intros Hl. unfold non_array_type_spec. wp.
  - wcall complex_type_spec_A. wp. fin.
  - wcall type_name_A as r q HP. wp; fin.
Qed.

Lemma array_type_spec_A want p :
  (p <= n -> lvl p 0 <= mu) -> kind_at p <> K_EOF ->
  (want = false -> nth_at_pure p 0 K_ARRAY_KW = true) ->
  W (array_type_spec inp R want) (fun _ p' => p < p') p.
Proof.
  intros Hl Hk Hw. destruct want; [clear Hw | specialize (Hw eq_refl)]; unfold array_type_spec; wp; fin.
  all: wloop (fun _ : nat => True); wp; fin.
Qed.

Lemma type_spec_A p :
  (p <= n -> lvl p 0 <= mu) ->
  W (type_spec inp R) (fun _ p' => is_type (kind_at p) = true -> p < p') p.
Proof.
  intros Hl. unfold type_spec. wp.
  - wcall array_type_spec_A; fin.
  - apply non_array_type_spec_A; auto.
Qed.

Lemma param_type_spec_A p :
  (p <= n -> lvl p 0 <= mu) -> W (param_type_spec inp R) (fun _ _ => True) p.
Proof.
  intros Hl. unfold param_type_spec. wp.
  1-3: wcall array_type_spec_A; fin.
  wcall non_array_type_spec_A. auto.
Qed.

Lemma qubit_type_spec_A p :
  (p <= n -> lvl p 0 <= mu) -> nth_at_pure p 0 K_QUBIT_KW = true ->
  W (qubit_type_spec inp R) (fun _ p' => p < p') p.
Proof.
  intros Hl Ha. unfold qubit_type_spec. wp. wcall type_name_A as r q HP.
  assert (p < q) as Hq.
  { apply HP. rewrite (keq_of_at p K_QUBIT_KW); auto. simp_k. }
  wp; try lia. all: wcall designator_A; wp; lia.
Qed.

Lemma opt_return_signature_A p :
  (p <= n -> lvl p 0 <= mu) -> W (opt_return_signature inp R) (fun _ _ => True) p.
Proof.
  intros Hl. unfold opt_return_signature. wp; auto.
  all: wguard Hg; try (wcall type_spec_A; wp; auto).
Qed.

Lemma q_or_c_reg_param_A p :
  (p <= n -> lvl p 0 <= mu) ->
  W (q_or_c_reg_param inp R) (fun _ p' => kind_at p <> K_EOF -> p < p') p.
Proof. intros Hl. unfold q_or_c_reg_param. wp; fin. Qed.

Tactic Notation "wloopS" constr(I) :=
  apply (WP_loopS inp _ I); [try exact Logic.I; try lia | cbn beta; intros ?a1 ?p1 ?Hp1 ?Hn1 ?HI1].

Ltac wp_hook ::=
  lazymatch goal with
  | |- WP _ (g_type_spec _) _ _ => let Hg := fresh "Hg" in wguard Hg; wcall (good_type_spec _ _ HR)
  | |- WP _ (g_non_array_type_spec _) _ _ => let Hg := fresh "Hg" in wguard Hg; wcall (good_non_array _ _ HR)
  | |- WP _ (g_param_list _ _) _ _ => let Hg := fresh "Hg" in wguard Hg; wcall (good_param_list _ _ HR)
  | |- WP _ (expr _) _ _ => let Hg := fresh "Hg" in wguard Hg; wcall expr_A
  | |- WP _ (expression_list _) _ _ => let Hg := fresh "Hg" in wguard Hg; wcall expression_list_A
  | |- WP _ (arg_list_gate_call_qubits _) _ _ => let Hg := fresh "Hg" in wguard Hg; wcall arg_list_gate_call_qubits_A
  | |- WP _ (designator _ _) _ _ => let Hg := fresh "Hg" in wguard Hg; wcall designator_A
  | |- WP _ (index_operator _ _) _ _ => let Hg := fresh "Hg" in wguard Hg; wcall index_operator_A
  | |- WP _ (index_expr _ _ _) _ _ => let Hg := fresh "Hg" in wguard Hg; wcall index_expr_A
  | |- WP _ (indexed_identifier _ _ _) _ _ => let Hg := fresh "Hg" in wguard Hg; wcall indexed_identifier_A
  | |- WP _ (set_expression _ _) _ _ => let Hg := fresh "Hg" in wguard Hg; wcall set_expression_A
  | |- WP _ (arg_gate_call_qubit _ _ _) _ _ => let Hg := fresh "Hg" in wguard Hg; wcall arg_gate_call_qubit_A
  | |- WP _ (type_spec _ _) _ _ => let Hg := fresh "Hg" in wguard Hg; wcall type_spec_A
  | |- WP _ (param_type_spec _ _) _ _ => let Hg := fresh "Hg" in wguard Hg; wcall param_type_spec_A
  | |- WP _ (qubit_type_spec _ _) _ _ => let Hg := fresh "Hg" in wguard Hg; wcall qubit_type_spec_A
  | |- WP _ (opt_return_signature _ _) _ _ => let Hg := fresh "Hg" in wguard Hg; wcall opt_return_signature_A
  | |- WP _ (q_or_c_reg_param _ _) _ _ => let Hg := fresh "Hg" in wguard Hg; wcall q_or_c_reg_param_A
  | |- WP _ (identifier _) _ _ => wcall identifier_A
  | |- WP _ (hardware_qubit _) _ _ => wcall hardware_qubit_A
  | |- WP _ (var_name _) _ _ => wcall var_name_A
  | |- WP _ (name_r _ _) _ _ => wcall name_r_A
  | |- WP _ (name _) _ _ => unfold name; wcall name_r_A
  end.

(* ---------------- atoms ---------------- *)
Lemma call_arg_list_A p :
  (p <= n -> lvl p 0 <= mu) -> nth_at_pure p 0 K_L_PAREN = true ->
  W (call_arg_list inp R) (fun _ p' => p < p') p.
Proof.
  intros Hl Ha. unfold call_arg_list. wp.
  wloop (fun _ : nat => True). wp; fin.
  all: destruct HP as [HP _]; split; auto; apply HP; discriminate.
Qed.

Lemma ts_not_eof ts k : ts_contains ts k = true -> memN K_EOF ts = false -> k <> K_EOF.
Proof.
  unfold ts_contains. intros H Hm E. subst. rewrite Hm in H. rewrite andb_false_r in H. discriminate.
Qed.

Lemma literal_A p :
  W (literal inp) (fun r p' => (r <> None -> p < p') /\ (r = None -> p' = p)) p.
Proof.
  unfold literal. wp; fin.
  all: try (exfalso; apply (ts_not_eof _ _ Heqb); [reflexivity|assumption]).
  all: try (split; [intros; lia | intros; discriminate]).
  split; [congruence | auto].
Qed.

Lemma cast_expr_A p :
  (p <= n -> lvl p 0 <= mu) -> is_classical_type (kind_at p) = true ->
  W (cast_expr inp R) (fun _ p' => p < p') p.
Proof.
  intros Hl Hc. unfold cast_expr. wp0. wcall type_spec_A as r q HP.
  assert (p < q) by (apply HP; unfold is_type; rewrite Hc; reflexivity).
  wp; fin.
Qed.

Lemma gphase_call_expr_A p :
  (p <= n -> lvl p 0 <= mu) -> nth_at_pure p 0 K_GPHASE_KW = true ->
  W (gphase_call_expr inp R) (fun _ p' => p < p') p.
Proof. intros Hl Ha. unfold gphase_call_expr. wp; fin. Qed.

Lemma gate_call_expr_A p :
  (p <= n -> if N.eqb (kind_at p) K_IDENT then lvl p 0 <= mu else lvl p 2 <= mu) ->
  W (gate_call_expr inp R) (fun _ p' => kind_at p = K_IDENT -> p < p') p.
Proof.
  intros Hl. unfold gate_call_expr. wguard Hg0. specialize (Hl Hg0). wp0.
  wcall identifier_A as r q HP.
  destruct (N.eqb (kind_at p) K_IDENT) eqn:E.
  - apply N.eqb_eq in E. specialize (HP E). wp0.
    + wcall call_arg_list_A. wp; fin.
    + wp; fin.
  - apply N.eqb_neq in E. wp0.
    + wcall call_arg_list_A. wp; fin.
    + wp; fin.
Qed.

Lemma paren_arg_A p :
  (p <= n -> lvl p 0 <= mu) -> nth_at_pure p 0 K_L_PAREN = true ->
  W (paren_arg inp R) (fun _ p' => p < p') p.
Proof. intros Hl Ha. unfold paren_arg. wp; fin. Qed.

Ltac wp_hook ::=
  lazymatch goal with
  | |- WP _ (g_type_spec _) _ _ => let Hg := fresh "Hg" in wguard Hg; wcall (good_type_spec _ _ HR)
  | |- WP _ (g_non_array_type_spec _) _ _ => let Hg := fresh "Hg" in wguard Hg; wcall (good_non_array _ _ HR)
  | |- WP _ (g_param_list _ _) _ _ => let Hg := fresh "Hg" in wguard Hg; wcall (good_param_list _ _ HR)
  | |- WP _ (expr _) _ _ => let Hg := fresh "Hg" in wguard Hg; wcall expr_A
  | |- WP _ (expression_list _) _ _ => let Hg := fresh "Hg" in wguard Hg; wcall expression_list_A
  | |- WP _ (arg_list_gate_call_qubits _) _ _ => let Hg := fresh "Hg" in wguard Hg; wcall arg_list_gate_call_qubits_A
  | |- WP _ (designator _ _) _ _ => let Hg := fresh "Hg" in wguard Hg; wcall designator_A
  | |- WP _ (index_operator _ _) _ _ => let Hg := fresh "Hg" in wguard Hg; wcall index_operator_A
  | |- WP _ (index_expr _ _ _) _ _ => let Hg := fresh "Hg" in wguard Hg; wcall index_expr_A
  | |- WP _ (indexed_identifier _ _ _) _ _ => let Hg := fresh "Hg" in wguard Hg; wcall indexed_identifier_A
  | |- WP _ (set_expression _ _) _ _ => let Hg := fresh "Hg" in wguard Hg; wcall set_expression_A
  | |- WP _ (arg_gate_call_qubit _ _ _) _ _ => let Hg := fresh "Hg" in wguard Hg; wcall arg_gate_call_qubit_A
  | |- WP _ (type_spec _ _) _ _ => let Hg := fresh "Hg" in wguard Hg; wcall type_spec_A
  | |- WP _ (param_type_spec _ _) _ _ => let Hg := fresh "Hg" in wguard Hg; wcall param_type_spec_A
  | |- WP _ (qubit_type_spec _ _) _ _ => let Hg := fresh "Hg" in wguard Hg; wcall qubit_type_spec_A
  | |- WP _ (opt_return_signature _ _) _ _ => let Hg := fresh "Hg" in wguard Hg; wcall opt_return_signature_A
  | |- WP _ (q_or_c_reg_param _ _) _ _ => let Hg := fresh "Hg" in wguard Hg; wcall q_or_c_reg_param_A
  | |- WP _ (call_arg_list _ _) _ _ => let Hg := fresh "Hg" in wguard Hg; wcall call_arg_list_A
  | |- WP _ (paren_arg _ _) _ _ => let Hg := fresh "Hg" in wguard Hg; wcall paren_arg_A
  | |- WP _ (gphase_call_expr _ _) _ _ => let Hg := fresh "Hg" in wguard Hg; wcall gphase_call_expr_A
  | |- WP _ (identifier _) _ _ => wcall identifier_A
  | |- WP _ (hardware_qubit _) _ _ => wcall hardware_qubit_A
  | |- WP _ (var_name _) _ _ => wcall var_name_A
  | |- WP _ (name_r _ _) _ _ => wcall name_r_A
  | |- WP _ (name _) _ _ => unfold name; wcall name_r_A
  end.

Definition is_modifier (k : N) : bool :=
  keq k K_INV_KW || keq k K_POW_KW || keq k K_CTRL_KW || keq k K_NEGCTRL_KW.

Lemma modified_gate_call_expr_A p :
  (p <= n -> lvl p 0 <= mu) -> is_modifier (kind_at p) = true ->
  W (modified_gate_call_expr inp R) (fun _ p' => p < p') p.
Proof.
  intros Hl Hm. unfold modified_gate_call_expr. wp0.
  wloop (fun p1 => p < p1 \/ (p1 = p /\ is_modifier (kind_at p1) = true)).
  { right; auto. }
  wp; fin.
  assert (p < p1) as Hlt.
  { destruct HI1 as [|[-> Hk]]; auto. unfold is_modifier in Hk.
    rewrite Heqb, Heqb0, Heqb1, Heqb2 in Hk. discriminate. }
  wp; fin.
  wcall gate_call_expr_A.
  { intros. destruct (N.eqb _ _); lv. }
  wp; fin.
Qed.

Lemma measure_expression_A p :
  (p <= n -> lvl p 0 <= mu) -> nth_at_pure p 0 K_MEASURE_KW = true ->
  W (measure_expression inp R) (fun _ p' => p < p') p.
Proof. intros Hl Ha. unfold measure_expression. wp; fin. Qed.

Lemma tuple_expr_A p :
  (p <= n -> lvl p 0 <= mu) -> nth_at_pure p 0 K_L_PAREN = true ->
  W (tuple_expr inp R) (fun _ p' => p < p') p.
Proof.
  intros Hl Ha. unfold tuple_expr. wp0; try congruence.
  - wloopS (fun (_ : bool * bool) (_ : nat) => True). destruct a1 as [sc se]. wp; fin.
    all: try (destruct HP as [HP _]; split; auto; try lia; assert (p1 < q) by (apply HP; discriminate); lia).
  - wloopS (fun (_ : bool * bool) (_ : nat) => True). destruct a1 as [sc se]. wp; fin.
    all: try (destruct HP as [HP _]; split; auto; try lia; assert (p1 < q) by (apply HP; discriminate); lia).
Qed.

Lemma array_expr_A p :
  (p <= n -> lvl p 0 <= mu) -> nth_at_pure p 0 K_L_BRACK = true ->
  W (array_expr inp R) (fun _ p' => p < p') p.
Proof.
  intros Hl Ha. unfold array_expr. wp0.
  wloopS (fun (_ : bool * bool) (_ : nat) => True). destruct a1 as [fi hs]. wp; fin.
  all: try (destruct HP as [HP _]; split; auto; try lia; assert (p1 < q) by (apply HP; discriminate); lia).
Qed.

Lemma expr_block_statements_A p :
  (p <= n -> lvl p 3 <= mu) ->
  W (expr_block_statements inp R)
    (fun _ p' => kind_at p <> K_EOF -> kind_at p <> K_R_CURLY -> p < p') p.
Proof.
  intros Hl. unfold expr_block_statements.
  wloop (fun p1 => p < p1 \/ p1 = p). wp0.
  - wp. intros E _. apply (keq_of_at p1 K_EOF) in Heqb; [|simp_k]. destruct HI1; [lia|subst; congruence].
  - wp. intros _ E. apply (keq_of_at p1 K_R_CURLY) in Heqb0; [|simp_k]. destruct HI1; [lia|subst; congruence].
  - wguard Hg. wcall (good_stmt _ _ HR) as r q HP. wp.
    assert (p1 < q) as Hlt.
    { apply HP; [apply (not_at p1 K_EOF); auto; simp_k | apply (not_at p1 K_R_CURLY); auto; simp_k]. }
    split; lia.
Qed.

Lemma block_expr_A p :
  (p <= n -> lvl p 0 <= mu) -> nth_at_pure p 0 K_L_CURLY = true ->
  W (block_expr inp R) (fun _ p' => p < p') p.
Proof.
  intros Hl Ha. unfold block_expr. wp0. wguard Hg. wcall expr_block_statements_A. wp; fin.
Qed.

Lemma try_block_expr_A p :
  (p <= n -> lvl p 0 <= mu) -> W (try_block_expr inp R) (fun _ _ => True) p.
Proof. intros Hl. unfold try_block_expr. wp0; [|wp; auto]. wcall block_expr_A. wp; auto. Qed.

Lemma return_expr_A p :
  (p <= n -> lvl p 0 <= mu) -> nth_at_pure p 0 K_RETURN_KW = true ->
  W (return_expr inp R) (fun _ p' => p < p') p.
Proof. intros Hl Ha. unfold return_expr. wp; fin. Qed.
Lemma box_expr_A p :
  (p <= n -> lvl p 0 <= mu) -> nth_at_pure p 0 K_BOX_KW = true ->
  W (box_expr inp R) (fun _ p' => p < p') p.
Proof. intros Hl Ha. unfold box_expr. wp; fin. Qed.

(* ---------------- the Pratt parser ---------------- *)
Ltac kat :=
  repeat match goal with
  | H : keq (Parser.kind_at _ ?p) ?k = true |- _ => apply (at_of_keq p k) in H; [|simp_k]
  end.

Lemma kin_modifier k : kin k [K_INV_KW; K_POW_KW; K_CTRL_KW; K_NEGCTRL_KW] = true -> is_modifier k = true.
Proof.
  unfold kin, memN, is_modifier, keq.
  destruct (N.eqb k K_INV_KW), (N.eqb k K_POW_KW), (N.eqb k K_CTRL_KW), (N.eqb k K_NEGCTRL_KW); cbn; auto.
Qed.

Definition Post_atom (p : nat) {A} (r : option A) (p' : nat) : Prop :=
  (r <> None -> p < p') /\ (kind_at p <> K_EOF -> kind_at p <> K_R_CURLY -> p < p').

Lemma err_and_bump_A (Q : unit -> nat -> Prop) p :
  (let k := kind_at p in
   if N.eqb k K_L_CURLY || N.eqb k K_R_CURLY || N.eqb k K_EOF then Q tt p else Q tt (p + 1)) ->
  W (err_and_bump inp) Q p.
Proof.
  intros H. unfold err_and_bump. apply (WP_err_recover' inp Hne). cbn in *.
  unfold ts_contains. cbn [memN]. rewrite andb_false_r, orb_false_r. exact H.
Qed.

Lemma atom_expr_A p :
  (p <= n -> lvl p 0 <= mu) -> W (atom_expr inp R) (Post_atom p) p.
Proof.
  intros Hl. unfold atom_expr. cbv zeta. wp0. wcall literal_A as r q HP.
  destruct r as [cm|].
  { wp. destruct HP as [HP _]. split; intros; apply HP; discriminate. }
  destruct HP as [_ Hq]. specialize (Hq eq_refl). subst q.
  wp0.
  { wcall cast_expr_A. wp. split; intros; lia. }
  all: kat.
  - wcall hardware_qubit_A. wp. split; intros; lia.
  - wcall tuple_expr_A. wp. split; intros; lia.
  - wcall array_expr_A. wp. split; intros; lia.
  - wcall box_expr_A. wp. split; intros; lia.
  - wcall measure_expression_A. wp. split; intros; lia.
  - wcall return_expr_A. wp. split; intros; lia.
  - wcall block_expr_A. wp. split; intros; lia.
  - wcall modified_gate_call_expr_A. { apply kin_modifier; auto. } wp. split; intros; lia.
  - wcall gphase_call_expr_A. wp. split; intros; lia.
  - wcall gate_call_expr_A as r1 q1 HP1.
    { intros. apply (keq_of_at p K_IDENT) in Heqb9; [|simp_k]. rewrite Heqb9, N.eqb_refl. lv. }
    wp. apply (keq_of_at p K_IDENT) in Heqb9; [|simp_k]. specialize (HP1 Heqb9). split; intros; lia.
  - wcall gate_call_expr_A as r1 q1 HP1.
    { intros. apply (keq_of_at p K_IDENT) in Heqb9; [|simp_k]. rewrite Heqb9, N.eqb_refl. lv. }
    wp. apply (keq_of_at p K_IDENT) in Heqb9; [|simp_k]. specialize (HP1 Heqb9). split; intros; lia.
  - wcall identifier_A as r1 q1 HP1. wp.
    apply (keq_of_at p K_IDENT) in Heqb9; [|simp_k]. specialize (HP1 Heqb9). split; intros; lia.
  - apply err_and_bump_A. cbn.
    destruct (N.eqb (kind_at p) K_L_CURLY) eqn:E1.
    { unfold keq in Heqb6. congruence. }
    destruct (N.eqb (kind_at p) K_R_CURLY) eqn:E2; cbn.
    { wp. split; [congruence|]. intros _ Hc. apply N.eqb_eq in E2. congruence. }
    destruct (N.eqb (kind_at p) K_EOF) eqn:E3; cbn.
    { wp. split; [congruence|]. intros Hc _. apply N.eqb_eq in E3. congruence. }
    wp. split; intros; lia.
Qed.

Lemma call_expr_A lhs p :
  (p <= n -> lvl p 0 <= mu) -> nth_at_pure p 0 K_L_PAREN = true ->
  W (call_expr inp R lhs) (fun _ p' => p < p') p.
Proof. intros Hl Ha. unfold call_expr. wp; fin. Qed.

Lemma postfix_expr_A lhs bl ac p :
  (p <= n -> lvl p 0 <= mu) -> W (postfix_expr inp R lhs bl ac) (fun _ _ => True) p.
Proof.
  intros Hl. unfold postfix_expr.
  wloopS (fun (_ : cmarker * bool * bool) (_ : nat) => True). destruct a1 as [[l b] a]. wp0; kat.
  all: try (wcall call_expr_A; wp; split; auto; fail).
  all: try (wcall indexed_identifier_A; wp; split; auto; fail).
  all: try (wcall index_expr_A; wp; split; auto; fail).
  all: wp; auto.
Qed.

Lemma kin_prefix_ne k : kin k [K_TILDE; K_BANG; K_MINUS] = true -> k <> K_EOF.
Proof.
  unfold kin, memN. intros H E. subst. vm_compute in H. discriminate.
Qed.

Lemma lhs_A ps p :
  (p <= n -> lvl p 0 <= mu) -> W (lhs inp R ps) (Post_atom p) p.
Proof.
  intros Hl. unfold lhs, unary_bp. wp0.
  - exfalso. apply (kin_prefix_ne _ Heqb). auto.
  - wguard Hg. wcall (good_expr_bp _ _ HR). wp. split; intros; lia.
  - wcall atom_expr_A as r q HP. destruct r as [[l bl]|].
    + destruct HP as [HP _]. assert (p < q) by (apply HP; discriminate).
      wp0. wcall postfix_expr_A. wp. split; intros; lia.
    + wp. destruct HP as [_ HP]. split; [congruence|auto].
Qed.

(* every arm of the (generated) operator table names an operator that is really there: its guard,
   or the current single-character kind itself.  Re-checked by computation whenever the table is
   regenerated from expressions.rs. *)
Definition simple_b (k : N) : bool :=
  match assocN k composite2, assocN k composite3 with None, None => true | _, _ => false end.
Lemma simple_b_simple k : simple_b k = true -> simple k.
Proof. unfold simple_b, simple. destruct (assocN k composite2); [discriminate|]. destruct (assocN k composite3); [discriminate|auto]. Qed.
Definition arm_ok (a : N * option N * option (nat * N * bool)) : bool :=
  let '(c, g, res) := a in
  match res with
  | None => true
  | Some (_, op, _) =>
      negb (N.eqb op K_EOF) && match g with Some o => N.eqb op o | None => N.eqb op c && simple_b c end
  end.
Lemma op_arms_ok : forallb arm_ok op_arms = true.
Proof. vm_compute. reflexivity. Qed.
Lemma interp_ops_spec arms p :
  forallb arm_ok arms = true ->
  let '(b, op, r) := interp_ops inp arms p in
  1 <= b -> nth_at_pure p 0 op = true /\ op <> K_EOF.
Proof.
  induction arms as [|[[c g] res] arms IH]; intros Hok; cbn [interp_ops].
  - unfold NOT_AN_OP. intros Hb. lia.
  - cbn [forallb] in Hok. apply andb_true_iff in Hok. destruct Hok as [Ha Hr].
    destruct (keq (kind_at p) c && match g with Some o => nth_at_pure p 0 o | None => true end) eqn:E;
      [|apply IH; exact Hr].
    destruct res as [[[b op] r]|]; [|unfold NOT_AN_OP; intros Hb; lia].
    intros Hb. apply andb_true_iff in E. destruct E as [Ek Eg].
    cbn [arm_ok] in Ha. apply andb_true_iff in Ha. destruct Ha as [Hno Hop].
    split; [|apply N.eqb_neq; apply negb_true_iff; exact Hno].
    destruct g as [o|].
    + apply N.eqb_eq in Hop. subst op. exact Eg.
    + apply andb_true_iff in Hop. destruct Hop as [Hop Hs]. apply N.eqb_eq in Hop. subst op.
      apply at_of_keq; [apply simple_b_simple; exact Hs|exact Ek].
Qed.
Lemma current_op_val_spec p :
  let '(b, op, r) := current_op_val inp p in
  1 <= b -> nth_at_pure p 0 op = true /\ op <> K_EOF.
Proof. apply interp_ops_spec. exact op_arms_ok. Qed.

Lemma WP_current_op (Q : nat * N * bool -> nat -> Prop) p :
  Q (current_op_val inp p) p -> W (current_op inp) Q p.
Proof. intros H s Hs Hn. cbn. subst. auto. Qed.

Lemma ts_contains_in ts k : ts_contains ts k = true -> In k ts.
Proof. unfold ts_contains. intros H. apply andb_true_iff in H as [_ H]. apply memN_In; auto. Qed.
Lemma expr_first_ne : Forall (fun k => k <> K_EOF /\ k <> K_R_CURLY) EXPR_FIRST.
Proof. repeat constructor; vm_compute; discriminate. Qed.
Lemma first_ok_ne p : first_ok p = true -> kind_at p <> K_EOF /\ kind_at p <> K_R_CURLY.
Proof.
  unfold first_ok. intros H. apply orb_true_iff in H as [H|H].
  - apply ts_contains_in in H. pose proof expr_first_ne as F. rewrite Forall_forall in F. auto.
  - apply andb_true_iff in H as [H _].
    assert (is_type (kind_at p) = true) as Ht by (unfold is_type; rewrite H; auto).
    apply is_type_in in Ht. revert Ht. generalize (kind_at p). intros k Hk.
    assert (Forall (fun k => k <> K_EOF /\ k <> K_R_CURLY) type_kinds) as F
      by (repeat constructor; vm_compute; discriminate).
    rewrite Forall_forall in F. auto.
Qed.

Lemma first_ok_false p :
  ts_contains EXPR_FIRST (kind_at p) = false ->
  (is_classical_type (kind_at p) && (keq (kind_at (p + 1)) K_L_PAREN || keq (kind_at (p + 1)) K_L_BRACK)) = false ->
  first_ok p = false.
Proof. intros H1 H2. unfold first_ok. rewrite H1, H2. reflexivity. Qed.

Ltac rw_all := repeat match goal with H : ?x = _ |- context [?x] => rewrite H end.

Lemma expr_bp_A m ps bp p :
  1 <= bp -> (p <= n -> lvl p 0 <= mu) -> W (expr_bp inp R m ps bp) (Post_expr_bp p) p.
Proof.
  intros Hbp Hl. unfold expr_bp. wp0.
  (* check fails: error recovery, no expression *)
  all: try (apply (WP_err_recover inp Hne); [|intros _]; wp; (split; [congruence|]);
            unfold first_ok; rw_all; cbn; discriminate).
  (* check passes *)
  all: assert (first_ok p = true) as Hfo by (unfold first_ok; rw_all; cbn; rewrite ?orb_true_r; reflexivity).
  all: destruct (first_ok_ne p Hfo) as [Hne1 Hne2].
  all: wcall lhs_A as r q HP; destruct HP as [HP1 HP2]; specialize (HP2 Hne1 Hne2).
  all: destruct r as [[l0 blocklike]|]; [|wp; split; intros; lia].
  all: wp0.
  all: try (split; intros; lia).
  all: wloopS (fun (_ : cmarker) (_ : nat) => True).
  all: apply WP_bind; apply WP_current_op.
  all: pose proof (current_op_val_spec p1) as Hop; destruct (current_op_val inp p1) as [[op_bp op] rassoc].
  all: destruct (op_bp <? bp) eqn:Elt; [wp; split; intros; lia|].
  all: apply Nat.ltb_ge in Elt; destruct Hop as [Hat Hk]; [lia|].
  all: pose proof (n_raw_pos op) as Hraw.
  all: wp0.
  all: try (apply (WP_bump inp Hne); [exact Hk | exact Hat |]).
  all: apply WP_bind; wguard Hg; wcall (good_expr_bp _ _ HR); [destruct rassoc; lia|].
  all: wp; fin.
Qed.

Ltac wp_hook ::=
  lazymatch goal with
  | |- WP _ (g_type_spec _) _ _ => let Hg := fresh "Hg" in wguard Hg; wcall (good_type_spec _ _ HR)
  | |- WP _ (g_non_array_type_spec _) _ _ => let Hg := fresh "Hg" in wguard Hg; wcall (good_non_array _ _ HR)
  | |- WP _ (g_param_list _ _) _ _ => let Hg := fresh "Hg" in wguard Hg; wcall (good_param_list _ _ HR)
  | |- WP _ (expr _) _ _ => let Hg := fresh "Hg" in wguard Hg; wcall expr_A
  | |- WP _ (expression_list _) _ _ => let Hg := fresh "Hg" in wguard Hg; wcall expression_list_A
  | |- WP _ (arg_list_gate_call_qubits _) _ _ => let Hg := fresh "Hg" in wguard Hg; wcall arg_list_gate_call_qubits_A
  | |- WP _ (designator _ _) _ _ => let Hg := fresh "Hg" in wguard Hg; wcall designator_A
  | |- WP _ (index_operator _ _) _ _ => let Hg := fresh "Hg" in wguard Hg; wcall index_operator_A
  | |- WP _ (index_expr _ _ _) _ _ => let Hg := fresh "Hg" in wguard Hg; wcall index_expr_A
  | |- WP _ (indexed_identifier _ _ _) _ _ => let Hg := fresh "Hg" in wguard Hg; wcall indexed_identifier_A
  | |- WP _ (set_expression _ _) _ _ => let Hg := fresh "Hg" in wguard Hg; wcall set_expression_A
  | |- WP _ (arg_gate_call_qubit _ _ _) _ _ => let Hg := fresh "Hg" in wguard Hg; wcall arg_gate_call_qubit_A
  | |- WP _ (type_spec _ _) _ _ => let Hg := fresh "Hg" in wguard Hg; wcall type_spec_A
  | |- WP _ (param_type_spec _ _) _ _ => let Hg := fresh "Hg" in wguard Hg; wcall param_type_spec_A
  | |- WP _ (qubit_type_spec _ _) _ _ => let Hg := fresh "Hg" in wguard Hg; wcall qubit_type_spec_A
  | |- WP _ (opt_return_signature _ _) _ _ => let Hg := fresh "Hg" in wguard Hg; wcall opt_return_signature_A
  | |- WP _ (q_or_c_reg_param _ _) _ _ => let Hg := fresh "Hg" in wguard Hg; wcall q_or_c_reg_param_A
  | |- WP _ (call_arg_list _ _) _ _ => let Hg := fresh "Hg" in wguard Hg; wcall call_arg_list_A
  | |- WP _ (paren_arg _ _) _ _ => let Hg := fresh "Hg" in wguard Hg; wcall paren_arg_A
  | |- WP _ (gphase_call_expr _ _) _ _ => let Hg := fresh "Hg" in wguard Hg; wcall gphase_call_expr_A
  | |- WP _ (block_expr _ _) _ _ => let Hg := fresh "Hg" in wguard Hg; wcall block_expr_A
  | |- WP _ (try_block_expr _ _) _ _ => let Hg := fresh "Hg" in wguard Hg; wcall try_block_expr_A
  | |- WP _ (identifier _) _ _ => wcall identifier_A
  | |- WP _ (hardware_qubit _) _ _ => wcall hardware_qubit_A
  | |- WP _ (var_name _) _ _ => wcall var_name_A
  | |- WP _ (name_r _ _) _ _ => wcall name_r_A
  | |- WP _ (name _) _ _ => unfold name; wcall name_r_A
  end.

(* ---------------- ranges and parameter lists ---------------- *)
Lemma range_expr_A p :
  (p <= n -> lvl p 0 <= mu) -> nth_at_pure p 0 K_L_BRACK = true ->
  W (range_expr inp R) (fun _ p' => p < p') p.
Proof. intros Hl Ha. unfold range_expr. wp; fin. Qed.

Lemma expr_or_range_expr_A p :
  (p <= n -> lvl p 1 <= mu) -> W (expr_or_range_expr inp R) (fun _ _ => True) p.
Proof. intros Hl. unfold expr_or_range_expr. wp; fin. Qed.

Lemma at_list_end_token_A fl (Q : bool -> nat -> Prop) p :
  (forall b, Q b p) -> W (at_list_end_token inp fl) Q p.
Proof. intros H. unfold at_list_end_token. destruct fl; wp; auto. Qed.

Lemma param_untyped_A m p : W (param_untyped inp m) (fun _ _ => True) p.
Proof. unfold param_untyped. wp; auto. Qed.
Lemma param_untyped_or_hardware_qubit_A m p :
  W (param_untyped_or_hardware_qubit inp m) (fun _ _ => True) p.
Proof. unfold param_untyped_or_hardware_qubit. wp; auto. Qed.
Lemma param_typed_A m p :
  (p <= n -> lvl p 0 <= mu) -> W (param_typed inp R m) (fun _ _ => True) p.
Proof. intros Hl. unfold param_typed. wp; auto. Qed.
Lemma scalar_type_A m p :
  (p <= n -> lvl p 0 <= mu) -> W (scalar_type inp R m) (fun _ _ => True) p.
Proof. intros Hl. unfold scalar_type. wp; auto. Qed.

Ltac wp_hook ::=
  lazymatch goal with
  | |- WP _ (g_type_spec _) _ _ => let Hg := fresh "Hg" in wguard Hg; wcall (good_type_spec _ _ HR)
  | |- WP _ (g_non_array_type_spec _) _ _ => let Hg := fresh "Hg" in wguard Hg; wcall (good_non_array _ _ HR)
  | |- WP _ (g_param_list _ _) _ _ => let Hg := fresh "Hg" in wguard Hg; wcall (good_param_list _ _ HR)
  | |- WP _ (expr _) _ _ => let Hg := fresh "Hg" in wguard Hg; wcall expr_A
  | |- WP _ (expr_or_range_expr _ _) _ _ => let Hg := fresh "Hg" in wguard Hg; wcall expr_or_range_expr_A
  | |- WP _ (arg_gate_call_qubit _ _ _) _ _ => let Hg := fresh "Hg" in wguard Hg; wcall arg_gate_call_qubit_A
  | |- WP _ (scalar_type _ _ _) _ _ => let Hg := fresh "Hg" in wguard Hg; wcall scalar_type_A
  | |- WP _ (param_typed _ _ _) _ _ => let Hg := fresh "Hg" in wguard Hg; wcall param_typed_A
  | |- WP _ (param_untyped _ _) _ _ => wcall param_untyped_A
  | |- WP _ (param_untyped_or_hardware_qubit _ _) _ _ => wcall param_untyped_or_hardware_qubit_A
  | |- WP _ (at_list_end_token _ _) _ _ => apply at_list_end_token_A; intros ?b0
  end.

Lemma param_list_openqasm_A fl p :
  (p <= n -> lvl p 1 <= mu) -> W (param_list_openqasm inp R fl) (fun _ _ => True) p.
Proof.
  intros Hl.
  set (notarr := match fl with ArrayLiteral => False | _ => True end).
  destruct fl; unfold param_list_openqasm; cbv zeta; cbn [negb andb orb]; wp0.
  (* every flavour: the loop; array literals carry the extra invariant *)
  all: match goal with
       | |- WP _ (loopS _ _ _) _ ?p0 =>
           apply (WP_loopS inp _ (fun (_ : bool) p1 => p < p1 \/ nth_at_pure p1 0 K_L_CURLY = false \/ notarr));
           [ first [ right; right; exact I | left; lia | right; left; assumption ]
           | cbn beta; intros any p1 Hp1 Hn1 HI1 ]
       end.
  all: wp; posfix; fin.
  all: destruct HI1 as [?|[?|?]]; [lv | congruence | contradiction].
Qed.

(* ---------------- items.rs ---------------- *)
Lemma block_or_statement_A p :
  (p <= n -> lvl p 3 <= mu) -> W (block_or_statement inp R) (fun _ _ => True) p.
Proof.
  intros Hl. unfold block_or_statement. wp0.
  - wcall block_expr_A. wp; auto.
  - wguard Hg. wcall (good_stmt _ _ HR). auto.
Qed.

Lemma filepath_r_A rec p : W (filepath_r inp rec) (fun _ _ => True) p.
Proof. unfold filepath_r. wp; auto. apply (WP_err_recover inp Hne); auto. Qed.
Lemma version_A p : W (version_ inp) (fun _ _ => True) p.
Proof. unfold version_. wp; auto. Qed.

Ltac wp_hook ::=
  lazymatch goal with
  | |- WP _ (g_type_spec _) _ _ => let Hg := fresh "Hg" in wguard Hg; wcall (good_type_spec _ _ HR)
  | |- WP _ (g_non_array_type_spec _) _ _ => let Hg := fresh "Hg" in wguard Hg; wcall (good_non_array _ _ HR)
  | |- WP _ (g_param_list _ _) _ _ => let Hg := fresh "Hg" in wguard Hg; wcall (good_param_list _ _ HR)
  | |- WP _ (g_if_stmt _ _) _ _ => let Hg := fresh "Hg" in wguard Hg; wcall (good_if_stmt _ _ HR)
  | |- WP _ (expr _) _ _ => let Hg := fresh "Hg" in wguard Hg; wcall expr_A
  | |- WP _ (expression_list _) _ _ => let Hg := fresh "Hg" in wguard Hg; wcall expression_list_A
  | |- WP _ (arg_list_gate_call_qubits _) _ _ => let Hg := fresh "Hg" in wguard Hg; wcall arg_list_gate_call_qubits_A
  | |- WP _ (designator _ _) _ _ => let Hg := fresh "Hg" in wguard Hg; wcall designator_A
  | |- WP _ (index_operator _ _) _ _ => let Hg := fresh "Hg" in wguard Hg; wcall index_operator_A
  | |- WP _ (set_expression _ _) _ _ => let Hg := fresh "Hg" in wguard Hg; wcall set_expression_A
  | |- WP _ (range_expr _ _) _ _ => let Hg := fresh "Hg" in wguard Hg; wcall range_expr_A
  | |- WP _ (arg_gate_call_qubit _ _ _) _ _ => let Hg := fresh "Hg" in wguard Hg; wcall arg_gate_call_qubit_A
  | |- WP _ (type_spec _ _) _ _ => let Hg := fresh "Hg" in wguard Hg; wcall type_spec_A
  | |- WP _ (qubit_type_spec _ _) _ _ => let Hg := fresh "Hg" in wguard Hg; wcall qubit_type_spec_A
  | |- WP _ (opt_return_signature _ _) _ _ => let Hg := fresh "Hg" in wguard Hg; wcall opt_return_signature_A
  | |- WP _ (q_or_c_reg_param _ _) _ _ => let Hg := fresh "Hg" in wguard Hg; wcall q_or_c_reg_param_A
  | |- WP _ (block_expr _ _) _ _ => let Hg := fresh "Hg" in wguard Hg; wcall block_expr_A
  | |- WP _ (try_block_expr _ _) _ _ => let Hg := fresh "Hg" in wguard Hg; wcall try_block_expr_A
  | |- WP _ (block_or_statement _ _) _ _ => let Hg := fresh "Hg" in wguard Hg; wcall block_or_statement_A
  | |- WP _ (identifier _) _ _ => wcall identifier_A
  | |- WP _ (hardware_qubit _) _ _ => wcall hardware_qubit_A
  | |- WP _ (var_name _) _ _ => wcall var_name_A
  | |- WP _ (name_r _ _) _ _ => wcall name_r_A
  | |- WP _ (name _) _ _ => unfold name; wcall name_r_A
  | |- WP _ (filepath_r _ _) _ _ => wcall filepath_r_A
  | |- WP _ (version_ _) _ _ => wcall version_A
  end.

Lemma switch_case_stmt_A m p :
  (p <= n -> lvl p 0 <= mu) -> nth_at_pure p 0 K_SWITCH_KW = true ->
  W (switch_case_stmt inp R m) (fun _ p' => p < p') p.
Proof.
  intros Hl Ha. unfold switch_case_stmt. wp.
  all: wloop (fun _ : nat => True); wp; fin.
Qed.

Lemma if_stmt_A m p :
  (p <= n -> lvl p 0 <= mu) -> nth_at_pure p 0 K_IF_KW = true ->
  W (if_stmt inp R m) (fun _ p' => p < p') p.
Proof. intros Hl Ha. unfold if_stmt. wp; fin. Qed.

Lemma while_stmt_A m p :
  (p <= n -> lvl p 0 <= mu) -> nth_at_pure p 0 K_WHILE_KW = true ->
  W (while_stmt inp R m) (fun _ p' => p < p') p.
Proof. intros Hl Ha. unfold while_stmt. wp; fin. Qed.

Lemma for_stmt_A m p :
  (p <= n -> lvl p 0 <= mu) -> nth_at_pure p 0 K_FOR_KW = true ->
  W (for_stmt inp R m) (fun _ p' => p < p') p.
Proof. intros Hl Ha. unfold for_stmt. wp; fin. Qed.

Lemma qubit_declaration_stmt_A m p :
  (p <= n -> lvl p 0 <= mu) -> nth_at_pure p 0 K_QUBIT_KW = true ->
  W (qubit_declaration_stmt inp R m) (fun _ p' => p < p') p.
Proof. intros Hl Ha. unfold qubit_declaration_stmt. wp; fin. Qed.

Lemma reset_stmt_A m p :
  (p <= n -> lvl p 0 <= mu) -> nth_at_pure p 0 K_RESET_KW = true ->
  W (reset_stmt inp R m) (fun _ p' => p < p') p.
Proof. intros Hl Ha. unfold reset_stmt. wp; fin. Qed.

Lemma break_A m p : nth_at_pure p 0 K_BREAK_KW = true -> W (break_ inp m) (fun _ p' => p < p') p.
Proof. intros Ha. unfold break_. wp; fin. Qed.
Lemma continue_A m p : nth_at_pure p 0 K_CONTINUE_KW = true -> W (continue_ inp m) (fun _ p' => p < p') p.
Proof. intros Ha. unfold continue_. wp; fin. Qed.
Lemma end_A m p : nth_at_pure p 0 K_END_KW = true -> W (end_ inp m) (fun _ p' => p < p') p.
Proof. intros Ha. unfold end_. wp; fin. Qed.

Lemma gate_definition_A m p :
  (p <= n -> lvl p 0 <= mu) -> nth_at_pure p 0 K_GATE_KW = true ->
  W (gate_definition inp R m) (fun _ p' => p < p') p.
Proof. intros Hl Ha. unfold gate_definition. wp; fin. Qed.
Lemma defcal_A m p :
  (p <= n -> lvl p 0 <= mu) -> nth_at_pure p 0 K_DEFCAL_KW = true ->
  W (defcal_ inp R m) (fun _ p' => p < p') p.
Proof. intros Hl Ha. unfold defcal_. wp; fin. Qed.

Lemma classical_declaration_stmt_A m p :
  (p <= n -> lvl p 0 <= mu) ->
  is_classical_type (kind_at p) = true \/ nth_at_pure p 0 K_CONST_KW = true ->
  W (classical_declaration_stmt inp R m) (fun _ p' => p < p') p.
Proof.
  intros Hl Hc. unfold classical_declaration_stmt. wp0.
  - (* const consumed *) wp; fin.
  - (* no const: the type specification consumes *)
    destruct Hc as [Hc|Hc]; [|congruence].
    wguard Hg. wcall type_spec_A as r q HP.
    assert (p < q) by (apply HP; unfold is_type; rewrite Hc; reflexivity).
    wp; fin.
Qed.

Lemma io_declaration_stmt_A m p :
  (p <= n -> lvl p 0 <= mu) -> kind_at p <> K_EOF ->
  W (io_declaration_stmt inp R m) (fun _ p' => p < p') p.
Proof. intros Hl Ha. unfold io_declaration_stmt. wp; fin. Qed.

Lemma def_stmt_A m p :
  (p <= n -> lvl p 0 <= mu) -> nth_at_pure p 0 K_DEF_KW = true ->
  W (def_stmt inp R m) (fun _ p' => p < p') p.
Proof. intros Hl Ha. unfold def_stmt. wp; fin. Qed.
Lemma extern_stmt_A m p :
  (p <= n -> lvl p 0 <= mu) -> nth_at_pure p 0 K_EXTERN_KW = true ->
  W (extern_stmt inp R m) (fun _ p' => p < p') p.
Proof. intros Hl Ha. unfold extern_stmt. wp; fin. Qed.
Lemma defcalgrammar_A m p :
  nth_at_pure p 0 K_DEFCALGRAMMAR_KW = true -> W (defcalgrammar_ inp m) (fun _ p' => p < p') p.
Proof. intros Ha. unfold defcalgrammar_. wp; fin. Qed.
Lemma include_A m p :
  nth_at_pure p 0 K_INCLUDE_KW = true -> W (include inp m) (fun _ p' => p < p') p.
Proof. intros Ha. unfold include. wp; fin. Qed.
Lemma cal_A m p :
  (p <= n -> lvl p 0 <= mu) -> nth_at_pure p 0 K_CAL_KW = true ->
  W (cal_ inp R m) (fun _ p' => p < p') p.
Proof. intros Hl Ha. unfold cal_. wp; fin. Qed.
Lemma version_string_A m p :
  nth_at_pure p 0 K_O_P_E_N_Q_A_S_M_KW = true -> W (version_string inp m) (fun _ p' => p < p') p.
Proof. intros Ha. unfold version_string. wp; fin. Qed.
Lemma barrier_A m p :
  (p <= n -> lvl p 0 <= mu) -> nth_at_pure p 0 K_BARRIER_KW = true ->
  W (barrier_ inp R m) (fun _ p' => p < p') p.
Proof. intros Hl Ha. unfold barrier_. wp; fin. Qed.
Lemma delay_stmt_A m p :
  (p <= n -> lvl p 0 <= mu) -> nth_at_pure p 0 K_DELAY_KW = true ->
  W (delay_stmt inp R m) (fun _ p' => p < p') p.
Proof. intros Hl Ha. unfold delay_stmt. wp; fin. Qed.
Lemma alias_stmt_A m p :
  (p <= n -> lvl p 0 <= mu) -> nth_at_pure p 0 K_LET_KW = true ->
  W (alias_stmt inp R m) (fun _ p' => p < p') p.
Proof. intros Hl Ha. unfold alias_stmt. wp; fin. Qed.

(* ---------------- statements ---------------- *)
Lemma opt_item_A m p :
  (p <= n -> lvl p 0 <= mu) ->
  W (opt_item inp R m) (fun r p' => (r = None -> p < p') /\ (r <> None -> p' = p)) p.
Proof.
  intros Hl. unfold opt_item. cbv zeta. wp0; kat.
  all: try (wp; split; [congruence|auto]; fail).
  all: match goal with |- WP _ ?c _ _ =>
         first [ wcall classical_declaration_stmt_A | wcall qubit_declaration_stmt_A
               | wcall gate_definition_A | wcall break_A | wcall continue_A | wcall end_A
               | wcall if_stmt_A | wcall while_stmt_A | wcall for_stmt_A | wcall def_stmt_A
               | wcall defcal_A | wcall cal_A | wcall defcalgrammar_A | wcall extern_stmt_A
               | wcall reset_stmt_A | wcall barrier_A | wcall version_string_A | wcall include_A
               | wcall switch_case_stmt_A | wcall alias_stmt_A | wcall delay_stmt_A
               | wcall io_declaration_stmt_A ]
       end.
  all: try (wp; split; [intros; lia | congruence]).
  all: try ne_eof.
Qed.

Lemma let_stmt_A m p :
  (p <= n -> lvl p 0 <= mu) -> nth_at_pure p 0 K_LET_KW = true ->
  W (let_stmt inp R m) (fun _ p' => p < p') p.
Proof. intros Hl Ha. unfold let_stmt. wp; fin. Qed.

Lemma q_or_c_reg_declaration_A m p :
  (p <= n -> lvl p 0 <= mu) ->
  W (q_or_c_reg_declaration inp R m) (fun _ p' => kind_at p <> K_EOF -> p < p') p.
Proof. intros Hl. unfold q_or_c_reg_declaration. wp; fin. all: intros E; specialize (HP E); lia. Qed.

Lemma err_and_bump_abandon_A m1 p :
  ts_contains EXPR_FIRST (kind_at p) = false ->
  W (err_and_bump inp)
    (fun _ p1 => W (abandon m1)
       (fun _ p' => kind_at p <> K_EOF -> kind_at p <> K_R_CURLY -> p < p') p1) p.
Proof.
  intros Hts. apply err_and_bump_A. cbn.
  destruct (N.eqb (kind_at p) K_L_CURLY) eqn:E1.
  { exfalso. apply N.eqb_eq in E1. rewrite E1 in Hts. vm_compute in Hts. discriminate. }
  destruct (N.eqb (kind_at p) K_R_CURLY) eqn:E2; cbn.
  { wp. intros _ Hc. apply N.eqb_eq in E2. congruence. }
  destruct (N.eqb (kind_at p) K_EOF) eqn:E3; cbn.
  { wp. intros Hc _. apply N.eqb_eq in E3. congruence. }
  wp. intros; lia.
Qed.

Lemma stmt_A p :
  (p <= n -> lvl p 2 <= mu) -> W (stmt inp R) (Post_stmt p) p.
Proof.
  intros Hl. unfold stmt, Post_stmt. wp0.
  - (* ';' *) intros; lia.
  - (* let *) wcall let_stmt_A. intros; lia.
  - wguard Hg. wcall opt_item_A as r q HP. destruct HP as [HP1 HP2].
    destruct r as [m1|]; [|wp; intros; apply HP1; auto].
    specialize (HP2 ltac:(discriminate)). subst q. wp0.
    all: try (intros; lia).
    all: try (wp; fin; fail).
    all: try (wcall q_or_c_reg_declaration_A as r1 q1 HP; intros E _; auto; fail).
      all: try (assert (first_ok p = true) as Hfo
                  by (unfold first_ok; rewrite ?Nat.add_0_r in *; rw_all; cbn; rewrite ?orb_true_r; reflexivity);
                wcall expr_bp_A as r q HP; destruct HP as [_ HP]; specialize (HP Hfo); wp; fin).
    all: apply err_and_bump_abandon_A; assumption.
Qed.

Lemma item_A stop p :
  (p <= n -> lvl p 3 <= mu) ->
  W (item inp R stop)
    (fun _ p' => kind_at p <> K_EOF -> (kind_at p <> K_R_CURLY \/ stop = false) -> p < p') p.
Proof.
  intros Hl. unfold item. wp0. wguard Hg. wcall opt_item_A as r q HP. destruct HP as [HP1 HP2].
  destruct r as [m1|].
  - specialize (HP2 ltac:(discriminate)). subst q. wp0; kat.
    all: try (wcall expr_block_statements_A as r1 q1 HP; intros E _; apply HP; auto;
              match goal with H : keq (kind_at _) K_R_CURLY = false |- _ =>
                unfold keq in H; apply N.eqb_neq in H; exact H end).
    all: try (wp; fin; fail).
    all: intros E1 E2; try lia; exfalso;
      first [ match goal with H : Parser.nth_at_pure _ _ 0 K_EOF = true |- _ =>
                apply (keq_of_at _ K_EOF) in H; [congruence|simp_k] end
            | destruct E2 as [E2|E2];
              [ match goal with H : Parser.nth_at_pure _ _ 0 K_R_CURLY = true |- _ =>
                  apply (keq_of_at _ K_R_CURLY) in H; [congruence|simp_k] end
              | congruence ] ].
  - specialize (HP1 eq_refl). wp; fin.
    all: apply err_and_bump_A; cbn; repeat destruct (N.eqb _ _); cbn; intros; lia.
Qed.

Lemma source_file_contents_A stop p :
  (p <= n -> lvl p 3 <= mu) ->
  W (source_file_contents inp R stop) (fun _ p' => stop = false -> n <= p') p.
Proof.
  intros Hl. unfold source_file_contents. wloop (fun _ : nat => True). wp0.
  - (* at EOF *) wp. intros _. apply (keq_of_at p1 K_EOF) in Heqb; [|simp_k].
    apply (kind_at_eof_iff inp Hne); auto.
  - (* at '}' and stop *) wp. intros E. subst. discriminate.
  - wguard Hg. wcall item_A as r q HP. wp. split; auto. apply HP.
    + apply (not_at p1 K_EOF); auto; simp_k.
    + right. destruct stop; auto; discriminate.
  - wguard Hg. wcall item_A as r q HP. wp. split; auto. apply HP.
    + apply (not_at p1 K_EOF); auto; simp_k.
    + left. apply (not_at p1 K_R_CURLY); auto; simp_k.
Qed.

Lemma source_file_A p :
  (p <= n -> lvl p 3 <= mu) -> W (source_file inp R) (fun _ p' => n <= p') p.
Proof.
  intros Hl. unfold source_file. wp0. wguard Hg. wcall source_file_contents_A as r q HP. wp; auto.
Qed.

End A.

(* ---------------- closing the knot ---------------- *)
Section Knot.
Variable inp : list (N * bool).
Hypothesis Hne : forall i k j, nth_error inp i = Some (k, j) -> k <> K_EOF.

Lemma good_tie : forall k, Good inp (tie inp k) k.
Proof.
  induction k as [|k IH].
  - constructor; intros; apply WP_guard; intro Hp;
      match goal with H : _ <= _ -> _ < 0 |- _ => specialize (H Hp); lia end.
  - constructor; cbn [tie g_expr_bp g_stmt g_type_spec g_non_array_type_spec g_if_stmt g_param_list].
    + intros m ps bp p Hbp Hl. apply (expr_bp_A inp Hne _ _ IH); auto. intros Hp. specialize (Hl Hp). lia.
    + intros p Hl. apply (stmt_A inp Hne _ _ IH). intros Hp. specialize (Hl Hp). lia.
    + intros p Hl. eapply WP_conseq; [apply (type_spec_A inp Hne _ _ IH)|auto].
      intros Hp. specialize (Hl Hp). lia.
    + intros p Hl. eapply WP_conseq; [apply (non_array_type_spec_A inp Hne _ _ IH)|auto].
      intros Hp. specialize (Hl Hp). lia.
    + intros m p Ha Hl. eapply WP_conseq; [apply (if_stmt_A inp Hne _ _ IH); auto|auto].
      intros Hp. specialize (Hl Hp). lia.
    + intros fl p Hl. apply (param_list_openqasm_A inp Hne _ _ IH). intros Hp. specialize (Hl Hp). lia.
Qed.

(* Theorem A: the parse of any token sequence terminates (no loop or recursion fuel is
   exhausted) and no token-precondition assertion fires; when the grammar returns, every
   token has been consumed. *)
Theorem source_file_total :
  match source_file inp (tie inp (fuel_for inp)) init_state with
  | Ok _ s => pos s = ntoks inp
  | Panic w => okA w
  | OutOfFuel => False
  end.
Proof.
  pose proof (source_file_A inp Hne _ _ (good_tie (fuel_for inp)) 0) as H.
  assert (0 <= ntoks inp -> lvl inp 0 3 <= fuel_for inp) as Hl.
  { intros _. unfold lvl, fuel_for, ntoks. lia. }
  specialize (H Hl init_state eq_refl (Nat.le_0_l _)).
  destruct (source_file inp (tie inp (fuel_for inp)) init_state); auto.
  destruct H as [_ [H1 H2]]. lia.
Qed.

Theorem run_parser_total :
  match run_parser inp with
  | Steps _ => True
  | Panicked w => okA w
  | Hang => False
  end.
Proof.
  unfold run_parser. pose proof source_file_total as H.
  destruct (source_file inp (tie inp (fuel_for inp)) init_state) as [a s|w|]; auto.
  destruct (live s); [|exact I]. destruct (process (rev (evs s))); exact I.
Qed.
End Knot.
