(* C05: shapes of all small expressions, by computation on the pipeline model. *)
From Coq Require Import NArith List Bool.
From OQ3 Require Import Model.Shape.
Import ListNotations.
Open Scope N_scope.

Lemma two_binops_ok : forallb shape_ok two_binops = true.
Proof. vm_compute. reflexivity. Qed.
Lemma unary_mix_ok : forallb shape_ok unary_mix = true.
Proof. vm_compute. reflexivity. Qed.
Lemma postfix_mix_ok : forallb shape_ok postfix_mix = true.
Proof. vm_compute. reflexivity. Qed.
Lemma paren_mix_ok : forallb shape_ok paren_mix = true.
Proof. vm_compute. reflexivity. Qed.
Lemma three_binops_ok : forallb shape_ok three_binops = true.
Proof. vm_compute. reflexivity. Qed.
