(* Theorem B, part 3b: on the parser's step list (one well-bracketed tree whose tokens carry
   exactly the input tokens) the trivia builder never fails an assertion and the tree builder
   returns one tree rooted at SOURCE_FILE. *)
From Coq Require Import NArith ZArith Arith List Bool Lia.
From OQ3 Require Import gen.Kinds Model.Lexer Model.Lexed Model.Parser Model.Grammar Model.Builder
  Proofs.MarkerB Proofs.ProcessB Proofs.JointB.
Import ListNotations.
Local Open Scope nat_scope.

(* ---------------- nesting depth of StrSteps ---------------- *)
Definition ssctr (x : strstep) : Z := match x with SEnter _ => 1 | SExit => -1 | _ => 0 end%Z.
Fixpoint ssdepth (l : list strstep) : Z := match l with [] => 0 | x :: r => ssctr x + ssdepth r end%Z.
Lemma ssdepth_app a b : ssdepth (a ++ b) = (ssdepth a + ssdepth b)%Z.
Proof. induction a as [|x a IH]; cbn [app ssdepth]; [reflexivity|]. rewrite IH. lia. Qed.
(* newest first: every non-empty suffix (a prefix of the emitted list) is at depth >= 1 *)
Fixpoint GoodS (out : list strstep) : Prop :=
  match out with [] => True | x :: r => (1 <= ssdepth (x :: r))%Z /\ GoodS r end.
Definition EndsS (out : list strstep) : Prop := exists o, out = o ++ [SEnter K_SOURCE_FILE].
Definition is_stoken (x : strstep) : Prop := exists k t, x = SToken k t.

Lemma goods_tokens tr out :
  (forall x, In x tr -> is_stoken x) -> GoodS out -> (1 <= ssdepth out)%Z -> GoodS (tr ++ out) /\ ssdepth (tr ++ out) = ssdepth out.
Proof.
  intros Ht HG Hd. induction tr as [|x tr IH]; [split; auto|].
  destruct IH as [IH1 IH2]; [intros y Hy; apply Ht; right; exact Hy|].
  destruct (Ht x (or_introl eq_refl)) as [k [t ->]].
  cbn [app GoodS ssdepth ssctr]. rewrite IH2. split; [split; [lia|exact IH1]|lia].
Qed.

(* ---------------- the tree builder on a well-bracketed list ---------------- *)
(* oldest first, d = number of open nodes: the depth stays >= 1 until the final Exit *)
Fixpoint okrun (d : nat) (l : list strstep) : Prop :=
  match l with
  | [] => False
  | x :: r =>
      match x with
      | SEnter _ => okrun (S d) r
      | SExit => (2 <= d /\ okrun (d - 1) r) \/ (d = 1 /\ r = [])
      | SToken _ _ | SError _ => 1 <= d /\ okrun d r
      end
  end.

Lemma tree_build_okrun l : forall stack errs k0,
  stack <> [] -> okrun (length stack) l -> fst (last stack (k0, [])) = k0 ->
  exists c errs', tree_build l stack [] errs = BOk (Node k0 c, errs').
Proof.
  induction l as [|x l IH]; intros stack errs k0 Hne Hok Hk; [destruct Hok|].
  destruct x as [k| |k t|p]; cbn [okrun] in Hok; cbn [tree_build].
  - apply IH; [discriminate|exact Hok|].
    destruct stack as [|s0 st]; [congruence|]. cbn [last] in *. exact Hk.
  - destruct Hok as [[Hd Hok]|[Hd ->]].
    + destruct stack as [|[k1 c1] [|[k2 c2] st]]; cbn [length] in *; try lia.
      apply IH; [discriminate| |].
      * cbn [length]. replace (S (length st)) with (S (S (length st)) - 1) by lia. exact Hok.
      * cbn [last] in *. destruct st; exact Hk.
    + destruct stack as [|[k1 c1] [|s2 st]]; cbn [length] in *; try lia.
      cbn [last fst] in Hk. subst k1. cbn [tree_build]. eexists _, _. reflexivity.
  - destruct Hok as [Hd Hok]. destruct stack as [|[k1 c1] st]; [congruence|].
    apply IH; [discriminate|exact Hok|]. cbn [last] in *. destruct st; exact Hk.
  - destruct Hok as [Hd Hok]. apply IH; auto.
Qed.

(* from the newest-first description to okrun *)
Fixpoint keeps (d : Z) (l : list strstep) : Prop :=
  match l with
  | [] => True
  | x :: r =>
      match x with
      | SEnter _ => keeps (d + 1) r
      | SExit => (2 <= d)%Z /\ keeps (d - 1) r
      | _ => (1 <= d)%Z /\ keeps d r
      end
  end.
Lemma keeps_app d a b : keeps d a -> keeps (d + ssdepth a) b -> keeps d (a ++ b).
Proof.
  revert d. induction a as [|x a IH]; intros d Ha Hb; cbn [app ssdepth] in *.
  - replace (d + 0)%Z with d in Hb by lia. exact Hb.
  - destruct x; cbn [keeps ssctr] in *.
    + apply IH; [exact Ha|]. replace (d + 1 + ssdepth a)%Z with (d + (1 + ssdepth a))%Z by lia. exact Hb.
    + destruct Ha as [H1 H2]. split; [exact H1|]. apply IH; [exact H2|].
      replace (d - 1 + ssdepth a)%Z with (d + (-1 + ssdepth a))%Z by lia. exact Hb.
    + destruct Ha as [H1 H2]. split; [exact H1|]. apply IH; [exact H2|].
      replace (d + ssdepth a)%Z with (d + (0 + ssdepth a))%Z by lia. exact Hb.
    + destruct Ha as [H1 H2]. split; [exact H1|]. apply IH; [exact H2|].
      replace (d + ssdepth a)%Z with (d + (0 + ssdepth a))%Z by lia. exact Hb.
Qed.
Lemma ssdepth_rev a : ssdepth (rev a) = ssdepth a.
Proof. induction a as [|x a IH]; cbn [rev ssdepth]; [reflexivity|]. rewrite ssdepth_app, IH. cbn. lia. Qed.
Lemma goods_keeps out : GoodS out -> keeps 0 (rev out).
Proof.
  induction out as [|x out IH]; cbn [GoodS rev]; [intros _; exact I|]. intros [Hd HG].
  apply keeps_app; [apply IH; exact HG|]. rewrite ssdepth_rev. cbn [ssdepth] in Hd.
  destruct x; cbn [keeps ssctr] in *; repeat split; lia.
Qed.
Lemma okrun_of_keeps l : forall d, keeps (Z.of_nat d) l -> (Z.of_nat d + ssdepth l = 1)%Z -> okrun d (l ++ [SExit]).
Proof.
  induction l as [|x l IH]; intros d Hk Hd; cbn [app ssdepth] in *.
  - cbn [okrun]. right. split; [lia|reflexivity].
  - destruct x; cbn [keeps okrun ssctr] in *.
    + apply IH; [replace (Z.of_nat (S d)) with (Z.of_nat d + 1)%Z by lia; exact Hk|lia].
    + destruct Hk as [H1 H2]. left. split; [lia|]. apply IH; [replace (Z.of_nat (d - 1)) with (Z.of_nat d - 1)%Z by lia; exact H2|lia].
    + destruct Hk as [H1 H2]. split; [lia|]. apply IH; [exact H2|lia].
    + destruct Hk as [H1 H2]. split; [lia|]. apply IH; [exact H2|lia].
Qed.

Theorem tree_build_total out :
  GoodS out -> EndsS out -> ssdepth (SExit :: out) = 0%Z ->
  exists c errs, tree_build (rev (SExit :: out)) [] [] [] = BOk (Node K_SOURCE_FILE c, errs).
Proof.
  intros HG [o ->] Hd. cbn [rev]. rewrite rev_app_distr. cbn [rev app].
  cbn [tree_build].
  apply (tree_build_okrun _ [(K_SOURCE_FILE, [])] [] K_SOURCE_FILE); [discriminate| |reflexivity].
  cbn [length]. apply goods_keeps in HG. rewrite rev_app_distr in HG. cbn [rev app keeps] in HG.
  cbn [ssdepth ssctr] in Hd. rewrite ssdepth_app in Hd. cbn [ssdepth ssctr] in Hd.
  apply (okrun_of_keeps (rev o) 1); [exact HG|]. rewrite ssdepth_rev. lia.
Qed.

(* ---------------- the trivia builder ---------------- *)
Section B.
Variable kinds : list N.
Variable texts : list (list ch).
Variable starts : list N.
Notation blen := (blen_tokens texts).
Notation kindi := (kind_i kinds).

Variable inp : list (N * bool).       (* the parser input built from the same table *)
Definition ntriv (i : nat) : bool := negb (is_trivia (kindi i)).
(* number of non-trivia raw tokens among the first b *)
Definition cnt_nt (b : nat) : nat := length (filter ntriv (seq 0 b)).
Lemma cnt_nt_S b : cnt_nt (S b) = cnt_nt b + (if ntriv b then 1 else 0).
Proof.
  unfold cnt_nt. rewrite seq_S, filter_app, app_length. cbn [plus filter]. destruct (ntriv b); cbn; lia.
Qed.
Lemma cnt_nt_add a d : cnt_nt (a + d) <= cnt_nt a + d.
Proof.
  induction d as [|d IH]; [rewrite Nat.add_0_r; lia|].
  replace (a + S d) with (S (a + d)) by lia. rewrite cnt_nt_S. destruct (ntriv (a + d)); lia.
Qed.
Lemma budget_fits b n : b <= blen -> cnt_nt b + n <= cnt_nt blen -> b + n <= blen.
Proof.
  intros Hb Hc. destruct (le_lt_dec (b + n) blen) as [H|H]; [exact H|].
  pose proof (cnt_nt_add b (blen - b)) as Ha. replace (b + (blen - b)) with blen in Ha by lia. lia.
Qed.

(* a joint, non-float parser token is directly followed by a non-trivia raw token *)
Hypothesis Hadj : forall r, r < blen -> ntriv r = true -> adj inp (cnt_nt r) ->
  r + 1 < blen /\ ntriv (r + 1) = true.

Lemma eat_trivias_ok fuel : forall b,
  blen - bpos b <= fuel -> bpos b <= blen ->
  exists b' tr, eat_trivias kinds texts fuel b = BOk b' /\ bpos b <= bpos b' <= blen /\
    cnt_nt (bpos b') = cnt_nt (bpos b) /\ bstate_ b' = bstate_ b /\ bout b' = tr ++ bout b /\
    (forall x, In x tr -> is_stoken x) /\ (bpos b' = blen \/ ntriv (bpos b') = true).
Proof.
  induction fuel as [|f IH]; intros b Hf Hb.
  - exists b, []. cbn [eat_trivias app]. split; [reflexivity|split; [lia|split; [reflexivity|split; [reflexivity|split; [reflexivity|split; [intros x []|left; lia]]]]]].
  - cbn [eat_trivias]. destruct (bpos b <? blen) eqn:E1; cbn [andb];
      [|exists b, []; cbn [app]; split; [reflexivity|split; [lia|split; [reflexivity|split; [reflexivity|split; [reflexivity|split; [intros x []|left; apply Nat.ltb_ge in E1; lia]]]]]]].
    apply Nat.ltb_lt in E1.
    destruct (is_trivia (kindi (bpos b))) eqn:E2;
      [|exists b, []; cbn [app]; split; [reflexivity|split; [lia|split; [reflexivity|split; [reflexivity|split; [reflexivity|split; [intros x []|right; unfold ntriv; rewrite E2; reflexivity]]]]]]].
    unfold do_token. cbn [Nat.ltb Nat.leb andb].
    replace (bpos b + 1 <=? blen) with true by (symmetry; apply Nat.leb_le; lia). cbn [andb].
    set (b1 := {| bpos := bpos b + 1; bstate_ := bstate_ b;
                  bout := SToken (kindi (bpos b)) (concat (firstn 1 (skipn (bpos b) texts))) :: bout b |}).
    destruct (IH b1) as [b' [tr [E [Hp [Hc [Hs [Ho [Ht Hstop]]]]]]]]; [cbn; lia|cbn; lia|].
    exists b', (tr ++ [SToken (kindi (bpos b)) (concat (firstn 1 (skipn (bpos b) texts)))]).
    split; [exact E|]. cbn [bpos bstate_ bout b1] in *. split; [lia|split; [|split; [exact Hs|split; [|split; [|exact Hstop]]]]].
    + rewrite Hc. replace (bpos b + 1) with (S (bpos b)) by lia. rewrite cnt_nt_S. unfold ntriv. rewrite E2. cbn. lia.
    + rewrite Ho, <- app_assoc. reflexivity.
    + intros x Hx. apply in_app_or in Hx. destruct Hx as [Hx|[<-|[]]]; [apply Ht; exact Hx|eexists _, _; reflexivity].
Qed.

Definition pend (b : bst) : Z := match bstate_ b with PendingExit => 1 | _ => 0 end%Z.
(* [so]: the steps processed so far, newest first *)
Definition INVB (b : bst) (so : list step) : Prop :=
  bstate_ b <> PendingEnter /\ bpos b <= blen /\ cnt_nt (bpos b) = stoksum so /\
  (ssdepth (bout b) - pend b = sdepth so)%Z /\ GoodS (bout b) /\ EndsS (bout b).

Lemma goodout_suffix a b : GoodOut (a ++ b) -> GoodOut b.
Proof. induction a as [|x a IH]; cbn [app GoodOut]; [auto|]. intros [_ H]. auto. Qed.
Lemma goodout_nonempty_depth so : GoodOut so -> EndsSF so -> (1 <= sdepth so)%Z.
Proof. intros HG [o ->]. destruct o as [|x o]; cbn [app] in *; [cbn; lia|]. destruct HG as [H _]. exact H. Qed.
Lemma endssf_cons x so : EndsSF so -> EndsSF (x :: so).
Proof. intros [o ->]. exists (x :: o). reflexivity. Qed.
Lemma ends_app tr out : EndsS out -> EndsS (tr ++ out).
Proof. intros [o ->]. exists (tr ++ o). rewrite app_assoc. reflexivity. Qed.

(* flushing a pending exit, then the trivia *)
Lemma flush_ok b so :
  INVB b so -> GoodOut so -> EndsSF so ->
  exists b2, eat_trivias kinds texts blen
               (set_state Normal (match bstate_ b with PendingExit => emit SExit b | _ => b end)) = BOk b2 /\
    bstate_ b2 = Normal /\ bpos b <= bpos b2 <= blen /\ cnt_nt (bpos b2) = cnt_nt (bpos b) /\
    ssdepth (bout b2) = sdepth so /\ GoodS (bout b2) /\ EndsS (bout b2) /\
    (bpos b2 = blen \/ ntriv (bpos b2) = true).
Proof.
  intros [Hst [Hb [Hc [Hd [HG HE]]]]] HGo HEo.
  pose proof (goodout_nonempty_depth _ HGo HEo) as Hso.
  set (b1 := set_state Normal (match bstate_ b with PendingExit => emit SExit b | _ => b end)).
  assert (bpos b1 = bpos b) as Hp1 by (unfold b1; destruct (bstate_ b); reflexivity).
  assert (ssdepth (bout b1) = sdepth so /\ GoodS (bout b1) /\ EndsS (bout b1)) as [Hd1 [HG1 HE1]].
  { unfold b1, pend in *. destruct (bstate_ b); cbn [set_state emit bout] in *; try (split; [lia|split; auto]).
    cbn [ssdepth ssctr GoodS]. split; [lia|split; [split; [cbn [ssdepth ssctr]; lia|exact HG]|]].
    apply (ends_app [SExit]). exact HE. }
  destruct (eat_trivias_ok blen b1) as [b2 [tr [E [Hp [Hc2 [Hs [Ho [Ht Hstop]]]]]]]]; [lia|lia|].
  exists b2. split; [exact E|]. destruct (goods_tokens tr (bout b1) Ht HG1 ltac:(lia)) as [G1 G2].
  rewrite Ho. split; [rewrite Hs; unfold b1; reflexivity|].
  split; [lia|split; [rewrite Hc2, Hp1; reflexivity|split; [lia|split; [exact G1|split; [apply ends_app; exact HE1|exact Hstop]]]]].
Qed.

Lemma cnt_nt_step r : ntriv r = true -> cnt_nt (r + 1) = cnt_nt r + 1.
Proof. intros H. replace (r + 1) with (S r) by lia. rewrite cnt_nt_S, H. reflexivity. Qed.

(* the n raw tokens of a parser token are all non-trivia *)
Lemma token_raw_nontrivia r n :
  r < blen -> ntriv r = true -> jc inp n (cnt_nt r) -> 0 < n -> cnt_nt (r + n) = cnt_nt r + n.
Proof.
  intros Hr Hn [->|[[-> Ha]|[-> [Ha Hb]]]] _.
  - apply cnt_nt_step. exact Hn.
  - destruct (Hadj r Hr Hn Ha) as [H1 H2].
    replace (r + 2) with (r + 1 + 1) by lia. rewrite (cnt_nt_step (r + 1) H2), (cnt_nt_step r Hn). lia.
  - destruct (Hadj r Hr Hn Ha) as [H1 H2].
    rewrite <- (cnt_nt_step r Hn) in Hb. destruct (Hadj (r + 1) H1 H2 Hb) as [H3 H4].
    replace (r + 3) with (r + 1 + 1 + 1) by lia.
    rewrite (cnt_nt_step (r + 1 + 1) H4), (cnt_nt_step (r + 1) H2), (cnt_nt_step r Hn). lia.
Qed.

Lemma b_step_ok x b so :
  INVB b so -> GoodOut (x :: so) -> EndsSF so -> stoksum (x :: so) <= cnt_nt blen -> stokpos x ->
  match x with StToken _ n => jc inp n (stoksum so) | _ => True end ->
  exists b', (match x with
              | StToken k n => b_token kinds texts k n b
              | StEnter k => b_enter kinds texts k b
              | StExit => b_exit b
              | StError => b_error texts starts b
              end) = BOk b' /\ INVB b' (x :: so).
Proof.
  intros HI HG HE Hbud Hpos Hjc. pose proof HG as [Hx HGo]. 
  pose proof (goodout_nonempty_depth _ HGo HE) as Hso.
  pose proof HI as [Hst [Hb [Hc [Hd [HGs HEs]]]]].
  destruct x as [k| |k n|].
  - (* Enter *)
    destruct (flush_ok b so HI HGo HE) as [b2 [E [S2 [P2 [C2 [D2 [G2 [E2 _]]]]]]]].
    unfold b_enter. destruct (bstate_ b) eqn:Eb; [congruence| |];
      (rewrite E; eexists; split; [reflexivity|];
       unfold INVB, pend; cbn [emit bstate_ bpos bout]; rewrite S2;
       split; [discriminate|split; [lia|split; [cbn [stoksum stokn]; lia|split; [cbn [ssdepth ssctr sdepth sctr]; lia|split]]]];
       [cbn [GoodS ssdepth ssctr]; split; [lia|exact G2]|apply (ends_app [SEnter k]); exact E2]).
  - (* Exit *)
    unfold b_exit. destruct (bstate_ b) eqn:Eb; [congruence| |].
    + eexists. split; [reflexivity|].
      unfold INVB, pend in *. rewrite Eb in Hd. cbn [set_state bstate_ bpos bout].
      split; [discriminate|split; [lia|split; [cbn [stoksum stokn]; lia|split; [cbn [sdepth sctr]; lia|split; auto]]]].
    + eexists. split; [reflexivity|].
      unfold INVB, pend in *. rewrite Eb in Hd. cbn [emit bstate_ bpos bout]. rewrite Eb.
      split; [discriminate|split; [lia|split; [cbn [stoksum stokn]; lia|split; [cbn [ssdepth ssctr sdepth sctr]; lia|split]]]].
      * cbn [GoodS ssdepth ssctr]. split; [lia|exact HGs].
      * apply (ends_app [SExit]). exact HEs.
  - (* Token *)
    destruct (flush_ok b so HI HGo HE) as [b2 [E [S2 [P2 [C2 [D2 [G2 [E2 Hstop]]]]]]]].
    cbn [stoksum stokn] in Hbud. cbn [stokpos] in Hpos.
    assert (bpos b2 + n <= blen) as Hfit by (apply budget_fits; lia).
    assert (bpos b2 < blen /\ ntriv (bpos b2) = true) as [Hr Hnt].
    { destruct Hstop as [Hs|Hs]; [lia|]. split; [lia|exact Hs]. }
    assert (cnt_nt (bpos b2 + n) = cnt_nt (bpos b2) + n) as Hcn.
    { apply token_raw_nontrivia; auto. rewrite C2, Hc. exact Hjc. }
    assert (do_token texts k n b2 = BOk {| bpos := bpos b2 + n; bstate_ := bstate_ b2;
              bout := SToken k (concat (firstn n (skipn (bpos b2) texts))) :: bout b2 |}) as Edo.
    { unfold do_token. replace (0 <? n) with true by (symmetry; apply Nat.ltb_lt; lia).
      replace (bpos b2 + n <=? blen) with true by (symmetry; apply Nat.leb_le; lia). reflexivity. }
    unfold b_token. destruct (bstate_ b) eqn:Eb; [congruence| |];
      (rewrite E, Edo; eexists; split; [reflexivity|];
       unfold INVB, pend; cbn [bstate_ bpos bout]; rewrite S2;
       split; [discriminate|split; [lia|split; [|split; [cbn [ssdepth ssctr sdepth sctr]; lia|split]]]];
       [cbn [stoksum stokn]; lia
       |cbn [GoodS ssdepth ssctr]; split; [lia|exact G2]
       |apply (ends_app [SToken k _]); exact E2]).
  - (* Error *)
    unfold b_error. replace (bpos b <=? blen) with true by (symmetry; apply Nat.leb_le; lia).
    eexists. split; [reflexivity|].
    unfold INVB, pend in *. cbn [emit bstate_ bpos bout].
    split; [exact Hst|split; [lia|split; [cbn [stoksum stokn]; lia|split; [cbn [ssdepth ssctr sdepth sctr]; lia|split]]]].
    + cbn [GoodS ssdepth ssctr]. split; [destruct (bstate_ b); lia|exact HGs].
    + apply (ends_app [SError _]). exact HEs.
Qed.

Lemma stoksum_rev l : stoksum (rev l) = stoksum l.
Proof. induction l as [|x l IH]; cbn [rev stoksum]; [reflexivity|]. rewrite stoksum_app, IH. cbn [stoksum]. destruct (stokn x); lia. Qed.

Lemma bsteps_ok l : forall so b,
  INVB b so -> GoodOut (rev l ++ so) -> EndsSF so -> stoksum (rev l ++ so) <= cnt_nt blen -> Forall stokpos l ->
  jwl inp (stoksum so) (stoksn l) ->
  exists b', b_steps kinds texts starts l b = BOk b' /\ INVB b' (rev l ++ so).
Proof.
  induction l as [|x l IH]; intros so b HI HG HE Hbud Hpos Hj; [exists b; split; [reflexivity|exact HI]|].
  cbn [rev] in *. rewrite <- app_assoc in *. cbn [app] in *.
  inversion Hpos as [|x0 l0 Hx Hl]; subst.
  destruct (b_step_ok x b so HI) as [b1 [E1 HI1]]; auto.
  - apply (goodout_suffix (rev l)). exact HG.
  - rewrite stoksum_app in Hbud. lia.
  - destruct x; auto. cbn [stoksn jwl] in Hj. apply Hj.
  - cbn [b_steps]. rewrite E1. apply IH; auto.
    + apply endssf_cons. exact HE.
    + destruct x; cbn [stoksn jwl stoksum stokn] in *; try exact Hj.
      destruct Hj as [_ Hj]. replace (n_raw + stoksum so) with (stoksum so + n_raw) by lia. exact Hj.
Qed.

Lemma b_steps_app l1 l2 b :
  b_steps kinds texts starts (l1 ++ l2) b =
  match b_steps kinds texts starts l1 b with BOk b' => b_steps kinds texts starts l2 b' | BPanic w => BPanic w end.
Proof.
  revert b. induction l1 as [|x l1 IH]; intros b; [reflexivity|]. cbn [app b_steps].
  destruct (match x with StEnter k => _ | StExit => _ | StToken k n => _ | StError => _ end); [apply IH|reflexivity].
Qed.

(* the whole builder on a tree-shaped step list whose tokens are exactly the raw non-trivia
   tokens: nothing fails and the whole table is emitted (is_eof) *)
Theorem intersperse_total st :
  TreeSteps (cnt_nt blen) st -> jwl inp 0 (stoksn st) ->
  exists out, intersperse_trivia kinds texts starts st = BOk (rev (SExit :: out), true) /\
              GoodS out /\ EndsS out /\ ssdepth (SExit :: out) = 0%Z.
Proof.
  intros [out' [-> [HG [[o ->] [Hd [Hts Hsp]]]]]] Hj.
  cbn [rev] in *. rewrite rev_app_distr in *. cbn [rev app] in *.
  unfold intersperse_trivia. cbn [b_steps b_enter bstate_]. rewrite b_steps_app.
  set (b1 := emit (SEnter K_SOURCE_FILE) (set_state Normal {| bpos := 0; bstate_ := PendingEnter; bout := [] |})).
  assert (INVB b1 [StEnter K_SOURCE_FILE]) as HI1.
  { unfold INVB, pend, b1. cbn [emit set_state bstate_ bpos bout].
    split; [discriminate|split; [lia|split; [reflexivity|split; [reflexivity|split; [cbn; split; [lia|exact I]|exists []; reflexivity]]]]]. }
  cbn [stoksn] in Hj. rewrite stoksn_app in Hj. apply jwl_app in Hj. destruct Hj as [Hj _].
  destruct (bsteps_ok (rev o) [StEnter K_SOURCE_FILE] b1 HI1) as [b2 [E2 HI2]].
  - rewrite rev_involutive. exact HG.
  - exists []. reflexivity.
  - rewrite rev_involutive. lia.
  - apply Forall_rev. apply Forall_app in Hsp. apply Hsp.
  - exact Hj.
  - rewrite E2. rewrite rev_involutive in HI2. cbn [b_steps].
    destruct HI2 as [Hst [Hb [Hc [Hdd [HGs HEs]]]]].
    cbn [sdepth sctr] in Hd.
    (* the final Exit *)
    set (b3 := match bstate_ b2 with PendingExit => emit SExit b2 | _ => set_state PendingExit b2 end).
    assert (b_exit b2 = BOk b3 /\ bstate_ b3 = PendingExit /\ bpos b3 = bpos b2 /\
            ssdepth (bout b3) = 1%Z /\ GoodS (bout b3) /\ EndsS (bout b3)) as [E3 [S3 [P3 [D3 [G3 EE3]]]]].
    { unfold b_exit, b3, pend in *. destruct (bstate_ b2) eqn:Eb; [congruence| |].
      - cbn [set_state bstate_ bpos bout]. repeat split; auto; lia.
      - cbn [emit bstate_ bpos bout]. rewrite Eb. split; [reflexivity|split; [reflexivity|split; [reflexivity|]]].
        cbn [ssdepth ssctr GoodS]. split; [lia|split; [split; [cbn [ssdepth ssctr]; lia|exact HGs]|]].
        apply (ends_app [SExit]). exact HEs. }
    rewrite E3, S3.
    destruct (eat_trivias_ok blen (set_state Normal b3)) as [b4 [tr [E4 [Hp [Hc4 [Hs [Ho [Ht Hstop]]]]]]]];
      [cbn [set_state bpos]; lia|cbn [set_state bpos]; lia|].
    rewrite E4. cbn [set_state bout bpos] in *.
    destruct (goods_tokens tr (bout b3) Ht G3 ltac:(lia)) as [G1 G2].
    (* everything has been emitted *)
    assert (bpos b4 = blen) as Hend.
    { destruct Hstop as [Hs4|Hs4]; [exact Hs4|].
      destruct (le_lt_dec blen (bpos b4)) as [Hge|Hlt]; [lia|].
      pose proof (cnt_nt_step (bpos b4) Hs4) as H1.
      pose proof (cnt_nt_add (bpos b4 + 1) (blen - (bpos b4 + 1))) as H2.
      assert (cnt_nt (bpos b4 + 1) <= cnt_nt blen) as H3.
      { clear - Hlt. induction blen as [|n IHn]; [lia|].
        destruct (Nat.eq_dec (bpos b4 + 1) (S n)) as [->|Hne]; [lia|]. rewrite cnt_nt_S. specialize (IHn ltac:(lia)). lia. }
      rewrite Hc4, P3, Hc in H1. lia. }
    exists (bout b4). rewrite Ho. replace (bpos b4 =? blen) with true by (symmetry; apply Nat.eqb_eq; exact Hend).
    split; [reflexivity|split; [exact G1|split; [apply ends_app; exact EE3|]]].
    cbn [ssdepth ssctr]. lia.
Qed.
End B.
