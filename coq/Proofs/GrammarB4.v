(* Theorem B, marker discipline: statements and items *)
From Coq Require Import NArith Arith List Bool Lia.
From OQ3 Require Import gen.Kinds Model.Parser Model.Grammar Proofs.MarkerB Proofs.GrammarB0 Proofs.GrammarB1 Proofs.GrammarB2 Proofs.GrammarB3.
Import ListNotations.
Local Open Scope nat_scope.

Section B.
Variable inp : list (N * bool).
Variable R : G.
Hypothesis HG : GoodB R.

Lemma block_or_statement_B : SpecA (block_or_statement inp R) ResU.
Proof. b_enter. unfold block_or_statement. bgo; fin. Qed.
Ltac b_k41 :=
  lazymatch goal with |- WB ?f _ _ =>
    let h := head_of f in
    lazymatch h with
    | @block_or_statement => b_callA block_or_statement_B
    | _ => b_g3
    end
  end.
Ltac b_known ::= b_k41.
Lemma switch_case_stmt_B : SpecC (switch_case_stmt inp R) ResU.
Proof. b_enterC. unfold switch_case_stmt. bgo; fin. Qed.
Lemma if_stmt_B : SpecC (if_stmt inp R) ResU.
Proof. b_enterC. unfold if_stmt. bgo; fin. Qed.
Lemma while_stmt_B : SpecC (while_stmt inp R) ResU.
Proof. b_enterC. unfold while_stmt. bgo; fin. Qed.
Lemma for_stmt_B : SpecC (for_stmt inp R) ResU.
Proof. b_enterC. unfold for_stmt. bgo; fin. Qed.
Lemma qubit_declaration_stmt_B : SpecC (qubit_declaration_stmt inp R) ResU.
Proof. b_enterC. unfold qubit_declaration_stmt. bgo; fin. Qed.
Lemma reset_stmt_B : SpecC (reset_stmt inp R) ResU.
Proof. b_enterC. unfold reset_stmt. bgo; fin. Qed.
Lemma break__B : SpecC (break_ inp) ResU.
Proof. b_enterC. unfold break_. bgo; fin. Qed.
Lemma continue__B : SpecC (continue_ inp) ResU.
Proof. b_enterC. unfold continue_. bgo; fin. Qed.
Lemma end__B : SpecC (end_ inp) ResU.
Proof. b_enterC. unfold end_. bgo; fin. Qed.
Lemma gate_definition_B : SpecC (gate_definition inp R) ResU.
Proof. b_enterC. unfold gate_definition. bgo; fin. Qed.
Lemma defcal__B : SpecC (defcal_ inp R) ResU.
Proof. b_enterC. unfold defcal_. bgo; fin. Qed.
Lemma classical_declaration_stmt_B : SpecC (classical_declaration_stmt inp R) ResU.
Proof. b_enterC. unfold classical_declaration_stmt. bgo; fin. Qed.
Lemma io_declaration_stmt_B : SpecC (io_declaration_stmt inp R) ResU.
Proof. b_enterC. unfold io_declaration_stmt. bgo; fin. Qed.
Lemma def_stmt_B : SpecC (def_stmt inp R) ResU.
Proof. b_enterC. unfold def_stmt. bgo; fin. Qed.
Lemma extern_stmt_B : SpecC (extern_stmt inp R) ResU.
Proof. b_enterC. unfold extern_stmt. bgo; fin. Qed.
Lemma filepath_r_B ts : SpecA (filepath_r inp ts) ResU.
Proof. b_enter. unfold filepath_r. bgo; fin. Qed.
Lemma version__B : SpecA (version_ inp) ResU.
Proof. b_enter. unfold version_. bgo; fin. Qed.
Ltac b_k42 :=
  lazymatch goal with |- WB ?f _ _ =>
    let h := head_of f in
    lazymatch h with
    | @filepath_r => b_callA filepath_r_B
    | @version_ => b_callA version__B
    | _ => b_k41
    end
  end.
Ltac b_known ::= b_k42.
Lemma defcalgrammar__B : SpecC (defcalgrammar_ inp) ResU.
Proof. b_enterC. unfold defcalgrammar_. bgo; fin. Qed.
Lemma include_B : SpecC (include inp) ResU.
Proof. b_enterC. unfold include. bgo; fin. Qed.
Lemma cal__B : SpecC (cal_ inp R) ResU.
Proof. b_enterC. unfold cal_. bgo; fin. Qed.
Lemma version_string_B : SpecC (version_string inp) ResU.
Proof. b_enterC. unfold version_string. bgo; fin. Qed.
Lemma barrier__B : SpecC (barrier_ inp R) ResU.
Proof. b_enterC. unfold barrier_. bgo; fin. Qed.
Lemma delay_stmt_B : SpecC (delay_stmt inp R) ResU.
Proof. b_enterC. unfold delay_stmt. bgo; fin. Qed.
Lemma alias_stmt_B : SpecC (alias_stmt inp R) ResU.
Proof. b_enterC. unfold alias_stmt. bgo; fin. Qed.
Lemma let_stmt_B : SpecC (let_stmt inp R) ResU.
Proof. b_enterC. unfold let_stmt. bgo; fin. Qed.
Lemma q_or_c_reg_declaration_B : SpecC (q_or_c_reg_declaration inp R) ResU.
Proof. b_enterC. unfold q_or_c_reg_declaration. bgo; fin. Qed.
Ltac b_k43 :=
  lazymatch goal with |- WB ?f _ _ =>
    let h := head_of f in
    lazymatch h with
    | @switch_case_stmt => b_callC switch_case_stmt_B
    | @if_stmt => b_callC if_stmt_B
    | @while_stmt => b_callC while_stmt_B
    | @for_stmt => b_callC for_stmt_B
    | @qubit_declaration_stmt => b_callC qubit_declaration_stmt_B
    | @reset_stmt => b_callC reset_stmt_B
    | @break_ => b_callC break__B
    | @continue_ => b_callC continue__B
    | @end_ => b_callC end__B
    | @gate_definition => b_callC gate_definition_B
    | @defcal_ => b_callC defcal__B
    | @classical_declaration_stmt => b_callC classical_declaration_stmt_B
    | @io_declaration_stmt => b_callC io_declaration_stmt_B
    | @def_stmt => b_callC def_stmt_B
    | @extern_stmt => b_callC extern_stmt_B
    | @defcalgrammar_ => b_callC defcalgrammar__B
    | @include => b_callC include_B
    | @cal_ => b_callC cal__B
    | @version_string => b_callC version_string_B
    | @barrier_ => b_callC barrier__B
    | @delay_stmt => b_callC delay_stmt_B
    | @alias_stmt => b_callC alias_stmt_B
    | @let_stmt => b_callC let_stmt_B
    | @q_or_c_reg_declaration => b_callC q_or_c_reg_declaration_B
    | _ => b_k42
    end
  end.
Ltac b_known ::= b_k43.

(* opt_item either consumes its marker (None) or hands it back untouched (Some) *)
Lemma opt_item_core m own Lb b0 V W s :
  St [] (m :: own) Lb b0 V W s ->
  WB (opt_item inp R m)
     (fun r s' => (forall i, Valid s i -> Valid s' i) /\
                  match r with
                  | None => St [] own Lb b0 V W s' /\ m <= nev s'
                  | Some m' => m' = m /\ St [] (m :: own) Lb b0 V W s' /\ nev s <= nev s'
                  end) s.
Proof.
  intros HS.
  assert (Hc0 : forall i, Valid s i -> Valid s i) by (intros ? Hq; exact Hq).
  unfold opt_item. cbv zeta. bgo.
  split; [assumption|split; [reflexivity|split; [assumption|lia]]].
Qed.

Lemma stmt_B : SpecA (stmt inp R) ResU.
Proof.
  b_enter. unfold stmt. bgo; fin.
  eapply WB_conseq; [apply opt_item_core; exact HS|].
  intros r1 s3 [Hc Hr]. destruct r1 as [m'|].
  - destruct Hr as [-> [HS' Hn']]. clear HS. bgo; fin.
  - destruct Hr as [HS' Hn']. clear HS. bgo; fin.
Qed.
Lemma item_B st : SpecA (item inp R st) ResU.
Proof.
  b_enter. unfold item. bgo; fin.
  eapply WB_conseq; [apply opt_item_core; exact HS|].
  intros r1 s3 [Hc Hr]. destruct r1 as [m'|].
  - destruct Hr as [-> [HS' Hn']]. clear HS. bgo; fin.
  - destruct Hr as [HS' Hn']. clear HS. bgo; fin.
Qed.
Ltac b_k44 :=
  lazymatch goal with |- WB ?f _ _ =>
    let h := head_of f in
    lazymatch h with
    | @item => b_callA item_B
    | _ => b_k43
    end
  end.
Ltac b_known ::= b_k44.
Lemma source_file_contents_B st : SpecA (source_file_contents inp R st) ResU.
Proof. b_enter. unfold source_file_contents. bgo; fin. Qed.
Ltac b_k45 :=
  lazymatch goal with |- WB ?f _ _ =>
    let h := head_of f in
    lazymatch h with
    | @source_file_contents => b_callA source_file_contents_B
    | _ => b_k44
    end
  end.
Ltac b_known ::= b_k45.
Lemma source_file_B : SpecA (source_file inp R) ResU.
Proof. b_enter. unfold source_file. bgo; fin. Qed.
End B.

Ltac b_g4 :=
  lazymatch goal with |- WB ?f _ _ =>
    let h := head_of f in
    lazymatch h with
    | @block_or_statement => b_callA block_or_statement_B
    | @switch_case_stmt => b_callC switch_case_stmt_B
    | @if_stmt => b_callC if_stmt_B
    | @while_stmt => b_callC while_stmt_B
    | @for_stmt => b_callC for_stmt_B
    | @qubit_declaration_stmt => b_callC qubit_declaration_stmt_B
    | @reset_stmt => b_callC reset_stmt_B
    | @break_ => b_callC break__B
    | @continue_ => b_callC continue__B
    | @end_ => b_callC end__B
    | @gate_definition => b_callC gate_definition_B
    | @defcal_ => b_callC defcal__B
    | @classical_declaration_stmt => b_callC classical_declaration_stmt_B
    | @io_declaration_stmt => b_callC io_declaration_stmt_B
    | @def_stmt => b_callC def_stmt_B
    | @extern_stmt => b_callC extern_stmt_B
    | @filepath_r => b_callA filepath_r_B
    | @version_ => b_callA version__B
    | @defcalgrammar_ => b_callC defcalgrammar__B
    | @include => b_callC include_B
    | @cal_ => b_callC cal__B
    | @version_string => b_callC version_string_B
    | @barrier_ => b_callC barrier__B
    | @delay_stmt => b_callC delay_stmt_B
    | @alias_stmt => b_callC alias_stmt_B
    | @let_stmt => b_callC let_stmt_B
    | @q_or_c_reg_declaration => b_callC q_or_c_reg_declaration_B
    | @stmt => b_callA stmt_B
    | @item => b_callA item_B
    | @source_file_contents => b_callA source_file_contents_B
    | @source_file => b_callA source_file_B
    | _ => b_g3
    end
  end.
Ltac b_known ::= b_g4.
