(* Lemmas about the lexer model: every scanner returns a suffix of its input, every token
   consumes at least one character, tokens partition the input. *)
From Coq Require Import NArith Arith List Bool Lia.
From OQ3 Require Import Model.Lexer.
Import ListNotations.
Open Scope N_scope.

(* [Sfx r l]: r is a suffix of l *)
Inductive Sfx {A} : list A -> list A -> Prop :=
| Sfx_refl l : Sfx l l
| Sfx_cons r c l : Sfx r l -> Sfx r (c :: l).
#[export] Hint Constructors Sfx : sfx.

Lemma Sfx_trans {A} (a b c : list A) : Sfx a b -> Sfx b c -> Sfx a c.
Proof. intros H1 H2. induction H2; auto with sfx. Qed.
Lemma Sfx_app {A} (r l : list A) : Sfx r l <-> exists pre, l = pre ++ r.
Proof.
  split.
  - induction 1 as [|r c l H [pre IH]]; [exists []; auto|]. exists (c :: pre). subst; auto.
  - intros [pre H]; subst. induction pre; cbn; auto with sfx.
Qed.
Lemma Sfx_nil {A} (l : list A) : Sfx [] l.
Proof. induction l; auto with sfx. Qed.
Lemma Sfx_tl {A} (r l : list A) : Sfx r l -> Sfx (tl r) l.
Proof. induction 1; auto with sfx. destruct l; cbn; auto with sfx. Qed.
Lemma Sfx_length {A} (r l : list A) : Sfx r l -> (length r <= length l)%nat.
Proof. induction 1; cbn; lia. Qed.
#[export] Hint Resolve Sfx_nil Sfx_tl : sfx.

Lemma eat_while_sfx p l : Sfx (eat_while p l) l.
Proof. induction l as [|c r IH]; cbn; auto with sfx. destruct (p c); auto with sfx. Qed.
Lemma eat_while_tl_sfx p (l : list ch) : Sfx (eat_while p (tl l)) l.
Proof. eapply Sfx_trans; [apply eat_while_sfx|auto with sfx]. Qed.
#[export] Hint Resolve eat_while_sfx eat_while_tl_sfx : sfx.

Lemma eat_prefix_sfx pat : forall l b r, eat_prefix pat l = (b, r) -> Sfx r l.
Proof.
  induction pat as [|k pat IH]; cbn; intros l b r H.
  - inversion H; auto with sfx.
  - destruct l as [|c l']; [inversion H; auto with sfx|].
    destruct (is c k); [|inversion H; auto with sfx].
    apply IH in H. auto with sfx.
Qed.

Ltac inv H := inversion H; subst; clear H.

Lemma have_pragma_sfx l b r : have_pragma l = (b, r) -> Sfx r l.
Proof.
  unfold have_pragma. destruct (eat_prefix _ l) as [ok r0] eqn:E. apply eat_prefix_sfx in E.
  destruct ok; [destruct (is_whitespace (firstc r0))|]; intros H; inv H; auto.
  eapply Sfx_trans; [apply eat_while_sfx|auto].
Qed.
Lemma have_dim_sfx l b r : have_dim l = (b, r) -> Sfx r l.
Proof. apply eat_prefix_sfx. Qed.
Lemma have_openqasm_sfx l b r : have_openqasm l = (b, r) -> Sfx r l.
Proof.
  unfold have_openqasm. destruct (eat_prefix _ l) as [ok r0] eqn:E. apply eat_prefix_sfx in E.
  destruct ok; intros H; inv H; auto.
Qed.

Lemma eat_dec_from_sfx l : forall h b r, eat_decimal_digits_from h l = (b, r) -> Sfx r l.
Proof.
  induction l as [|c l IH]; cbn; intros h b r H.
  - inv H; auto with sfx.
  - destruct (is c 95); [apply IH in H; auto with sfx|].
    destruct (is_digit c); [apply IH in H; auto with sfx|]. inv H; auto with sfx.
Qed.
Lemma eat_decimal_digits_sfx l b r : eat_decimal_digits l = (b, r) -> Sfx r l.
Proof. apply eat_dec_from_sfx. Qed.
Lemma eat_hex_from_sfx l : forall h b r, eat_hex_digits_from h l = (b, r) -> Sfx r l.
Proof.
  induction l as [|c l IH]; cbn; intros h b r H.
  - inv H; auto with sfx.
  - destruct (is c 95); [apply IH in H; auto with sfx|].
    destruct (is_hex c); [apply IH in H; auto with sfx|]. inv H; auto with sfx.
Qed.
Lemma eat_hexadecimal_digits_sfx l b r : eat_hexadecimal_digits l = (b, r) -> Sfx r l.
Proof. apply eat_hex_from_sfx. Qed.

Lemma eat_float_exponent_sfx l b r : eat_float_exponent l = (b, r) -> Sfx r l.
Proof.
  unfold eat_float_exponent. intros H. apply eat_decimal_digits_sfx in H.
  destruct l as [|c l']; auto. destruct (is c 45 || is c 43); auto with sfx.
Qed.

Lemma openqasm_version_sfx l v r : openqasm_version l = (v, r) -> Sfx r l.
Proof.
  unfold openqasm_version. destruct (eat_decimal_digits l) as [d1 r1] eqn:E1.
  apply eat_decimal_digits_sfx in E1.
  destruct (negb d1); [intros H; inv H; auto|].
  assert (forall r0 v r, (let c := firstc r0 in
            if negb (is c 59) && negb (is_whitespace c) then ((false, false), r0)
            else ((true, true), r0)) = (v, r) -> r = r0) as K.
  { intros r0 v0 r2. cbn. destruct (negb _ && negb _); intros H; inv H; auto. }
  destruct r1 as [|c r2].
  - intros H. apply K in H. subst; auto.
  - destruct (is c 46).
    + destruct (eat_decimal_digits r2) as [d2 r3] eqn:E2. apply eat_decimal_digits_sfx in E2.
      destruct (negb d2); intros H; [inv H|apply K in H; subst];
        (eapply Sfx_trans; [exact E2|]; eapply Sfx_trans; [|exact E1]; auto with sfx).
    + intros H. apply K in H. subst; auto.
Qed.

Lemma fake_ident_sfx l k r : fake_ident l = (k, r) -> Sfx r l.
Proof. unfold fake_ident. intros H; inv H. auto with sfx. Qed.
Lemma ident_sfx l k r : ident_or_unknown_prefix l = (k, r) -> Sfx r l.
Proof.
  unfold ident_or_unknown_prefix. destruct (is_emoji_nonascii _); intros H.
  - apply fake_ident_sfx in H. eapply Sfx_trans; [exact H|auto with sfx].
  - inv H; auto with sfx.
Qed.
Lemma pragma_or_ident_sfx l k r : pragma_or_ident l = (k, r) -> Sfx r l.
Proof.
  unfold pragma_or_ident. destruct (have_pragma l) as [ok r0] eqn:E. apply have_pragma_sfx in E.
  destruct ok; intros H; [inv H; auto|]. apply ident_sfx in H. eapply Sfx_trans; eauto.
Qed.
Lemma hardware_ident_sfx l k r : hardware_ident l = (k, r) -> Sfx r l.
Proof.
  unfold hardware_ident. destruct (is_emoji_nonascii _); intros H.
  - apply fake_ident_sfx in H. eapply Sfx_trans; [exact H|auto with sfx].
  - destruct (eat_decimal_digits l) as [d r0] eqn:E. apply eat_decimal_digits_sfx in E.
    destruct (negb d); inv H; auto.
Qed.

Lemma ident_kind l k r : ident_or_unknown_prefix l = (k, r) -> k = Ident \/ k = InvalidIdent.
Proof.
  unfold ident_or_unknown_prefix, fake_ident. destruct (is_emoji_nonascii _); intros H; inv H; auto.
Qed.
Lemma pragma_or_ident_kind l k r :
  pragma_or_ident l = (k, r) -> k = Pragma \/ k = Ident \/ k = InvalidIdent.
Proof.
  unfold pragma_or_ident. destruct (have_pragma l) as [[] r0]; intros H; [inv H; auto|].
  apply ident_kind in H. tauto.
Qed.
Lemma hardware_ident_kind l k r :
  hardware_ident l = (k, r) -> k = InvalidIdent \/ k = Dollar \/ k = HardwareIdent.
Proof.
  unfold hardware_ident, fake_ident. destruct (is_emoji_nonascii _); intros H; [inv H; auto|].
  destruct (eat_decimal_digits l) as [[] r0]; inv H; auto.
Qed.

Lemma exponent_tail_sfx l b r : exponent_tail l = (b, r) -> Sfx r l.
Proof.
  unfold exponent_tail. destruct l as [|c l']; [intros H; inv H; auto with sfx|].
  destruct (is c 101 || is c 69); [|intros H; inv H; auto with sfx].
  destruct (eat_float_exponent l') as [d r'] eqn:E. apply eat_float_exponent_sfx in E.
  intros H; inv H; auto with sfx.
Qed.
Lemma float_nld_sfx l k r : float_with_no_leading_digit l = (k, r) -> Sfx r l.
Proof.
  unfold float_with_no_leading_digit.
  destruct (eat_decimal_digits l) as [d r0] eqn:E. apply eat_decimal_digits_sfx in E.
  destruct (exponent_tail r0) as [ee r1] eqn:E1. apply exponent_tail_sfx in E1.
  intros H; inv H. eapply Sfx_trans; eauto.
Qed.
Lemma number_tail_sfx b l k r : number_tail b l = (k, r) -> Sfx r l.
Proof.
  unfold number_tail. destruct l as [|c l']; [intros H; inv H; auto with sfx|].
  destruct (is c 46).
  - destruct (is_digit (firstc l')).
    + destruct (eat_decimal_digits l') as [d r0] eqn:E. apply eat_decimal_digits_sfx in E.
      destruct (exponent_tail r0) as [ee r1] eqn:E1. apply exponent_tail_sfx in E1.
      intros H; inv H. apply Sfx_cons. eapply Sfx_trans; eauto.
    + intros H; inv H; auto with sfx.
  - destruct (is c 101 || is c 69).
    + destruct (eat_float_exponent l') as [d r'] eqn:E. apply eat_float_exponent_sfx in E.
      intros H; inv H; auto with sfx.
    + intros H; inv H; auto with sfx.
Qed.
Lemma number_sfx z l k r : number z l = (k, r) -> Sfx r l.
Proof.
  unfold number. destruct z.
  - destruct l as [|c l']; [intros H; inv H; auto with sfx|].
    destruct (is c 98); [|destruct (is c 111); [|destruct (is c 120);
      [|destruct (is_digit c || is c 95); [|destruct (is c 46 || is c 101 || is c 69)]]]].
    + destruct (eat_decimal_digits l') as [d r0] eqn:E. apply eat_decimal_digits_sfx in E.
      destruct (negb d); intros H; [inv H; auto with sfx|].
      apply number_tail_sfx in H. apply Sfx_cons. eapply Sfx_trans; eauto.
    + destruct (eat_decimal_digits l') as [d r0] eqn:E. apply eat_decimal_digits_sfx in E.
      destruct (negb d); intros H; [inv H; auto with sfx|].
      apply number_tail_sfx in H. apply Sfx_cons. eapply Sfx_trans; eauto.
    + destruct (eat_hexadecimal_digits l') as [d r0] eqn:E. apply eat_hexadecimal_digits_sfx in E.
      destruct (negb d); intros H; [inv H; auto with sfx|].
      apply number_tail_sfx in H. apply Sfx_cons. eapply Sfx_trans; eauto.
    + destruct (eat_decimal_digits (c :: l')) as [d r0] eqn:E. apply eat_decimal_digits_sfx in E.
      intros H. apply number_tail_sfx in H. eapply Sfx_trans; eauto.
    + apply number_tail_sfx.
    + intros H; inv H; auto with sfx.
  - destruct (eat_decimal_digits l) as [d r0] eqn:E. apply eat_decimal_digits_sfx in E.
    intros H. apply number_tail_sfx in H. eapply Sfx_trans; eauto.
Qed.

Lemma eat_identifier_sfx l : Sfx (eat_identifier l) l.
Proof. destruct l as [|c l']; cbn; auto with sfx. destruct (is_id_start c); auto with sfx. Qed.
#[export] Hint Resolve eat_identifier_sfx : sfx.

Lemma list_len_ind {A} (P : list A -> Prop) :
  (forall l, (forall l', (length l' < length l)%nat -> P l') -> P l) -> forall l, P l.
Proof.
  intros H l. assert (forall n l, (length l < n)%nat -> P l) as K.
  { induction n as [|n IH]; intros l0 Hl; [lia|]. apply H. intros l' Hl'. apply IH. lia. }
  apply (K (S (length l))). lia.
Qed.

Lemma quoted_string_sfx q l : forall o c n p res r,
  quoted_string q l o c n p = (res, r) -> Sfx r l.
Proof.
  induction l as [l IH] using list_len_ind.
  intros o c n p res r. destruct l as [|a l']; cbn [quoted_string].
  - intros H; inv H; auto with sfx.
  - destruct (is a q); [intros H; inv H; auto with sfx|].
    destruct (is a 92 && (is (firstc l') 92 || is (firstc l') q)).
    + destruct l' as [|a2 l2]; intros H.
      * apply IH in H; [auto with sfx|cbn; lia].
      * apply IH in H; [auto with sfx|cbn; lia].
    + destruct (is a 10); [intros H; apply IH in H; [auto with sfx|cbn; lia]|].
      destruct (is a 95); [intros H; apply IH in H; [auto with sfx|cbn; lia]|].
      destruct (is a 48 || is a 49); intros H; apply IH in H; auto with sfx; cbn; lia.
Qed.

Lemma block_comment_loop_sfx l : forall d t r, block_comment_loop l d = (t, r) -> Sfx r l.
Proof.
  induction l as [l IH] using list_len_ind.
  intros d t r. destruct l as [|a l']; cbn [block_comment_loop].
  - intros H; inv H; auto with sfx.
  - destruct (is a 47).
    + destruct l' as [|a2 l2]; [intros H; apply IH in H; [auto with sfx|cbn; lia]|].
      destruct (is a2 42); intros H; apply IH in H; auto with sfx; cbn; lia.
    + destruct (is a 42).
      * destruct l' as [|a2 l2]; [intros H; apply IH in H; [auto with sfx|cbn; lia]|].
        destruct (is a2 47).
        -- destruct d; intros H; [inv H; auto with sfx|]. apply IH in H; auto with sfx; cbn; lia.
        -- intros H; apply IH in H; auto with sfx; cbn; lia.
      * intros H; apply IH in H; auto with sfx; cbn; lia.
Qed.

(* a literal token: the suffix start is the byte length of a prefix of the token *)
Definition lit_ok (l : list ch) (k : TokenKind) (rest : list ch) : Prop :=
  match k with
  | Literal _ ss => exists mid, Sfx rest mid /\ Sfx mid l /\ ss = blen l - blen mid
  | _ => True
  end.

Lemma finish_number_spec l0 lk r k rest :
  Sfx r l0 -> finish_number l0 lk r = (k, rest) -> Sfx rest r /\ lit_ok l0 k rest.
Proof.
  unfold finish_number. intros S H. inv H.
  assert (Sfx (if has_timing_or_imaginary_suffix r then r else eat_identifier r) r) as S2
    by (destruct (has_timing_or_imaginary_suffix r); auto with sfx).
  split; auto. cbn. exists r. auto.
Qed.
Lemma finish_string_spec l0 res r k rest :
  Sfx r l0 -> finish_string l0 (res, r) = (k, rest) -> Sfx rest r /\ lit_ok l0 k rest.
Proof.
  unfold finish_string. destruct res as [[t o] c]. intros S H. inv H.
  assert (Sfx (if t then eat_identifier r else r) r) as S2 by (destruct t; auto with sfx).
  split; auto. cbn. exists r. auto.
Qed.

(* the central fact: a token is the first character plus a prefix of what follows *)
Lemma advance_token_spec l k rest :
  advance_token l = Some (k, rest) ->
  exists c r, l = c :: r /\ Sfx rest r /\ lit_ok l k rest.
Proof.
  destruct l as [|c r]; [discriminate|]. intros H. exists c, r. split; auto.
  unfold advance_token in H. inversion H as [H1]; clear H.
  repeat match type of H1 with
  | (if ?b then _ else _) = _ => destruct b eqn:?
  end;
  try (inv H1; split; cbn; auto with sfx; fail).
  - (* block comment *)
    destruct (block_comment_loop (tl r) 0) as [t r'] eqn:E. apply block_comment_loop_sfx in E.
    inv H1. split; cbn; auto. eapply Sfx_trans; eauto with sfx.
  - split; [apply pragma_or_ident_sfx in H1; auto|].
    apply pragma_or_ident_kind in H1. destruct H1 as [->|[->| ->]]; cbn; auto.
  - (* 'O' *)
    destruct (have_openqasm r) as [ok r1] eqn:E. apply have_openqasm_sfx in E.
    destruct ok.
    + destruct (openqasm_version (eat_while is_whitespace r1)) as [[ma mi] r2] eqn:E2.
      apply openqasm_version_sfx in E2. inv H1. split; cbn; auto.
      eapply Sfx_trans; [exact E2|]. eapply Sfx_trans; [apply eat_while_sfx|auto].
    + split; [apply ident_sfx in H1; eapply Sfx_trans; eauto|].
      apply ident_kind in H1. destruct H1 as [->| ->]; cbn; auto.
  - split; [apply ident_sfx in H1; auto|].
    apply ident_kind in H1. destruct H1 as [->| ->]; cbn; auto.
  - (* number *)
    destruct (number (cp c =? 48) r) as [lk r1] eqn:E. apply number_sfx in E.
    destruct (finish_number_spec (c :: r) lk r1 k rest) as [S1 S2]; auto with sfx.
    split; auto. eapply Sfx_trans; eauto.
  - (* #p *)
    destruct (have_pragma (tl r)) as [ok r1] eqn:E. apply have_pragma_sfx in E.
    destruct ok; inv H1; split; cbn; auto; eapply Sfx_trans; eauto with sfx.
  - destruct (have_dim r) as [ok r1] eqn:E. apply have_dim_sfx in E.
    destruct ok; inv H1; split; cbn; auto.
  - (* .digit *)
    destruct (float_with_no_leading_digit r) as [lk r1] eqn:E. apply float_nld_sfx in E.
    destruct (finish_number_spec (c :: r) lk r1 k rest) as [S1 S2]; auto with sfx.
    split; auto. eapply Sfx_trans; eauto.
  - split; [apply hardware_ident_sfx in H1; auto|].
    apply hardware_ident_kind in H1. destruct H1 as [->|[->| ->]]; cbn; auto.
  - destruct (quoted_string 34 r true false 0 0) as [res r1] eqn:E. apply quoted_string_sfx in E.
    destruct (finish_string_spec (c :: r) res r1 k rest) as [S1 S2]; auto with sfx.
    split; auto. eapply Sfx_trans; eauto.
  - destruct (quoted_string 39 r true false 0 0) as [res r1] eqn:E. apply quoted_string_sfx in E.
    destruct (finish_string_spec (c :: r) res r1 k rest) as [S1 S2]; auto with sfx.
    split; auto. eapply Sfx_trans; eauto.
Qed.

Lemma advance_progress l k rest :
  advance_token l = Some (k, rest) -> exists pre, pre <> [] /\ l = pre ++ rest.
Proof.
  intros H. destruct (advance_token_spec _ _ _ H) as [c [r [E [S _]]]]. subst.
  apply Sfx_app in S as [pre Hp]. exists (c :: pre). split; [discriminate|]. subst; auto.
Qed.

Lemma prefix_before_app (pre r : list ch) : prefix_before (pre ++ r) r = pre.
Proof.
  unfold prefix_before. rewrite app_length, Nat.add_sub.
  rewrite firstn_app, Nat.sub_diag, firstn_all. cbn. apply app_nil_r.
Qed.

(* with enough fuel the outer loop never runs dry, and the tokens spell the input *)
Lemma tokenize_fuel_spec : forall fuel l, (length l < fuel)%nat ->
  exists ts, tokenize_fuel fuel l = Some ts /\ concat (map ttext ts) = l /\
             Forall (fun t => ttext t <> []) ts.
Proof.
  induction fuel as [|f IH]; intros l Hl; [lia|]. cbn [tokenize_fuel].
  destruct (advance_token l) as [[k r]|] eqn:E.
  - destruct (advance_progress _ _ _ E) as [pre [Hne Hp]].
    assert (length r < f)%nat as Hr.
    { subst l. rewrite app_length in Hl. destruct pre; [congruence|cbn in Hl; lia]. }
    destruct (IH r Hr) as [ts [H1 [H2 H3]]]. rewrite H1.
    eexists; split; [reflexivity|]. subst l. rewrite prefix_before_app. cbn.
    split; [rewrite H2; auto|]. constructor; auto.
  - destruct l; [|discriminate]. exists []. cbn. auto.
Qed.

Lemma tokenize_fuel_enough l : tokenize_fuel (S (length l)) l = Some (tokenize l).
Proof.
  unfold tokenize. destruct (tokenize_fuel_spec (S (length l)) l) as [ts [H _]]; [lia|].
  rewrite H; auto.
Qed.

Lemma tokenize_spell l : concat (map ttext (tokenize l)) = l.
Proof.
  unfold tokenize. destruct (tokenize_fuel_spec (S (length l)) l) as [ts [H [H2 _]]]; [lia|].
  rewrite H; auto.
Qed.
Lemma tokenize_nonempty l : Forall (fun t => ttext t <> []) (tokenize l).
Proof.
  unfold tokenize. destruct (tokenize_fuel_spec (S (length l)) l) as [ts [H [_ H3]]]; [lia|].
  rewrite H; auto.
Qed.

Lemma blen_app a b : blen (a ++ b) = blen a + blen b.
Proof. induction a; cbn; auto. rewrite IHa. lia. Qed.
Lemma utf8_len_pos c : 0 < utf8_len c.
Proof. unfold utf8_len. destruct (_ <? _); [lia|]. destruct (_ <? _); [lia|]. destruct (_ <? _); lia. Qed.
Lemma blen_pos l : l <> [] -> 0 < blen l.
Proof. destruct l; [congruence|]. intros _. cbn. pose proof (utf8_len_pos c). lia. Qed.

Fixpoint sum_tlen (ts : list token) : N :=
  match ts with [] => 0 | t :: r => tlen t + sum_tlen r end.
Lemma sum_tlen_concat ts : sum_tlen ts = blen (concat (map ttext ts)).
Proof. induction ts; cbn; auto. rewrite blen_app, IHts. reflexivity. Qed.

Lemma tokens_lengths l :
  sum_tlen (tokenize l) = blen l /\ Forall (fun t => 0 < tlen t) (tokenize l).
Proof.
  split.
  - rewrite sum_tlen_concat, tokenize_spell; auto.
  - eapply Forall_impl; [|apply tokenize_nonempty]. intros t H. apply blen_pos; auto.
Qed.

(* a literal's suffix start never exceeds the token length *)
Lemma blen_sfx (r l : list ch) : Sfx r l -> blen r <= blen l.
Proof. induction 1; cbn; lia. Qed.

Definition suffix_ok (t : token) : Prop :=
  match tkind t with Literal _ ss => ss <= tlen t | _ => True end.

Lemma tokenize_fuel_suffix : forall fuel l ts,
  tokenize_fuel fuel l = Some ts -> Forall suffix_ok ts.
Proof.
  induction fuel as [|f IH]; intros l ts H; [discriminate|]. cbn [tokenize_fuel] in H.
  destruct (advance_token l) as [[k r]|] eqn:E; [|inv H; constructor].
  destruct (tokenize_fuel f r) as [ts'|] eqn:E2; [|discriminate]. inv H.
  constructor; [|eapply IH; eauto].
  destruct (advance_token_spec _ _ _ E) as [c [r0 [El [S L]]]].
  unfold suffix_ok, tlen. cbn. destruct k; auto.
  destruct L as [mid [S1 [S2 Hs]]]. subst suffix_start.
  assert (Sfx r l) as Srl by (subst l; auto with sfx).
  apply Sfx_app in Srl as [pre Hp]. rewrite Hp at 2. rewrite prefix_before_app.
  apply Sfx_app in S1 as [p1 Hp1]. apply Sfx_app in S2 as [p2 Hp2].
  rewrite Hp2. rewrite blen_app. rewrite Hp1 in Hp2. rewrite Hp2 in Hp.
  rewrite app_assoc in Hp. apply app_inv_tail in Hp. subst pre. rewrite blen_app. lia.
Qed.
Lemma tokenize_suffix_ok l : Forall suffix_ok (tokenize l).
Proof. eapply tokenize_fuel_suffix. apply tokenize_fuel_enough. Qed.
