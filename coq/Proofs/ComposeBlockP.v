(* C16: all ordered template pairs inside a block, by computation on the pipeline model. *)
From Coq Require Import NArith List Bool.
From OQ3 Require Import gen.Templates Model.Accept.
Import ListNotations.

Lemma pairs_compose_block : forallb (fun '(i, j) => k_c16_block i j || composes_block i j) id_pairs = true.
Proof. vm_compute. reflexivity. Qed.


Lemma trailing_anon_block_refuted : composes_block T_decl_int T_anon_block = false.
Proof. vm_compute. reflexivity. Qed.
