(* C17: invariance under layout and renaming, one pass. *)
From Coq Require Import NArith List Bool Lia.
From OQ3 Require Import gen.Kinds Model.Types Model.Lexer Model.Lexed Model.SymTab Model.Graph
                        Proofs.SymTabP Proofs.GraphP.
Import ListNotations.
Open Scope N_scope.

(* ---------- layout: the parser input depends only on the non-trivia tokens and on which
   neighbours have trivia between them ---------- *)
(* skeleton of a token stream: non-trivia tokens, and one marker per maximal run of trivia *)
Fixpoint skel (ks : list N) (ts : list (list ch)) (in_gap : bool) : list (option (N * list ch)) :=
  match ks, ts with
  | k :: ks', t :: ts' =>
      if is_trivia k then (if in_gap then skel ks' ts' true else None :: skel ks' ts' true)
      else Some (k, t) :: skel ks' ts' false
  | _, _ => []
  end.

Fixpoint loop_skel (sk : list (option (N * list ch))) (was_joint : bool) (acc : list (N * bool))
  : list (N * bool) :=
  match sk with
  | [] => rev acc
  | None :: r => loop_skel r false acc
  | Some (k, t) :: r =>
      let acc1 := if was_joint then match acc with (k0, _) :: a => (k0, true) :: a | [] => [] end
                  else acc in
      let j := N.eqb k K_FLOAT_NUMBER && negb (ends_with_dot t) in
      loop_skel r true ((k, j) :: acc1)
  end.

Lemma to_input_loop_skel ks : forall ts wj acc,
  to_input_loop ks ts wj acc = loop_skel (skel ks ts (negb wj)) wj acc.
Proof.
  induction ks as [|k ks IH]; intros ts wj acc; [destruct ts; reflexivity|].
  destruct ts as [|t ts]; [reflexivity|]. cbn [to_input_loop skel].
  destruct (is_trivia k) eqn:T.
  - rewrite IH. cbn [negb]. destruct wj; cbn [negb loop_skel]; reflexivity.
  - cbn [loop_skel]. rewrite IH. reflexivity.
Qed.

Theorem layout_irrelevant ks1 ts1 ks2 ts2 :
  skel ks1 ts1 true = skel ks2 ts2 true ->
  to_input_loop ks1 ts1 false [] = to_input_loop ks2 ts2 false [].
Proof. intros H. rewrite !to_input_loop_skel. cbn [negb]. rewrite H. reflexivity. Qed.

(* ---------- renaming: the symbol table's responses do not depend on the names ---------- *)
Section Rename.
  Variable rho : name -> name.
  Hypothesis rho_inj : forall a b, rho a = rho b -> a = b.

  Definition ren_op (o : op) : op :=
    match o with
    | Bind n t => Bind (rho n) t
    | Lookup n => Lookup (rho n)
    | LookupOrNew n t => LookupOrNew (rho n) t
    | o => o
    end.
  Definition ren_out (x : out) : out :=
    match x with OFound i n t => OFound i (rho n) t | x => x end.
  Definition ren_scope (sc : ScopeType * list (name * (id * Ty))) :=
    (fst sc, map (fun '(n, v) => (rho n, v)) (snd sc)).
  Definition ren_state (s : sstate) : sstate :=
    {| sstack := map ren_scope (sstack s); shist := map (fun '(n, t) => (rho n, t)) (shist s) |}.

  Lemma eqb_rho a b : (rho a =? rho b) = (a =? b).
  Proof.
    destruct (N.eqb_spec a b) as [E|E]; [subst; apply N.eqb_refl|].
    apply N.eqb_neq. intros H. apply E, rho_inj, H.
  Qed.

  Lemma sassoc_ren n m : sassoc (rho n) (map (fun '(k, v) => (rho k, v)) m) = sassoc n m.
  Proof.
    induction m as [|[k v] m IH]; cbn; auto. rewrite eqb_rho. destruct (n =? k); auto.
  Qed.
  Lemma slookup_ren n ss : slookup (rho n) (map ren_scope ss) = slookup n ss.
  Proof.
    induction ss as [|[st m] ss IH]; cbn; auto. rewrite sassoc_ren. destruct (sassoc n m); auto.
  Qed.

  Lemma nlen_map' {A B} (f : A -> B) l : nlen (map f l) = nlen l.
  Proof. unfold nlen. rewrite map_length. reflexivity. Qed.

  Lemma sbind_ren s n t :
    sbind (ren_state s) (rho n) t = (ren_state (fst (sbind s n t)), snd (sbind s n t)).
  Proof.
    destruct s as [stk hist]. unfold sbind, ren_state. cbn [sstack shist].
    destruct stk as [|[st m] r]; cbn [map ren_scope fst snd sstack shist]; [reflexivity|].
    rewrite nlen_map', map_app. reflexivity.
  Qed.

  Lemma sstep_ren s o :
    sstep (ren_state s) (ren_op o) = (ren_state (fst (sstep s o)), ren_out (snd (sstep s o))).
  Proof.
    destruct s as [stk hist].
    destruct o as [st| |n t|n|n t]; unfold ren_state; cbn [ren_op sstep sstack shist].
    - rewrite nlen_map'. destruct (is_global st && negb (nlen stk =? 0)); reflexivity.
    - destruct stk as [|a [|b r]]; reflexivity.
    - destruct stk as [|[st m] r]; cbn [map ren_scope fst snd]; [reflexivity|].
      rewrite sassoc_ren. destruct (sassoc n m) eqn:EA; [reflexivity|].
      unfold sbind. cbn [sstack shist fst snd map ren_scope ren_out]. rewrite nlen_map', map_app. reflexivity.
    - rewrite slookup_ren. destruct (slookup n stk) as [[i t]|]; reflexivity.
    - rewrite slookup_ren. destruct (slookup n stk) as [[i t']|] eqn:EL; [reflexivity|].
      unfold sbind. cbn [sstack shist]. destruct stk as [|[st m] r]; cbn [map ren_scope fst snd ren_out sstack shist];
        [reflexivity|]. rewrite nlen_map', map_app. reflexivity.
  Qed.

  Lemma srun_ren h : forall s,
    srun (ren_state s) (map ren_op h) = (ren_state (fst (srun s h)), map ren_out (snd (srun s h))).
  Proof.
    induction h as [|o h IH]; intros s; cbn [map srun]; [reflexivity|].
    rewrite sstep_ren. destruct (sstep s o) as [s1 x] eqn:ES. cbn [fst snd].
    destruct x; cbn [ren_out]; try reflexivity;
      rewrite IH; destruct (srun s1 h) as [s2 xs]; reflexivity.
  Qed.

  (* a renaming that leaves the built-in names alone *)
  Hypothesis rho_builtin : forall n, In n (name_U :: builtin_names) -> rho n = n.

  Lemma ren_sinit : ren_state sinit = sinit.
  Proof.
    unfold ren_state. assert (sstack sinit = [(Global, [(106, (6, Gate 3 1)); (105, (5, Float (Some 64) true));
        (104, (4, Float (Some 64) true)); (103, (3, Float (Some 64) true)); (102, (2, Float (Some 64) true));
        (101, (1, Float (Some 64) true)); (100, (0, Float (Some 64) true))])]) as HS by (vm_compute; reflexivity).
    assert (shist sinit = [(100, Float (Some 64) true); (101, Float (Some 64) true); (102, Float (Some 64) true);
        (103, Float (Some 64) true); (104, Float (Some 64) true); (105, Float (Some 64) true); (106, Gate 3 1)]) as HH
      by (vm_compute; reflexivity).
    assert (forall n, In n [100; 101; 102; 103; 104; 105; 106] -> rho n = n) as R.
    { intros n Hn. apply rho_builtin. unfold name_U, builtin_names. cbn in *. intuition. }
    destruct sinit as [stk hist]. cbn [sstack shist] in *. subst stk hist.
    unfold ren_scope. cbn [map fst snd].
    rewrite !R by (cbn; intuition). reflexivity.
  Qed.

  Theorem renaming_invariant h :
    snd (srun sinit (map ren_op h)) = map ren_out (snd (srun sinit h)).
  Proof. rewrite <- ren_sinit at 1. rewrite srun_ren. reflexivity. Qed.
End Rename.

(* the same for the model of SymbolTable itself *)
Theorem renaming_invariant_model rho h :
  (forall a b, rho a = rho b -> a = b) ->
  (forall n, In n (name_U :: builtin_names) -> rho n = n) ->
  snd (run init (map (ren_op rho) h)) = map (ren_out rho) (snd (run init h)).
Proof.
  intros HI HB. destruct (refines (map (ren_op rho) h)) as [R1 _]. destruct (refines h) as [R2 _].
  rewrite R1, R2. apply renaming_invariant; assumption.
Qed.

(* ---------- one pass: appending statements leaves the earlier results unchanged ---------- *)
Theorem symbol_table_prefix h1 h2 :
  ~ In OPanic (snd (srun sinit h1)) ->
  snd (srun sinit (h1 ++ h2)) = snd (srun sinit h1) ++ snd (srun (fst (srun sinit h1)) h2).
Proof.
  intros H. destruct (srun sinit h1) as [s1 x1] eqn:E.
  rewrite (srun_app h1 h2 sinit s1 x1 E H). reflexivity.
Qed.

Theorem graph_prefix a b :
  exists rest, translate (a ++ b) = translate a ++ rest.
Proof.
  unfold translate. rewrite tr_top_app. destruct (tr_top [] a) as [o1 p1].
  destruct (tr_top p1 b) as [o2 p2]. cbn [fst]. eexists; reflexivity.
Qed.
