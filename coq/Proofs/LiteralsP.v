(* Integer literals: every spelling of n in radix 2, 8, 10 or 16 (either prefix case,
   underscores anywhere among the digits) has value n when n < 2^128 and no value otherwise. *)
From Coq Require Import NArith List Bool Lia.
From OQ3 Require Import Model.Literals.
Import ListNotations.
Open Scope N_scope.

Definition digits_value (r : N) (ds : list N) (acc : N) : N :=
  fold_left (fun a d => a * r + d) ds acc.

(* cs spells the digit sequence ds in radix r: digit characters (either case for hex letters)
   with underscores anywhere *)
Inductive spelled (r : N) : list N -> list N -> Prop :=
| sp_nil : spelled r [] []
| sp_us cs ds : spelled r cs ds -> spelled r (95 :: cs) ds
| sp_dig c d cs ds :
    digit_val c = Some d -> d < r -> is_suffix_start r c = false ->
    spelled r cs ds -> spelled r (c :: cs) (d :: ds).

Lemma us_not_suffix r : is_suffix_start r 95 = false.
Proof. unfold is_suffix_start. destruct (r =? 16); reflexivity. Qed.
Lemma digit_val_not_us c d : digit_val c = Some d -> (c =? 95) = false.
Proof. intros H. destruct (N.eqb_spec c 95); auto. subst. discriminate. Qed.

Lemma take_until_spelled r cs ds : spelled r cs ds -> take_until (is_suffix_start r) cs = cs.
Proof.
  induction 1; cbn; auto.
  - rewrite us_not_suffix, IHspelled. reflexivity.
  - rewrite H1, IHspelled. reflexivity.
Qed.

(* the digit characters left after removing underscores *)
Lemma filter_spelled r cs ds : spelled r cs ds ->
  Forall2 (fun c d => digit_val c = Some d /\ d < r)
          (filter (fun c => negb (c =? 95)) cs) ds.
Proof.
  induction 1; cbn; auto.
  rewrite (digit_val_not_us _ _ H). cbn. constructor; auto.
Qed.

Lemma digits_value_mono r ds : forall acc, 1 <= r -> acc <= digits_value r ds acc.
Proof.
  unfold digits_value. induction ds as [|d ds IH]; cbn; intros acc Hr; [lia|].
  specialize (IH (acc * r + d) Hr). assert (acc * 1 <= acc * r) by (apply N.mul_le_mono_l; auto). lia.
Qed.

Lemma parse_digits_spec r dcs ds : 1 <= r ->
  Forall2 (fun c d => digit_val c = Some d /\ d < r) dcs ds ->
  forall acc, acc < two128 ->
  parse_digits r dcs acc =
    (if digits_value r ds acc <? two128 then Some (digits_value r ds acc) else None).
Proof.
  intros Hr. induction 1 as [|c d dcs ds [Hd Hlt] _ IH]; intros acc Hacc; cbn [parse_digits];
    change (digits_value r (d :: ds) acc) with (digits_value r ds (acc * r + d)) || idtac.
  - cbn. assert (acc <? two128 = true) as E by (apply N.ltb_lt; auto). rewrite E. reflexivity.
  - rewrite Hd. assert (d <? r = true) as E by (apply N.ltb_lt; auto). rewrite E.
    destruct (N.ltb_spec (acc * r + d) two128) as [H1|H1].
    + apply IH; auto.
    + pose proof (digits_value_mono r ds (acc * r + d) Hr).
      assert (digits_value r ds (acc * r + d) <? two128 = false) as E2 by (apply N.ltb_ge; lia).
      rewrite E2. reflexivity.
Qed.

Lemma spelled_digit_first r cs ds :
  spelled r cs ds -> ds <> [] ->
  match filter (fun c => negb (c =? 95)) cs with
  | [] => False
  | c :: _ => exists d, digit_val c = Some d
  end.
Proof.
  intros H Hne. apply filter_spelled in H. inversion H as [|x y l l' [Hx _] Hl]; subst; [congruence|].
  eauto.
Qed.

Lemma from_str_radix_spelled r cs ds : 1 <= r -> spelled r cs ds -> ds <> [] ->
  from_str_radix r (filter (fun c => negb (c =? 95)) cs) =
    (if digits_value r ds 0 <? two128 then Some (digits_value r ds 0) else None).
Proof.
  intros Hr H Hne. pose proof (spelled_digit_first r cs ds H Hne) as F.
  pose proof (filter_spelled r cs ds H) as F2.
  unfold from_str_radix.
  destruct (filter (fun c => negb (c =? 95)) cs) as [|c rest] eqn:E; [destruct F|].
  destruct F as [d Hd].
  assert (c <> 43 /\ c <> 45) as [H43 H45] by (split; intro; subst; discriminate).
  assert (parse_digits r (c :: rest) 0 =
          (if digits_value r ds 0 <? two128 then Some (digits_value r ds 0) else None)) as P
    by (apply parse_digits_spec; auto; vm_compute; reflexivity).
  destruct (N.eqb_spec c 43); [congruence|]. destruct (N.eqb_spec c 45); [congruence|].
  destruct c as [|p]; [exact P|].
  (* the match on the literal 43/45 patterns *)
  destruct rest as [|c2 rest2]; revert P; 
  repeat (destruct p as [p|p|]; try exact (fun P => P)); intros P; try exact P; congruence.
Qed.

(* radix prefixes, either case *)
Definition prefix_chars (r : N) : list (list N) :=
  if r =? 2 then [[48; 98]; [48; 66]]
  else if r =? 8 then [[48; 111]; [48; 79]]
  else if r =? 16 then [[48; 120]; [48; 88]]
  else [[]].

Lemma decimal_second_char c2 rest ds :
  spelled 10 (c2 :: rest) ds ->
  (c2 =? 98) || (c2 =? 66) = false /\ (c2 =? 111) || (c2 =? 79) = false /\ (c2 =? 120) || (c2 =? 88) = false.
Proof.
  intros H. inversion H as [|cs0 ds0 H0|c d cs0 ds0 Hd Hlt Hs H0]; subst.
  - repeat split; reflexivity.
  - assert (c2 <> 98 /\ c2 <> 66 /\ c2 <> 111 /\ c2 <> 79 /\ c2 <> 120 /\ c2 <> 88) as K.
    { repeat split; intro; subst; cbn in Hd; inversion Hd; subst; lia. }
    destruct K as [K1 [K2 [K3 [K4 [K5 K6]]]]].
    apply N.eqb_neq in K1, K2, K3, K4, K5, K6. rewrite K1, K2, K3, K4, K5, K6. auto.
Qed.

Lemma radix_of_decimal cs ds : spelled 10 cs ds -> radix_of cs = 10.
Proof.
  intros H. destruct cs as [|c [|c2 rest]]; try reflexivity.
  - unfold radix_of. destruct c as [|p]; auto. repeat (destruct p as [p|p|]; auto).
  - destruct (N.eq_dec c 48) as [->|Hc].
    + assert (spelled 10 (c2 :: rest) (tl ds) \/ exists ds', spelled 10 (c2 :: rest) ds') as K.
      { inversion H; subst; eauto. }
      assert (exists ds', spelled 10 (c2 :: rest) ds') as [ds' H'] by (destruct K; eauto).
      destruct (decimal_second_char _ _ _ H') as [E1 [E2 E3]].
      cbn. rewrite E1, E2, E3. reflexivity.
    + unfold radix_of. destruct c as [|p]; auto.
      repeat (destruct p as [p|p|]; auto). congruence.
Qed.

Theorem int_value_spelled r pfx cs ds :
  (r = 2 \/ r = 8 \/ r = 10 \/ r = 16) -> In pfx (prefix_chars r) ->
  spelled r cs ds -> ds <> [] ->
  int_value (pfx ++ cs) =
    (if digits_value r ds 0 <? two128 then Some (digits_value r ds 0) else None).
Proof.
  intros Hr Hp Hs Hne. unfold int_value.
  assert (1 <= r) as Hr1 by (destruct Hr as [|[|[|]]]; subst; lia).
  destruct Hr as [Hr|[Hr|[Hr|Hr]]]; subst r; cbn in Hp.
  - destruct Hp as [Hp|[Hp|[]]]; subst pfx; cbn [app radix_of N.eqb orb prefix_len skipn];
      cbn -[from_str_radix take_until filter]; rewrite (take_until_spelled _ _ _ Hs);
      apply from_str_radix_spelled; auto.
  - destruct Hp as [Hp|[Hp|[]]]; subst pfx; cbn -[from_str_radix take_until filter];
      rewrite (take_until_spelled _ _ _ Hs); apply from_str_radix_spelled; auto.
  - destruct Hp as [Hp|[]]; subst pfx. cbn [app]. rewrite (radix_of_decimal _ _ Hs).
    cbn -[from_str_radix take_until filter]. rewrite (take_until_spelled _ _ _ Hs).
    apply from_str_radix_spelled; auto.
  - destruct Hp as [Hp|[Hp|[]]]; subst pfx; cbn -[from_str_radix take_until filter];
      rewrite (take_until_spelled _ _ _ Hs); apply from_str_radix_spelled; auto.
Qed.

(* bit strings keep their bits; the width is the number of 0s and 1s *)
Lemma between_quotes_quote q body :
  (q = 34 \/ q = 39) -> between_quotes (q :: body ++ [q]) = Some body.
Proof.
  intros Hq. unfold between_quotes.
  assert ((q =? 34) || (q =? 39) = true) as E by (destruct Hq; subst; reflexivity).
  rewrite E, rev_app_distr. cbn. rewrite N.eqb_refl, rev_involutive. reflexivity.
Qed.
