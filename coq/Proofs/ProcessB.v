(* Theorem B, part 3a: the step list event::process produces from the grammar's events is one
   well-bracketed tree: it starts with Enter SOURCE_FILE, ends with the Exit that closes it, and
   in between the nesting depth never falls below one.  By counting: every Finish is preceded by
   the Start slot it completes (Proofs/MarkerB.v, [Bal]); forward parents only move Enters
   earlier. *)
From Coq Require Import NArith ZArith Arith List Bool Lia.
From OQ3 Require Import gen.Kinds Model.Parser Model.Grammar Proofs.MarkerB Proofs.WP Proofs.GrammarA
  Proofs.GrammarB0 Proofs.GrammarB4 Proofs.GrammarB5.
Import ListNotations.
Local Open Scope nat_scope.

(* ---------------- the final state of the grammar ---------------- *)
Definition Final (s : pst) : Prop :=
  live s = [] /\ EvOK s /\
  slot s 0 = Some (EStart K_SOURCE_FILE None) /\
  (exists r, evs s = EFinish :: r) /\
  (forall j, 0 < j < nev s -> (1 <= exc (skipn j (evs s)))%Z) /\
  exc (evs s) = 0%Z /\ TokOK s.

Lemma WB_and {A} (m : M A) (Q1 Q2 : A -> pst -> Prop) s :
  WB m Q1 s -> WB m Q2 s -> WB m (fun a s' => Q1 a s' /\ Q2 a s') s.
Proof. unfold WB. destruct (m s); auto. Qed.

Lemma complete_shape s m k k0 fp :
  In m (live s) -> slot s m = Some (EStart k0 fp) ->
  complete m k s = Ok (m, k) {| pos := pos s; evs := EFinish :: set_nth (evs s) (nev s - 1 - m) (EStart k fp);
                                live := remove_nat m (live s) |}.
Proof.
  intros Hin Hs. unfold complete, bind, use_marker. apply mem_nat_In in Hin. rewrite Hin.
  change (slot {| pos := pos s; evs := evs s; live := remove_nat m (live s) |} m) with (slot s m).
  rewrite Hs. reflexivity.
Qed.

Lemma complete_root s :
  LiveOK s -> NoDup (live s) -> live s = [0] ->
  WB (complete 0 K_SOURCE_FILE) (fun _ s' => Final s') s.
Proof.
  intros HL HN Hl.
  assert (In 0 (live s)) as Hin by (rewrite Hl; left; reflexivity).
  assert (slot s 0 = Some (EStart K_TOMBSTONE None)) as Hs by (apply HL; exact Hin).
  eapply WB_conseq.
  - apply WB_and.
    + apply (WB_complete_gen 0 K_SOURCE_FILE (fun _ s' => LiveOK s' /\ live s' = remove_nat 0 (live s))); auto.
      vm_compute. discriminate.
    + unfold WB. rewrite (complete_shape s 0 K_SOURCE_FILE _ _ Hin Hs).
      instantiate (1 := fun _ s' => s' = {| pos := pos s; evs := EFinish :: set_nth (evs s) (nev s - 1 - 0) (EStart K_SOURCE_FILE None);
                                            live := remove_nat 0 (live s) |}).
      reflexivity.
  - cbv beta. intros _ s' [[HL' Hl'] ->]. destruct HL as [_ [_ [[HB1 HB2] _]]]. destruct HL' as [_ [HE' [[_ HB2'] HT']]].
    pose proof (slot_some_lt _ _ _ Hs) as Hlt. pose proof (slot_nth_error _ _ _ Hs) as Hn.
    split; [|split; [|split; [|split; [|split; [|split]]]]]; [| | | | | |exact HT'].
    + cbn [live]. rewrite Hl. reflexivity.
    + exact HE'.
    + change (slot {| pos := pos s; evs := EFinish :: evs (set_slot s 0 (EStart K_SOURCE_FILE None));
                      live := remove_nat 0 (live s) |} 0 = Some (EStart K_SOURCE_FILE None)).
      apply slot_push_old. apply slot_set_same. exact Hlt.
    + eexists. reflexivity.
    + intros j Hj. cbn [evs] in *. unfold nev in Hj. cbn [evs length] in Hj. rewrite set_nth_length in Hj.
      destruct j as [|j]; [lia|]. cbn [skipn].
      rewrite (exc_skipn_set_nth _ _ _ _ j Hn).
      replace (Nat.leb j (nev s - 1 - 0)) with true by (symmetry; apply Nat.leb_le; unfold nev; lia).
      specialize (HB1 j). rewrite ctr_tomb. change (ctr (EStart K_SOURCE_FILE None)) with 1%Z. lia.
    + exact HB2'.
Qed.

Section Fin.
Variable inp : list (N * bool).

Theorem source_file_final n :
  match source_file inp (tie inp n) init_state with
  | Ok _ s => Final s
  | Panic w => ~ mark w
  | OutOfFuel => True
  end.
Proof.
  pose proof (tie_good inp n) as HG.
  set (s1 := {| pos := 0; evs := [EStart K_TOMBSTONE None]; live := [0] |}).
  assert (LiveOK s1) as HL1.
  { split; [|split; [|split]].
    - intros m [<-|[]]. reflexivity.
    - intros i d [k H]. revert H. unfold slot. destruct i as [|[|i]]; cbn; intros H; discriminate.
    - split; [intros [|[|j]]; cbn; lia|reflexivity].
    - split; [reflexivity|repeat constructor]. }
  assert (NoDup (live s1)) as HN1 by (repeat constructor; intros []).
  change (WB (source_file inp (tie inp n)) (fun _ s => Final s) init_state).
  unfold source_file. apply WB_bind. unfold WB at 1. change (start init_state) with (Ok 0 s1).
  apply WB_bind. eapply WB_conseq; [apply (source_file_contents_B inp _ HG false s1 HL1 HN1)|].
  intros a2 s2 [[F1 [F2 [_ [_ [F5 _]]]]] _]. unfold ign. apply WB_bind.
  eapply WB_conseq; [apply complete_root; auto|].
  intros a3 s3 H. apply WB_ret. exact H.
Qed.
End Fin.

(* ---------------- event::process on such events ---------------- *)
Lemma set_nth'_eq {A} (l : list A) i x : set_nth' l i x = set_nth l i x.
Proof. revert i. induction l as [|y l IH]; intros [|i]; cbn; auto. Qed.

Lemma toksum_skipn_set_nth l p x old j :
  nth_error l p = Some old -> tokn x = tokn old -> toksum (skipn j (set_nth l p x)) = toksum (skipn j l).
Proof.
  revert p j. induction l as [|e l IH]; intros [|p] [|j] H Hx; cbn in H; try discriminate.
  - injection H as ->. cbn. lia.
  - reflexivity.
  - cbn [set_nth skipn toksum]. specialize (IH p 0 H Hx). cbn [skipn] in IH. rewrite IH. reflexivity.
  - cbn [set_nth skipn]. apply (IH p j H Hx).
Qed.

(* kinds that will produce an Enter *)
Definition cntk (ks : list N) : Z := exc (map (fun k => EStart k None) ks).
Lemma cntk_cons k ks fp : cntk (k :: ks) = (ctr (EStart k fp) + cntk ks)%Z.
Proof. reflexivity. Qed.

Definition sctr (x : step) : Z := match x with StEnter _ => 1 | StExit => -1 | _ => 0 end%Z.
Fixpoint sdepth (l : list step) : Z := match l with [] => 0 | x :: r => sctr x + sdepth r end%Z.
Lemma sdepth_app a b : sdepth (a ++ b) = (sdepth a + sdepth b)%Z.
Proof. induction a as [|x a IH]; cbn [app sdepth]; [reflexivity|]. rewrite IH. lia. Qed.
Lemma sdepth_rev a : sdepth (rev a) = sdepth a.
Proof. induction a as [|x a IH]; cbn [rev sdepth]; [reflexivity|]. rewrite sdepth_app, IH. cbn. lia. Qed.
Lemma sdepth_enters ks :
  sdepth (map StEnter (filter (fun k => negb (N.eqb k K_TOMBSTONE)) ks)) = cntk ks.
Proof.
  induction ks as [|k ks IH]; [reflexivity|]. rewrite (cntk_cons k ks None). cbn [filter ctr].
  destruct (N.eqb k K_TOMBSTONE); cbn [negb map sdepth sctr]; rewrite IH; lia.
Qed.

(* out is newest first: every non-empty suffix of it (a prefix of the step list) is at depth >= 1 *)
Fixpoint GoodOut (out : list step) : Prop :=
  match out with [] => True | x :: r => (1 <= sdepth (x :: r))%Z /\ GoodOut r end.
Lemma goodout_depth out : GoodOut out -> (0 <= sdepth out)%Z.
Proof. destruct out; cbn [GoodOut]; [cbn; lia|intros [H _]; lia]. Qed.
Lemma goodout_enters es out :
  (forall x, In x es -> exists k, x = StEnter k) -> GoodOut out -> GoodOut (es ++ out).
Proof.
  intros He HG. induction es as [|x es IH]; [exact HG|].
  cbn [app GoodOut]. assert (GoodOut (es ++ out)) as H by (apply IH; intros y Hy; apply He; right; exact Hy).
  split; [|exact H]. destruct (He x (or_introl eq_refl)) as [k ->]. cbn [sdepth sctr].
  pose proof (goodout_depth _ H). lia.
Qed.

Lemma exc_rev l : exc (rev l) = exc l.
Proof. induction l as [|e l IH]; cbn [rev exc]; [reflexivity|]. rewrite exc_app, IH. cbn. lia. Qed.
Lemma exc_firstn_skipn l k : (exc (firstn k l) + exc (skipn k l))%Z = exc l.
Proof. rewrite <- (firstn_skipn k l) at 3. rewrite exc_app. reflexivity. Qed.

(* following a forward-parent chain: the list stays well formed, only visited Start slots (beyond
   idx) change, and the kinds collected account exactly for the completed Starts tombstoned *)
Lemma fp_chain_acc fuel : forall L idx fp acc,
  WFL L -> good_fp L idx fp -> length L - idx <= fuel ->
  exists kinds L', fp_chain fuel L idx fp acc = Some (kinds, L') /\ WFL L' /\ length L' = length L /\
    (forall j e, nth_error L j = Some e -> (forall k f, e <> EStart k f) -> nth_error L' j = Some e) /\
    (forall k', (exc (skipn k' L') <= exc (skipn k' L))%Z) /\
    (forall k', k' <= idx + 1 -> (exc (skipn k' L') + cntk kinds = exc (skipn k' L) + cntk acc)%Z) /\
    (forall k', toksum (skipn k' L') = toksum (skipn k' L)) /\
    (Forall tokpos L -> Forall tokpos L').
Proof.
  induction fuel as [|f IH]; intros L idx fp acc HW Hg Hf.
  - destruct fp as [d|].
    + destruct Hg as [Hd [k' [fp' Ht]]].
      assert (idx + d < length L) by (apply nth_error_Some; congruence). lia.
    + exists acc, L. cbn [fp_chain]. split; [reflexivity|split; [exact HW|split; [reflexivity|split; [auto|split; [|split; [|split]]; intros; auto; lia]]]].
  - destruct fp as [d|];
      [|exists acc, L; cbn [fp_chain]; split; [reflexivity|split; [exact HW|split; [reflexivity|split; [auto|split; [|split; [|split]]; intros; auto; lia]]]]].
    destruct Hg as [Hd [k' [fp' Ht]]].
    assert (idx + d < length L) as Hlt by (apply nth_error_Some; congruence).
    cbn [fp_chain]. rewrite Ht.
    set (L1 := set_nth' L (idx + d) (EStart K_TOMBSTONE None)).
    assert (WFL L1) as HW1 by (eapply wfl_tomb; eauto).
    assert (good_fp L1 (idx + d) fp') as Hg1.
    { destruct fp' as [d'|]; [|exact I]. destruct (HW _ _ _ Ht) as [Hd' [k2 [fp2 Ht2]]].
      split; auto. exists k2, fp2. unfold L1. rewrite nth_error_set_nth'_other by lia. exact Ht2. }
    assert (length L1 = length L) as HL1 by (unfold L1; apply set_nth'_length).
    destruct (IH L1 (idx + d) fp' (k' :: acc) HW1 Hg1) as [kinds [L' [E [HW' [Hl' [Hns [Hle [Hacc [Htk Htp]]]]]]]]]; [lia|].
    assert (forall k0, toksum (skipn k0 L1) = toksum (skipn k0 L)) as HL1t.
    { intros k0. unfold L1. rewrite set_nth'_eq. apply (toksum_skipn_set_nth _ _ _ _ k0 Ht). reflexivity. }
    assert (forall k0, exc (skipn k0 L1) =
              (exc (skipn k0 L) + (if Nat.leb k0 (idx + d) then 0 - ctr (EStart k' fp') else 0))%Z) as HL1e.
    { intros k0. unfold L1. rewrite set_nth'_eq. rewrite (exc_skipn_set_nth _ _ _ _ k0 Ht). rewrite ctr_tomb. reflexivity. }
    assert (0 <= ctr (EStart k' fp'))%Z as Hc0 by (cbn [ctr]; destruct (N.eqb k' K_TOMBSTONE); lia).
    exists kinds, L'. split; [exact E|split; [exact HW'|split; [lia|split; [|split; [|split; [|split]]]]]];
      [| | |intros k0; rewrite Htk; apply HL1t
       |intros HF; apply Htp; unfold L1; rewrite set_nth'_eq; apply forall_set_nth; [exact HF|exact I]].
    + intros j e Hj Hne. apply Hns; auto. unfold L1.
      destruct (Nat.eq_dec (idx + d) j) as [<-|Hjn]; [rewrite Ht in Hj; injection Hj as <-; exfalso; eapply Hne; reflexivity|].
      rewrite nth_error_set_nth'_other by exact Hjn. exact Hj.
    + intros k0. specialize (Hle k0). rewrite (HL1e k0) in Hle. destruct (Nat.leb k0 (idx + d)); lia.
    + intros k0 Hk0. specialize (Hacc k0 ltac:(lia)). rewrite (HL1e k0) in Hacc.
      replace (Nat.leb k0 (idx + d)) with true in Hacc by (symmetry; apply Nat.leb_le; lia).
      rewrite (cntk_cons k' acc fp') in Hacc. lia.
Qed.

Lemma exc_skipn_nth L : forall i e, nth_error L i = Some e -> exc (skipn i L) = (ctr e + exc (skipn (S i) L))%Z.
Proof.
  induction L as [|x L IH]; intros [|i] e H; cbn in H; try discriminate.
  - injection H as ->. reflexivity.
  - cbn [skipn]. rewrite (IH i e H). reflexivity.
Qed.
Lemma skipn_all_nil {A} (l : list A) : skipn (length l) l = [].
Proof. induction l; cbn; auto. Qed.

Definition stokn (x : step) : nat := match x with StToken _ n => n | _ => 0 end.
Fixpoint stoksum (l : list step) : nat := match l with [] => 0 | x :: r => stokn x + stoksum r end.
Definition stokpos (x : step) : Prop := match x with StToken _ n => 0 < n | _ => True end.
Lemma stoksum_app a b : stoksum (a ++ b) = stoksum a + stoksum b.
Proof. induction a as [|x a IH]; cbn [app stoksum]; [reflexivity|]. rewrite IH. lia. Qed.
Lemma stoksum_enters ks : stoksum (rev (map StEnter ks)) = 0.
Proof. induction ks as [|k ks IH]; [reflexivity|]. cbn [map rev]. rewrite stoksum_app, IH. reflexivity. Qed.
Lemma toksum_skipn_nth L : forall i e, nth_error L i = Some e -> toksum (skipn i L) = tokn e + toksum (skipn (S i) L).
Proof.
  induction L as [|x L IH]; intros [|i] e H; cbn in H; try discriminate.
  - injection H as ->. reflexivity.
  - cbn [skipn]. rewrite (IH i e H). reflexivity.
Qed.


Section Proc.
Variable L0 : list event.
Let n := length L0.
Hypothesis HW0 : WFL L0.
Hypothesis Hfirst : nth_error L0 0 = Some (EStart K_SOURCE_FILE None).
Hypothesis Hlast : nth_error L0 (n - 1) = Some EFinish.
Hypothesis Hpre : forall k, 0 < k < n -> (1 <= exc (firstn k L0))%Z.
Hypothesis Htot : exc L0 = 0%Z.

Lemma exc_suffix0 k : exc (skipn k L0) = (- exc (firstn k L0))%Z.
Proof. pose proof (exc_firstn_skipn L0 k). lia. Qed.

Definition EndsSF (out : list step) : Prop := exists o, out = o ++ [StEnter K_SOURCE_FILE].
Lemma ploop fuel : forall L i out,
  1 <= i <= n - 1 -> n - i <= fuel -> length L = n -> WFL L ->
  (forall j e, nth_error L0 j = Some e -> (forall k f, e <> EStart k f) -> nth_error L j = Some e) ->
  (forall k, (exc (skipn k L) <= exc (skipn k L0))%Z) ->
  sdepth out = (- exc (skipn i L))%Z -> GoodOut out -> EndsSF out ->
  stoksum out + toksum (skipn i L) = toksum L0 -> Forall stokpos out -> Forall tokpos L ->
  exists out', process_loop fuel L i out = Some (rev (StExit :: out')) /\ GoodOut out' /\ EndsSF out' /\
               sdepth (StExit :: out') = 0%Z /\ stoksum out' = toksum L0 /\ Forall stokpos out'.
Proof.
  induction fuel as [|f IH]; intros L i out Hi Hf Hlen HW Hper Hle Hsd HG HE Hts Hsp Htp; [lia|].
  assert (forall e, nth_error L i = Some e -> tokpos e) as Htpi.
  { intros e0 He0. rewrite Forall_forall in Htp. apply Htp. eapply nth_error_In; eauto. }
  assert (i < length L) as Hil by lia.
  destruct (nth_error L i) as [e|] eqn:Ee; [|apply nth_error_None in Ee; lia].
  assert (nth_error L (n - 1) = Some EFinish) as HlastL by (apply Hper; [exact Hlast|intros; discriminate]).
  pose proof (exc_skipn_nth L i e Ee) as Hsk.
  pose proof (toksum_skipn_nth L i e Ee) as Htsk.
  pose proof (Htpi e eq_refl) as Hpe.
  assert (sdepth out >= 1)%Z as Hout1.
  { destruct HE as [o ->]. destruct o as [|x o]; cbn [app] in *; [cbn; lia|]. destruct HG as [HG _]. cbn [app] in HG. lia. }
  cbn [process_loop]. rewrite Ee.
  destruct e as [k fp| |k nr|].
  - (* Start *)
    assert (i <> n - 1) as Hne by (intros ->; rewrite HlastL in Ee; discriminate).
    assert (good_fp L i fp) as Hg by (destruct fp as [d|]; [apply (HW _ _ _ Ee)|exact I]).
    destruct (fp_chain_acc (length L) L i fp [k] HW Hg ltac:(lia)) as [kinds [L' [E' [HW' [Hl' [Hns [Hle' [Hacc [Htk Htp']]]]]]]]].
    rewrite E'.
    set (enters := map StEnter (filter (fun k0 => negb (N.eqb k0 K_TOMBSTONE)) kinds)).
    apply IH; try lia; auto.
    + intros k0. specialize (Hle k0). specialize (Hle' k0). lia.
    + rewrite sdepth_app, sdepth_rev. unfold enters. rewrite sdepth_enters.
      specialize (Hacc (S i) ltac:(lia)). rewrite (cntk_cons k [] fp) in Hacc. change (cntk []) with 0%Z in Hacc. lia.
    + apply goodout_enters; auto. intros x Hx. apply in_rev in Hx. unfold enters in Hx.
      apply in_map_iff in Hx. destruct Hx as [k0 [<- _]]. eexists; reflexivity.
    + destruct HE as [o ->]. exists (rev enters ++ o). rewrite app_assoc. reflexivity.
    + rewrite stoksum_app. unfold enters. rewrite stoksum_enters, Htk. cbn [tokn] in Htsk. lia.
    + apply Forall_app. split; [|exact Hsp]. apply Forall_forall. intros x Hx. apply in_rev in Hx.
      unfold enters in Hx. apply in_map_iff in Hx. destruct Hx as [k0 [<- _]]. exact I.
  - (* Finish *)
    change (ctr EFinish) with (-1)%Z in Hsk.
    destruct (Nat.eq_dec i (n - 1)) as [->|Hne].
    + exists out. split; [|split; [exact HG|split; [exact HE|split; [|split; [|exact Hsp]]]]].
      * destruct f as [|f']; [reflexivity|]. cbn [process_loop].
        replace (nth_error L (S (n - 1))) with (@None event); [reflexivity|].
        symmetry. apply nth_error_None. lia.
      * cbn [sdepth sctr]. rewrite Hsd, Hsk. replace (S (n - 1)) with (length L) by lia.
        rewrite skipn_all_nil. cbn. lia.
      * rewrite Htsk in Hts. replace (S (n - 1)) with (length L) in Hts by lia.
        rewrite skipn_all_nil in Hts. cbn [tokn toksum] in Hts. lia.
    + apply IH; try lia; auto.
      * cbn [sdepth sctr]. lia.
      * cbn [GoodOut]. split; [|exact HG]. cbn [sdepth sctr].
        specialize (Hle (S i)). rewrite exc_suffix0 in Hle. specialize (Hpre (S i) ltac:(lia)). lia.
      * destruct HE as [o ->]. exists (StExit :: o). reflexivity.
      * cbn [stoksum stokn]. cbn [tokn] in Htsk. lia.
  - (* Token *)
    assert (i <> n - 1) as Hne by (intros ->; rewrite HlastL in Ee; discriminate).
    change (ctr (EToken k nr)) with 0%Z in Hsk.
    apply IH; try lia; auto.
    + cbn [sdepth sctr]. lia.
    + cbn [GoodOut]. split; [cbn [sdepth sctr]; lia|exact HG].
    + destruct HE as [o ->]. exists (StToken k nr :: o). reflexivity.
    + cbn [stoksum stokn]. cbn [tokn] in Htsk. lia.
  - (* Error *)
    assert (i <> n - 1) as Hne by (intros ->; rewrite HlastL in Ee; discriminate).
    change (ctr EError) with 0%Z in Hsk.
    apply IH; try lia; auto.
    + cbn [sdepth sctr]. lia.
    + cbn [GoodOut]. split; [cbn [sdepth sctr]; lia|exact HG].
    + destruct HE as [o ->]. exists (StError :: o). reflexivity.
    + cbn [stoksum stokn]. cbn [tokn] in Htsk. lia.
Qed.

Lemma process_loop_start f :
  process_loop (S f) L0 0 [] = process_loop f L0 1 [StEnter K_SOURCE_FILE].
Proof.
  cbn [process_loop]. rewrite Hfirst.
  replace (fp_chain (length L0) L0 0 None [K_SOURCE_FILE]) with (Some ([K_SOURCE_FILE], L0))
    by (destruct (length L0); reflexivity).
  cbn [filter map rev app].
  replace (negb (N.eqb K_SOURCE_FILE K_TOMBSTONE)) with true by (vm_compute; reflexivity).
  reflexivity.
Qed.

Hypothesis Htok0 : Forall tokpos L0.

Theorem process_shape :
  exists out', process L0 = Some (rev (StExit :: out')) /\ GoodOut out' /\ EndsSF out' /\
               sdepth (StExit :: out') = 0%Z /\ stoksum out' = toksum L0 /\ Forall stokpos out'.
Proof.
  assert (0 < n) as Hn0 by (unfold n; apply nth_error_Some; rewrite Hfirst; discriminate).
  assert (n - 1 <> 0) as Hn1 by (intros E; rewrite E, Hfirst in Hlast; discriminate).
  assert (length L0 = S (n - 1)) as EL by (unfold n in *; lia).
  unfold process. rewrite EL, process_loop_start.
  apply ploop; try lia; auto.
  - pose proof (exc_skipn_nth L0 0 _ Hfirst) as H. change (skipn 0 L0) with L0 in H. rewrite Htot in H.
    change (ctr (EStart K_SOURCE_FILE None)) with 1%Z in H. cbn [sdepth sctr]. lia.
  - cbn. split; [lia|exact I].
  - exists []. reflexivity.
  - pose proof (toksum_skipn_nth L0 0 _ Hfirst) as H. change (skipn 0 L0) with L0 in H. cbn [tokn] in H.
    cbn [stoksum stokn]. lia.
  - repeat constructor.
Qed.
End Proc.

(* ---------------- the parser's step list ---------------- *)
(* one well-bracketed tree rooted at SOURCE_FILE whose tokens carry [ntok] input tokens *)
Definition TreeSteps (ntok : nat) (st : list step) : Prop :=
  exists out', st = rev (StExit :: out') /\ GoodOut out' /\ EndsSF out' /\ sdepth (StExit :: out') = 0%Z /\
               stoksum out' = ntok /\ Forall stokpos out'.

Lemma toksum_rev l : toksum (rev l) = toksum l.
Proof. induction l as [|e l IH]; cbn [rev toksum]; [reflexivity|]. rewrite toksum_app, IH. cbn. lia. Qed.

Lemma final_process s : Final s -> exists st, process (rev (evs s)) = Some st /\ TreeSteps (pos s) st.
Proof.
  intros [Hl [HE [H0 [[r Hr] [Hpre [Htot [HT1 HT2]]]]]]].
  assert (length (rev (evs s)) = nev s) as Hlen by (rewrite rev_length; reflexivity).
  destruct (process_shape (rev (evs s))) as [out' [E H]].
  - apply evok_wfl. exact HE.
  - rewrite <- slot_rev. exact H0.
  - rewrite Hlen. rewrite Hr. cbn [rev]. unfold nev. rewrite Hr. cbn [length].
    rewrite nth_error_app2 by (rewrite rev_length; lia). rewrite rev_length.
    replace (S (length r) - 1 - length r) with 0 by lia. reflexivity.
  - intros k Hk. rewrite Hlen in Hk. rewrite firstn_rev, exc_rev. apply Hpre. unfold nev in *. lia.
  - rewrite exc_rev. exact Htot.
  - apply Forall_rev. exact HT2.
  - exists (rev (StExit :: out')). split; [exact E|]. exists out'. rewrite toksum_rev, HT1 in H.
    split; [reflexivity|exact H].
Qed.

Theorem run_parser_tree inp :
  (forall i k j, nth_error inp i = Some (k, j) -> k <> K_EOF) ->
  exists st, run_parser inp = Steps st /\ TreeSteps (ntoks inp) st.
Proof.
  intros Hno. pose proof (source_file_total inp Hno) as HA.
  pose proof (source_file_final inp (fuel_for inp)) as HB.
  unfold run_parser.
  destruct (source_file inp (tie inp (fuel_for inp)) init_state) as [[] s|w|].
  - destruct (final_process s HB) as [st [E HT]]. destruct HB as [Hl _]. rewrite Hl, E.
    exists st. split; [reflexivity|]. rewrite <- HA. exact HT.
  - exfalso. apply HB. destruct w; cbn in HA |- *; auto.
  - destruct HA.
Qed.

(* ---------------- process passes the Token events through, in order ---------------- *)
Fixpoint etoksn (L : list event) : list nat :=
  match L with [] => [] | EToken _ n :: r => n :: etoksn r | _ :: r => etoksn r end.
Fixpoint stoksn (st : list step) : list nat :=
  match st with [] => [] | StToken _ n :: r => n :: stoksn r | _ :: r => stoksn r end.
Lemma stoksn_app a b : stoksn (a ++ b) = stoksn a ++ stoksn b.
Proof. induction a as [|x a IH]; cbn [app stoksn]; [reflexivity|]. destruct x; rewrite IH; reflexivity. Qed.
Lemma stoksn_enters ks : stoksn (map StEnter ks) = [].
Proof. induction ks as [|k ks IH]; cbn [map stoksn]; auto. Qed.
Lemma etoksn_skipn_nth L : forall i e, nth_error L i = Some e ->
  etoksn (skipn i L) = (match e with EToken _ n => [n] | _ => [] end) ++ etoksn (skipn (S i) L).
Proof.
  induction L as [|x L IH]; intros [|i] e H; cbn in H; try discriminate.
  - injection H as ->. cbn [skipn etoksn]. destruct e; reflexivity.
  - cbn [skipn]. apply (IH i e H).
Qed.
Lemma etoksn_skipn_set_nth' L : forall p k fp k0 fp0 j,
  nth_error L p = Some (EStart k0 fp0) -> etoksn (skipn j (set_nth' L p (EStart k fp))) = etoksn (skipn j L).
Proof.
  induction L as [|e L IH]; intros [|p] k fp k0 fp0 [|j] H; cbn in H; try discriminate; cbn [set_nth' skipn].
  - injection H as ->. reflexivity.
  - reflexivity.
  - cbn [etoksn]. specialize (IH p k fp k0 fp0 0 H). cbn [skipn] in IH. rewrite IH. reflexivity.
  - apply (IH p k fp k0 fp0 j H).
Qed.
Lemma fp_chain_toks fuel : forall L idx fp acc kinds L',
  fp_chain fuel L idx fp acc = Some (kinds, L') ->
  length L' = length L /\ forall k, etoksn (skipn k L') = etoksn (skipn k L).
Proof.
  induction fuel as [|f IH]; intros L idx fp acc kinds L' H.
  - destruct fp; cbn in H; [discriminate|]. injection H as _ <-. auto.
  - destruct fp as [d|]; cbn [fp_chain] in H; [|injection H as _ <-; auto].
    destruct (nth_error L (idx + d)) as [[k fp'| | |]|] eqn:E; try discriminate.
    apply IH in H. destruct H as [H1 H2]. rewrite set_nth'_length in H1. split; [exact H1|].
    intros k0. rewrite H2. eapply etoksn_skipn_set_nth'; eauto.
Qed.
Lemma process_loop_toks fuel : forall L i out st,
  process_loop fuel L i out = Some st -> length L - i <= fuel ->
  stoksn st = stoksn (rev out) ++ etoksn (skipn i L).
Proof.
  induction fuel as [|f IH]; intros L i out st H Hf.
  - cbn in H. injection H as <-. rewrite skipn_all2 by lia. cbn. rewrite app_nil_r. reflexivity.
  - cbn [process_loop] in H. destruct (nth_error L i) as [e|] eqn:E.
    + pose proof (etoksn_skipn_nth L i e E) as Hs.
      assert (i < length L) as Hi by (apply nth_error_Some; congruence).
      destruct e as [k fp| |k n|].
      * destruct (fp_chain (length L) L i fp [k]) as [[kinds L']|] eqn:Ec; [|discriminate].
        apply fp_chain_toks in Ec. destruct Ec as [Hl Ht].
        apply IH in H; [|lia]. rewrite H, Hs, Ht. cbn [app].
        rewrite rev_app_distr, stoksn_app. rewrite rev_involutive.
        rewrite stoksn_enters.
        rewrite app_nil_r. reflexivity.
      * apply IH in H; [|lia]. rewrite H, Hs. cbn [rev app]. rewrite stoksn_app. cbn. rewrite app_nil_r. reflexivity.
      * apply IH in H; [|lia]. rewrite H, Hs. cbn [rev]. rewrite stoksn_app, <- app_assoc. reflexivity.
      * apply IH in H; [|lia]. rewrite H, Hs. cbn [rev app]. rewrite stoksn_app. cbn. rewrite app_nil_r. reflexivity.
    + injection H as <-. apply nth_error_None in E. rewrite skipn_all2 by lia. cbn. rewrite app_nil_r. reflexivity.
Qed.
Theorem process_toks L st : process L = Some st -> stoksn st = etoksn L.
Proof. intros H. apply process_loop_toks in H; [|lia]. exact H. Qed.
