(* Expression shapes (property C05): model expressions over all 19 binary and 3 unary operators,
   index, call and cast; a printer that inserts exactly the parentheses the OpenQASM 3 table
   requires, together with the shape the derivation has (expect); and the abstraction of a
   syntax tree to that same kind of shape (abstract).  The claim checked: the tree the pipeline
   model builds for the printed text has the expected shape. *)
From Coq Require Import NArith List Bool.
From OQ3 Require Import gen.Kinds Model.Lexer Model.Lexed Model.Parser Model.Grammar Model.Builder.
Import ListNotations.
Open Scope N_scope.

(* ---- ASCII text as lexer input ---- *)
Definition is_alpha (n : N) : bool := ((65 <=? n) && (n <=? 90)) || ((97 <=? n) && (n <=? 122)).
Definition is_dig (n : N) : bool := (48 <=? n) && (n <=? 57).
Definition ascii_ch (n : N) : ch :=
  {| cp := n; xs := is_alpha n; xc := is_alpha n || is_dig n || (n =? 95); em := false |}.
Definition text (l : list N) : list ch := map ascii_ch l.

(* ---- the OpenQASM 3 operator table (qasm3Parser.g4, loosest first) ---- *)
Inductive bop : Type :=
| OrOr | AndAnd | BOr | BXor | BAnd | Eq | Ne | Lt | Le | Gt | Ge | Shl | Shr | Add | Sub | Mul | Div | Mod | Pow.
Inductive uop : Type := UNeg | UNot | UTilde.

Definition all_bops : list bop :=
  [OrOr; AndAnd; BOr; BXor; BAnd; Eq; Ne; Lt; Le; Gt; Ge; Shl; Shr; Add; Sub; Mul; Div; Mod; Pow].
Definition all_uops : list uop := [UNeg; UNot; UTilde].

Definition bop_text (o : bop) : list N :=
  match o with
  | OrOr => [124; 124] | AndAnd => [38; 38] | BOr => [124] | BXor => [94] | BAnd => [38]
  | Eq => [61; 61] | Ne => [33; 61] | Lt => [60] | Le => [60; 61] | Gt => [62] | Ge => [62; 61]
  | Shl => [60; 60] | Shr => [62; 62] | Add => [43] | Sub => [45] | Mul => [42] | Div => [47]
  | Mod => [37] | Pow => [42; 42]
  end.
Definition uop_text (o : uop) : list N :=
  match o with UNeg => [45] | UNot => [33] | UTilde => [126] end.

(* precedence level, higher binds tighter *)
Definition bop_level (o : bop) : N :=
  match o with
  | OrOr => 1 | AndAnd => 2 | BOr => 3 | BXor => 4 | BAnd => 5 | Eq | Ne => 6
  | Lt | Le | Gt | Ge => 7 | Shl | Shr => 8 | Add | Sub => 9 | Mul | Div | Mod => 10 | Pow => 12
  end.
Definition unary_level : N := 11.
Definition postfix_level : N := 13.
Definition bop_rassoc (o : bop) : bool := match o with Pow => true | _ => false end.

(* ---- model expressions ---- *)
Inductive mexpr : Type :=
| XId (c : N)                       (* one-letter identifier *)
| XInt (d : N)                      (* one-digit integer *)
| XBin (o : bop) (l r : mexpr)
| XUn (o : uop) (e : mexpr)
| XIndex (b : mexpr) (i : mexpr)    (* b[i] *)
| XCall (f : N) (a1 : mexpr) (a2 : option mexpr)   (* f(a1) / f(a1, a2) *)
| XCast (e : mexpr)                 (* int[32](e) *)
| XParen (e : mexpr).               (* redundant parentheses written in the source *)

(* ---- shapes ---- *)
Inductive gtree : Type := G (k : N) (toks : list N) (kids : list gtree).

Definition is_trivia_kind (k : N) : bool := (k =? K_WHITESPACE) || (k =? K_COMMENT).

(* kind, concatenated text of the node's own non-trivia tokens, shapes of the child nodes *)
Fixpoint abstract (t : tree) : gtree :=
  match t with
  | Leaf k tx => G k (map cp tx) []
  | Node k cs =>
      G k
        (flat_map (fun c => match c with
                            | Leaf lk tx => if is_trivia_kind lk then [] else map cp tx
                            | Node _ _ => [] end) cs)
        ((fix go (l : list tree) : list gtree :=
            match l with
            | [] => []
            | Leaf _ _ :: r => go r
            | (Node _ _ as c) :: r => abstract c :: go r
            end) cs)
  end.

Definition paren (g : gtree) : gtree := G K_PAREN_EXPR [40; 41] [g].
Definition sp (a : list N) (o : list N) (b : list N) : list N := a ++ [32] ++ o ++ [32] ++ b.

(* an index chain rooted at an identifier is one INDEXED_IDENTIFIER with several operators *)
Fixpoint id_chain (e : mexpr) : option (N * list mexpr) :=
  match e with
  | XId c => Some (c, [])
  | XIndex b i => match id_chain b with Some (c, l) => Some (c, l ++ [i]) | None => None end
  | _ => None
  end.

Definition index_op (g : gtree) : gtree :=
  G K_INDEX_OPERATOR [91; 93] [G K_EXPRESSION_LIST [] [g]].

(* pr e parent right = (text with exactly the necessary parentheses, expected shape) where parent
   is the level of the enclosing operator and right says whether e is its right operand *)
Fixpoint pr (e : mexpr) (parent : N) (right : bool) {struct e} : list N * gtree :=
  match e with
  | XId c => ([c], G K_IDENTIFIER [c] [])
  | XInt d => ([d], G K_LITERAL [d] [])
  | XBin o l r =>
      let lv := bop_level o in
      let '(tl, gl) := pr l lv false in
      let '(tr, gr) := pr r lv true in
      let t := sp tl (bop_text o) tr in
      let g := G K_BIN_EXPR (bop_text o) [gl; gr] in
      if (lv <? parent) || ((lv =? parent) && negb (Bool.eqb right (bop_rassoc o)))
      then ([40] ++ t ++ [41], paren g) else (t, g)
  | XUn o x =>
      let '(tx, gx) := pr x unary_level true in
      let t := uop_text o ++ tx in
      let g := G K_PREFIX_EXPR (uop_text o) [gx] in
      if unary_level <? parent then ([40] ++ t ++ [41], paren g) else (t, g)
  | XIndex b i =>
      let '(tb, gb) := pr b postfix_level false in
      let '(ti, gi) := pr i 0 false in
      let t := tb ++ [91] ++ ti ++ [93] in
      match id_chain b with
      | Some _ =>
          (* gb is IDENTIFIER or INDEXED_IDENTIFIER: append one more operator *)
          match gb with
          | G k tk kids =>
              if k =? K_IDENTIFIER then (t, G K_INDEXED_IDENTIFIER [] [gb; index_op gi])
              else (t, G K_INDEXED_IDENTIFIER [] (kids ++ [index_op gi]))
          end
      | None => (t, G K_INDEX_EXPR [] [gb; index_op gi])
      end
  | XCall f a1 a2 =>
      let '(t1, g1) := pr a1 0 false in
      match a2 with
      | None =>
          ([f; 40] ++ t1 ++ [41],
           G K_CALL_EXPR [] [G K_IDENTIFIER [f] []; G K_ARG_LIST [] [G K_EXPRESSION_LIST [40; 41] [g1]]])
      | Some a =>
          let '(t2, g2) := pr a 0 false in
          ([f; 40] ++ t1 ++ [44; 32] ++ t2 ++ [41],
           G K_CALL_EXPR [] [G K_IDENTIFIER [f] [];
                             G K_ARG_LIST [] [G K_EXPRESSION_LIST [40; 44; 41] [g1; g2]]])
      end
  | XCast x =>
      let '(tx, gx) := pr x 0 false in
      ([105; 110; 116; 91; 51; 50; 93; 40] ++ tx ++ [41],
       G K_CAST_EXPRESSION [40; 41]
         [G K_SCALAR_TYPE [105; 110; 116] [G K_DESIGNATOR [91; 93] [G K_LITERAL [51; 50] []]]; gx])
  | XParen x =>
      let '(tx, gx) := pr x 0 false in ([40] ++ tx ++ [41], paren gx)
  end.

(* two contexts: the expression statement "e;" and the initializer "int x = e;" *)
Inductive ctx : Type := CStmt | CInit.
Fixpoint starts_with_type (e : mexpr) : bool :=
  match e with
  | XCast _ => true
  | XBin _ l _ => starts_with_type l
  | XIndex b _ => starts_with_type b
  | _ => false
  end.
Definition ctx_text (c : ctx) (e : mexpr) : list N :=
  match c with
  | CStmt => fst (pr e 0 false) ++ [59]
  | CInit => [105; 110; 116; 32; 120; 32; 61; 32] ++ fst (pr e 0 false) ++ [59]
  end.
Definition ctx_shape (c : ctx) (e : mexpr) : gtree :=
  match c with
  | CStmt => G K_SOURCE_FILE [] [G K_EXPR_STMT [59] [snd (pr e 0 false)]]
  | CInit => G K_SOURCE_FILE []
               [G K_CLASSICAL_DECLARATION_STATEMENT [61; 59]
                  [G K_SCALAR_TYPE [105; 110; 116] []; G K_NAME [120] []; snd (pr e 0 false)]]
  end.

(* what the pipeline model builds for a text: shape if it parsed without any diagnostic *)
Definition parsed_shape (l : list N) : option gtree :=
  match parse_source (text l) with
  | POk r =>
      match pr_parse_errors r, pr_lex_errors r, pr_timing_errors r with
      | [], [], [] => Some (abstract (pr_tree r))
      | _, _, _ => None
      end
  | _ => None
  end.

Fixpoint gtree_eqb (a b : gtree) {struct a} : bool :=
  match a, b with
  | G k1 t1 c1, G k2 t2 c2 =>
      (k1 =? k2) && (if list_eq_dec N.eq_dec t1 t2 then true else false) &&
      ((fix go (x : list gtree) (y : list gtree) : bool :=
          match x, y with
          | [], [] => true
          | p :: x', q :: y' => gtree_eqb p q && go x' y'
          | _, _ => false
          end) c1 c2)
  end.

Definition shape_ok_in (c : ctx) (e : mexpr) : bool :=
  match parsed_shape (ctx_text c e) with
  | Some g => gtree_eqb g (ctx_shape c e)
  | None => false
  end.
(* a statement that starts with a type keyword is a declaration, so an expression whose text
   starts with a cast is only considered as an initializer *)
Definition shape_ok (e : mexpr) : bool :=
  shape_ok_in CInit e && (starts_with_type e || shape_ok_in CStmt e).

(* ---- the finite families checked by computation ---- *)
Definition A := XId 97.  Definition B := XId 98.  Definition C := XId 99.
Definition pairs {X Y} (xs : list X) (ys : list Y) : list (X * Y) :=
  flat_map (fun x => map (fun y => (x, y)) ys) xs.

(* every ordered pair of binary operators, nested on either side: (a o1 b) o2 c  and  a o1 (b o2 c) *)
Definition two_binops : list mexpr :=
  flat_map (fun '(o1, o2) => [XBin o2 (XBin o1 A B) C; XBin o1 A (XBin o2 B C)]) (pairs all_bops all_bops).
(* every unary operator against every binary operator in each position, and nested unaries *)
Definition unary_mix : list mexpr :=
  flat_map (fun '(u, o) => [XBin o (XUn u A) B; XBin o A (XUn u B); XUn u (XBin o A B)]) (pairs all_uops all_bops)
  ++ map (fun '(u, v) => XUn u (XUn v A)) (pairs all_uops all_uops).
(* postfix forms (index, call, cast) against every binary and unary operator *)
Definition postfix_mix : list mexpr :=
  flat_map (fun o => [XBin o (XIndex A B) C; XBin o A (XIndex B C); XIndex (XBin o A B) C;
                      XBin o (XCall 102 A None) B; XBin o A (XCall 102 B (Some C)); XCall 102 (XBin o A B) (Some (XBin o B C));
                      XBin o (XCast A) B; XBin o A (XCast B); XCast (XBin o A B);
                      XIndex (XIndex A (XBin o B C)) (XInt 49); XIndex (XCall 102 A None) (XBin o B C)]) all_bops
  ++ flat_map (fun u => [XUn u (XIndex A B); XIndex (XUn u A) B; XUn u (XCall 102 A None); XUn u (XCast A);
                         XCast (XUn u A); XIndex A (XUn u B)]) all_uops.
(* redundant parentheses everywhere *)
Definition paren_mix : list mexpr :=
  flat_map (fun '(o1, o2) => [XBin o2 (XParen (XBin o1 (XParen A) B)) (XParen C); XParen (XBin o1 A (XParen (XBin o2 B C)))])
           (pairs all_bops all_bops).
(* three operators: every triple over a representative of each level *)
Definition level_reps : list bop := [OrOr; AndAnd; BOr; BXor; BAnd; Eq; Lt; Shl; Add; Mul; Pow].
Definition D := XId 100.
Definition three_binops : list mexpr :=
  flat_map (fun '(o1, (o2, o3)) =>
              [XBin o3 (XBin o2 (XBin o1 A B) C) D; XBin o1 A (XBin o2 B (XBin o3 C D));
               XBin o2 (XBin o1 A B) (XBin o3 C D); XBin o3 (XBin o1 A (XBin o2 B C)) D;
               XBin o1 A (XBin o3 (XBin o2 B C) D)])
           (pairs level_reps (pairs level_reps level_reps)).
