(* Lexical scoping (property C07).  A program is abstracted to its tree of scope items: a
   declaration of a name, a use of a name, or a scope construct enclosing items (each body of
   if / else / while / for / case / default, and a gate or subroutine definition's parameter list
   with its body).  compile gives the symbol-table operations the analyser performs for it
   (with_scope! = Enter ... Exit).  lres is the reference: a purely lexical resolver with an
   environment function and no notion of leaving a scope. *)
From Coq Require Import NArith List Bool.
From OQ3 Require Import Model.Types Model.SymTab.
Import ListNotations.
Open Scope N_scope.

Inductive item : Type :=
| IDecl (x : name) (t : Ty)
| IUse (x : name)
| IScope (sub : bool) (body : list item).

Definition scope_ty (sub : bool) : ScopeType := if sub then Subroutine else Local.

Fixpoint compile (it : item) : list op :=
  match it with
  | IDecl x t => [Bind x t]
  | IUse x => [Lookup x]
  | IScope sub b => Enter (scope_ty sub) :: flat_map compile b ++ [Exit]
  end.
Definition compile_all (its : list item) : list op := flat_map compile its.

(* what the analyser observes at each declaration and use *)
Inductive ev : Type :=
| EBound (i : id)       (* declaration created symbol i *)
| EDup                  (* redeclaration in the same scope: no symbol, diagnostic *)
| ERes (i : id)         (* use refers to symbol i *)
| EUnres.               (* use has no visible declaration: unresolved, diagnostic *)

Definition ev_of_out (o : out) : list ev :=
  match o with
  | OBound i => [EBound i] | OAlready => [EDup] | OFound i _ _ => [ERes i] | OMissing => [EUnres]
  | OOk | OPanic => []
  end.
Definition evs (xs : list out) : list ev := flat_map ev_of_out xs.

(* ---- reference: lexical resolution ---- *)
Definition env := name -> option id.
Definition ext (outer : env) (loc : list (name * id)) : env :=
  fun x => match assoc x loc with Some i => Some i | None => outer x end.

Section Items.
  Variable f : list (name * id) -> id -> item -> list ev * list (name * id) * id.
  Fixpoint lres_list (loc : list (name * id)) (nx : id) (l : list item)
    : list ev * list (name * id) * id :=
    match l with
    | [] => ([], loc, nx)
    | i :: r =>
        let '(e1, l1, n1) := f loc nx i in
        let '(e2, l2, n2) := lres_list l1 n1 r in
        (e1 ++ e2, l2, n2)
    end.
End Items.

(* outer: the declarations visible from enclosing blocks; loc: the declarations of the current
   block met so far (first one of a name wins); nx: the next symbol number *)
Fixpoint lres_item (outer : env) (loc : list (name * id)) (nx : id) (it : item) {struct it}
  : list ev * list (name * id) * id :=
  match it with
  | IDecl x _ =>
      match assoc x loc with
      | Some _ => ([EDup], loc, nx)
      | None => ([EBound nx], (x, nx) :: loc, N.succ nx)
      end
  | IUse x =>
      match ext outer loc x with
      | Some i => ([ERes i], loc, nx)
      | None => ([EUnres], loc, nx)
      end
  | IScope _ body =>
      let '(es, _, n') := lres_list (lres_item (ext outer loc)) [] nx body in
      (es, loc, n')
  end.

(* the global block starts with the built-in names *)
Definition loc_of (m : list (name * (id * Ty))) : list (name * id) :=
  map (fun '(n, (i, _)) => (n, i)) m.
Definition init_loc : list (name * id) :=
  match sstack sinit with (_, m) :: _ => loc_of m | [] => [] end.
Definition init_next : id := nlen (shist sinit).
Definition lres_prog (its : list item) : list ev :=
  fst (fst (lres_list (lres_item (fun _ => None)) init_loc init_next its)).

(* number of scopes left open by a history *)
Definition open_scopes (h : list op) : N := nlen (scopes (fst (run init h))).
