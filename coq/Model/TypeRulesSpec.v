(* Specification side of property C08 for declarations and assignments: what "sound" means,
   which conversions are "downward", the known finding classes of the pinned tree, and the
   executable oracle applied to the implementation's observed behaviour. *)
From Coq Require Import NArith List Bool.
From OQ3 Require Import Model.Types Model.TypesSpec Model.TypeRules.
Import ListNotations.
Open Scope N_scope.

(* either a diagnostic, or the value's final type equals the target up to const-ness *)
Definition c08_sound (target val : Ty) (r : check_res) : bool :=
  cr_diag r || equal_up_to_constness (final_type target val r) target.

(* kinds that convert to or from nothing else *)
Definition special (t : Ty) : bool :=
  match t with
  | Bit _ | Bool _ | Duration _ | Stretch _ | Angle _ _ | BitArray _ _ => true
  | _ => false
  end.
Definition width_lt (a b : option N) : bool :=    (* a strictly below b *)
  match a, b with
  | Some x, Some y => x <? y
  | Some _, None => true
  | None, _ => false
  end.
(* a conversion of a value of type [val] into [target] that changes kind downwards, or narrows
   the width of a non-constant value *)
Definition downward_conv (target val : Ty) : bool :=
  match level target, level val with
  | Some lt, Some lv =>
      (lt <? lv)
      || (equal_base_type target val && width_lt (width target) (width val) && negb (is_const val))
  | _, _ =>
      (special target || special val) && negb (equal_base_type target val)
      && negb (is_void val) && negb (is_void target)
  end.

(* ---- known finding classes (declaration) ---- *)
(* non-literal value on a lower or equal level whose promotion with the target is neither the
   target nor the value itself: a const value of the same base, wider, into a non-const target *)
Definition k_decl_const_narrow (target val : Ty) (lit : lit_info) : bool :=
  match lit with
  | NotLiteral =>
      equal_base_type target val && numeric target && is_const val && negb (is_const target)
      && width_lt (width target) (width val)
  | _ => false
  end.
(* ---- known finding classes (assignment) ---- *)
(* an integer literal assigned to a symbol that is not an unsigned integer and not of the
   literal's own type: neither cast nor diagnosed *)
Definition k_assign_int_literal (sym val : Ty) (lit : lit_info) : bool :=
  match lit with
  | LitInt _ => negb (is_uint sym) && negb (ty_eqb val sym) && negb (equal_up_to_dims val sym)
  | _ => false
  end.

(* ---- the oracle: laws on OBSERVED behaviour (cast?, diag?) ---- *)
Definition c08_decl_laws (target val : Ty) (lit : lit_info) (cast diag : bool) : list N :=
  let r := {| cr_cast := cast; cr_diag := diag |} in
  (if c08_sound target val r || k_decl_const_narrow target val lit then [] else [1]) ++
  (if negb (downward_conv target val) || diag
      || k_decl_const_narrow target val lit then [] else [2]).
Definition c08_assign_laws (sym val : Ty) (lit : lit_info) (cast diag : bool) : list N :=
  let r := {| cr_cast := cast; cr_diag := diag |} in
  (if c08_sound sym val r || k_assign_int_literal sym val lit then [] else [1]) ++
  (if negb (downward_conv sym val) || diag || k_assign_int_literal sym val lit then [] else [2]).

(* which known finding actually manifests on the observed behaviour (for KNOWN-FINDING lines):
   201 const value narrowed silently (decl),
   203 integer literal assigned without cast or diagnostic (assign) *)
Definition c08_decl_known (target val : Ty) (lit : lit_info) (cast diag : bool) : list N :=
  let r := {| cr_cast := cast; cr_diag := diag |} in
  let bad := negb (c08_sound target val r) || (downward_conv target val && negb diag) in
  if bad then
    (if k_decl_const_narrow target val lit then [201] else [])
  else [].
Definition c08_assign_known (sym val : Ty) (lit : lit_info) (cast diag : bool) : list N :=
  let r := {| cr_cast := cast; cr_diag := diag |} in
  let bad := negb (c08_sound sym val r) || (downward_conv sym val && negb diag) in
  if bad && k_assign_int_literal sym val lit then [203] else [].
