(* Model M2b: shortcuts.rs:intersperse_trivia (Builder), syntax_node.rs:SyntaxTreeBuilder on top
   of rowan's GreenNodeBuilder (modelled as the obvious rose-tree builder: finish panics unless
   exactly one root node and no open node), parsing.rs:{parse_text, parse_text_check_lex,
   build_tree}, validation.rs (timing-literal unit check; the unescape module is an oracle and
   is not modelled), and lib.rs:SourceFile::{parse, parse_check_lex}. *)
From Coq Require Import NArith Arith List Bool.
From OQ3 Require Import gen.Kinds Model.Lexer Model.Lexed Model.Parser Model.Grammar.
Import ListNotations.
Local Open Scope nat_scope.

Inductive strstep :=
| SEnter (k : N) | SExit | SToken (k : N) (text : list ch) | SError (byte_pos : N).

Inductive bstate := PendingEnter | Normal | PendingExit.

Inductive bres (A : Type) := BOk (a : A) | BPanic (what : N).
Arguments BOk {A}. Arguments BPanic {A}.

Section B.
Variable kinds : list N.            (* lexed.kind(i), i < len (EOF excluded) *)
Variable texts : list (list ch).    (* lexed.text(i) *)
Variable starts : list N.           (* lexed.text_start(i), i <= len *)
Definition blen_tokens : nat := length texts.

Record bst := { bpos : nat; bstate_ : bstate; bout : list strstep (* reversed *) }.

Definition emit (x : strstep) (b : bst) : bst :=
  {| bpos := bpos b; bstate_ := bstate_ b; bout := x :: bout b |}.
Definition set_state (st : bstate) (b : bst) : bst :=
  {| bpos := bpos b; bstate_ := st; bout := bout b |}.

(* rust: do_token -- range_text asserts start < end <= len *)
Definition do_token (k : N) (n : nat) (b : bst) : bres bst :=
  if (0 <? n) && (bpos b + n <=? blen_tokens) then
    BOk {| bpos := bpos b + n; bstate_ := bstate_ b;
           bout := SToken k (concat (firstn n (skipn (bpos b) texts))) :: bout b |}
  else BPanic 1.

Definition kind_i (i : nat) : N := nth i kinds K_EOF.

(* rust: eat_trivias; fuel = number of tokens *)
Fixpoint eat_trivias (fuel : nat) (b : bst) : bres bst :=
  match fuel with
  | O => BOk b
  | S f =>
      if (bpos b <? blen_tokens) && is_trivia (kind_i (bpos b)) then
        match do_token (kind_i (bpos b)) 1 b with
        | BOk b' => eat_trivias f b'
        | BPanic w => BPanic w
        end
      else BOk b
  end.

Definition b_token (k : N) (n : nat) (b : bst) : bres bst :=
  match bstate_ b with
  | PendingEnter => BPanic 2
  | st =>
      let b1 := match st with PendingExit => emit SExit b | _ => b end in
      match eat_trivias blen_tokens (set_state Normal b1) with
      | BOk b2 => do_token k n b2
      | BPanic w => BPanic w
      end
  end.

(* rust: enter -- n_attached_trivias is 0 for every kind the grammar produces (only CONST, which
   the grammar never completes, attaches comments) *)
Definition b_enter (k : N) (b : bst) : bres bst :=
  match bstate_ b with
  | PendingEnter => BOk (emit (SEnter k) (set_state Normal b))
  | st =>
      let b1 := match st with PendingExit => emit SExit b | _ => b end in
      match eat_trivias blen_tokens (set_state Normal b1) with
      | BOk b2 => BOk (emit (SEnter k) b2)
      | BPanic w => BPanic w
      end
  end.

Definition b_exit (b : bst) : bres bst :=
  match bstate_ b with
  | PendingEnter => BPanic 3
  | PendingExit => BOk (emit SExit b)            (* state stays PendingExit *)
  | Normal => BOk (set_state PendingExit b)
  end.

Definition b_error (b : bst) : bres bst :=
  if bpos b <=? blen_tokens then BOk (emit (SError (nth (bpos b) starts 0%N)) b) else BPanic 4.

Fixpoint b_steps (l : list step) (b : bst) : bres bst :=
  match l with
  | [] => BOk b
  | x :: r =>
      match (match x with
             | StToken k n => b_token k n b
             | StEnter k => b_enter k b
             | StExit => b_exit b
             | StError => b_error b
             end) with
      | BOk b' => b_steps r b'
      | BPanic w => BPanic w
      end
  end.

(* rust: intersperse_trivia: returns the StrSteps (oldest first) and is_eof *)
Definition intersperse_trivia (l : list step) : bres (list strstep * bool) :=
  match b_steps l {| bpos := 0; bstate_ := PendingEnter; bout := [] |} with
  | BPanic w => BPanic w
  | BOk b =>
      match bstate_ b with
      | PendingExit =>
          match eat_trivias blen_tokens (set_state Normal b) with
          | BOk b2 => BOk (rev (SExit :: bout b2), bpos b2 =? blen_tokens)
          | BPanic w => BPanic w
          end
      | _ => BPanic 5
      end
  end.
End B.

(* ---------------- the rose tree (rowan GreenNodeBuilder) ---------------- *)
Inductive tree := Node (k : N) (children : list tree) | Leaf (k : N) (text : list ch).

Fixpoint tree_build (l : list strstep) (stack : list (N * list tree)) (roots : list tree)
                    (errs : list N) : bres (tree * list N) :=
  match l with
  | [] =>
      match stack, roots with
      | [], [Node k c] => BOk (Node k c, rev errs)
      | _, _ => BPanic 10      (* GreenNodeBuilder::finish: not exactly one root node *)
      end
  | x :: r =>
      match x with
      | SEnter k => tree_build r ((k, []) :: stack) roots errs
      | SToken k t =>
          match stack with
          | (pk, ch) :: st => tree_build r ((pk, Leaf k t :: ch) :: st) roots errs
          | [] => tree_build r stack (Leaf k t :: roots) errs
          end
      | SExit =>
          match stack with
          | (k, ch) :: (pk, pch) :: st => tree_build r ((pk, Node k (rev ch) :: pch) :: st) roots errs
          | [(k, ch)] => tree_build r [] (Node k (rev ch) :: roots) errs
          | [] => BPanic 11    (* finish_node without a parent *)
          end
      | SError p => tree_build r stack roots (p :: errs)
      end
  end.

(* leaves in document order *)
Fixpoint leaves (t : tree) : list (N * list ch) :=
  match t with
  | Leaf k x => [(k, x)]
  | Node _ c => flat_map leaves c
  end.
Definition tree_text (t : tree) : list ch := flat_map snd (leaves t).
Definition tree_kind (t : tree) : N := match t with Node k _ | Leaf k _ => k end.

(* ---------------- validation.rs (timing literal units) ---------------- *)
Definition unit_texts : list (list N) :=
  [[115]; [109; 115]; [117; 115]; [181; 115]; [110; 115]; [100; 116]; [105; 109]]%N.
Definition first_child_token_text (t : tree) : option (list ch) :=
  match t with
  | Node _ (Leaf _ x :: _) => Some x
  | _ => None
  end.
Definition find_child_node (k : N) (c : list tree) : option tree :=
  find (fun t => match t with Node k' _ => N.eqb k k' | _ => false end) c.
Definition first_nontrivia (c : list tree) : option tree :=
  find (fun t => negb (is_trivia (tree_kind t))) c.

(* the token kinds Literal::kind can classify (anything else is its unreachable!()) *)
Definition literal_token_kind (k : N) : bool :=
  existsb (N.eqb k) [K_INT_NUMBER; K_FLOAT_NUMBER; K_STRING; K_BIT_STRING; K_CHAR; K_BYTE; K_TRUE_KW; K_FALSE_KW].

(* walks the tree in pre-order; returns byte ranges of bad timing literals, or a panic:
   20 = Literal::token unwrap, 21 = TimingLiteral::identifier unwrap, 22 = text_of_first_token,
   23 = Literal::kind unreachable (the first token of a LITERAL node is not a literal token) *)
Fixpoint validate (t : tree) (off : N) : bres (list (N * N)) :=
  match t with
  | Leaf _ _ => BOk []
  | Node k c =>
      let here :=
        if N.eqb k K_LITERAL then
          match first_nontrivia c with
          | Some (Leaf lk _) => if literal_token_kind lk then BOk [] else BPanic 23
          | _ => BPanic 20
          end
        else if N.eqb k K_TIMING_LITERAL then
          match find_child_node K_IDENTIFIER c with
          | Some idn =>
              match first_child_token_text idn with
              | Some x => if existsb (list_N_eqb (cps x)) unit_texts then BOk []
                          else BOk [(off, (off + blen (tree_text t))%N)]
              | None => BPanic 22
              end
          | None => BPanic 21
          end
        else BOk [] in
      match here with
      | BPanic w => BPanic w
      | BOk e0 =>
          (fix go (cs : list tree) (o : N) (acc : list (N * N)) : bres (list (N * N)) :=
             match cs with
             | [] => BOk acc
             | x :: r =>
                 match validate x o with
                 | BPanic w => BPanic w
                 | BOk e => go r (o + blen (tree_text x))%N (acc ++ e)
                 end
             end) c off e0
      end
  end.

(* ---------------- the pipeline ---------------- *)
Record parse_result := {
  pr_tree : tree;
  pr_parse_errors : list N;            (* byte offsets *)
  pr_lex_errors : list (N * N);        (* byte ranges *)
  pr_timing_errors : list (N * N)
}.
Inductive pipe_outcome :=
| POk (r : parse_result)
| PNoTree (lex_errors : list (N * N))          (* parse_check_lex with lexical errors *)
| PPanic (stage : N) (what : N)                (* stage: 1 parser, 2 builder, 3 tree, 4 validation *)
| PHang.

Definition lex_error_ranges (lx : lexed) : list (N * N) :=
  map (fun i => (nth (N.to_nat i) (lstarts lx) 0%N, nth (S (N.to_nat i)) (lstarts lx) 0%N)) (lerrors lx).

Definition site_code (w : site) : N :=
  match w with
  | SBumpAssert => 1 | SNthAssert => 2 | SGrammarAssert n => (100 + n)%N | SMarker n => (200 + n)%N
  | SDropBomb => 3 | SProcess => 4 | SUnreachable n => (300 + n)%N
  end.

(* rust: SourceFile::parse *)
Definition parse_source (l : list ch) : pipe_outcome :=
  let lx := lexed_of l in
  let kinds := removelast (lkinds lx) in
  match run_parser (to_input lx) with
  | Hang => PHang
  | Panicked w => PPanic 1 (site_code w)
  | Steps st =>
      match intersperse_trivia kinds (ltexts lx) (lstarts lx) st with
      | BPanic w => PPanic 2 w
      | BOk (ss, _) =>
          match tree_build ss [] [] [] with
          | BPanic w => PPanic 3 w
          | BOk (t, perrs) =>
              match validate t 0%N with
              | BPanic w => PPanic 4 w
              | BOk te =>
                  if N.eqb (tree_kind t) K_SOURCE_FILE then
                    POk {| pr_tree := t; pr_parse_errors := perrs;
                           pr_lex_errors := lex_error_ranges lx; pr_timing_errors := te |}
                  else PPanic 4 30     (* assert_eq!(root.kind(), SOURCE_FILE) *)
              end
          end
      end
  end.

(* rust: SourceFile::parse_check_lex *)
Definition parse_check_lex (l : list ch) : pipe_outcome :=
  let lx := lexed_of l in
  match lerrors lx with
  | _ :: _ => PNoTree (lex_error_ranges lx)
  | [] => parse_source l
  end.
