(* Model M6: oq3_semantics/src/symbols.rs (SymbolTable), hand-written, executable.
   Names are numbers (the harness maps them to strings); types are Model.Types.Ty.
   Tied to /repo by the `symtab` correspondence (bounded-exhaustive histories). *)
From Coq Require Import NArith List Bool.
From OQ3 Require Import Model.Types.
Import ListNotations.
Open Scope N_scope.

Inductive ScopeType := Global | Subroutine | Calibration | Local.

Definition name := N.
Definition id := N.

(* one scope: scope type + association list name -> id (HashMap<String,SymbolId>) *)
Definition scope := (ScopeType * list (name * id))%type.

Record state := {
  scopes : list scope;            (* innermost first (Vec, last = current) *)
  all : list (name * Ty)          (* all_symbols, index = SymbolId; counter = length *)
}.

Inductive op :=
| Enter (st : ScopeType)
| Exit
| Bind (n : name) (t : Ty)          (* new_binding *)
| Lookup (n : name)                 (* lookup *)
| LookupOrNew (n : name) (t : Ty).  (* lookup_or_new_binding *)

Inductive out :=
| OOk                               (* enter / exit returned *)
| OPanic                            (* assert!/panic! fired; the history ends *)
| OBound (i : id)
| OAlready
| OFound (i : id) (n : name) (t : Ty)
| OMissing.

Fixpoint assoc (n : name) (l : list (name * id)) : option id :=
  match l with
  | [] => None
  | (m, i) :: r => if N.eqb n m then Some i else assoc n r
  end.

Fixpoint lookup_scopes (n : name) (ss : list scope) : option id :=
  match ss with
  | [] => None
  | (_, m) :: r => match assoc n m with Some i => Some i | None => lookup_scopes n r end
  end.

Definition is_global (st : ScopeType) : bool :=
  match st with Global => true | _ => false end.

Definition nlen {A} (l : list A) : N := N.of_nat (length l).

(* rust: symbols.rs:new_binding_no_check.  Panics (current_scope_mut().unwrap()) when no scope. *)
Definition bind_no_check (s : state) (n : name) (t : Ty) : state * out :=
  match scopes s with
  | [] => (s, OPanic)
  | (st, m) :: r =>
      let i := nlen (all s) in
      ({| scopes := (st, (n, i) :: m) :: r; all := all s ++ [(n, t)] |}, OBound i)
  end.

Definition step (s : state) (o : op) : state * out :=
  match o with
  | Enter st =>
      (* rust: enter_scope *)
      if is_global st && negb (N.eqb (nlen (scopes s)) 0) then (s, OPanic)
      else ({| scopes := (st, []) :: scopes s; all := all s |}, OOk)
  | Exit =>
      (* rust: exit_scope: assert!(len > 1) *)
      match scopes s with
      | _ :: (_ :: _) as r => ({| scopes := r; all := all s |}, OOk)
      | _ => (s, OPanic)
      end
  | Bind n t =>
      (* rust: new_binding *)
      match scopes s with
      | [] => (s, OPanic)
      | (_, m) :: _ =>
          match assoc n m with
          | Some _ => (s, OAlready)
          | None => bind_no_check s n t
          end
      end
  | Lookup n =>
      match lookup_scopes n (scopes s) with
      | Some i =>
          match nth_error (all s) (N.to_nat i) with
          | Some (m, t) => (s, OFound i m t)
          | None => (s, OPanic)               (* index out of bounds *)
          end
      | None => (s, OMissing)
      end
  | LookupOrNew n t =>
      match lookup_scopes n (scopes s) with
      | Some i =>
          match nth_error (all s) (N.to_nat i) with
          | Some _ => (s, OBound i)
          | None => (s, OPanic)
          end
      | None => bind_no_check s n t
      end
  end.

(* run a history; it ends at the first panic (the process would abort) *)
Fixpoint run (s : state) (h : list op) : state * list out :=
  match h with
  | [] => (s, [])
  | o :: r =>
      let '(s', x) := step s o in
      match x with
      | OPanic => (s', [OPanic])
      | _ => let '(s'', xs) := run s' r in (s'', x :: xs)
      end
  end.

(* rust: SymbolTable::new.  Built-in names are numbered 100..106:
   pi, π, euler, ℇ, tau, τ, U *)
Definition builtin_names : list name := [100; 101; 102; 103; 104; 105].
Definition name_U : name := 106.
Definition builtin_ops : list op :=
  Enter Global :: map (fun n => Bind n (Float (Some 64) true)) builtin_names
  ++ [Bind name_U (Gate 3 1)].
Definition empty : state := {| scopes := []; all := [] |}.
Definition init : state := fst (run empty builtin_ops).

(* ---------------- abstract specification: a stack of maps ---------------- *)
(* A binding carries its id, name and type; a scope is an association list;
   the table is a stack of scopes plus the count of ids handed out and the
   record of every id ever handed out. *)
Record sstate := {
  sstack : list (ScopeType * list (name * (id * Ty)));
  shist : list (name * Ty)          (* id k was given to (name,type) = k-th entry *)
}.

Fixpoint sassoc (n : name) (l : list (name * (id * Ty))) : option (id * Ty) :=
  match l with
  | [] => None
  | (m, v) :: r => if N.eqb n m then Some v else sassoc n r
  end.
Fixpoint slookup (n : name) (ss : list (ScopeType * list (name * (id * Ty)))) : option (id * Ty) :=
  match ss with
  | [] => None
  | (_, m) :: r => match sassoc n m with Some v => Some v | None => slookup n r end
  end.

Definition sbind (s : sstate) (n : name) (t : Ty) : sstate * out :=
  match sstack s with
  | [] => (s, OPanic)
  | (st, m) :: r =>
      let i := nlen (shist s) in
      ({| sstack := (st, (n, (i, t)) :: m) :: r; shist := shist s ++ [(n, t)] |}, OBound i)
  end.

Definition sstep (s : sstate) (o : op) : sstate * out :=
  match o with
  | Enter st =>
      if is_global st && negb (N.eqb (nlen (sstack s)) 0) then (s, OPanic)
      else ({| sstack := (st, []) :: sstack s; shist := shist s |}, OOk)
  | Exit =>
      match sstack s with
      | _ :: (_ :: _) as r => ({| sstack := r; shist := shist s |}, OOk)
      | _ => (s, OPanic)
      end
  | Bind n t =>
      match sstack s with
      | [] => (s, OPanic)
      | (_, m) :: _ =>
          match sassoc n m with
          | Some _ => (s, OAlready)
          | None => sbind s n t
          end
      end
  | Lookup n =>
      match slookup n (sstack s) with
      | Some (i, t) => (s, OFound i n t)
      | None => (s, OMissing)
      end
  | LookupOrNew n t =>
      match slookup n (sstack s) with
      | Some (i, _) => (s, OBound i)
      | None => sbind s n t
      end
  end.

Fixpoint srun (s : sstate) (h : list op) : sstate * list out :=
  match h with
  | [] => (s, [])
  | o :: r =>
      let '(s', x) := sstep s o in
      match x with
      | OPanic => (s', [OPanic])
      | _ => let '(s'', xs) := srun s' r in (s'', x :: xs)
      end
  end.

Definition sempty : sstate := {| sstack := []; shist := [] |}.
Definition sinit : sstate := fst (srun sempty builtin_ops).

(* abstraction function: concrete state -> spec state (defined when ids are in range) *)
Definition ty_at (a : list (name * Ty)) (i : id) : Ty :=
  match nth_error a (N.to_nat i) with Some (_, t) => t | None => Undefined end.
Definition abs_scope (a : list (name * Ty)) (sc : scope) : ScopeType * list (name * (id * Ty)) :=
  (fst sc, map (fun '(n, i) => (n, (i, ty_at a i))) (snd sc)).
Definition abs (s : state) : sstate :=
  {| sstack := map (abs_scope (all s)) (scopes s); shist := all s |}.
