(* Specification-side definitions for property C20 (no proofs): the order on the numeric
   tower, the known finding classes of the pinned tree, and the executable oracle that the
   correspondence driver applies to the implementation's observed results. *)
From Coq Require Import NArith List Bool.
From OQ3 Require Import Model.Types.
Import ListNotations.
Open Scope N_scope.

(* ---------- the order of property C20 ---------- *)

(* level in the numeric tower: int, uint below float below complex *)
Definition level (t : Ty) : option N :=
  match t with
  | Int _ _ | UInt _ _ => Some 0
  | Float _ _ => Some 1
  | Complex _ _ => Some 2
  | _ => None
  end.

(* 'no width' above every width, larger widths above smaller ones *)
Definition width_le (a b : option N) : bool :=
  match a, b with
  | _, None => true
  | Some x, Some y => x <=? y
  | None, Some _ => false
  end.

(* a is below b: equal up to const-ness, or a's level is strictly lower,
   or same base type and a's width is below b's. *)
Definition ty_le (a b : Ty) : bool :=
  equal_up_to_constness a b ||
  match level a, level b with
  | Some la, Some lb =>
      (la <? lb) || (equal_base_type a b && width_le (width a) (width b))
  | _, _ => false
  end.

Definition ub (a b c : Ty) : bool := ty_le a c && ty_le b c.

Definition numeric (t : Ty) : bool :=
  match level t with Some _ => true | None => false end.

(* decidable "a and b have an upper bound" *)
Definition has_bound (a b : Ty) : bool :=
  equal_up_to_constness a b || (numeric a && numeric b).

(* ---------- known finding classes (pinned tree) ---------- *)

(* K1a: equal up to const-ness, first const, second not: result is the first *)
Definition k_const_eq (a b : Ty) : bool :=
  equal_up_to_constness a b && is_const a && negb (is_const b).
(* K1b: different levels: result is the higher operand with its own const flag *)
Definition k_const_cross (a b : Ty) : bool :=
  match level a, level b with
  | Some la, Some lb =>
      if la <? lb then is_const b && negb (is_const a)
      else if lb <? la then is_const a && negb (is_const b)
      else false
  | _, _ => false
  end.
(* K2: two complex types of different component width *)
Definition k_complex (a b : Ty) : bool :=
  match a, b with
  | Complex w1 _, Complex w2 _ => negb (width_eqb w1 w2)
  | _, _ => false
  end.
(* K3: signed with unsigned *)
Definition k_sign (a b : Ty) : bool :=
  match a, b with
  | Int _ _, UInt _ _ | UInt _ _, Int _ _ => true
  | _, _ => false
  end.
Definition known_C20 (a b : Ty) : bool :=
  k_const_eq a b || k_const_cross a b || k_complex a b || k_sign a b.


(* "float or complex into an integer target, complex into a float target" *)
Definition downward (t l : Ty) : bool :=
  match level t, level l with
  | Some lt, Some ll => lt <? ll
  | _, _ => false
  end.

(* The laws of C20 evaluated on OBSERVED results:
   p = promote(a,b), q = promote(b,a), paa = promote(a,a), ccl = can_cast_literal(a,b).
   Returns the numbers of the violated laws; pairs in a known class are exempt from the
   law their class concerns (and only from that one). *)
Definition c20_laws (a b p q paa : Ty) (ccl : bool) : list N :=
  (if equal_up_to_constness p q then [] else [1]) ++
  (if ty_eqb paa a then [] else [2]) ++
  (if is_void p || (ty_le a p && ty_le b p) then [] else [3]) ++
  (if is_void p || (k_const_eq a b || k_const_cross a b
                    || Bool.eqb (is_const p) (is_const a && is_const b)) then [] else [4]) ++
  (if (is_void a && is_void b) || k_complex a b || k_sign a b
      || Bool.eqb (is_void p) (negb (has_bound a b)) then [] else [5]) ++
  (if is_void p || negb (equal_up_to_constness p a) || ccl then [] else [6]) ++
  (if downward a b && ccl then [7] else []).

(* which known finding manifests on the observed result (for KNOWN-FINDING lines) *)
Definition c20_known_hits (a b p : Ty) : list N :=
  (if k_const_eq a b && negb (is_void p) && negb (Bool.eqb (is_const p) (is_const a && is_const b)) then [101] else []) ++
  (if k_const_cross a b && negb (is_void p) && negb (Bool.eqb (is_const p) (is_const a && is_const b)) then [102] else []) ++
  (if k_complex a b && is_void p then [103] else []) ++
  (if k_sign a b && is_void p then [104] else []).
