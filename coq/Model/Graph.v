(* Structure of the semantic graph (property C06): how syntax_to_semantic, stmt_to_asg_stmt,
   block_expr_to_asg_stmt_list and block_or_stmt_to_asg_type arrange the translated statements.
   Source and graph are generic labelled trees.  Statements whose translation has the same
   structure as their source (declarations, assignments, gate calls, reset, ...) are leaves with
   opaque content here; the structural statements, blocks, annotations, includes and the version
   line are modelled.  tr_top is the top-level loop; pending annotations are one global list
   (Context.annotations), threaded through nested blocks exactly as the analyser does. *)
From Coq Require Import NArith List Bool.
Import ListNotations.
Open Scope N_scope.

Inductive gn : Type := GN (label : N) (kids : list gn).

(* source labels *)
Definition L_ANN := 1.  Definition L_VERSION := 2.  Definition L_INC_STD := 3.  Definition L_INC_FILE := 4.
Definition L_EMPTY := 15.   (* the empty statement `;`: no node in the tree, nothing in the graph *)
Definition L_IF := 5.  Definition L_WHILE := 6.  Definition L_FOR := 7.  Definition L_SWITCH := 8.
Definition L_GATEDEF := 9.  Definition L_DEF := 10.  Definition L_BLOCK := 11.  Definition L_SINGLE := 12.
Definition L_LEAF := 13.  Definition L_CASE := 14.
(* graph labels *)
Definition O_ANNOTATED := 50.  Definition O_IF := 51.  Definition O_WHILE := 52.  Definition O_FOR := 53.
Definition O_SWITCH := 54.  Definition O_GATEDEF := 55.  Definition O_DEF := 56.  Definition O_BLOCK := 57.
Definition O_SOME := 58.  Definition O_NONE := 59.  Definition O_STMTS := 60.  Definition O_CASE := 61.
Definition O_LEAF := 62.  Definition O_ANNS := 63.  Definition O_BAD := 99.

Definition label_of (g : gn) : N := match g with GN l _ => l end.
Definition kids_of (g : gn) : list gn := match g with GN _ k => k end.
Definition none : gn := GN O_NONE [].
Definition some (g : gn) : gn := GN O_SOME [g].

Definition cons_opt (o : option gn) (l : list gn) : list gn :=
  match o with Some g => g :: l | None => l end.

(* The analyser keeps one list of pending annotations (Context.annotations).  stmt_to_asg_stmt
   and everything below it only ever append to that list; it is read and emptied only by the
   top-level loop.  So the translation splits into the structure of a statement (tr_stmt, which
   ignores annotations) and the annotations met while translating it, in the order met
   (anns_of): the top-level loop attaches pending ++ anns_of s to the translation of s. *)
Definition is_empty_single (b : gn) : bool :=
  match b with
  | GN l ks => negb (l =? L_BLOCK) && match ks with [GN l2 _] => l2 =? L_EMPTY | _ => false end
  end.
Fixpoint tr_stmt (s : gn) {struct s} : option gn :=
  let tr_list :=
    fix tl (ss : list gn) {struct ss} : list gn :=
      match ss with
      | [] => []
      | x :: r => cons_opt (tr_stmt x) (tl r)
      end in
  (* block_or_stmt_to_asg_type: a block, or a single statement wrapped in a block *)
  let tr_body (b : gn) : gn :=
    match b with
    | GN l ks =>
        if l =? L_BLOCK then GN O_BLOCK (tr_list ks)
        else match ks with
             | [x] => GN O_BLOCK (cons_opt (tr_stmt x) [])   (* a statement that produces nothing: empty block *)
             | _ => GN O_BAD []
             end
    end in
  let tr_cases :=
    fix tc (cs : list gn) {struct cs} : list gn :=
      match cs with
      | [] => []
      | GN _ [vals; GN _ body] :: r => GN O_CASE [vals; GN O_STMTS (tr_list body)] :: tc r
      | _ :: r => GN O_BAD [] :: tc r
      end in
  match s with
  | GN l ks =>
      if (l =? L_ANN) || (l =? L_VERSION) || (l =? L_INC_STD) || (l =? L_INC_FILE) || (l =? L_EMPTY) then None
      else if l =? L_LEAF then Some (GN O_LEAF ks)
      else if l =? L_IF then
        match ks with
        | [c; t] => Some (GN O_IF [c; tr_body t; none])
        | [c; t; e] =>
            (* `else ;` leaves no node behind: the if has no else branch *)
            Some (GN O_IF [c; tr_body t; if is_empty_single e then none else some (tr_body e)])
        | _ => Some (GN O_BAD [])
        end
      else if l =? L_WHILE then
        match ks with
        | [c; b] => Some (GN O_WHILE [c; tr_body b])
        | _ => Some (GN O_BAD [])
        end
      else if l =? L_FOR then
        match ks with
        | [v; it; b] => Some (GN O_FOR [v; it; tr_body b])
        | _ => Some (GN O_BAD [])
        end
      else if l =? L_SWITCH then
        match ks with
        | [c; GN _ cases] => Some (GN O_SWITCH [c; GN O_STMTS (tr_cases cases); none])
        | [c; GN _ cases; GN _ d] =>
            Some (GN O_SWITCH [c; GN O_STMTS (tr_cases cases); some (GN O_STMTS (tr_list d))])
        | _ => Some (GN O_BAD [])
        end
      else if l =? L_GATEDEF then
        match ks with
        | [n; ps; qs; GN _ body] => Some (GN O_GATEDEF [n; ps; qs; GN O_BLOCK (tr_list body)])
        | _ => Some (GN O_BAD [])
        end
      else if l =? L_DEF then
        match ks with
        | [n; ps; r; GN _ body] => Some (GN O_DEF [n; ps; GN O_BLOCK (tr_list body); r])
        | _ => Some (GN O_BAD [])
        end
      else Some (GN O_BAD [])
  end.

Fixpoint tr_list (ss : list gn) : list gn :=
  match ss with
  | [] => []
  | x :: r => cons_opt (tr_stmt x) (tr_list r)
  end.

(* the annotations met while translating a statement, in order (an include is not entered by
   stmt_to_asg_stmt) *)
Fixpoint anns_of (s : gn) : list gn :=
  match s with
  | GN l ks =>
      if l =? L_ANN then ks
      else if (l =? L_INC_FILE) || (l =? L_LEAF) then []
      else flat_map anns_of ks
  end.

(* syntax_to_semantic: the loop over a file's statements; an included file is analysed in place
   by the same loop with the same context *)
Definition wrap (g : gn) (pend : list gn) : gn :=
  match pend with [] => g | _ => GN O_ANNOTATED [g; GN O_ANNS pend] end.

Fixpoint tr_top_stmt (pend : list gn) (x : gn) {struct x} : list gn * list gn :=
  match x with
  | GN l ks =>
      if l =? L_INC_FILE then
        (fix loop (pend : list gn) (ss : list gn) {struct ss} : list gn * list gn :=
           match ss with
           | [] => ([], pend)
           | y :: r =>
               let '(o1, p1) := tr_top_stmt pend y in
               let '(o2, p2) := loop p1 r in
               (o1 ++ o2, p2)
           end) pend ks
      else
        match tr_stmt x with
        | Some g => ([wrap g (pend ++ anns_of x)], [])
        | None => ([], pend ++ anns_of x)
        end
  end.

Fixpoint tr_top (pend : list gn) (ss : list gn) : list gn * list gn :=
  match ss with
  | [] => ([], pend)
  | y :: r =>
      let '(o1, p1) := tr_top_stmt pend y in
      let '(o2, p2) := tr_top p1 r in
      (o1 ++ o2, p2)
  end.

Definition translate (ss : list gn) : list gn := fst (tr_top [] ss).

(* no annotation anywhere inside *)
Fixpoint ann_free (g : gn) : bool :=
  match g with GN l ks => negb (l =? L_ANN) && forallb ann_free ks end.
Definition is_ann (g : gn) : bool := label_of g =? L_ANN.
Definition is_inc_file (g : gn) : bool := label_of g =? L_INC_FILE.

(* known-finding class: an annotation somewhere inside a (non-annotation) top-level statement *)
Definition k_annotation_in_block (ss : list gn) : bool :=
  existsb (fun s => negb (is_ann s) && negb (ann_free s)) ss.

(* ---- operator table: syntax operator -> graph operator (binary_op_to_asg_type) ---- *)
(* codes: 0 ||, 1 &&, 2 |, 3 ^, 4 &, 5 ==, 6 !=, 7 <, 8 <=, 9 >, 10 >=, 11 <<, 12 >>, 13 +, 14 -,
   15 *, 16 /, 17 %, 18 **, 19 ++ (concatenation) *)
Definition asg_binop (syn : N) : N :=
  if syn =? 18 then 19 (* PowerOp is stored as ConcatenationOp *) else syn.
