(* Model M5b: the type decision logic of syntax_to_semantics.rs for classical declarations with
   an initializer and for assignments to an identifier, and asg.rs:new_texpr_with_cast.
   Inputs are the types the analyser has already computed (target type, value type) and whether
   the value expression is a literal (and, for integer literals, its sign). *)
From Coq Require Import NArith List Bool.
From OQ3 Require Import Model.Types.
Import ListNotations.
Open Scope N_scope.

Inductive lit_info := NotLiteral | LitInt (positive : bool) | LitOther.

(* rust: syntax_to_semantics.rs:can_cast_literal *)
Definition can_cast_literal_s (lhs init : Ty) (lit : lit_info) : bool :=
  match lhs, lit with
  | UInt _ _, LitInt s => s
  | _, _ => can_cast_literal lhs init
  end.

Record check_res := { cr_cast : bool;    (* value wrapped in Cast to exactly the target type *)
                      cr_diag : bool }.  (* a type diagnostic is reported *)

(* rust: classical_declaration_statement_to_asg_stmt, the part after the binding was made *)
Definition decl_check (lhs init : Ty) (lit : lit_info) : check_res :=
  if equal_up_to_constness lhs init then {| cr_cast := false; cr_diag := false |}
  else match lit with
       | LitInt _ | LitOther =>
           if can_cast_literal_s lhs init lit then {| cr_cast := true; cr_diag := false |}
           else {| cr_cast := false; cr_diag := true |}
       | NotLiteral =>
           let p := promote_types_not_equal lhs init in
           if equal_up_to_constness p lhs then {| cr_cast := true; cr_diag := false |}
           else {| cr_cast := false; cr_diag := is_void p || ty_eqb p init |}
       end.

Definition is_uint (t : Ty) : bool := match t with UInt _ _ => true | _ => false end.

(* rust: assignment_stmt_to_asg_stmt, identifier on the left, symbol resolved *)
Definition assign_check (sym val : Ty) (lit : lit_info) : check_res :=
  if ty_eqb val sym then {| cr_cast := false; cr_diag := false |}
  else if equal_up_to_dims val sym then {| cr_cast := false; cr_diag := true |}
  else match lit with
       | LitInt s =>
           if is_uint sym then
             if s then {| cr_cast := true; cr_diag := false |} else {| cr_cast := false; cr_diag := true |}
           else {| cr_cast := false; cr_diag := false |}
       | _ =>
           let p := promote_types sym val in
           if ty_eqb p sym then {| cr_cast := true; cr_diag := false |}
           else {| cr_cast := false; cr_diag := true |}
       end.

(* the type of the value that ends up in the graph *)
Definition final_type (target val : Ty) (r : check_res) : Ty := if cr_cast r then target else val.

(* rust: asg.rs:BinaryExpr::new_texpr_with_cast for arithmetic operators:
   (result type, left operand cast?, right operand cast?) *)
Definition arith_cast (op : ArithOp) (tl tr : Ty) : Ty * bool * bool :=
  let t := implicit_cast_type op tl tr in (t, negb (ty_eqb t tl), negb (ty_eqb t tr)).
