(* Model M1: oq3_lexer/src/{lib,cursor}.rs, hand-written, executable.
   A character is its code point together with the three Unicode class bits the lexer asks
   for (XID_Start, XID_Continue, Emoji); the bits are supplied by the harness from the very
   crates the implementation links, and every theorem holds for ANY assignment of bits.
   Scanners take the remaining input and return the remaining input (plus flags);
   every loop consumes one character per iteration, so all are structurally recursive.
   `prev` (used only by debug_assert!s) is not modelled: each assertion is implied by the
   dispatch that leads to it (see DESIGN.md). *)
From Coq Require Import NArith List Bool.
Import ListNotations.
Open Scope N_scope.

Record ch := { cp : N; xs : bool; xc : bool; em : bool }.
Definition eof_ch : ch := {| cp := 0; xs := false; xc := false; em := false |}.

Definition is (c : ch) (k : N) : bool := N.eqb (cp c) k.
Definition firstc (l : list ch) : ch := match l with [] => eof_ch | c :: _ => c end.
Definition secondc (l : list ch) : ch := match l with _ :: c :: _ => c | _ => eof_ch end.

(* UTF-8 length of a character / of a text *)
Definition utf8_len (c : ch) : N :=
  if cp c <? 128 then 1 else if cp c <? 2048 then 2 else if cp c <? 65536 then 3 else 4.
Fixpoint blen (l : list ch) : N :=
  match l with [] => 0 | c :: r => utf8_len c + blen r end.

Definition is_ascii (c : ch) : bool := cp c <? 128.
(* rust: lib.rs:is_whitespace *)
Definition is_whitespace (c : ch) : bool :=
  let k := cp c in
  (k =? 9) || (k =? 10) || (k =? 11) || (k =? 12) || (k =? 13) || (k =? 32) || (k =? 133)
  || (k =? 8206) || (k =? 8207) || (k =? 8232) || (k =? 8233).
(* rust: lib.rs:is_id_start / is_id_continue *)
Definition is_id_start (c : ch) : bool := is c 95 || xs c.
Definition is_id_continue (c : ch) : bool := xc c.
Definition is_emoji_nonascii (c : ch) : bool := negb (is_ascii c) && em c.
Definition is_digit (c : ch) : bool := (48 <=? cp c) && (cp c <=? 57).
Definition is_hex (c : ch) : bool :=
  is_digit c || ((97 <=? cp c) && (cp c <=? 102)) || ((65 <=? cp c) && (cp c <=? 70)).

(* rust: cursor.rs:eat_while *)
Fixpoint eat_while (p : ch -> bool) (l : list ch) : list ch :=
  match l with
  | [] => []
  | c :: r => if p c then eat_while p r else l
  end.

Inductive Base := Binary | Octal | Decimal | Hexadecimal.
Inductive LitKind :=
| LInt (b : Base) (empty_int : bool)
| LFloat (b : Base) (empty_exponent : bool)
| LByte (terminated : bool)
| LStr (terminated : bool)
| LBitStr (terminated consecutive_underscores : bool).
Inductive TokenKind :=
| LineComment | BlockComment (terminated : bool) | Whitespace | Ident | HardwareIdent
| InvalidIdent | OpenQasmVersionStmt (major minor : bool) | Pragma | Dim | Annotation
| Literal (k : LitKind) (suffix_start : N)
| Semi | Comma | Dot | OpenParen | CloseParen | OpenBrace | CloseBrace | OpenBracket
| CloseBracket | At | Pound | Tilde | Question | Colon | Dollar | Eq | Bang | Lt | Gt | Minus
| And | Or | Plus | Star | Slash | Caret | Percent | Unknown.

(* consume the characters of [pat] one by one while they match; on a mismatch what was
   matched so far STAYS consumed (as the nested ifs of have_pragma/have_dim/have_openqasm do) *)
Fixpoint eat_prefix (pat : list N) (l : list ch) : bool * list ch :=
  match pat with
  | [] => (true, l)
  | k :: pat' =>
      match l with
      | c :: r => if is c k then eat_prefix pat' r else (false, l)
      | [] => (false, l)
      end
  end.

Definition not_newline (c : ch) : bool := negb (is c 10).

(* rust: lib.rs:have_pragma (called after 'p' was consumed) *)
Definition have_pragma (l : list ch) : bool * list ch :=
  let '(ok, r) := eat_prefix [114; 97; 103; 109; 97] l in  (* "ragma" *)
  if ok then
    if is_whitespace (firstc r) then (true, eat_while not_newline r) else (false, r)
  else (false, r).

(* rust: lib.rs:have_dim *)
Definition have_dim (l : list ch) : bool * list ch := eat_prefix [100; 105; 109] l.

(* rust: lib.rs:have_openqasm (after 'O') *)
Definition have_openqasm (l : list ch) : bool * list ch :=
  let '(ok, r) := eat_prefix [80; 69; 78; 81; 65; 83; 77] l in
  if ok then (is_whitespace (firstc r), r) else (false, r).

(* rust: lib.rs:eat_decimal_digits *)
Fixpoint eat_decimal_digits_from (has : bool) (l : list ch) : bool * list ch :=
  match l with
  | [] => (has, [])
  | c :: r => if is c 95 then eat_decimal_digits_from has r
              else if is_digit c then eat_decimal_digits_from true r
              else (has, l)
  end.
Definition eat_decimal_digits := eat_decimal_digits_from false.
(* rust: lib.rs:eat_hexadecimal_digits *)
Fixpoint eat_hex_digits_from (has : bool) (l : list ch) : bool * list ch :=
  match l with
  | [] => (has, [])
  | c :: r => if is c 95 then eat_hex_digits_from has r
              else if is_hex c then eat_hex_digits_from true r
              else (has, l)
  end.
Definition eat_hexadecimal_digits := eat_hex_digits_from false.

(* rust: lib.rs:eat_float_exponent *)
Definition eat_float_exponent (l : list ch) : bool * list ch :=
  let l' := match l with
            | c :: r => if is c 45 || is c 43 then r else l
            | [] => l
            end in
  eat_decimal_digits l'.

(* rust: lib.rs:openqasm_version *)
Definition openqasm_version (l : list ch) : (bool * bool) * list ch :=
  let '(d1, r1) := eat_decimal_digits l in
  if negb d1 then ((false, false), r1) else
  let fin r := let c := firstc r in
               if negb (is c 59) && negb (is_whitespace c) then ((false, false), r)
               else ((true, true), r) in
  match r1 with
  | c :: r2 =>
      if is c 46 then
        let '(d2, r3) := eat_decimal_digits r2 in
        if negb d2 then ((true, false), r3) else fin r3
      else fin r1
  | [] => fin r1
  end.

(* rust: lib.rs:fake_ident_or_unknown_prefix *)
Definition fake_ident (l : list ch) : TokenKind * list ch :=
  (InvalidIdent, eat_while (fun c => xc c || is_emoji_nonascii c || is c 8205) l).

(* rust: lib.rs:ident_or_unknown_prefix *)
Definition ident_or_unknown_prefix (l : list ch) : TokenKind * list ch :=
  let r := eat_while is_id_continue l in
  if is_emoji_nonascii (firstc r) then fake_ident r else (Ident, r).

(* rust: lib.rs:pragma_or_ident_or_unknown_prefix *)
Definition pragma_or_ident (l : list ch) : TokenKind * list ch :=
  let '(ok, r) := have_pragma l in
  if ok then (Pragma, r) else ident_or_unknown_prefix r.

(* rust: lib.rs:hardware_ident *)
Definition hardware_ident (l : list ch) : TokenKind * list ch :=
  if is_emoji_nonascii (firstc l) then fake_ident (eat_while is_id_continue l)
  else let '(d, r) := eat_decimal_digits l in
       if negb d then (Dollar, r) else (HardwareIdent, r).

(* the fractional/exponent tail shared by number() and float_with_no_leading_digit() *)
Definition exponent_tail (l : list ch) : bool * list ch :=   (* returns (empty_exponent, rest) *)
  match l with
  | c :: r => if is c 101 || is c 69 then
                let '(d, r') := eat_float_exponent r in (negb d, r')
              else (false, l)
  | [] => (false, l)
  end.

(* rust: lib.rs:float_with_no_leading_digit (after '.', first is a digit) *)
Definition float_with_no_leading_digit (l : list ch) : LitKind * list ch :=
  let '(_, r) := eat_decimal_digits l in
  let '(ee, r') := exponent_tail r in
  (LFloat Decimal ee, r').

(* rust: lib.rs:number, second half (after the integer part) *)
Definition number_tail (base : Base) (l : list ch) : LitKind * list ch :=
  match l with
  | c :: r =>
      if is c 46 then
        if is_digit (firstc r) then
          let '(_, r1) := eat_decimal_digits r in
          let '(ee, r2) := exponent_tail r1 in (LFloat base ee, r2)
        else (LFloat base false, r)
      else if is c 101 || is c 69 then
        let '(d, r') := eat_float_exponent r in (LFloat base (negb d), r')
      else (LInt base false, l)
  | [] => (LInt base false, l)
  end.

(* rust: lib.rs:number (the first digit is consumed; [first_zero] says it was '0') *)
Definition number (first_zero : bool) (l : list ch) : LitKind * list ch :=
  if first_zero then
    match l with
    | c :: r =>
        if is c 98 then       (* 'b' *)
          let '(d, r') := eat_decimal_digits r in
          if negb d then (LInt Binary true, r') else number_tail Binary r'
        else if is c 111 then (* 'o' *)
          let '(d, r') := eat_decimal_digits r in
          if negb d then (LInt Octal true, r') else number_tail Octal r'
        else if is c 120 then (* 'x' *)
          let '(d, r') := eat_hexadecimal_digits r in
          if negb d then (LInt Hexadecimal true, r') else number_tail Hexadecimal r'
        else if is_digit c || is c 95 then
          let '(_, r') := eat_decimal_digits l in number_tail Decimal r'
        else if is c 46 || is c 101 || is c 69 then number_tail Decimal l
        else (LInt Decimal false, l)
    | [] => (LInt Decimal false, l)
    end
  else
    let '(_, r') := eat_decimal_digits l in number_tail Decimal r'.

(* rust: lib.rs:has_timing_or_imaginary_suffix *)
Definition has_timing_or_imaginary_suffix (l : list ch) : bool :=
  let f := cp (firstc l) in let s := cp (secondc l) in
  (f =? 115)
  || ((f =? 100) && (s =? 116)) || ((f =? 110) && (s =? 115)) || ((f =? 117) && (s =? 115))
  || ((f =? 109) && (s =? 115)) || ((f =? 181) && (s =? 115)) || ((f =? 105) && (s =? 109)).

(* rust: lib.rs:eat_identifier / eat_literal_suffix *)
Definition eat_identifier (l : list ch) : list ch :=
  match l with
  | c :: r => if is_id_start c then eat_while is_id_continue r else l
  | [] => l
  end.

(* rust: lib.rs:double_quoted_string / single_quoted_string (same code, quote q).
   Returns ((terminated, only_ones_and_zeros, consecutive_underscores), rest). *)
Fixpoint quoted_string (q : N) (l : list ch) (only01 consec : bool) (nl : N) (prev : N)
  : (bool * bool * bool) * list ch :=
  match l with
  | [] =>
      let only01' := if (0 <? nl) && negb ((nl =? 1) && (prev =? 10)) then false else only01 in
      ((false, only01', consec), [])
  | c :: r =>
      if is c q then ((true, if 0 <? nl then false else only01, consec), r)
      else if is c 92 && (is (firstc r) 92 || is (firstc r) q) then
        match r with
        | _ :: r2 => quoted_string q r2 false consec nl 92
        | [] => quoted_string q r false consec nl 92
        end
      else if is c 10 then
        quoted_string q r (if 1 <? nl + 1 then false else only01) consec (nl + 1) 10
      else if is c 95 then
        quoted_string q r only01 (if prev =? 95 then true else consec) nl 95
      else if is c 48 || is c 49 then quoted_string q r only01 consec nl (cp c)
      else quoted_string q r false consec nl (cp c)
  end.

(* rust: lib.rs:block_comment, loop after "/*".  [d] = depth - 1 (depth >= 1 throughout). *)
Fixpoint block_comment_loop (l : list ch) (d : nat) : bool * list ch :=
  match l with
  | [] => (false, [])
  | c :: r =>
      if is c 47 then
        match r with
        | c2 :: r2 => if is c2 42 then block_comment_loop r2 (S d) else block_comment_loop r d
        | [] => block_comment_loop r d
        end
      else if is c 42 then
        match r with
        | c2 :: r2 =>
            if is c2 47 then
              match d with O => (true, r2) | S d' => block_comment_loop r2 d' end
            else block_comment_loop r d
        | [] => block_comment_loop r d
        end
      else block_comment_loop r d
  end.

(* the literal arm shared by digits and '.digit' *)
Definition finish_number (tok_start : list ch) (k : LitKind) (r : list ch) : TokenKind * list ch :=
  let suffix_start := blen tok_start - blen r in
  let r' := if has_timing_or_imaginary_suffix r then r else eat_identifier r in
  (Literal k suffix_start, r').

Definition finish_string (tok_start : list ch) (res : (bool * bool * bool) * list ch)
  : TokenKind * list ch :=
  let '((terminated, only01, consec), r) := res in
  let suffix_start := blen tok_start - blen r in
  let r' := if terminated then eat_identifier r else r in
  let k := if only01 then LBitStr terminated consec else LStr terminated in
  (Literal k suffix_start, r').

(* rust: lib.rs:Cursor::advance_token.  None = Eof. *)
Definition advance_token (l : list ch) : option (TokenKind * list ch) :=
  match l with
  | [] => None
  | c :: r =>
    let k := cp c in
    Some (
    if k =? 47 then                                   (* '/' *)
      if is (firstc r) 47 then (LineComment, eat_while not_newline (tl r))
      else if is (firstc r) 42 then
        let '(t, r') := block_comment_loop (tl r) O in (BlockComment t, r')
      else (Slash, r)
    else if is_whitespace c then (Whitespace, eat_while is_whitespace r)
    else if k =? 112 then pragma_or_ident r           (* 'p' *)
    else if k =? 79 then                              (* 'O' *)
      let '(ok, r1) := have_openqasm r in
      if ok then
        let '((ma, mi), r2) := openqasm_version (eat_while is_whitespace r1) in
        (OpenQasmVersionStmt ma mi, r2)
      else ident_or_unknown_prefix r1
    else if is_id_start c then ident_or_unknown_prefix r
    else if is_digit c then
      let '(lk, r1) := number (k =? 48) r in finish_number l lk r1
    else if k =? 35 then                              (* '#' *)
      if is (firstc r) 112 then
        let '(ok, r1) := have_pragma (tl r) in
        if ok then (Pragma, r1) else (InvalidIdent, r1)
      else if is (firstc r) 100 then
        let '(ok, r1) := have_dim r in
        if ok then (Dim, r1) else (InvalidIdent, r1)
      else (InvalidIdent, r)
    else if k =? 64 then                              (* '@' *)
      if is_id_start (firstc r) then (Annotation, eat_while not_newline r) else (At, r)
    else if k =? 46 then                              (* '.' *)
      if is_digit (firstc r) then
        let '(lk, r1) := float_with_no_leading_digit r in finish_number l lk r1
      else (Dot, r)
    else if k =? 36 then hardware_ident r             (* '$' *)
    else if k =? 59 then (Semi, r)
    else if k =? 44 then (Comma, r)
    else if k =? 40 then (OpenParen, r)
    else if k =? 41 then (CloseParen, r)
    else if k =? 123 then (OpenBrace, r)
    else if k =? 125 then (CloseBrace, r)
    else if k =? 91 then (OpenBracket, r)
    else if k =? 93 then (CloseBracket, r)
    else if k =? 126 then (Tilde, r)
    else if k =? 63 then (Question, r)
    else if k =? 58 then (Colon, r)
    else if k =? 61 then (Eq, r)
    else if k =? 33 then (Bang, r)
    else if k =? 60 then (Lt, r)
    else if k =? 62 then (Gt, r)
    else if k =? 45 then (Minus, r)
    else if k =? 38 then (And, r)
    else if k =? 124 then (Or, r)
    else if k =? 43 then (Plus, r)
    else if k =? 42 then (Star, r)
    else if k =? 94 then (Caret, r)
    else if k =? 37 then (Percent, r)
    else if k =? 34 then finish_string l (quoted_string 34 r true false 0 0)
    else if k =? 39 then finish_string l (quoted_string 39 r true false 0 0)
    else if is_emoji_nonascii c then fake_ident r
    else (Unknown, r))
  end.

(* a token: kind, its text, its byte length *)
Record token := { tkind : TokenKind; ttext : list ch }.
Definition tlen (t : token) : N := blen (ttext t).

(* the characters of [l] before its suffix [r] *)
Definition prefix_before (l r : list ch) : list ch := firstn (length l - length r) l.

(* rust: lib.rs:tokenize.  Fuel: one unit per token; [S (length l)] always suffices
   (Proofs/LexerP.v: tokenize_fuel_enough).  None = out of fuel. *)
Fixpoint tokenize_fuel (fuel : nat) (l : list ch) : option (list token) :=
  match fuel with
  | O => None
  | S f =>
      match advance_token l with
      | None => Some []
      | Some (k, r) =>
          match tokenize_fuel f r with
          | Some ts => Some ({| tkind := k; ttext := prefix_before l r |} :: ts)
          | None => None
          end
      end
  end.
Definition tokenize (l : list ch) : list token :=
  match tokenize_fuel (S (length l)) l with Some ts => ts | None => [] end.
