(* Usage rules of the analyser (property C13): the decision logic of gate_call_expr_to_asg_stmt,
   call_expr_to_asg_texpr, gate_operand_to_asg_texpr, the BinExpr arm of expr_to_asg_texpr, the
   QuantumDeclaration / Gate / Def / Delay arms of stmt_to_asg_stmt, the ReturnExpr arm and the
   const check of assignment_stmt_to_asg_stmt, over the facts the analyser looked up.
   A site is one occurrence of one of these constructs together with what the symbol table and the
   typing of its parts say; site_diags lists the usage diagnostics the analyser logs for it, in
   the order it logs them. *)
From Coq Require Import NArith List Bool.
Import ListNotations.
Open Scope N_scope.

(* what a looked-up name is *)
Inductive sym : Type :=
| YGate (np nq : N) | YDef (np : N) | YQubit | YQubitArr | YHwQubit
| YClassical (is_const : bool) | YUndef.

(* gate operand forms: identifier / indexed identifier / hardware qubit literal *)
Inductive operand : Type := OIdent (s : sym) | OIndexed (s : sym) | OHw.

Inductive diag : Type :=
| DNumGateParams | DNumGateQubits | DNumDefParams | DIncompatibleTypes | DMutateConst
| DNotInGlobalScope | DReturnInGlobalScope | DUndefGate | DUndefVar.

Definition diag_code (d : diag) : N :=
  match d with
  | DNumGateParams => 0 | DNumGateQubits => 1 | DNumDefParams => 2 | DIncompatibleTypes => 3
  | DMutateConst => 4 | DNotInGlobalScope => 5 | DReturnInGlobalScope => 6 | DUndefGate => 7
  | DUndefVar => 8
  end.

(* kind of the scope that is current at the site *)
Inductive scope_ty : Type := ScGlobal | ScLocal | ScSubroutine.

Inductive site : Type :=
| SGateCall (callee : sym) (nparams : N) (ops : list operand)
| SMeasure (op : operand) | SReset (op : operand) | SBarrier (ops : list operand)
| SBinOp (lq rq : bool)            (* is the left / right operand's type quantum *)
| SDefCall (expected supplied : N)
| SAssign (target : sym) (value_fits : bool)   (* can the value's type be converted to the target's *)
| SQubitDecl (sc : scope_ty) | SGateDef (sc : scope_ty) | SDefDef (sc : scope_ty)
| SReturn (sc : scope_ty)
| SDelay (is_duration : bool).

Definition sym_quantum_ident (s : sym) : bool :=
  match s with YQubit | YQubitArr | YHwQubit => true | _ => false end.
Definition sym_quantum_indexed (s : sym) : bool :=
  match s with YQubitArr => true | _ => false end.
Definition sym_undef (s : sym) : bool := match s with YUndef => true | _ => false end.
(* Type::is_const: everything that is not a non-const classical scalar *)
Definition sym_is_const (s : sym) : bool :=
  match s with YClassical c => c | _ => true end.

Definition operand_diags (o : operand) : list diag :=
  match o with
  | OHw => []
  | OIdent s => (if sym_undef s then [DUndefVar] else []) ++
                (if sym_quantum_ident s then [] else [DIncompatibleTypes])
  | OIndexed s => (if sym_undef s then [DUndefVar] else []) ++
                  (if sym_quantum_indexed s then [] else [DIncompatibleTypes])
  end.

Definition in_global (sc : scope_ty) : bool := match sc with ScGlobal => true | _ => false end.

Definition site_diags (s : site) : list diag :=
  match s with
  | SGateCall callee nparams ops =>
      flat_map operand_diags ops ++
      match callee with
      | YGate np nq =>
          (if np =? nparams then [] else [DNumGateParams]) ++
          (if nq =? N.of_nat (length ops) then [] else [DNumGateQubits])
      | YUndef => [DUndefGate]
      | _ => [DIncompatibleTypes]
      end
  | SMeasure o | SReset o => operand_diags o
  | SBarrier ops => flat_map operand_diags ops
  | SBinOp lq rq => (if lq then [DIncompatibleTypes] else []) ++ (if rq then [DIncompatibleTypes] else [])
  | SDefCall e n => if e =? n then [] else [DNumDefParams]
  | SAssign t fits => (if sym_undef t then [DUndefVar] else
                       (if fits then [] else [DIncompatibleTypes]) ++
                       (if sym_is_const t then [DMutateConst] else []))
  | SQubitDecl sc | SGateDef sc | SDefDef sc => if in_global sc then [] else [DNotInGlobalScope]
  | SReturn sc => if in_global sc then [DReturnInGlobalScope] else []
  | SDelay d => if d then [] else [DIncompatibleTypes]
  end.

(* ---- the property, stated declaratively ---- *)
Definition operand_ok (o : operand) : Prop :=
  match o with
  | OHw => True
  | OIdent s => s = YQubit \/ s = YQubitArr \/ s = YHwQubit
  | OIndexed s => s = YQubitArr
  end.

(* does the site break the rule whose diagnostic is d *)
Definition violates (d : diag) (s : site) : Prop :=
  match d, s with
  | DNumGateParams, SGateCall (YGate np _) n _ => np <> n
  | DNumGateQubits, SGateCall (YGate _ nq) _ ops => nq <> N.of_nat (length ops)
  | DUndefGate, SGateCall YUndef _ _ => True
  | DIncompatibleTypes, SGateCall callee _ ops =>
      (exists o, In o ops /\ ~ operand_ok o) \/
      (match callee with YGate _ _ | YUndef => False | _ => True end)
  | DIncompatibleTypes, SMeasure o | DIncompatibleTypes, SReset o => ~ operand_ok o
  | DIncompatibleTypes, SBarrier ops => exists o, In o ops /\ ~ operand_ok o
  | DIncompatibleTypes, SBinOp l r => l = true \/ r = true
  | DIncompatibleTypes, SDelay d => d = false
  | DNumDefParams, SDefCall e n => e <> n
  | DMutateConst, SAssign t _ => t <> YUndef /\ sym_is_const t = true
  | DIncompatibleTypes, SAssign t fits => t <> YUndef /\ fits = false
  | DNotInGlobalScope, SQubitDecl sc | DNotInGlobalScope, SGateDef sc
  | DNotInGlobalScope, SDefDef sc => sc <> ScGlobal
  | DReturnInGlobalScope, SReturn sc => sc = ScGlobal
  | DUndefVar, SGateCall _ _ ops | DUndefVar, SBarrier ops =>
      exists o, In o ops /\ (o = OIdent YUndef \/ o = OIndexed YUndef)
  | DUndefVar, SMeasure o | DUndefVar, SReset o => o = OIdent YUndef \/ o = OIndexed YUndef
  | DUndefVar, SAssign t _ => t = YUndef
  | _, _ => False
  end.
