(* Model M5c: syntax_to_semantics.rs:designator_to_asg and scalar_type_to_type -- the type a
   declaration records from the written type. *)
From Coq Require Import NArith List Bool.
From OQ3 Require Import Model.Types.
Import ListNotations.
Open Scope N_scope.

Definition two32 : N := 4294967296.

(* what is written between the brackets, as the analyser sees it *)
Inductive desig :=
| DNone                         (* no designator *)
| DLitInt (n : N)               (* integer literal, n < 2^128 *)
| DLitOther                     (* another literal *)
| DConstCastInt (n : N)         (* const identifier whose recorded value is the positive int literal n,
                                   bare or wrapped in one Cast *)
| DConstOther                   (* const identifier with any other recorded value *)
| DNonConst.                    (* identifier of non-const type *)

Inductive ddiag := NoDiag | ConstIntegerError | InvalidDesignatorError.

(* rust: designator_to_asg (after the fix of the u32 truncation) *)
Definition designator_width (d : desig) : option N * ddiag :=
  match d with
  | DNone => (None, NoDiag)
  | DLitInt n => if n <? two32 then (Some n, NoDiag) else (Some 0, InvalidDesignatorError)
  | DLitOther => (None, ConstIntegerError)
  | DConstCastInt n => if n <? two32 then (Some n, NoDiag) else (Some 0, InvalidDesignatorError)
  | DConstOther => (Some 0, InvalidDesignatorError)
  | DNonConst => (None, NoDiag)
  end.

Inductive skind := KAngle | KBit | KBool | KComplex | KDuration | KFloat | KInt | KStretch | KUInt | KQubit.

(* rust: scalar_type_to_type *)
Definition scalar_type_to_type (k : skind) (w : option N) (c : bool) : Ty :=
  match k with
  | KAngle => Angle w c
  | KBit => match w with Some n => BitArray (D1 n) c | None => Bit c end
  | KBool => Bool c
  | KComplex => Complex w c
  | KDuration => Duration c
  | KFloat => Float w c
  | KInt => Int w c
  | KStretch => Stretch c
  | KUInt => UInt w c
  | KQubit => match w with Some n => QubitArray (D1 n) | None => Qubit end
  end.

Definition declared_type (k : skind) (d : desig) (c : bool) : Ty * ddiag :=
  let '(w, e) := designator_width d in (scalar_type_to_type k w c, e).

(* ---------------- specification (C09) ---------------- *)
(* the width the programmer wrote, when the designator denotes a number *)
Definition written_width (d : desig) : option (option N) :=
  match d with
  | DNone => Some None
  | DLitInt n | DConstCastInt n => Some (Some n)
  | _ => None                         (* not a constant integer: must be diagnosed *)
  end.
(* known finding: an identifier of non-const type as designator is neither evaluated nor diagnosed *)
Definition k_nonconst_designator (d : desig) : bool := match d with DNonConst => true | _ => false end.

Definition type_width (k : skind) (t : Ty) : option N :=
  match k, t with
  | KBit, BitArray (D1 n) _ => Some n
  | KQubit, QubitArray (D1 n) => Some n
  | (KBit | KQubit), _ => None
  | _, _ => width t
  end.
