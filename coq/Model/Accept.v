(* Acceptance and compositionality of statements (properties C04 and C16) on the pipeline model.
   gen/Templates.v lists one representative of every statement form of the reference grammar
   (tools/templates.txt, shared with the harness). *)
From Coq Require Import NArith List Bool String Ascii.
From OQ3 Require Import gen.Kinds gen.Templates Model.Lexer Model.Lexed Model.Parser Model.Grammar
                        Model.Builder Model.Shape.
Import ListNotations.
Open Scope N_scope.

Definition codes (s : string) : list N := map N_of_ascii (list_ascii_of_string s).

(* statement contexts *)
Definition n_contexts : nat := 10.
Definition ctx_wrap (c : nat) (t : list N) : list N :=
  match c with
  | 0%nat => t
  | 1%nat => codes "y; " ++ t
  | 2%nat => codes "h q; " ++ t
  | 3%nat => codes "int z; " ++ t
  | 4%nat => codes "if (c) { " ++ t ++ codes " }"
  | 5%nat => codes "while (c) { " ++ t ++ codes " }"
  | 6%nat => codes "for int i in [0:1] { " ++ t ++ codes " }"
  | 7%nat => codes "switch (c) { case 1 { " ++ t ++ codes " } }"
  | 8%nat => codes "gate gg a { " ++ t ++ codes " }"
  | _ => codes "def ff() { " ++ t ++ codes " }"
  end.

Definition clean_tree (l : list N) : option tree :=
  match parse_source (text l) with
  | POk r =>
      match pr_parse_errors r, pr_lex_errors r, pr_timing_errors r with
      | [], [], [] => Some (pr_tree r)
      | _, _, _ => None
      end
  | _ => None
  end.
Definition accepts (l : list N) : bool := match clean_tree l with Some _ => true | None => false end.

(* the statements of a node: kind and text of each child node *)
Fixpoint tree_text (t : tree) : list N :=
  match t with
  | Leaf _ tx => map cp tx
  | Node _ cs => flat_map tree_text cs
  end.
Definition node_stmts (t : tree) : list (N * list N) :=
  match t with
  | Leaf _ _ => []
  | Node _ cs => flat_map (fun c => match c with Node k _ => [(k, tree_text c)] | Leaf _ _ => [] end) cs
  end.
Definition top_stmts (l : list N) : option (list (N * list N)) :=
  option_map node_stmts (clean_tree l).
(* statements of the block of  if (c) { ... } *)
Definition block_stmts (l : list N) : option (list (N * list N)) :=
  match clean_tree (codes "if (c) { " ++ l ++ codes " }") with
  | Some (Node _ cs) =>
      match flat_map (fun c => match c with Node k kids => if k =? K_IF_STMT then [kids] else [] | _ => [] end) cs with
      | [kids] =>
          match flat_map (fun c => match c with Node k _ => if k =? K_BLOCK_EXPR then [c] else [] | _ => [] end) kids with
          | [b] => Some (node_stmts b)
          | _ => None
          end
      | _ => None
      end
  | _ => None
  end.

Fixpoint codes_eqb (a b : list N) : bool :=
  match a, b with
  | [], [] => true
  | x :: a', y :: b' => (x =? y) && codes_eqb a' b'
  | _, _ => false
  end.
Fixpoint stmts_eqb (a b : list (N * list N)) : bool :=
  match a, b with
  | [], [] => true
  | (k1, t1) :: a', (k2, t2) :: b' => (k1 =? k2) && codes_eqb t1 t2 && stmts_eqb a' b'
  | _, _ => false
  end.

(* C04: template number i is accepted in context c *)
Definition accepted_in (c : nat) (i : nat) : bool := accepts (ctx_wrap c (nth i templates [])).

(* C16: the concatenation of templates i and j (each accepted alone) has exactly the statements
   of i followed by those of j, at top level and inside a block *)
Definition composes_top (i j : nat) : bool :=
  let a := nth i templates [] in let b := nth j templates [] in
  match top_stmts a, top_stmts b with
  | Some sa, Some sb =>
      match top_stmts (a ++ [32] ++ b) with
      | Some sab => stmts_eqb sab (sa ++ sb)
      | None => false
      end
  | _, _ => true
  end.
Definition composes_block (i j : nat) : bool :=
  let a := nth i templates [] in let b := nth j templates [] in
  match top_stmts a, top_stmts b with
  | Some sa, Some sb =>
      match block_stmts (a ++ [32] ++ b) with
      | Some sab => stmts_eqb sab (sa ++ sb)
      | None => false
      end
  | _, _ => true
  end.

(* ---- known-finding classes ---- *)
(* C04: valid statements the parser rejects (in every context) *)
Definition k_c04_rejected (i : nat) : bool :=
  existsb (Nat.eqb i) [T_assign_binary; T_gphase_ctrl; T_measure_arrow; T_for_expr_stmt; T_gate_def_empty_parens].
(* C16: `let` is parsed by two different statement routines (alias declaration by the item
   routine at the start of a file, let statement by the routine used after the first expression
   statement and inside every block) *)
Definition is_let (i : nat) : bool := existsb (Nat.eqb i) [T_alias_slice; T_alias_concat].
(* C16: after an assignment statement the operator loop keeps going, so a following statement
   that starts with a binary operator token (-a;) is glued to it *)
Definition ends_with_assignment (i : nat) : bool :=
  existsb (Nat.eqb i) [T_assign_lit; T_assign_paren; T_assign_index; T_assign_measure; T_assign_call; T_assign_cast;
                       T_if_else_stmts; T_while_stmt; T_for_set; T_annotation; T_assign_unary; T_assign_not; T_cast_nested;
                       T_assign_compound; T_multi_index; T_measure_range].
Definition starts_with_operator (j : nat) : bool := Nat.eqb j T_expr_neg.
(* C16: an empty statement `;` directly after a statement parsed by the top-level item routine
   (declarations, definitions, control flow, ...) is reported as "expected statement, found `;`";
   after an expression statement, at the start of a file and inside every block it is accepted
   (pinned by the test from_string_block_trailing_semicolon) *)
Definition first_kinds (t : list N) : N * N :=
  match to_input (lexed_of (text t)) with
  | (k, _) :: (la, _) :: _ => (k, la)
  | [(k, _)] => (k, K_EOF)
  | [] => (K_EOF, K_EOF)
  end.
(* the dispatch condition of items.rs:opt_item *)
Definition item_first (k la : N) : bool :=
  (is_classical_type k && negb (N.eqb la K_L_PAREN)) ||
  existsb (N.eqb k)
    [K_QUBIT_KW; K_CONST_KW; K_GATE_KW; K_BREAK_KW; K_CONTINUE_KW; K_END_KW; K_IF_KW; K_WHILE_KW;
     K_FOR_KW; K_DEF_KW; K_DEFCAL_KW; K_CAL_KW; K_DEFCALGRAMMAR_KW; K_EXTERN_KW; K_RESET_KW;
     K_BARRIER_KW; K_O_P_E_N_Q_A_S_M_KW; K_INCLUDE_KW; K_SWITCH_KW; K_LET_KW; K_DELAY_KW;
     K_INPUT_KW; K_OUTPUT_KW].
Definition is_item (i : nat) : bool := let '(k, la) := first_kinds (nth i templates []) in item_first k la.
Definition is_empty_stmt (j : nat) : bool := Nat.eqb j T_empty.
Definition k_empty_after_item (i j : nat) : bool := is_item i && is_empty_stmt j.
(* C04: a box statement `box { ... }` needs a terminating `;` where a statement end is required
   (everywhere except directly before a closing brace): BOX_EXPR is not treated as block-like
   (pinned by the reference/scope/nop.qasm parse snapshot) *)
Definition k_box_top (c i : nat) : bool := Nat.ltb c 4 && Nat.eqb i T_box_stmt.
(* the same class seen through the statement contexts: context 3 puts `int z;` (an item) in front *)
Definition k_ctx_empty (c i : nat) : bool := Nat.eqb c 3 && is_empty_stmt i.
Definition k_c16 (i j : nat) : bool :=
  is_let i || is_let j || (ends_with_assignment i && starts_with_operator j) || k_empty_after_item i j.

(* C16: an anonymous block `{ ... }` that is the last statement of a block body is left as a bare
   BLOCK_EXPR (rust-analyzer's tail expression), not wrapped in EXPR_STMT *)
Definition is_anon_block (j : nat) : bool :=
  existsb (Nat.eqb j) [T_anon_block; T_anon_block_empty; T_anon_block_nested].
Definition k_c16_block (i j : nat) : bool :=
  is_let i || is_let j || (ends_with_assignment i && starts_with_operator j) || is_anon_block j.

Definition ids : list nat := seq 0 (List.length templates).
Definition id_pairs : list (nat * nat) := flat_map (fun i => map (fun j => (i, j)) ids) ids.
Definition ctx_ids : list nat := seq 0 n_contexts.
