(* Model M8a: oq3_syntax/src/ast/token_ext.rs -- IntNumber::{radix, split_into_parts, value},
   BitString::str (QuoteOffsets), and the literal constructors of asg.rs that depend on text
   (bit-string width).  Texts are lists of code points.  u128::from_str_radix is modelled
   (optional leading '+', digits of the radix only, failure at >= 2^128), not assumed. *)
From Coq Require Import NArith List Bool.
Import ListNotations.
Open Scope N_scope.

Definition two128 : N := 340282366920938463463374607431768211456.

Definition is_upper (c : N) : bool := (65 <=? c) && (c <=? 90).
Definition is_lower (c : N) : bool := (97 <=? c) && (c <=? 122).
Definition is_ascii_alpha (c : N) : bool := is_upper c || is_lower c.

(* rust: IntNumber::radix -- text.get(..2) *)
Definition radix_of (t : list N) : N :=
  match t with
  | 48 :: c :: _ =>
      if (c =? 98) || (c =? 66) then 2
      else if (c =? 111) || (c =? 79) then 8
      else if (c =? 120) || (c =? 88) then 16
      else 10
  | _ => 10
  end.
Definition prefix_len (r : N) : nat := if r =? 10 then 0%nat else 2%nat.

(* rust: is_suffix_start *)
Definition is_suffix_start (r c : N) : bool :=
  if r =? 16 then ((103 <=? c) && (c <=? 122)) || ((71 <=? c) && (c <=? 90))
  else is_ascii_alpha c.

Fixpoint take_until (p : N -> bool) (l : list N) : list N :=
  match l with [] => [] | c :: r => if p c then [] else c :: take_until p r end.

(* rust: char::to_digit as used by from_str_radix *)
Definition digit_val (c : N) : option N :=
  if (48 <=? c) && (c <=? 57) then Some (c - 48)
  else if is_lower c then Some (c - 97 + 10)
  else if is_upper c then Some (c - 65 + 10)
  else None.

Fixpoint parse_digits (r : N) (l : list N) (acc : N) : option N :=
  match l with
  | [] => Some acc
  | c :: rest =>
      match digit_val c with
      | Some d => if d <? r then
                    let acc' := acc * r + d in
                    if acc' <? two128 then parse_digits r rest acc' else None
                  else None
      | None => None
      end
  end.

(* rust: u128::from_str_radix *)
Definition from_str_radix (r : N) (l : list N) : option N :=
  match l with
  | [] => None
  | [43] | [45] => None
  | 43 :: rest => parse_digits r rest 0
  | _ => parse_digits r l 0
  end.

(* rust: IntNumber::value / value_u128 *)
Definition int_value (t : list N) : option N :=
  let r := radix_of t in
  let body := skipn (prefix_len r) t in
  let digs := take_until (is_suffix_start r) body in
  from_str_radix r (filter (fun c => negb (c =? 95)) digs).

(* rust: QuoteOffsets::new + BitString::str -- the text between matching outer quotes *)
Definition between_quotes (t : list N) : option (list N) :=
  match t with
  | q :: rest =>
      if (q =? 34) || (q =? 39) then
        match rev rest with
        | q2 :: mid_rev => if q2 =? q then Some (rev mid_rev) else None
        | [] => None
        end
      else None
  | [] => None
  end.
(* rust: asg.rs BitStringLiteral::to_texpr -- the width counts 0s and 1s only *)
Definition bit_width (s : list N) : N :=
  N.of_nat (length (filter (fun c => (c =? 48) || (c =? 49)) s)).

(* rust: syntax_to_semantics.rs -- a minus sign directly applied to an integer literal *)
Definition negated_int (t : list N) : option (N * bool) :=
  match int_value t with Some v => Some (v, false) | None => None end.
