(* Model M3a: oq3_parser/src/{parser,event,token_set,input}.rs -- parser primitives, the event
   list with in-place updated Start slots, markers with a ghost set of live markers, and
   event::process.  Hand-written, executable.
   Every assert!/unreachable!/unwrap of the modelled code is a [Panic site] outcome; running
   out of loop or recursion fuel ([OutOfFuel]) is the model's image of a hang. *)
From Coq Require Import NArith Arith List Bool.
From OQ3 Require Import gen.Kinds gen.Ops.
Import ListNotations.
Local Open Scope nat_scope.

Inductive event :=
| EStart (kind : N) (fp : option nat)   (* forward_parent: relative distance *)
| EFinish
| EToken (kind : N) (n_raw : nat)
| EError.                               (* message texts are not modelled *)

(* panic sites *)
Inductive site :=
| SBumpAssert            (* parser.rs: assert!(self.eat(kind)) in bump *)
| SNthAssert             (* parser.rs: assert!(n <= 3) *)
| SGrammarAssert (n : N) (* an assert!(p.at(..)) of the grammar, numbered *)
| SMarker (n : N)        (* complete/abandon/precede/extend_to: unreachable!() or dead marker *)
| SDropBomb              (* a Marker dropped without complete/abandon *)
| SProcess               (* event.rs: unreachable!() in process *)
| SUnreachable (n : N).

Section WithInput.
Variable inp : list (N * bool).      (* (kind, joint-with-next) *)

Definition ntoks : nat := length inp.
Definition kind_at (i : nat) : N := match nth_error inp i with Some (k, _) => k | None => K_EOF end.
Definition joint_at (i : nat) : bool := match nth_error inp i with Some (_, j) => j | None => false end.

Record pst := {
  pos : nat;
  evs : list event;     (* newest first *)
  live : list nat       (* ghost: indices of Start slots of markers not yet completed/abandoned *)
}.
Definition nev (s : pst) : nat := length (evs s).
Definition rem (s : pst) : nat := ntoks - pos s.

Inductive res (A : Type) :=
| Ok (a : A) (s : pst)
| Panic (w : site)
| OutOfFuel.
Arguments Ok {A}. Arguments Panic {A}. Arguments OutOfFuel {A}.

Definition M (A : Type) := pst -> res A.
Definition ret {A} (a : A) : M A := fun s => Ok a s.
Definition bind {A B} (m : M A) (f : A -> M B) : M B :=
  fun s => match m s with Ok a s' => f a s' | Panic w => Panic w | OutOfFuel => OutOfFuel end.
Definition panic {A} (w : site) : M A := fun _ => Panic w.
Definition out_of_fuel {A} : M A := fun _ => OutOfFuel.
Definition get : M pst := fun s => Ok s s.

(* slot access: index from the start of the event vector *)
Definition slot (s : pst) (i : nat) : option event :=
  if i <? nev s then nth_error (evs s) (nev s - 1 - i) else None.
Fixpoint set_nth {A} (l : list A) (i : nat) (x : A) : list A :=
  match l, i with
  | [], _ => []
  | _ :: r, O => x :: r
  | y :: r, S j => y :: set_nth r j x
  end.
Definition set_slot (s : pst) (i : nat) (e : event) : pst :=
  {| pos := pos s; evs := set_nth (evs s) (nev s - 1 - i) e; live := live s |}.
Definition push (e : event) : M unit :=
  fun s => Ok tt {| pos := pos s; evs := e :: evs s; live := live s |}.

Fixpoint remove_nat (x : nat) (l : list nat) : list nat :=
  match l with [] => [] | y :: r => if x =? y then r else y :: remove_nat x r end.
Fixpoint mem_nat (x : nat) (l : list nat) : bool :=
  match l with [] => false | y :: r => (x =? y) || mem_nat x r end.

(* ---------------- token access (parser.rs) ---------------- *)
Definition current : M N := fun s => Ok (kind_at (pos s)) s.
(* rust: Parser::nth -- assert!(n <= 3); the step limit is not modelled (see DESIGN) *)
Definition nth_tok (n : nat) : M N :=
  fun s => if n <=? 3 then Ok (kind_at (pos s + n)) s else Panic SNthAssert.

(* composite punctuation: (kind, first, second[, third]) -- rust: nth_at; translated from parser.rs
   on every run (gen/Ops.v) *)
Definition composite2 : list (N * (N * N)) := gen_composite2.
Definition composite3 : list (N * (N * N * N)) := gen_composite3.
Fixpoint assocN {B} (k : N) (l : list (N * B)) : option B :=
  match l with [] => None | (x, v) :: r => if N.eqb k x then Some v else assocN k r end.

Definition nth_at_pure (p n : nat) (kind : N) : bool :=
  match assocN kind composite2 with
  | Some (k1, k2) =>
      N.eqb (kind_at (p + n)) k1 && N.eqb (kind_at (p + n + 1)) k2 && joint_at (p + n)
  | None =>
      match assocN kind composite3 with
      | Some (k1, k2, k3) =>
          N.eqb (kind_at (p + n)) k1 && N.eqb (kind_at (p + n + 1)) k2
          && N.eqb (kind_at (p + n + 2)) k3 && joint_at (p + n) && joint_at (p + n + 1)
      | None => N.eqb (kind_at (p + n)) kind
      end
  end.
Fixpoint memN (k : N) (l : list N) : bool :=
  match l with [] => false | x :: r => N.eqb k x || memN k r end.
(* rust: eat -- the number of raw tokens a kind consumes is a second table in the source (translated
   from parser.rs on every run); that it agrees with the composite table is a proof obligation
   (Proofs/TablesP.v) *)
Definition n_raw_of (kind : N) : nat :=
  if memN kind gen_nraw2 then 2 else if memN kind gen_nraw3 then 3 else 1.

Definition at_ (kind : N) : M bool := fun s => Ok (nth_at_pure (pos s) 0 kind) s.
Definition nth_at (n : nat) (kind : N) : M bool := fun s => Ok (nth_at_pure (pos s) n kind) s.

(* rust: token_set.rs -- a set is the list of its members; contains() is false for kinds >= 128 *)
Definition ts_contains (ts : list N) (k : N) : bool := N.ltb k 128 && memN k ts.
Definition at_ts (ts : list N) : M bool := fun s => Ok (ts_contains ts (kind_at (pos s))) s.

(* rust: do_bump *)
Definition do_bump (kind : N) (n : nat) : M unit :=
  fun s => Ok tt {| pos := pos s + n; evs := EToken kind n :: evs s; live := live s |}.
(* rust: eat *)
Definition eat (kind : N) : M bool :=
  fun s => if nth_at_pure (pos s) 0 kind then
             match do_bump kind (n_raw_of kind) s with
             | Ok _ s' => Ok true s' | Panic w => Panic w | OutOfFuel => OutOfFuel end
           else Ok false s.
(* rust: bump -- assert!(self.eat(kind)) *)
Definition bump (kind : N) : M unit :=
  bind (eat kind) (fun b => if b then ret tt else panic SBumpAssert).
(* rust: bump_any *)
Definition bump_any : M unit :=
  fun s => let k := kind_at (pos s) in if N.eqb k K_EOF then Ok tt s else do_bump k 1 s.
Definition error : M unit := push EError.
(* rust: expect *)
Definition expect (kind : N) : M bool :=
  bind (eat kind) (fun b => if b then ret true else bind error (fun _ => ret false)).

(* ---------------- markers ---------------- *)
Definition marker := nat.
Definition cmarker := (nat * N)%type.   (* CompletedMarker: pos, kind *)

(* rust: Parser::start *)
Definition start : M marker :=
  fun s => Ok (nev s) {| pos := pos s; evs := EStart K_TOMBSTONE None :: evs s; live := nev s :: live s |}.

Definition use_marker (m : marker) (w : N) : M unit :=
  fun s => if mem_nat m (live s)
           then Ok tt {| pos := pos s; evs := evs s; live := remove_nat m (live s) |}
           else Panic (SMarker w).

(* rust: Marker::complete *)
Definition complete (m : marker) (kind : N) : M cmarker :=
  bind (use_marker m 1) (fun _ s =>
    match slot s m with
    | Some (EStart _ fp) =>
        let s1 := set_slot s m (EStart kind fp) in
        Ok (m, kind) {| pos := pos s1; evs := EFinish :: evs s1; live := live s1 |}
    | _ => Panic (SMarker 2)
    end).

(* rust: Marker::abandon *)
Definition abandon (m : marker) : M unit :=
  bind (use_marker m 3) (fun _ s =>
    if S m =? nev s then
      match evs s with
      | EStart k None :: r =>
          if N.eqb k K_TOMBSTONE then Ok tt {| pos := pos s; evs := r; live := live s |}
          else Panic (SMarker 4)
      | _ => Panic (SMarker 4)
      end
    else Ok tt s).

(* rust: CompletedMarker::precede *)
Definition precede (cm : cmarker) : M marker :=
  bind start (fun new s =>
    match slot s (fst cm) with
    | Some (EStart k _) =>
        if fst cm <=? new then Ok new (set_slot s (fst cm) (EStart k (Some (new - fst cm))))
        else Panic (SMarker 5)
    | _ => Panic (SMarker 5)
    end).

(* rust: CompletedMarker::extend_to *)
Definition extend_to (cm : cmarker) (m : marker) : M cmarker :=
  bind (use_marker m 6) (fun _ s =>
    match slot s m with
    | Some (EStart k _) =>
        if m <=? fst cm then Ok cm (set_slot s m (EStart k (Some (fst cm - m))))
        else Panic (SMarker 7)     (* u32 subtraction would overflow *)
    | _ => Panic (SMarker 7)
    end).

(* rust: err_recover / err_and_bump *)
Definition err_recover (recovery : list N) : M unit :=
  bind current (fun k =>
  if N.eqb k K_L_CURLY || N.eqb k K_R_CURLY then error else
  bind (at_ts recovery) (fun b =>
  if b then error else
  bind start (fun m => bind error (fun _ => bind bump_any (fun _ =>
  bind (complete m K_ERROR) (fun _ => ret tt)))))).
Definition err_and_bump : M unit := err_recover [].

(* loop combinator: run [body] while it answers true; fuel = one unit per remaining token + 1.
   An iteration that neither stops nor consumes a token eventually exhausts the fuel. *)
Fixpoint loop_fuel (fuel : nat) (body : M bool) : M unit :=
  match fuel with
  | O => out_of_fuel
  | S f => bind body (fun continue => if continue then loop_fuel f body else ret tt)
  end.
Definition loop (body : M bool) : M unit := fun s => loop_fuel (S (rem s)) body s.

End WithInput.

Arguments Ok {A}. Arguments Panic {A}. Arguments OutOfFuel {A}.
(* ---------------- event::process ---------------- *)
Inductive step :=
| StEnter (kind : N) | StExit | StToken (kind : N) (n_raw : nat) | StError.

(* follow the forward-parent chain starting at index idx of the (oldest-first) event list;
   returns the kinds met (including the first) and the list with the visited slots tombstoned.
   Fuel = length of the list (every hop moves strictly forward). *)
Fixpoint set_nth' {A} (l : list A) (i : nat) (x : A) : list A :=
  match l, i with
  | [], _ => []
  | _ :: r, O => x :: r
  | y :: r, S j => y :: set_nth' r j x
  end.
Fixpoint fp_chain (fuel : nat) (evs : list event) (idx : nat) (fp : option nat) (acc : list N)
  : option (list N * list event) :=
  match fp with
  | None => Some (acc, evs)
  | Some fwd =>
      match fuel with
      | O => None
      | S f =>
          let idx' := idx + fwd in
          match nth_error evs idx' with
          | Some (EStart k fp') =>
              fp_chain f (set_nth' evs idx' (EStart K_TOMBSTONE None)) idx' fp' (k :: acc)
          | _ => None       (* unreachable!() *)
          end
      end
  end.

Fixpoint process_loop (fuel : nat) (evs : list event) (i : nat) (out : list step)
  : option (list step) :=
  (* out is reversed *)
  match fuel with
  | O => Some (rev out)
  | S f =>
      match nth_error evs i with
      | None => Some (rev out)
      | Some (EStart k fp) =>
          match fp_chain (length evs) evs i fp [k] with
          | Some (kinds, evs') =>
              (* kinds is already in reverse order of discovery: outermost parent first *)
              let enters := map StEnter (filter (fun k => negb (N.eqb k K_TOMBSTONE)) kinds) in
              process_loop f evs' (S i) (rev enters ++ out)
          | None => None
          end
      | Some EFinish => process_loop f evs (S i) (StExit :: out)
      | Some (EToken k n) => process_loop f evs (S i) (StToken k n :: out)
      | Some EError => process_loop f evs (S i) (StError :: out)
      end
  end.
(* rust: event::process; None = unreachable!() hit *)
Definition process (evs_oldest_first : list event) : option (list step) :=
  process_loop (length evs_oldest_first) evs_oldest_first 0 [].
