(* Include resolution and expansion (property C18): source_file.rs:resolve_file_path,
   parse_included_files and the include arm of syntax_to_semantic, over an abstract file system.
   Directories and file names are numbers; the file system says which (directory, name) pairs
   are regular files.  A file's content is abstracted to its sequence of items: a marker
   (standing for its own statements), includes, and the standard-library include. *)
From Coq Require Import NArith List Bool.
Import ListNotations.
Open Scope N_scope.

Definition fsys := list (N * N).
(* the working directory, as a directory number of its own (it is on no search list) *)
Definition cwd : N := 999.
Definition has (fs : fsys) (d f : N) : bool := existsb (fun '(d', f') => (d =? d') && (f =? f')) fs.

Inductive ipath : Type :=
| PAbs (d f : N)      (* absolute path of file f in directory d *)
| PRel (f : N).       (* relative path *)

Inductive rpath : Type :=
| RFile (d f : N)     (* the file f of directory d *)
| RAsGiven (f : N).   (* not found: the path as written (relative to the working directory) *)

(* rust: resolve_file_path *)
Definition resolve (fs : fsys) (search env : option (list N)) (p : ipath) : rpath :=
  match p with
  | PAbs d f => RFile d f
  | PRel f =>
      let dirs := match search with
                  | Some l => l
                  | None => match env with Some l => l | None => [] end
                  end in
      match find (fun d => has fs d f) dirs with
      | Some d => RFile d f
      | None => RAsGiven f
      end
  end.

Inductive item : Type :=
| IMark (tag : N)          (* statements of the file itself *)
| IInc (p : ipath)
| IIncStd.

(* what analysing a file yields, in order: the markers met, and the includes that could not be read *)
Inductive iev : Type := EMark (tag : N) | EUnreadable (p : rpath).

Section Expand.
  Variable fs : fsys.
  Variable search env : option (list N).
  Variable content : N -> N -> list item.      (* content of file f in directory d *)
  (* can the resolved path be read: a file of the file system; a path that was not found in any
     search directory is opened as written, i.e. relative to the working directory [cwd] *)
  Definition readable (r : rpath) : bool :=
    match r with RFile d f => has fs d f | RAsGiven f => has fs cwd f end.

  (* fuel bounds the include depth (files including files); the list is consumed structurally *)
  Fixpoint expand (fuel : nat) : list item -> list iev :=
    fix go (its : list item) : list iev :=
      match its with
      | [] => []
      | IMark t :: r => EMark t :: go r
      | IIncStd :: r => go r
      | IInc p :: r =>
          let rp := resolve fs search env p in
          (if readable rp then
             match fuel, rp with
             | S f', RFile d f => expand f' (content d f)
             | S f', RAsGiven f => expand f' (content cwd f)
             | _, _ => []
             end
           else [EUnreadable rp]) ++ go r
      end.
End Expand.
