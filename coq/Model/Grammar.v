(* Model M3b: oq3_parser/src/grammar.rs and grammar/{items,expressions,expressions/atom,params}.rs.
   Hand-written, executable, one Gallina definition per Rust function (named alike).
   Open recursion: calls that close a cycle go through the record [G] of call-backs; [tie]
   closes the knot with recursion fuel.  Loops use [loopS] whose fuel is one unit per remaining
   token plus one, so an iteration that neither exits nor consumes runs out of fuel. *)
From Coq Require Import NArith Arith List Bool.
From OQ3 Require Import gen.Kinds gen.Ops Model.Parser.
Import ListNotations.
Local Open Scope nat_scope.

Section G.
Variable inp : list (N * bool).

Notation current := (current inp). Notation nth_tok := (nth_tok inp). Notation at_ := (at_ inp).
Notation at_ts := (at_ts inp). Notation eat := (eat inp). Notation bump := (bump inp).
Notation bump_any := (bump_any inp). Notation expect := (expect inp).
Notation err_recover := (err_recover inp). Notation err_and_bump := (err_and_bump inp).
Notation rem := (rem inp). Notation kind_at := (kind_at inp). Notation nth_at_pure := (nth_at_pure inp).
Notation "x <- m ;; k" := (bind m (fun x => k)) (at level 61, m at next level, right associativity).
Notation "m ;;; k" := (bind m (fun _ => k)) (at level 61, right associativity).
Notation "' p <- m ;; k" := (bind m (fun x => let 'p := x in k))
  (at level 61, p pattern, m at next level, right associativity).

Definition keq (a b : N) : bool := N.eqb a b.
Definition kin (k : N) (l : list N) : bool := memN k l.
Definition when_ (b : bool) (m : M unit) : M unit := if b then m else ret tt.
Definition ign {A} (m : M A) : M unit := m ;;; ret tt.
Definition assert_at (kind : N) (n : N) : M unit :=
  b <- at_ kind ;; if b then ret tt else panic (SGrammarAssert n).

(* stateful loop: iterate [body] while it returns [inl]; fuel as for [loop] *)
Fixpoint loopS_fuel {A B} (fuel : nat) (body : A -> M (A + B)) (a : A) : M B :=
  match fuel with
  | O => out_of_fuel
  | S f => r <- body a ;; match r with inl a' => loopS_fuel f body a' | inr b => ret b end
  end.
Definition loopS {A B} (body : A -> M (A + B)) (a : A) : M B :=
  fun s => loopS_fuel (S (rem s)) body a s.
Definition loop (body : M bool) : M unit :=
  loopS (fun _ : unit => b <- body ;; ret (if b then inl tt else inr tt)) tt.

(* ---------------- token sets ----------------
   translated from the TokenSet constants of grammar/** on every run (gen/Ops.v) *)
Definition ITEM_RECOVERY_SET : list N := gen_ITEM_RECOVERY_SET.
Definition PATH_FIRST : list N := gen_PATH_FIRST.
Definition LITERAL_FIRST : list N := gen_LITERAL_FIRST.
Definition TIMING_LITERAL_FIRST : list N := gen_TIMING_LITERAL_FIRST.
Definition ATOM_EXPR_FIRST : list N := gen_ATOM_EXPR_FIRST.
Definition EXPR_RECOVERY_SET : list N := gen_EXPR_RECOVERY_SET.
Definition LHS_FIRST : list N := gen_LHS_FIRST.
Definition EXPR_FIRST : list N := gen_EXPR_FIRST.
Definition PATTERN_FIRST : list N := gen_PATTERN_FIRST.
Definition TYPE_FIRST : list N := gen_TYPE_FIRST.
Definition PARAM_FIRST : list N := gen_PARAM_FIRST.

(* rust: grammar.rs impl SyntaxKind *)
Definition is_scalar_type (k : N) : bool := kin k is_scalar_type_list.
Definition is_classical_type (k : N) : bool := is_scalar_type k || keq k K_ARRAY_KW.
Definition is_quantum_type (k : N) : bool := keq k K_QUBIT_KW || keq k K_HARDWARE_QUBIT.
Definition is_type (k : N) : bool := is_classical_type k || is_quantum_type k.
Definition is_creg_or_qreg (k : N) : bool := keq k K_QREG_KW || keq k K_CREG_KW.

Inductive flavor := GateParams | GateQubits | GateCallQubits | DefParams | DefCalParams
                  | DefCalQubits | ExpressionList | ArrayLiteral | CaseValues | TypeListFlavor.

(* call-backs that close the recursion cycles *)
Record G := {
  g_expr_bp : option marker -> bool -> nat -> M (option (cmarker * bool));
  g_stmt : M unit;
  g_type_spec : M bool;
  g_non_array_type_spec : M bool;
  g_if_stmt : marker -> M unit;
  g_param_list : flavor -> M unit
}.
Variable R : G.

(* rust: expressions.rs:expr *)
Definition expr : M (option cmarker) :=
  r <- g_expr_bp R None false 1 ;; ret (option_map fst r).

(* ---------------- grammar.rs ---------------- *)
Definition name_r (recovery : list N) : M unit :=
  b <- at_ K_HARDWAREIDENT ;;
  if b then m <- start ;; bump K_HARDWAREIDENT ;;; ign (complete m K_HARDWARE_QUBIT) else
  b <- at_ K_IDENT ;;
  if b then m <- start ;; bump K_IDENT ;;; ign (complete m K_NAME)
  else err_recover recovery.
Definition name : M unit := name_r [].

(* ---------------- expressions.rs (leaf parts) ---------------- *)
Definition identifier : M cmarker :=
  m <- start ;; expect K_IDENT ;;; complete m K_IDENTIFIER.
Definition hardware_qubit : M cmarker :=
  m <- start ;; bump K_HARDWAREIDENT ;;; complete m K_HARDWARE_QUBIT.
Definition var_name : M unit :=
  m <- start ;; b <- at_ K_IDENT ;;
  (if b then bump_any else error) ;;; ign (complete m K_NAME).

Definition expression_list : M unit := g_param_list R ExpressionList.
Definition arg_list_gate_call_qubits : M unit := g_param_list R GateCallQubits.

Definition set_expression : M unit :=
  assert_at K_L_CURLY 1 ;;; m <- start ;; bump K_L_CURLY ;;; expression_list ;;;
  expect K_R_CURLY ;;; ign (complete m K_SET_EXPRESSION).

Definition index_operator : M unit :=
  assert_at K_L_BRACK 2 ;;; m <- start ;; expect K_L_BRACK ;;;
  b <- at_ K_L_CURLY ;; (if b then set_expression else expression_list) ;;;
  expect K_R_BRACK ;;; ign (complete m K_INDEX_OPERATOR).

Definition index_expr (lhs : cmarker) : M cmarker :=
  assert_at K_L_BRACK 3 ;;; m <- precede lhs ;; index_operator ;;; complete m K_INDEX_EXPR.

Definition indexed_identifier (lhs : cmarker) : M cmarker :=
  assert_at K_L_BRACK 4 ;;; m <- precede lhs ;;
  loop (b <- at_ K_L_BRACK ;; e <- at_ K_EOF ;;
        if b && negb e then index_operator ;;; ret true else ret false) ;;;
  complete m K_INDEXED_IDENTIFIER.

(* rust: params.rs:arg_gate_call_qubit *)
Definition arg_gate_call_qubit (m : marker) : M bool :=
  b <- at_ K_HARDWAREIDENT ;;
  if b then bump K_HARDWAREIDENT ;;; complete m K_HARDWARE_QUBIT ;;; ret true else
  b <- at_ K_IDENT ;;
  if negb b then error ;;; abandon m ;;; ret false else
  bump K_IDENT ;;; mcomp <- complete m K_IDENTIFIER ;;
  b <- at_ K_L_BRACK ;;
  if b then indexed_identifier mcomp ;;; ret true else ret true.

Definition designator : M bool :=
  assert_at K_L_BRACK 5 ;;; m <- start ;; bump K_L_BRACK ;;;
  k <- current ;; la <- nth_tok 1 ;;
  when_ (kin k [K_FLOAT_NUMBER; K_BYTE; K_CHAR; K_STRING; K_BIT_STRING] && keq la K_R_BRACK) error ;;;
  expr ;;; expect K_R_BRACK ;;; complete m K_DESIGNATOR ;;; ret true.

Definition type_can_have_designator (k : N) : bool :=
  kin k [K_ANGLE_TY; K_BIT_TY; K_FLOAT_TY; K_INT_TY; K_UINT_TY; K_BOX_KW; K_DELAY_KW; K_QUBIT_KW].

Definition type_name : M unit :=
  k <- current ;; if negb (is_type k) then error else bump k.

Definition complex_type_spec : M unit :=
  assert_at K_COMPLEX_TY 6 ;;; m <- start ;; bump_any ;;;
  b <- at_ K_L_BRACK ;;
  (if b then bump K_L_BRACK ;;; f <- at_ K_FLOAT_TY ;; when_ (negb f) error ;;;
             g_non_array_type_spec R ;;; ign (expect K_R_BRACK)
   else ret tt) ;;;
  ign (complete m K_SCALAR_TYPE).

Definition non_array_type_spec : M bool :=
  b <- at_ K_COMPLEX_TY ;;
  if b then complex_type_spec ;;; ret true else
  m <- start ;; k <- current ;; type_name ;;;
  b <- at_ K_L_BRACK ;;
  (if b then when_ (negb (type_can_have_designator k)) error ;;; ign designator else ret tt) ;;;
  complete m K_SCALAR_TYPE ;;; ret true.

Definition array_type_spec (want_array_ref_type : bool) : M bool :=
  m <- start ;;
  (if want_array_ref_type then
     b <- at_ K_ARRAY_KW ;;
     if b then error else eat K_MUTABLE_KW ;;; ign (eat K_READONLY_KW)
   else assert_at K_ARRAY_KW 7) ;;;
  bump_any ;;; expect K_L_BRACK ;;;
  k <- current ;;
  when_ (negb (kin k [K_INT_TY; K_UINT_TY; K_FLOAT_TY; K_COMPLEX_TY; K_ANGLE_TY; K_BOOL_TY; K_DURATION_TY])) error ;;;
  g_type_spec R ;;; expect K_COMMA ;;;
  d <- at_ K_DIM_KW ;;
  (if d then
     when_ (negb want_array_ref_type) error ;;;
     m1 <- start ;; bump_any ;;;
     e <- eat K_EQ ;; (if e then ign expr else error) ;;;
     c <- at_ K_R_BRACK ;; (if c then bump_any else error) ;;;
     ign (complete m1 K_DIM_EXPR)
   else
     loop (expr ;;; c <- at_ K_R_BRACK ;;
           if c then bump_any ;;; ret false else expect K_COMMA)) ;;;
  complete m K_ARRAY_TYPE ;;; ret true.

Definition type_spec : M bool :=
  b <- at_ K_ARRAY_KW ;; if b then array_type_spec false else non_array_type_spec.
Definition param_type_spec : M bool :=
  a <- at_ K_ARRAY_KW ;; b <- at_ K_MUTABLE_KW ;; c <- at_ K_READONLY_KW ;;
  if a || b || c then array_type_spec true else non_array_type_spec.

Definition qubit_type_spec : M bool :=
  assert_at K_QUBIT_KW 8 ;;; m <- start ;; type_name ;;;
  b <- at_ K_L_BRACK ;;
  (if b then designator ;;; h <- at_ K_HARDWAREIDENT ;; when_ h error else ret tt) ;;;
  complete m K_QUBIT_TYPE ;;; ret true.

(* rust: grammar.rs:opt_return_signature *)
Definition opt_return_signature : M bool :=
  b <- at_ K_THIN_ARROW ;;
  if negb b then ret false else
  m <- start ;; bump K_THIN_ARROW ;;;
  k <- current ;; when_ (negb (is_scalar_type k)) error ;;;
  k <- current ;;
  if is_type k then type_spec ;;; complete m K_RETURN_SIGNATURE ;;; ret true
  else abandon m ;;; ret false.

(* rust: expressions.rs:q_or_c_reg_param *)
Definition q_or_c_reg_param : M unit :=
  m <- start ;; bump_any ;;;
  b <- at_ K_IDENT ;;
  if negb b then error ;;; abandon m else
  bump_any ;;;
  b <- at_ K_L_BRACK ;; e <- at_ K_EOF ;;
  if b && negb e then index_operator ;;; ign (complete m K_OLD_TYPED_PARAM)
  else error ;;; abandon m.

(* rust: grammar.rs:delimited as used by call_arg_list (consume_braket = false) *)
Definition call_arg_list : M unit :=
  assert_at K_L_PAREN 9 ;;; m <- start ;; m1 <- start ;; bump K_L_PAREN ;;;
  loop (k <- at_ K_R_PAREN ;; e <- at_ K_EOF ;;
        if k || e then ret false else
        r <- expr ;;
        match r with
        | None => ret false
        | Some _ =>
            c <- at_ K_COMMA ;;
            if negb c then f <- at_ts EXPR_FIRST ;; if f then error ;;; ret true else ret false
            else bump K_COMMA ;;; ret true
        end) ;;;
  expect K_R_PAREN ;;; complete m1 K_EXPRESSION_LIST ;;; ign (complete m K_ARG_LIST).

(* ---------------- atom.rs ---------------- *)
Definition literal : M (option cmarker) :=
  b <- at_ts LITERAL_FIRST ;;
  if negb b then ret None else
  s <- at_ K_STRING ;; when_ s error ;;;
  m <- start ;; la <- nth_tok 1 ;;
  if keq la K_IDENT then
    t <- at_ts TIMING_LITERAL_FIRST ;; when_ (negb t) error ;;;
    m2 <- start ;; bump_any ;;; complete m2 K_LITERAL ;;; identifier ;;;
    cm <- complete m K_TIMING_LITERAL ;; ret (Some cm)
  else bump_any ;;; cm <- complete m K_LITERAL ;; ret (Some cm).

Definition cast_expr : M cmarker :=
  m <- start ;; type_spec ;;; expect K_L_PAREN ;;; expr ;;; expect K_R_PAREN ;;;
  complete m K_CAST_EXPRESSION.

Definition gphase_call_expr : M cmarker :=
  assert_at K_GPHASE_KW 10 ;;; m <- start ;; bump K_GPHASE_KW ;;; expr ;;;
  complete m K_G_PHASE_CALL_EXPR.

Definition gate_call_expr : M cmarker :=
  m <- start ;; identifier ;;;
  b <- at_ K_L_PAREN ;; when_ b call_arg_list ;;;
  arg_list_gate_call_qubits ;;; complete m K_GATE_CALL_EXPR.

Definition paren_arg : M unit :=
  m2 <- start ;; expect K_L_PAREN ;;; expr ;;; expect K_R_PAREN ;;; ign (complete m2 K_PAREN_EXPR).

Definition modified_gate_call_expr : M cmarker :=
  m <- start ;;
  loop (k <- current ;;
        if keq k K_INV_KW then
          m1 <- start ;; bump K_INV_KW ;;;
          a <- at_ K_AT ;;
          (if a then bump K_AT else error) ;;;   (* both non-@ arms only record an error *)
          complete m1 K_INV_MODIFIER ;;; ret true
        else if keq k K_POW_KW then
          m1 <- start ;; bump K_POW_KW ;;;
          b <- at_ K_L_PAREN ;; (if b then paren_arg else error) ;;;
          expect K_AT ;;; complete m1 K_POW_MODIFIER ;;; ret true
        else if keq k K_CTRL_KW then
          m1 <- start ;; bump K_CTRL_KW ;;;
          b <- at_ K_L_PAREN ;; when_ b paren_arg ;;;
          expect K_AT ;;; complete m1 K_CTRL_MODIFIER ;;; ret true
        else if keq k K_NEGCTRL_KW then
          m1 <- start ;; bump K_NEGCTRL_KW ;;;
          b <- at_ K_L_PAREN ;; when_ b paren_arg ;;;
          expect K_AT ;;; complete m1 K_NEG_CTRL_MODIFIER ;;; ret true
        else ret false) ;;;
  g <- at_ K_GPHASE_KW ;;
  (if g then ign gphase_call_expr else ign gate_call_expr) ;;;
  complete m K_MODIFIED_GATE_CALL_EXPR.

Definition measure_expression : M cmarker :=
  m <- start ;; bump K_MEASURE_KW ;;;
  k <- current ;;
  (if keq k K_IDENT || keq k K_HARDWAREIDENT then m1 <- start ;; ign (arg_gate_call_qubit m1)
   else error) ;;;
  complete m K_MEASURE_EXPRESSION.

Definition tuple_expr : M cmarker :=
  assert_at K_L_PAREN 11 ;;; m <- start ;; expect K_L_PAREN ;;;
  c0 <- eat K_COMMA ;; when_ c0 error ;;;
  '(saw_comma, saw_expr) <-
    loopS (fun st : bool * bool =>
      let '(saw_comma, saw_expr) := st in
      e <- at_ K_EOF ;; k <- at_ K_R_PAREN ;;
      if e || k then ret (inr (saw_comma, saw_expr)) else
      r <- expr ;;
      match r with
      | None => ret (inr (saw_comma, true))
      | Some _ =>
          k2 <- at_ K_R_PAREN ;;
          if negb k2 then expect K_COMMA ;;; ret (inl (true, true))
          else ret (inl (saw_comma, true))
      end) (c0, false) ;;
  expect K_R_PAREN ;;;
  complete m (if saw_expr && negb saw_comma then K_PAREN_EXPR else K_TUPLE_EXPR).

Definition array_expr : M cmarker :=
  assert_at K_L_BRACK 12 ;;; m <- start ;; bump K_L_BRACK ;;;
  loopS (fun st : bool * bool =>          (* (first iteration?, has_semi) *)
      let '(first, has_semi) := st in
      e <- at_ K_EOF ;; k <- at_ K_R_BRACK ;;
      if e || k then ret (inr tt) else
      r <- expr ;;
      match r with
      | None => ret (inr tt)
      | Some _ =>
          sc <- (if first then eat K_SEMICOLON else ret false) ;;
          if sc then ret (inl (false, true)) else
          if has_semi then ret (inr tt) else
          k2 <- at_ K_R_BRACK ;;
          if k2 then ret (inl (false, has_semi)) else
          c <- expect K_COMMA ;; if c then ret (inl (false, has_semi)) else ret (inr tt)
      end) (true, false) ;;;
  expect K_R_BRACK ;;; complete m K_ARRAY_EXPR.

Definition expr_block_statements : M unit :=
  loop (e <- at_ K_EOF ;; k <- at_ K_R_CURLY ;;
        if e || k then ret false else g_stmt R ;;; ret true).

Definition block_expr : M cmarker :=
  assert_at K_L_CURLY 13 ;;; m <- start ;; bump K_L_CURLY ;;; expr_block_statements ;;;
  expect K_R_CURLY ;;; complete m K_BLOCK_EXPR.
Definition try_block_expr : M unit :=
  b <- at_ K_L_CURLY ;; if negb b then error else ign block_expr.

Definition return_expr : M cmarker :=
  assert_at K_RETURN_KW 14 ;;; m <- start ;; bump_any ;;;
  f <- at_ts EXPR_FIRST ;; k <- current ;; la <- nth_tok 1 ;;
  when_ (f || (is_classical_type k && (keq la K_L_PAREN || keq la K_L_BRACK))) (ign expr) ;;;
  complete m K_RETURN_EXPR.
Definition box_expr : M cmarker :=
  assert_at K_BOX_KW 15 ;;; m <- start ;; bump K_BOX_KW ;;;
  f <- at_ts EXPR_FIRST ;; when_ f (ign expr) ;;; complete m K_BOX_EXPR.

Definition atom_expr : M (option (cmarker * bool)) :=
  l <- literal ;;
  match l with
  | Some m => ret (Some (m, false))
  | None =>
      la <- nth_tok 1 ;; k <- current ;;
      if is_classical_type k then m <- cast_expr ;; ret (Some (m, false)) else
      let fin (c : M cmarker) : M (option (cmarker * bool)) :=
        done <- c ;; ret (Some (done, keq (snd done) K_BLOCK_EXPR)) in
      if keq k K_HARDWAREIDENT then fin hardware_qubit
      else if keq k K_L_PAREN then fin tuple_expr
      else if keq k K_L_BRACK then fin array_expr
      else if keq k K_BOX_KW then fin box_expr
      else if keq k K_MEASURE_KW then fin measure_expression
      else if keq k K_RETURN_KW then fin return_expr
      else if keq k K_L_CURLY then fin block_expr
      else if kin k [K_INV_KW; K_POW_KW; K_CTRL_KW; K_NEGCTRL_KW] then fin modified_gate_call_expr
      else if keq k K_GPHASE_KW then fin gphase_call_expr
      else if keq k K_IDENT && (keq la K_IDENT || keq la K_HARDWAREIDENT) then fin gate_call_expr
      else if keq k K_IDENT then fin identifier
      else err_and_bump ;;; ret None
  end.

(* ---------------- expressions.rs (Pratt parser) ---------------- *)
Definition call_expr (lhs : cmarker) : M cmarker :=
  assert_at K_L_PAREN 16 ;;; m <- precede lhs ;; call_arg_list ;;;
  k <- current ;;
  if keq k K_IDENT || keq k K_HARDWAREIDENT
  then arg_list_gate_call_qubits ;;; complete m K_GATE_CALL_EXPR
  else complete m K_CALL_EXPR.

Definition postfix_expr (lhs : cmarker) (block_like allow_calls : bool) : M (cmarker * bool) :=
  loopS (fun st : cmarker * bool * bool =>
      let '(lhs, block_like, allow_calls) := st in
      k <- current ;;
      if keq k K_L_PAREN && allow_calls then
        l <- call_expr lhs ;; ret (inl (l, false, true))
      else if keq k K_L_BRACK && allow_calls then
        l <- (if keq (snd lhs) K_IDENTIFIER then indexed_identifier lhs
              else if kin (snd lhs) [K_LITERAL; K_TIMING_LITERAL; K_HARDWARE_QUBIT]
                   then error ;;; index_expr lhs
              else index_expr lhs) ;;
        ret (inl (l, false, true))
      else ret (inr (lhs, block_like))) (lhs, block_like, allow_calls).

Definition lhs (prefer_stmt : bool) : M (option (cmarker * bool)) :=
  k <- current ;;
  if kin k [K_TILDE; K_BANG; K_MINUS] then
    m <- start ;; bump_any ;;;
    g_expr_bp R None prefer_stmt unary_bp ;;;
    cm <- complete m K_PREFIX_EXPR ;; ret (Some (cm, false))
  else
    a <- atom_expr ;;
    match a with
    | None => ret None
    | Some (l, blocklike) =>
        r <- postfix_expr l blocklike (negb (prefer_stmt && blocklike)) ;; ret (Some r)
    end.

(* rust: current_op -- (binding power, operator kind, right-associative?).  The arms of the
   match are translated from expressions.rs on every run (gen/Ops.v: op_arms, in source order);
   the first arm whose kind is the current one and whose p.at(..) guard holds decides. *)
Definition NOT_AN_OP : nat * N * bool := (0, not_an_op_kind, false).
Fixpoint interp_ops (arms : list (N * option N * option (nat * N * bool))) (p : nat) : nat * N * bool :=
  match arms with
  | [] => NOT_AN_OP
  | (c, g, res) :: r =>
      if keq (kind_at p) c && match g with Some o => nth_at_pure p 0 o | None => true end
      then match res with Some x => x | None => NOT_AN_OP end
      else interp_ops r p
  end.
Definition current_op_val (p : nat) : nat * N * bool := interp_ops op_arms p.
Definition current_op : M (nat * N * bool) := fun s => Ok (current_op_val (pos s)) s.

Definition expr_bp (m : option marker) (prefer_stmt : bool) (bp : nat)
  : M (option (cmarker * bool)) :=
  m <- match m with Some m => ret m | None => start end ;;
  k <- current ;; la <- nth_tok 1 ;;
  if negb (ts_contains EXPR_FIRST k)
     && negb (is_classical_type k && (keq la K_L_PAREN || keq la K_L_BRACK)) then
    err_recover EXPR_RECOVERY_SET ;;; abandon m ;;; ret None
  else
  l <- lhs prefer_stmt ;;
  match l with
  | None => abandon m ;;; ret None
  | Some (l0, blocklike) =>
      l1 <- extend_to l0 m ;;
      if prefer_stmt && blocklike then ret (Some (l1, true)) else
      lfin <- loopS (fun l : cmarker =>
          '(op_bp, op, rassoc) <- current_op ;;
          if op_bp <? bp then ret (inr l) else
          let lhs_kind := snd l in
          m <- precede l ;; bump op ;;;
          g_expr_bp R None false (if rassoc then op_bp else op_bp + 1) ;;;
          if keq op K_EQ then
            when_ (negb prefer_stmt) error ;;;
            if keq lhs_kind K_IDENTIFIER || keq lhs_kind K_INDEXED_IDENTIFIER then
              when_ prefer_stmt (ign (expect K_SEMICOLON)) ;;;
              l' <- complete m K_ASSIGNMENT_STMT ;; ret (inl l')
            else error ;;; l' <- complete m K_BIN_EXPR ;; ret (inl l')
          else l' <- complete m K_BIN_EXPR ;; ret (inl l')) l1 ;;
      ret (Some (lfin, false))
  end.

Definition expr_direct : M (option cmarker) :=
  r <- expr_bp None false 1 ;; ret (option_map fst r).

Definition range_expr : M (option cmarker) :=
  m <- start ;; assert_at K_L_BRACK 17 ;;; bump K_L_BRACK ;;; expr ;;;
  c <- at_ K_COLON ;;
  (if c then bump K_COLON ;;; expr ;;; c2 <- at_ K_COLON ;;
             when_ c2 (bump K_COLON ;;; ign expr)
   else error) ;;;
  expect K_R_BRACK ;;; cm <- complete m K_RANGE_EXPR ;; ret (Some cm).

Definition expr_or_range_expr : M (option cmarker) :=
  m <- start ;; e1 <- expr ;;
  c <- at_ K_COLON ;;
  if c then bump K_COLON ;;; expr ;;; c2 <- at_ K_COLON ;;
            when_ c2 (bump K_COLON ;;; ign expr) ;;;
            cm <- complete m K_RANGE_EXPR ;; ret (Some cm)
  else abandon m ;;; ret e1.

(* ---------------- params.rs ---------------- *)
Definition at_list_end_token (fl : flavor) : M bool :=
  match fl with
  | DefCalQubits => a <- at_ K_L_CURLY ;; b <- at_ K_THIN_ARROW ;; ret (a || b)
  | ExpressionList => at_ K_R_BRACK
  | CaseValues | GateQubits => at_ K_L_CURLY
  | GateParams | DefParams | DefCalParams | TypeListFlavor => at_ K_R_PAREN
  | GateCallQubits => at_ K_SEMICOLON
  | ArrayLiteral => at_ K_R_CURLY
  end.

Definition param_untyped (m : marker) : M bool :=
  b <- at_ K_IDENT ;;
  if negb b then error ;;; abandon m ;;; ret false
  else bump K_IDENT ;;; complete m K_PARAM ;;; ret true.
Definition param_untyped_or_hardware_qubit (m : marker) : M bool :=
  b <- at_ K_IDENT ;;
  if b then bump K_IDENT ;;; complete m K_PARAM ;;; ret true else
  h <- at_ K_HARDWAREIDENT ;;
  if h then abandon m ;;; hardware_qubit ;;; ret true
  else error ;;; abandon m ;;; ret false.
Definition param_typed (m : marker) : M bool :=
  c <- at_ K_CREG_KW ;; q <- at_ K_QREG_KW ;;
  if c || q then abandon m ;;; q_or_c_reg_param ;;; ret true else
  param_type_spec ;;; var_name ;;; complete m K_TYPED_PARAM ;;; ret true.
Definition scalar_type (m : marker) : M bool :=
  type_spec ;;; complete m K_SCALAR_TYPE ;;; ret true.

Definition param_list_openqasm (fl : flavor) : M unit :=
  list_marker <- start ;;
  let need_parens := match fl with GateParams | DefParams | DefCalParams | TypeListFlavor => true | _ => false end in
  let need_curlies := match fl with ArrayLiteral => true | _ => false end in
  (if need_parens then ign (expect K_L_PAREN)
   else if need_curlies then ign (expect K_L_CURLY) else ret tt) ;;;
  any <- loopS (fun any : bool =>
      e <- at_ K_EOF ;; t <- at_list_end_token fl ;;
      if e || t then ret (inr any) else
      s0 <- get ;;
      m <- start ;;
      inner <- at_ K_L_CURLY ;;
      k <- current ;; pf <- at_ts PARAM_FIRST ;;
      mu <- at_ K_MUTABLE_KW ;; ro <- at_ K_READONLY_KW ;;
      let is_def := match fl with DefParams => true | _ => false end in
      if negb (is_def && (mu || ro))
         && negb (is_type k || pf || inner || is_creg_or_qreg k) then
        error ;;; abandon m ;;; ret (inr any)
      else
      found <- match fl with
               | ExpressionList | CaseValues => abandon m ;;; expr_or_range_expr ;;; ret true
               | GateCallQubits => arg_gate_call_qubit m
               | TypeListFlavor => scalar_type m
               | DefCalParams | DefParams => param_typed m
               | GateParams | GateQubits => param_untyped m
               | DefCalQubits => param_untyped_or_hardware_qubit m
               | ArrayLiteral =>
                   if inner then abandon m ;;; g_param_list R ArrayLiteral ;;; ret true
                   else abandon m ;;; expr ;;; ret true
               end ;;
      if negb found then ret (inr any) else
      s1 <- get ;;
      if pos s1 =? pos s0 then ret (inr true) else
      t2 <- at_list_end_token fl ;;
      if t2 then ret (inr true) else
      c <- at_ K_COMMA ;;
      if negb c then
        pf2 <- at_ts PARAM_FIRST ;;
        if pf2 then error ;;; ret (inl true) else ret (inr true)
      else bump K_COMMA ;;; ret (inl true)) false ;;
  when_ (negb any && match fl with GateParams | ExpressionList | CaseValues => true | _ => false end) error ;;;
  (if need_parens then ign (expect K_R_PAREN)
   else if need_curlies then ign (expect K_R_CURLY) else ret tt) ;;;
  ign (complete list_marker
    match fl with
    | GateQubits | GateParams => K_PARAM_LIST
    | DefCalQubits | GateCallQubits => K_QUBIT_LIST
    | ExpressionList | CaseValues => K_EXPRESSION_LIST
    | DefParams | DefCalParams => K_TYPED_PARAM_LIST
    | TypeListFlavor => K_TYPE_LIST
    | ArrayLiteral => K_ARRAY_LITERAL
    end).

(* ---------------- items.rs ---------------- *)
Definition block_or_statement : M unit :=
  b <- at_ K_L_CURLY ;; if b then ign block_expr else g_stmt R.

Definition switch_case_stmt (m : marker) : M unit :=
  assert_at K_SWITCH_KW 18 ;;; bump K_SWITCH_KW ;;; expect K_L_PAREN ;;; expr ;;;
  expect K_R_PAREN ;;; expect K_L_CURLY ;;;
  c <- at_ K_CASE_KW ;; d <- at_ K_DEFAULT_KW ;; when_ (negb c && negb d) error ;;;
  loop (c <- at_ K_CASE_KW ;;
        if negb c then ret false else
        m1 <- start ;; bump K_CASE_KW ;;; g_param_list R CaseValues ;;; try_block_expr ;;;
        complete m1 K_CASE_EXPR ;;; ret true) ;;;
  d <- eat K_DEFAULT_KW ;; when_ d try_block_expr ;;;
  expect K_R_CURLY ;;; ign (complete m K_SWITCH_CASE_STMT).

Definition if_stmt (m : marker) : M unit :=
  assert_at K_IF_KW 19 ;;; bump K_IF_KW ;;; expect K_L_PAREN ;;; expr ;;; expect K_R_PAREN ;;;
  block_or_statement ;;;
  e <- at_ K_ELSE_KW ;;
  (if e then bump K_ELSE_KW ;;; i <- at_ K_IF_KW ;;
             if i then m' <- start ;; g_if_stmt R m' else block_or_statement
   else ret tt) ;;;
  ign (complete m K_IF_STMT).

Definition while_stmt (m : marker) : M unit :=
  assert_at K_WHILE_KW 20 ;;; bump K_WHILE_KW ;;; expect K_L_PAREN ;;; expr ;;; expect K_R_PAREN ;;;
  block_or_statement ;;; ign (complete m K_WHILE_STMT).

Definition for_stmt (m : marker) : M unit :=
  assert_at K_FOR_KW 21 ;;; bump K_FOR_KW ;;; type_spec ;;; name ;;; expect K_IN_KW ;;;
  m1 <- start ;;
  c <- at_ K_L_CURLY ;; b <- at_ K_L_BRACK ;;
  (if c then set_expression else if b then ign range_expr else ign expr) ;;;
  complete m1 K_FOR_ITERABLE ;;; block_or_statement ;;; ign (complete m K_FOR_STMT).

Definition qubit_declaration_stmt (m : marker) : M unit :=
  assert_at K_QUBIT_KW 22 ;;; qubit_type_spec ;;;
  h <- at_ K_HARDWAREIDENT ;; (if h then ign hardware_qubit else var_name) ;;;
  expect K_SEMICOLON ;;; ign (complete m K_QUANTUM_DECLARATION_STATEMENT).

Definition reset_stmt (m : marker) : M unit :=
  bump K_RESET_KW ;;; k <- current ;;
  if keq k K_IDENT || keq k K_HARDWAREIDENT then
    m1 <- start ;; arg_gate_call_qubit m1 ;;; expect K_SEMICOLON ;;; ign (complete m K_RESET)
  else error ;;; abandon m.

Definition break_ (m : marker) : M unit :=
  bump K_BREAK_KW ;;; expect K_SEMICOLON ;;; ign (complete m K_BREAK_STMT).
Definition continue_ (m : marker) : M unit :=
  assert_at K_CONTINUE_KW 23 ;;; bump K_CONTINUE_KW ;;; expect K_SEMICOLON ;;; ign (complete m K_CONTINUE_STMT).
Definition end_ (m : marker) : M unit :=
  assert_at K_END_KW 24 ;;; bump K_END_KW ;;; expect K_SEMICOLON ;;; ign (complete m K_END_STMT).

Definition gate_definition (m : marker) : M unit :=
  bump K_GATE_KW ;;; name_r ITEM_RECOVERY_SET ;;;
  b <- at_ K_L_PAREN ;; when_ b (g_param_list R GateParams) ;;;
  g_param_list R GateQubits ;;; try_block_expr ;;; ign (complete m K_GATE).

Definition defcal_ (m : marker) : M unit :=
  bump K_DEFCAL_KW ;;; name_r ITEM_RECOVERY_SET ;;;
  b <- at_ K_L_PAREN ;; when_ b (g_param_list R DefCalParams) ;;;
  g_param_list R DefCalQubits ;;; opt_return_signature ;;; try_block_expr ;;;
  ign (complete m K_DEF_CAL).

Definition classical_declaration_stmt (m : marker) : M unit :=
  eat K_CONST_KW ;;; mexpr <- start ;;
  have_array_decl <- at_ K_ARRAY_KW ;;
  type_spec ;;;
  k <- current ;;
  if keq k K_L_PAREN then
    expect K_L_PAREN ;;; expr ;;; expect K_R_PAREN ;;; complete mexpr K_CAST_EXPRESSION ;;;
    s <- at_ K_SEMICOLON ;;
    if s then expect K_SEMICOLON ;;; ign (complete m K_EXPR_STMT) else abandon m
  else
    abandon mexpr ;;; var_name ;;;
    s <- eat K_SEMICOLON ;;
    if s then ign (complete m K_CLASSICAL_DECLARATION_STATEMENT) else
    e <- expect K_EQ ;;
    if negb e then abandon m else
    c <- at_ K_L_CURLY ;;
    (if have_array_decl && c then g_param_list R ArrayLiteral else ign expr) ;;;
    expect K_SEMICOLON ;;; ign (complete m K_CLASSICAL_DECLARATION_STATEMENT).

Definition io_declaration_stmt (m : marker) : M unit :=
  bump_any ;;; k <- current ;; when_ (negb (is_classical_type k)) error ;;;
  type_spec ;;; var_name ;;; expect K_SEMICOLON ;;; ign (complete m K_I_O_DECLARATION_STATEMENT).

Definition def_stmt (m : marker) : M unit :=
  assert_at K_DEF_KW 25 ;;; bump_any ;;; name_r ITEM_RECOVERY_SET ;;;
  b <- at_ K_L_PAREN ;; (if b then g_param_list R DefParams else error) ;;;
  opt_return_signature ;;; try_block_expr ;;; ign (complete m K_DEF).

Definition extern_stmt (m : marker) : M unit :=
  assert_at K_EXTERN_KW 26 ;;; bump_any ;;; name_r ITEM_RECOVERY_SET ;;;
  b <- at_ K_L_PAREN ;; when_ b (g_param_list R TypeListFlavor) ;;;
  opt_return_signature ;;;
  expect K_SEMICOLON ;;; ign (complete m K_EXTERN_STMT).

Definition filepath_r (recovery : list N) : M unit :=
  b <- at_ K_STRING ;;
  if b then m <- start ;; bump K_STRING ;;; ign (complete m K_FILE_PATH)
  else err_recover recovery.

Definition defcalgrammar_ (m : marker) : M unit :=
  bump K_DEFCALGRAMMAR_KW ;;; filepath_r ITEM_RECOVERY_SET ;;; expect K_SEMICOLON ;;;
  ign (complete m K_DEF_CAL_GRAMMAR).
Definition include (m : marker) : M unit :=
  bump K_INCLUDE_KW ;;; filepath_r ITEM_RECOVERY_SET ;;; expect K_SEMICOLON ;;;
  ign (complete m K_INCLUDE).
Definition cal_ (m : marker) : M unit :=
  bump K_CAL_KW ;;; try_block_expr ;;; ign (complete m K_CAL).

Definition version_ : M bool :=
  m <- start ;; f <- expect K_FLOAT_NUMBER ;;
  s <- at_ K_SEMICOLON ;; when_ (negb f && negb s) bump_any ;;;
  expect K_SEMICOLON ;;; complete m K_VERSION ;;; ret true.
Definition version_string (m : marker) : M unit :=
  bump K_O_P_E_N_Q_A_S_M_KW ;;; version_ ;;; ign (complete m K_VERSION_STRING).

Definition barrier_ (m : marker) : M unit :=
  bump K_BARRIER_KW ;;; s <- at_ K_SEMICOLON ;; when_ (negb s) arg_list_gate_call_qubits ;;;
  expect K_SEMICOLON ;;; ign (complete m K_BARRIER).

Definition delay_stmt (m : marker) : M unit :=
  bump K_DELAY_KW ;;; b <- at_ K_L_BRACK ;; (if b then ign designator else error) ;;;
  arg_list_gate_call_qubits ;;; expect K_SEMICOLON ;;; ign (complete m K_DELAY_STMT).

Definition alias_stmt (m : marker) : M unit :=
  assert_at K_LET_KW 27 ;;; bump_any ;;; name_r ITEM_RECOVERY_SET ;;; expect K_EQ ;;; expr ;;;
  expect K_SEMICOLON ;;; ign (complete m K_ALIAS_DECLARATION_STATEMENT).

(* rust: items.rs:opt_item -- None = Ok(()), Some m = Err(m) *)
Definition opt_item (m : marker) : M (option marker) :=
  la <- nth_tok 1 ;; k <- current ;;
  let ok (c : M unit) : M (option marker) := c ;;; ret None in
  if is_classical_type k && negb (keq la K_L_PAREN) then ok (classical_declaration_stmt m) else
  if keq k K_QUBIT_KW then ok (qubit_declaration_stmt m)
  else if keq k K_CONST_KW then ok (classical_declaration_stmt m)
  else if keq k K_GATE_KW then ok (gate_definition m)
  else if keq k K_BREAK_KW then ok (break_ m)
  else if keq k K_CONTINUE_KW then ok (continue_ m)
  else if keq k K_END_KW then ok (end_ m)
  else if keq k K_IF_KW then ok (if_stmt m)
  else if keq k K_WHILE_KW then ok (while_stmt m)
  else if keq k K_FOR_KW then ok (for_stmt m)
  else if keq k K_DEF_KW then ok (def_stmt m)
  else if keq k K_DEFCAL_KW then ok (defcal_ m)
  else if keq k K_CAL_KW then ok (cal_ m)
  else if keq k K_DEFCALGRAMMAR_KW then ok (defcalgrammar_ m)
  else if keq k K_EXTERN_KW then ok (extern_stmt m)
  else if keq k K_RESET_KW then ok (reset_stmt m)
  else if keq k K_BARRIER_KW then ok (barrier_ m)
  else if keq k K_O_P_E_N_Q_A_S_M_KW then ok (version_string m)
  else if keq k K_INCLUDE_KW then ok (include m)
  else if keq k K_SWITCH_KW then ok (switch_case_stmt m)
  else if keq k K_LET_KW then ok (alias_stmt m)
  else if keq k K_DELAY_KW then ok (delay_stmt m)
  else if keq k K_INPUT_KW || keq k K_OUTPUT_KW then ok (io_declaration_stmt m)
  else ret (Some m).

Definition let_stmt (m : marker) : M unit :=
  bump K_LET_KW ;;; expect K_IDENT ;;; expect K_EQ ;;; expr ;;; expect K_SEMICOLON ;;;
  ign (complete m K_LET_STMT).

Definition q_or_c_reg_declaration (m : marker) : M unit :=
  q_or_c_reg_param ;;; expect K_SEMICOLON ;;; ign (complete m K_OLD_STYLE_DECLARATION_STATEMENT).

(* rust: expressions.rs:stmt *)
Definition stmt : M unit :=
  s <- eat K_SEMICOLON ;; if s then ret tt else
  l <- at_ K_LET_KW ;; if l then m <- start ;; let_stmt m else
  m <- start ;; r <- opt_item m ;;
  match r with
  | None => ret tt
  | Some m =>
      p <- at_ K_PRAGMA ;; if p then bump_any ;;; ign (complete m K_PRAGMA_STATEMENT) else
      a <- at_ K_ANNOTATION ;; if a then bump_any ;;; ign (complete m K_ANNOTATION_STATEMENT) else
      q <- at_ K_QREG_KW ;; if q then q_or_c_reg_declaration m else
      c <- at_ K_CREG_KW ;; if c then q_or_c_reg_declaration m else
      v <- at_ K_VERSION_STRING ;;
      if v then bump_any ;;; e <- eat K_SEMICOLON ;; when_ (negb e) error ;;;
                ign (complete m K_VERSION_STRING) else
      k <- current ;; la <- nth_tok 1 ;;
      if negb (is_classical_type k && (keq la K_L_PAREN || keq la K_L_BRACK))
         && negb (ts_contains EXPR_FIRST k) then
        err_and_bump ;;; abandon m
      else
      r <- expr_bp (Some m) true 1 ;;
      match r with
      | None => ret tt
      | Some (cm, blocklike) =>
          if keq (snd cm) K_ASSIGNMENT_STMT then ret tt else
          rc <- at_ K_R_CURLY ;;
          if rc then ret tt else
          m2 <- precede cm ;;
          (if blocklike then ret tt
           else e <- eat K_SEMICOLON ;; when_ (negb e) error) ;;;
          ign (complete m2 K_EXPR_STMT)
      end
  end.

(* rust: items.rs:item *)
Definition item (stop_on_r_curly : bool) : M unit :=
  m <- start ;; r <- opt_item m ;;
  match r with
  | None => s <- at_ K_SEMICOLON ;; when_ s err_and_bump
  | Some m =>
      k <- current ;;
      if keq k K_R_CURLY && negb stop_on_r_curly then
        abandon m ;;; e <- start ;; error ;;; bump K_R_CURLY ;;; ign (complete e K_ERROR)
      else if keq k K_EOF || keq k K_R_CURLY then abandon m
      else abandon m ;;; expr_block_statements
  end.

Definition source_file_contents (stop_on_r_curly : bool) : M unit :=
  loop (e <- at_ K_EOF ;; c <- at_ K_R_CURLY ;;
        if e || (c && stop_on_r_curly) then ret false else item stop_on_r_curly ;;; ret true).

(* rust: grammar.rs:entry::top::source_file *)
Definition source_file : M unit :=
  m <- start ;; source_file_contents false ;;; ign (complete m K_SOURCE_FILE).

End G.

(* ---------------- tying the knot ---------------- *)
Section Tie.
Variable inp : list (N * bool).
Definition bottom : G :=
  {| g_expr_bp := fun _ _ _ => out_of_fuel; g_stmt := out_of_fuel;
     g_type_spec := out_of_fuel; g_non_array_type_spec := out_of_fuel;
     g_if_stmt := fun _ => out_of_fuel; g_param_list := fun _ => out_of_fuel |}.
Fixpoint tie (n : nat) : G :=
  match n with
  | O => bottom
  | S k =>
      let R := tie k in
      {| g_expr_bp := expr_bp inp R; g_stmt := stmt inp R; g_type_spec := type_spec inp R;
         g_non_array_type_spec := non_array_type_spec inp R; g_if_stmt := if_stmt inp R;
         g_param_list := param_list_openqasm inp R |}
  end.

Definition init_state : pst := {| pos := 0; evs := []; live := [] |}.

(* recursion fuel: the measure 3*remaining + rank (stmt 2, param list 1, others 0) decreases at
   every call-back (Proofs/GrammarA.v) *)
Definition fuel_for : nat := 3 * length inp + 6.

(* rust: TopEntryPoint::SourceFile.parse: grammar, then DropBomb check, then event::process *)
Inductive outcome :=
| Steps (l : list step)
| Panicked (w : site)
| Hang.
Definition run_parser : outcome :=
  match source_file inp (tie fuel_for) init_state with
  | Ok _ s =>
      match live s with
      | _ :: _ => Panicked SDropBomb
      | [] => match process (rev (evs s)) with
              | Some st => Steps st
              | None => Panicked SProcess
              end
      end
  | Panic w => Panicked w
  | OutOfFuel => Hang
  end.
End Tie.
