(* Model M2a: oq3_parser/src/lexed_str.rs (LexedStr::new, inner_extend_token,
   extend_literal_func) and shortcuts.rs:to_input.  Kinds are SyntaxKind discriminants
   from the generated gen/Kinds.v. *)
From Coq Require Import NArith List Bool.
From OQ3 Require Import gen.Kinds Model.Lexer.
Import ListNotations.
Open Scope N_scope.

Fixpoint list_N_eqb (a b : list N) : bool :=
  match a, b with
  | [], [] => true
  | x :: a', y :: b' => N.eqb x y && list_N_eqb a' b'
  | _, _ => false
  end.
Fixpoint table_find (t : list (list N * N)) (s : list N) : option N :=
  match t with
  | [] => None
  | (k, v) :: r => if list_N_eqb k s then Some v else table_find r s
  end.

Definition cps (l : list ch) : list N := map cp l.

(* rust: lexed_str.rs:extend_literal_func -- (has_error, kind) *)
Definition literal_kind (k : LitKind) : bool * N :=
  match k with
  | LInt _ empty_int => (empty_int, K_INT_NUMBER)
  | LFloat _ empty_exponent => (empty_exponent, K_FLOAT_NUMBER)
  | LByte terminated => (negb terminated, K_BYTE)
  | LStr terminated => (negb terminated, K_STRING)
  | LBitStr terminated consec =>
      ((if negb terminated then true else consec), K_BIT_STRING)
  end.

(* rust: lexed_str.rs:inner_extend_token -- (has_error, SyntaxKind) *)
Definition syntax_kind_of (t : token) : bool * N :=
  match tkind t with
  | LineComment => (false, K_COMMENT)
  | BlockComment terminated => (negb terminated, K_COMMENT)
  | OpenQasmVersionStmt major minor => (negb (major && minor), K_VERSION_STRING)
  | Whitespace => (false, K_WHITESPACE)
  | Ident =>
      if list_N_eqb (cps (ttext t)) [95] then (false, K_UNDERSCORE)
      else match table_find keyword_table (cps (ttext t)) with
           | Some k => (false, k)
           | None => match table_find scalar_type_table (cps (ttext t)) with
                     | Some k => (false, k)
                     | None => (false, K_IDENT)
                     end
           end
  | HardwareIdent =>
      match table_find keyword_table (cps (ttext t)) with
      | Some k => (false, k)
      | None => (false, K_HARDWAREIDENT)
      end
  | InvalidIdent => (true, K_IDENT)
  | Pragma => (false, K_PRAGMA)
  | Annotation => (false, K_ANNOTATION)
  | Literal k _ => literal_kind k
  | Semi => (false, K_SEMICOLON) | Comma => (false, K_COMMA) | Dot => (false, K_DOT)
  | OpenParen => (false, K_L_PAREN) | CloseParen => (false, K_R_PAREN)
  | OpenBrace => (false, K_L_CURLY) | CloseBrace => (false, K_R_CURLY)
  | OpenBracket => (false, K_L_BRACK) | CloseBracket => (false, K_R_BRACK)
  | At => (false, K_AT) | Pound => (false, K_POUND) | Tilde => (false, K_TILDE)
  | Question => (false, K_QUESTION) | Colon => (false, K_COLON) | Dollar => (false, K_DOLLAR)
  | Eq => (false, K_EQ) | Bang => (false, K_BANG) | Lt => (false, K_L_ANGLE)
  | Gt => (false, K_R_ANGLE) | Minus => (false, K_MINUS) | And => (false, K_AMP)
  | Or => (false, K_PIPE) | Plus => (false, K_PLUS) | Star => (false, K_STAR)
  | Slash => (false, K_SLASH) | Caret => (false, K_CARET) | Percent => (false, K_PERCENT)
  | Unknown => (false, K_ERROR)
  | Dim => (false, K_DIM_KW)
  end.

(* the parser-facing token table *)
Record lexed := {
  lkinds : list N;            (* one per token, then EOF *)
  lstarts : list N;           (* byte offset of each token, then the input length *)
  lerrors : list N;           (* indices of tokens that carry a lexical error *)
  ltexts : list (list ch)     (* text of each token (the slice text[start[i]..start[i+1]]) *)
}.

Fixpoint lex_conv (ts : list token) (idx off : N) : list N * list N * list N :=
  match ts with
  | [] => ([K_EOF], [off], [])
  | t :: r =>
      let '(err, k) := syntax_kind_of t in
      let '(ks, ss, es) := lex_conv r (idx + 1) (off + tlen t) in
      (k :: ks, off :: ss, if err then idx :: es else es)
  end.

(* rust: LexedStr::new *)
Definition lexed_of (l : list ch) : lexed :=
  let ts := tokenize l in
  let '(ks, ss, es) := lex_conv ts 0 0 in
  {| lkinds := ks; lstarts := ss; lerrors := es; ltexts := map ttext ts |}.

Definition is_trivia (k : N) : bool := N.eqb k K_WHITESPACE || N.eqb k K_COMMENT.

Definition ends_with_dot (t : list ch) : bool :=
  match rev t with c :: _ => is c 46 | [] => false end.

(* rust: shortcuts.rs:to_input -- parser input: (kind, joint-with-next) pairs.
   Input::was_joint() sets the joint bit of the LAST pushed token. *)
Fixpoint to_input_loop (ks : list N) (ts : list (list ch)) (was_joint : bool)
                       (acc : list (N * bool)) : list (N * bool) :=
  (* acc is reversed *)
  match ks, ts with
  | k :: ks', t :: ts' =>
      if is_trivia k then to_input_loop ks' ts' false acc
      else
        let acc1 := if was_joint then match acc with (k0, _) :: a => (k0, true) :: a | [] => [] end
                    else acc in
        let j := N.eqb k K_FLOAT_NUMBER && negb (ends_with_dot t) in
        to_input_loop ks' ts' true ((k, j) :: acc1)
  | _, _ => rev acc
  end.
Definition to_input (lx : lexed) : list (N * bool) :=
  to_input_loop (lkinds lx) (ltexts lx) false [].
