(* Model M5a: oq3_semantics/src/types.rs, hand-written, executable.
   Tied to /repo by the `types` correspondence, exhaustive over the finite
   abstraction named in property C20.  No proofs in this file. *)
From Coq Require Import NArith List Bool.
Import ListNotations.
Open Scope N_scope.

(* rust: types.rs:ArrayDims *)
Inductive ArrayDims := D1 (a : N) | D2 (a b : N) | D3 (a b c : N).

(* rust: types.rs:BaseType *)
Inductive BaseType :=
| BBit | BQubit | BHardwareQubit | BInt | BUInt | BFloat | BAngle | BComplex
| BBool | BDuration | BStretch | BBitArray | BQubitArray | BIntArray
| BUIntArray | BFloatArray | BAngleArray | BComplexArray | BBoolArray
| BDurationArray | BGate | BSubroutineDef | BRange | BSet | BVoid | BToDo
| BUndefined.

(* rust: types.rs:Type.  IsConst is bool (true = IsConst::True);
   Width = Option<u32> is option N. *)
Inductive Ty :=
| Bit (c : bool) | Qubit | HardwareQubit
| Int (w : option N) (c : bool) | UInt (w : option N) (c : bool)
| Float (w : option N) (c : bool) | Angle (w : option N) (c : bool)
| Complex (w : option N) (c : bool)
| Bool (c : bool) | Duration (c : bool) | Stretch (c : bool)
| BitArray (d : ArrayDims) (c : bool) | QubitArray (d : ArrayDims)
| IntArray (d : ArrayDims) | UIntArray (d : ArrayDims)
| FloatArray (d : ArrayDims) | AngleArray (d : ArrayDims)
| ComplexArray (d : ArrayDims) | BoolArray (d : ArrayDims)
| DurationArray (d : ArrayDims)
| Gate (ncl nqu : N) | SubroutineDef (nparams : N) (ret : Ty)
| Range | Set_ | Void | ToDo | Undefined.

Definition base_type (t : Ty) : BaseType :=
  match t with
  | Bit _ => BBit | Qubit => BQubit | HardwareQubit => BHardwareQubit
  | Int _ _ => BInt | UInt _ _ => BUInt | Float _ _ => BFloat
  | Angle _ _ => BAngle | Complex _ _ => BComplex | Bool _ => BBool
  | Duration _ => BDuration | Stretch _ => BStretch
  | BitArray _ _ => BBitArray | QubitArray _ => BQubitArray
  | IntArray _ => BIntArray | UIntArray _ => BUIntArray
  | FloatArray _ => BFloatArray | AngleArray _ => BAngleArray
  | ComplexArray _ => BComplexArray | BoolArray _ => BBoolArray
  | DurationArray _ => BDurationArray | Gate _ _ => BGate
  | SubroutineDef _ _ => BSubroutineDef | Range => BRange | Set_ => BSet
  | Void => BVoid | ToDo => BToDo | Undefined => BUndefined
  end.

Definition base_index (b : BaseType) : N :=
  match b with
  | BBit => 0 | BQubit => 1 | BHardwareQubit => 2 | BInt => 3 | BUInt => 4
  | BFloat => 5 | BAngle => 6 | BComplex => 7 | BBool => 8 | BDuration => 9
  | BStretch => 10 | BBitArray => 11 | BQubitArray => 12 | BIntArray => 13
  | BUIntArray => 14 | BFloatArray => 15 | BAngleArray => 16
  | BComplexArray => 17 | BBoolArray => 18 | BDurationArray => 19
  | BGate => 20 | BSubroutineDef => 21 | BRange => 22 | BSet => 23
  | BVoid => 24 | BToDo => 25 | BUndefined => 26
  end.

Definition base_eqb (a b : BaseType) : bool := N.eqb (base_index a) (base_index b).

Definition width_eqb (a b : option N) : bool :=
  match a, b with
  | None, None => true
  | Some x, Some y => N.eqb x y
  | _, _ => false
  end.

Definition dims_eqb (a b : ArrayDims) : bool :=
  match a, b with
  | D1 x, D1 y => N.eqb x y
  | D2 x1 x2, D2 y1 y2 => N.eqb x1 y1 && N.eqb x2 y2
  | D3 x1 x2 x3, D3 y1 y2 y3 => N.eqb x1 y1 && N.eqb x2 y2 && N.eqb x3 y3
  | _, _ => false
  end.

(* derived PartialEq on Type: structural equality *)
Fixpoint ty_eqb (a b : Ty) : bool :=
  match a, b with
  | Bit c1, Bit c2 => Bool.eqb c1 c2
  | Qubit, Qubit => true
  | HardwareQubit, HardwareQubit => true
  | Int w1 c1, Int w2 c2 => width_eqb w1 w2 && Bool.eqb c1 c2
  | UInt w1 c1, UInt w2 c2 => width_eqb w1 w2 && Bool.eqb c1 c2
  | Float w1 c1, Float w2 c2 => width_eqb w1 w2 && Bool.eqb c1 c2
  | Angle w1 c1, Angle w2 c2 => width_eqb w1 w2 && Bool.eqb c1 c2
  | Complex w1 c1, Complex w2 c2 => width_eqb w1 w2 && Bool.eqb c1 c2
  | Bool c1, Bool c2 => Bool.eqb c1 c2
  | Duration c1, Duration c2 => Bool.eqb c1 c2
  | Stretch c1, Stretch c2 => Bool.eqb c1 c2
  | BitArray d1 c1, BitArray d2 c2 => dims_eqb d1 d2 && Bool.eqb c1 c2
  | QubitArray d1, QubitArray d2 => dims_eqb d1 d2
  | IntArray d1, IntArray d2 => dims_eqb d1 d2
  | UIntArray d1, UIntArray d2 => dims_eqb d1 d2
  | FloatArray d1, FloatArray d2 => dims_eqb d1 d2
  | AngleArray d1, AngleArray d2 => dims_eqb d1 d2
  | ComplexArray d1, ComplexArray d2 => dims_eqb d1 d2
  | BoolArray d1, BoolArray d2 => dims_eqb d1 d2
  | DurationArray d1, DurationArray d2 => dims_eqb d1 d2
  | Gate a1 b1, Gate a2 b2 => N.eqb a1 a2 && N.eqb b1 b2
  | SubroutineDef n1 r1, SubroutineDef n2 r2 => N.eqb n1 n2 && ty_eqb r1 r2
  | Range, Range => true
  | Set_, Set_ => true
  | Void, Void => true
  | ToDo, ToDo => true
  | Undefined, Undefined => true
  | _, _ => false
  end.

(* rust: types.rs:equal_up_to_constness *)
Definition equal_up_to_constness (t1 t2 : Ty) : bool :=
  if ty_eqb t1 t2 then true else
  match t1, t2 with
  | Bit _, Bit _ | Duration _, Duration _ | Bool _, Bool _
  | Stretch _, Stretch _ => true
  | Int w1 _, Int w2 _ | UInt w1 _, UInt w2 _ | Float w1 _, Float w2 _
  | Complex w1 _, Complex w2 _ | Angle w1 _, Angle w2 _ => width_eqb w1 w2
  | BitArray d1 _, BitArray d2 _ => dims_eqb d1 d2
  | _, _ => false
  end.

(* rust: types.rs:equal_base_type *)
Definition equal_base_type (t1 t2 : Ty) : bool :=
  base_eqb (base_type t1) (base_type t2).

(* rust: types.rs:ArrayDims::num_dims / dims *)
Definition ad_num_dims (d : ArrayDims) : N :=
  match d with D1 _ => 1 | D2 _ _ => 2 | D3 _ _ _ => 3 end.
Definition ad_dims (d : ArrayDims) : list N :=
  match d with D1 a => [a] | D2 a b => [a; b] | D3 a b c => [a; b; c] end.

(* rust: types.rs:Type::is_scalar *)
Definition is_scalar (t : Ty) : bool :=
  match t with
  | Bit _ | Int _ _ | UInt _ _ | Float _ _ | Angle _ _ | Complex _ _
  | Bool _ | Duration _ | Stretch _ => true
  | _ => false
  end.

(* rust: types.rs:Type::width *)
Definition width (t : Ty) : option N :=
  match t with
  | Int w _ | UInt w _ | Float w _ | Angle w _ | Complex w _ => w
  | _ => None
  end.

(* rust: types.rs:Type::is_const *)
Definition is_const (t : Ty) : bool :=
  match t with
  | Bit c | Int _ c | UInt _ c | Float _ c | Angle _ c | Complex _ c
  | Bool c | Duration c | Stretch c | BitArray _ c => c
  | _ => true
  end.

(* rust: types.rs:Type::is_quantum *)
Definition is_quantum (t : Ty) : bool :=
  match t with Qubit | QubitArray _ | HardwareQubit => true | _ => false end.

(* rust: types.rs:Type::dims / num_dims *)
Definition ty_dims (t : Ty) : option (list N) :=
  match t with
  | QubitArray d | IntArray d | BitArray d _ => Some (ad_dims d)
  | _ => None
  end.
Definition ty_num_dims (t : Ty) : N :=
  match t with
  | QubitArray d | IntArray d | BitArray d _ => ad_num_dims d
  | _ => 0
  end.

(* rust: types.rs:Type::equal_up_to_shape / equal_up_to_dims *)
Definition equal_up_to_shape (a b : Ty) : bool :=
  if ty_eqb a b then true else
  match a, b with
  | BitArray _ _, BitArray _ _ => true
  | QubitArray _, QubitArray _ => true
  | _, _ => false
  end.
Definition equal_up_to_dims (a b : Ty) : bool :=
  if ty_eqb a b then true else
  if negb (N.eqb (ty_num_dims a) (ty_num_dims b)) then false
  else equal_up_to_shape a b.

(* rust: types.rs:promote_constness *)
Definition promote_constness (t1 t2 : Ty) : bool := is_const t1 && is_const t2.

(* rust: types.rs:promote_width *)
Definition promote_width (t1 t2 : Ty) : option N :=
  match width t1, width t2 with
  | Some w1, Some w2 => Some (N.max w1 w2)
  | _, _ => None
  end.

(* rust: types.rs:promote_type_width *)
Definition promote_type_width (t1 t2 : Ty) : Ty :=
  let c := promote_constness t1 t2 in
  match t1, t2 with
  | Int _ _, Int _ _ => Int (promote_width t1 t2) c
  | UInt _ _, UInt _ _ => UInt (promote_width t1 t2) c
  | Float _ _, Float _ _ => Float (promote_width t1 t2) c
  | _, _ => Void
  end.

(* rust: types.rs:promote_base_type (the recursive call with swapped
   arguments is unfolded: it lands in one of the first five arms) *)
Definition promote_base_type (t1 t2 : Ty) : Ty :=
  match t1, t2 with
  | Int _ _, Float _ _ | UInt _ _, Float _ _ | Float _ _, Complex _ _
  | Int _ _, Complex _ _ | UInt _ _, Complex _ _ => t2
  | Float _ _, Int _ _ | Float _ _, UInt _ _ | Complex _ _, Float _ _
  | Complex _ _, Int _ _ | Complex _ _, UInt _ _ => t1
  | _, _ => Void
  end.

Definition is_void (t : Ty) : bool := match t with Void => true | _ => false end.

(* rust: types.rs:promote_types_not_equal *)
Definition promote_types_not_equal (t1 t2 : Ty) : Ty :=
  let t := promote_type_width t1 t2 in
  if negb (is_void t) then t else promote_base_type t1 t2.

(* rust: types.rs:promote_types *)
Definition promote_types (t1 t2 : Ty) : Ty :=
  if equal_up_to_constness t1 t2 then t1 else
  let t := promote_type_width t1 t2 in
  if negb (is_void t) then t else promote_base_type t1 t2.

(* rust: types.rs:can_cast_literal *)
Definition can_cast_literal (t1 tlit : Ty) : bool :=
  if equal_base_type t1 tlit then true else
  match t1, tlit with
  | Float _ _, Int _ _ | Float _ _, UInt _ _ | Complex _ _, Float _ _
  | Complex _ _, Int _ _ | Complex _ _, UInt _ _ => true
  | _, _ => false
  end.

(* rust: asg.rs:ArithOp and implicit_cast_type *)
Inductive ArithOp := OAdd | OSub | OMul | ODiv | OMod | ORem | OShl | OShr
                   | OBitXOr | OBitOr | OBitAnd.
Definition is_float_ty (t : Ty) : bool := match t with Float _ _ => true | _ => false end.
Definition implicit_cast_type (op : ArithOp) (t1 t2 : Ty) : Ty :=
  match op with
  | ODiv => if is_float_ty t1 || is_float_ty t2 then promote_types t1 t2
            else Float None false
  | _ => promote_types t1 t2
  end.
