(* Property C05: the AST mirrors the program's derivation: precedence, associativity, roles.
   Model/Shape.v holds the OpenQASM 3 operator table (19 binary operators in 11 levels, the power
   operator right associative and above the 3 unary operators, postfix index/call and casts
   tightest), model expressions, a printer pr that writes exactly the parentheses that table
   requires while producing the shape of the derivation, and the abstraction of a syntax tree to
   such a shape.  shape_ok e says: the pipeline model (lexer, Pratt parser, event processing,
   tree builder -- the model tied to the implementation under C01/C02) parses the printed text
   of e without any diagnostic into a tree of exactly the derivation's shape, as an initializer
   and (unless the text starts with a type keyword) as an expression statement.
   Proved by computation inside the kernel, for the finite families named in each theorem:
   every ordered pair of binary operators in both nestings (722), every unary operator against
   every binary operator in each position and nested (180), index / call / cast against every
   operator (227), redundant parentheses around every pair (722), and every triple over one
   representative of each of the 11 levels in all five tree shapes (6655).
   PARTIAL: expressions of unbounded depth are not covered by a theorem; random trees to depth 6
   are compared by the `shape` family (typed accessors of the implementation against the
   derivation, and the model against pr).  Statement roles (condition/then/else, loop variable/
   iterable/body, gate and def signatures, declarations, ranges, modifiers, argument and operand
   order) are read through the implementation's typed accessors in that family only. *)
From Coq Require Import NArith List Bool.
From OQ3 Require Import Model.Shape Proofs.ShapeP.
Import ListNotations.
Open Scope N_scope.

Theorem C05_every_pair_of_binary_operators : forall e, In e two_binops -> shape_ok e = true.
Proof. apply forallb_forall. exact two_binops_ok. Qed.

Theorem C05_unary_against_binary : forall e, In e unary_mix -> shape_ok e = true.
Proof. apply forallb_forall. exact unary_mix_ok. Qed.

Theorem C05_postfix_and_cast_against_operators : forall e, In e postfix_mix -> shape_ok e = true.
Proof. apply forallb_forall. exact postfix_mix_ok. Qed.

Theorem C05_redundant_parentheses : forall e, In e paren_mix -> shape_ok e = true.
Proof. apply forallb_forall. exact paren_mix_ok. Qed.

Theorem C05_every_triple_of_levels : forall e, In e three_binops -> shape_ok e = true.
Proof. apply forallb_forall. exact three_binops_ok. Qed.

(* non-vacuity: the families have the stated sizes, and pr really drops and inserts parentheses:
   a ** b ** c needs none for the right nesting; (a - b) - c none, a - (b - c) one pair *)
Example C05_nonvacuous :
  (length two_binops, length unary_mix, length postfix_mix, length paren_mix, length three_binops)
    = (722, 180, 227, 722, 6655)%nat /\
  fst (pr (XBin Pow A (XBin Pow B C)) 0 false) = [97; 32; 42; 42; 32; 98; 32; 42; 42; 32; 99] /\
  fst (pr (XBin Sub (XBin Sub A B) C) 0 false) = [97; 32; 45; 32; 98; 32; 45; 32; 99] /\
  fst (pr (XBin Sub A (XBin Sub B C)) 0 false) = [97; 32; 45; 32; 40; 98; 32; 45; 32; 99; 41].
Proof. vm_compute. auto. Qed.

Print Assumptions C05_every_pair_of_binary_operators.
Print Assumptions C05_unary_against_binary.
Print Assumptions C05_postfix_and_cast_against_operators.
Print Assumptions C05_redundant_parentheses.
Print Assumptions C05_every_triple_of_levels.
