(* Property C11: malformed lexemes are always diagnosed and errors gate the later stages.
   Proved for every input: a token carries a lexical diagnostic iff the lexer flagged it
   malformed; each malformed class treated below is flagged wherever it occurs (the theorems
   speak about the remaining input at the point where the lexeme starts, so what precedes is
   arbitrary); the lex-checked entry point returns a tree iff there is no lexical diagnostic.
   PARTIAL: classes proved = unterminated strings (either quote), unterminated block comments,
   base prefix without digits; exponent without digits, bad version header and forbidden
   identifier characters are covered by the correspondence and the oracle only.  The gating of
   semantic analysis is part of the analyser model (C03) and is checked by the sema oracle. *)
From Coq Require Import NArith Arith List Bool.
From OQ3 Require Import gen.Kinds Model.Lexer Model.Lexed Model.Builder
                        Proofs.LexerP Proofs.LexedP Proofs.LexClassP.
Import ListNotations.
Open Scope N_scope.

Theorem C11_diagnostic_iff_malformed : forall l i,
  In i (lerrors (lexed_of l)) <->
  exists t, nth_error (tokenize l) (N.to_nat i) = Some t /\ malformed (tkind t) = true.
Proof.
  intros l i. rewrite lexed_errors. split; intros [t [H1 H2]]; exists t; split; auto;
    rewrite malformed_iff_error in *; auto.
Qed.

Theorem C11_unterminated_string_flagged : forall q body,
  (q = 34 \/ q = 39) -> Forall (fun x => is x q = false) body ->
  exists k ss, advance_token (plain q :: body) = Some (Literal k ss, []) /\
               malformed (Literal k ss) = true.
Proof. exact unterminated_string_flagged. Qed.

Theorem C11_unterminated_block_comment_flagged : forall body,
  no_close body = true ->
  advance_token (plain 47 :: plain 42 :: body) = Some (BlockComment false, []).
Proof. exact unterminated_block_comment_flagged. Qed.

Theorem C11_empty_int_flagged : forall pfx rest,
  (pfx = 98 \/ pfx = 111 \/ pfx = 120) ->
  (match rest with [] => True | c :: _ => is c 95 = false /\ is_hex c = false /\ is_digit c = false end) ->
  exists k ss r, advance_token (dig 48 :: letter pfx :: rest) = Some (Literal k ss, r) /\
                 malformed (Literal k ss) = true.
Proof. exact empty_int_flagged. Qed.

Lemma parse_source_not_notree l e : parse_source l <> PNoTree e.
Proof.
  unfold parse_source. destruct (Grammar.run_parser _); try discriminate.
  destruct (intersperse_trivia _ _ _ _) as [[ss eof]|]; try discriminate.
  destruct (tree_build _ _ _ _) as [[t pe]|]; try discriminate.
  destruct (validate _ _); try discriminate. destruct (N.eqb _ _); discriminate.
Qed.

Theorem C11_check_lex_iff : forall l,
  (exists e, parse_check_lex l = PNoTree e) <-> lerrors (lexed_of l) <> [].
Proof.
  intros l. unfold parse_check_lex. destruct (lerrors (lexed_of l)) eqn:E; split.
  - intros [e H]. exfalso. eapply parse_source_not_notree; eauto.
  - intros H; congruence.
  - intros _; discriminate.
  - intros _. eauto.
Qed.

Print Assumptions C11_diagnostic_iff_malformed.
Print Assumptions C11_unterminated_string_flagged.
Print Assumptions C11_unterminated_block_comment_flagged.
Print Assumptions C11_empty_int_flagged.
Print Assumptions parse_source_not_notree.
Print Assumptions C11_check_lex_iff.
