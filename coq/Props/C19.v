(* Property C19: the symbol table behaves as a stack of scopes under every history.
   Only statements closed by [exact], their axiom audit and pins. *)
From Coq Require Import NArith List Bool.
From OQ3 Require Import Model.Types Model.SymTab Proofs.SymTabP.
Import ListNotations.
Open Scope N_scope.

(* Every history (any length, any names, any types), run on the model of SymbolTable from
   SymbolTable::new(), gives exactly the responses of the stack-of-maps specification, and the
   abstraction of the final state is the specification's final state. *)
Theorem C19_refines : forall h,
  snd (run init h) = snd (srun sinit h) /\ abs (fst (run init h)) = fst (srun sinit h).
Proof. exact refines. Qed.

(* look-up returns the binding of the innermost open scope that has one; the id it returns
   denotes that (name, type) in the record of all ids ever handed out *)
Theorem C19_lookup_innermost : forall h n,
  let s := fst (srun sinit h) in
  match snd (sstep s (Lookup n)) with
  | OFound i m t => m = n /\ slookup n (sstack s) = Some (i, t) /\
                    nth_error (shist s) (N.to_nat i) = Some (n, t)
  | OMissing => slookup n (sstack s) = None
  | _ => False
  end.
Proof. exact lookup_innermost. Qed.

(* a binding fails iff the current scope already has the name; otherwise it gets the next
   unused id, is added to the current scope only, and is recorded *)
Theorem C19_bind_fails_iff_current_has : forall h n t sc r,
  let s := fst (srun sinit h) in
  sstack s = sc :: r ->
  (snd (sstep s (Bind n t)) = OAlready <-> sassoc n (snd sc) <> None) /\
  (sassoc n (snd sc) = None ->
     snd (sstep s (Bind n t)) = OBound (nlen (shist s)) /\
     sstack (fst (sstep s (Bind n t))) = (fst sc, (n, (nlen (shist s), t)) :: snd sc) :: r /\
     shist (fst (sstep s (Bind n t))) = shist s ++ [(n, t)]).
Proof. exact bind_fails_iff_current_has. Qed.

(* exiting removes exactly the innermost scope's bindings; the global scope is never popped *)
Theorem C19_exit_removes_own : forall h sc sc2 r,
  let s := fst (srun sinit h) in
  sstack s = sc :: sc2 :: r ->
  sstep s Exit = ({| sstack := sc2 :: r; shist := shist s |}, OOk).
Proof. exact exit_removes_own. Qed.
Theorem C19_global_never_popped : forall h sc,
  let s := fst (srun sinit h) in sstack s = [sc] -> sstep s Exit = (s, OPanic).
Proof. exact global_never_popped. Qed.
Theorem C19_stack_never_empty : forall h, sstack (fst (srun sinit h)) <> [].
Proof. exact stack_never_empty. Qed.

(* ids are unique, never reused and keep denoting the same name and type for the life of the
   table, also after their scope was closed: the record only grows at its end *)
Theorem C19_ids_stable : forall h1 h2,
  ~ In OPanic (snd (srun sinit h1)) ->
  exists ext, shist (fst (srun sinit (h1 ++ h2))) = shist (fst (srun sinit h1)) ++ ext.
Proof. exact ids_stable. Qed.

Theorem C19_builtins_present :
  (forall n, In n builtin_names ->
     exists i, snd (sstep sinit (Lookup n)) = OFound i n (Float (Some 64) true)) /\
  (exists i, snd (sstep sinit (Lookup name_U)) = OFound i name_U (Gate 3 1)) /\
  nlen (shist sinit) = 7 /\ length (sstack sinit) = 1%nat.
Proof. exact builtins_present. Qed.

(* non-vacuity: a history with shadowing, exit and re-lookup *)
Example C19_nonvacuous :
  snd (run init [Bind 0 (Int None false); Enter Local; Bind 0 Qubit; Lookup 0; Exit; Lookup 0;
                 Bind 0 Qubit; Exit]) =
  [OBound 7; OOk; OBound 8; OFound 8 0 Qubit; OOk; OFound 7 0 (Int None false); OAlready; OPanic].
Proof. vm_compute. reflexivity. Qed.

Print Assumptions C19_refines.
Print Assumptions C19_lookup_innermost.
Print Assumptions C19_bind_fails_iff_current_has.
Print Assumptions C19_exit_removes_own.
Print Assumptions C19_global_never_popped.
Print Assumptions C19_stack_never_empty.
Print Assumptions C19_ids_stable.
Print Assumptions C19_builtins_present.
