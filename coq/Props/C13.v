(* Property C13: gate, qubit, const and scope usage rules are diagnosed exactly.
   Model/Usage.v mirrors, site by site, the checks of gate_call_expr_to_asg_stmt,
   call_expr_to_asg_texpr, gate_operand_to_asg_texpr, the BinExpr / ReturnExpr arms of
   expr_to_asg_texpr, the QuantumDeclaration / Gate / Def / Delay arms of stmt_to_asg_stmt and the
   const check of assignment_stmt_to_asg_stmt, over the facts the analyser looked up (what the
   callee / operand / target names are bound to, the counts written, the kind of the current
   scope).  Proved, for gates of every arity, any number of parameters and operands and every
   scope kind: each usage diagnostic is logged at a site if and only if the site breaks the rule
   stated in the property (violates), and a site that breaks no rule gets no usage diagnostic.
   PARTIAL: what a name is bound to and which scope is current are inputs; that the implementation
   computes them as the program text says, and logs exactly site_diags in program order, is the
   correspondence run by the `use` family on generated programs. *)
From Coq Require Import NArith List Bool.
From OQ3 Require Import Model.Usage Proofs.UsageP.
Import ListNotations.
Open Scope N_scope.

Theorem C13_diagnosed_iff_rule_broken : forall d s, In d (site_diags s) <-> violates d s.
Proof. exact site_diags_iff. Qed.

Theorem C13_clean_site_no_diagnostic : forall s, (forall d, ~ violates d s) -> site_diags s = [].
Proof. exact clean_site. Qed.

(* the two directions of the arity rule, spelled out *)
Theorem C13_gate_arity : forall np nq n ops,
  (In DNumGateParams (site_diags (SGateCall (YGate np nq) n ops)) <-> np <> n) /\
  (In DNumGateQubits (site_diags (SGateCall (YGate np nq) n ops)) <-> nq <> N.of_nat (length ops)).
Proof. intros. split; apply site_diags_iff. Qed.

(* non-vacuity: cx with one parameter and one classical operand breaks three rules; a correct
   call breaks none *)
Example C13_nonvacuous :
  site_diags (SGateCall (YGate 0 2) 1 [OIdent (YClassical false)]) =
    [DIncompatibleTypes; DNumGateParams; DNumGateQubits] /\
  site_diags (SGateCall (YGate 1 2) 1 [OIdent YQubit; OIndexed YQubitArr]) = [].
Proof. vm_compute. auto. Qed.

Print Assumptions C13_diagnosed_iff_rule_broken.
Print Assumptions C13_clean_site_no_diagnostic.
Print Assumptions C13_gate_arity.
