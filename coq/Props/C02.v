(* Property C02: the syntax tree is lossless.
   Proved for every input: whenever the pipeline returns a tree, the tree is rooted at
   SOURCE_FILE and its leaves spell, in document order, the concatenation of the first b raw
   tokens of the token table (whole tokens, trivia and erroneous text included), and the token
   texts spell the input.  Ranges are not stored in the model tree: a node's range IS the span
   of its leaves, so "children tile their parent" holds by construction of the rose tree.
   And b is the whole table: every Token event of n > 1 raw tokens was formed from adjacent
   ("joint") input tokens (Proofs/JointB.v: an invariant every primitive preserves, hence every
   grammar function), a joint non-float input token is directly followed by a non-trivia raw
   token (Proofs/PipelineB.v: the parser input described without its accumulator), so the trivia
   builder consumes exactly the non-trivia raw tokens the parser accounted for and ends at the
   end of the table.  Hence: whenever a tree is returned, it spells the whole input
   (C02_tree_spells_input, for every text and both entry points). *)
From Coq Require Import NArith Arith List Bool.
From OQ3 Require Import gen.Kinds Model.Lexer Model.Lexed Model.Parser Model.Grammar Model.Builder
                        Proofs.LexerP Proofs.BuilderP Proofs.PipelineB.
Import ListNotations.

Theorem C02_token_texts_spell_input : forall l, concat (ltexts (lexed_of l)) = l.
Proof. exact lexed_texts_spell. Qed.

Theorem C02_tree_build_lossless : forall ss t e,
  tree_build ss [] [] [] = BOk (t, e) -> tree_text t = toks_text ss.
Proof. exact (fun ss t e H => tree_build_text ss [] [] [] t e H). Qed.

Theorem C02_builder_emits_table_prefix : forall kinds texts starts steps ss eof,
  intersperse_trivia kinds texts starts steps = BOk (ss, eof) ->
  exists b, (b <= length texts)%nat /\ toks_text ss = concat (firstn b texts) /\
            (eof = true -> b = length texts).
Proof. exact intersperse_text. Qed.

Theorem C02_tree_spells_prefix_partial : forall l r,
  parse_source l = POk r ->
  tree_kind (pr_tree r) = K_SOURCE_FILE /\
  exists b, tree_text (pr_tree r) = concat (firstn b (ltexts (lexed_of l))).
Proof. exact parse_source_prefix. Qed.

(* the full statement: a returned tree is rooted at SOURCE_FILE and spells the input *)
Theorem C02_tree_spells_input : forall l r,
  parse_source l = POk r -> tree_kind (pr_tree r) = K_SOURCE_FILE /\ tree_text (pr_tree r) = l.
Proof. intros l r H. pose proof (parse_source_total l) as HT. rewrite H in HT. exact HT. Qed.
Theorem C02_tree_spells_input_check_lex : forall l r,
  parse_check_lex l = POk r -> tree_kind (pr_tree r) = K_SOURCE_FILE /\ tree_text (pr_tree r) = l.
Proof. intros l r H. pose proof (parse_check_lex_total l) as HT. rewrite H in HT. exact HT. Qed.

Print Assumptions C02_token_texts_spell_input.
Print Assumptions C02_tree_build_lossless.
Print Assumptions C02_builder_emits_table_prefix.
Print Assumptions C02_tree_spells_prefix_partial.
Print Assumptions C02_tree_spells_input.
Print Assumptions C02_tree_spells_input_check_lex.
