(* Property C06: the semantic graph preserves the program's structure, order and operators.
   Model/Graph.v models how syntax_to_semantic, stmt_to_asg_stmt, block_expr_to_asg_stmt_list and
   block_or_stmt_to_asg_type arrange the translated statements: the top-level loop with includes
   analysed in place, the single list of pending annotations, blocks and single-statement bodies,
   branches, loop bodies, cases and default, gate and subroutine bodies.  Statements whose
   translation has the structure of their source are leaves whose content the harness compares.
   Proved for all programs (any nesting, any number of statements):
   - without annotations and file includes the graph's statements are the translations of the
     source statements in source order; only the version line and the standard-library include
     produce nothing;
   - an included file's statements are translated exactly as if written at the include site;
   - annotations written before a top-level statement are attached to it, in order;
   - if/else branches (block or single statement), loop bodies, switch cases and default, gate
     and subroutine bodies hold exactly the translations of their statements, in order, in the
     role of the source.
   Known findings (witness lemmas): an annotation inside a block is attached to the enclosing
   top-level statement (pinned by the annotations.qasm snapshots); the power operator is stored
   as the concatenation operator (pinned by the binary_expr / complex2 snapshots).
   PARTIAL: the content of leaf statements and expressions (operands, arguments, qubit operands,
   index lists, modifiers, operator and literal classes) is compared on the implementation by
   the `graph` family against the reference translation of the generated program. *)
From Coq Require Import NArith List Bool.
From OQ3 Require Import Model.Graph Proofs.GraphP.
Import ListNotations.
Open Scope N_scope.

Theorem C06_statements_in_source_order : forall ss,
  Forall (fun s => ann_free s = true /\ is_inc_file s = false) ss ->
  tr_top [] ss = (tr_list ss, []).
Proof. exact order_preserved. Qed.

Theorem C06_blocks_in_order : forall a b, tr_list (a ++ b) = tr_list a ++ tr_list b.
Proof. exact tr_list_app. Qed.

Theorem C06_includes_expanded_in_place : forall pre inc post pend,
  tr_top pend (pre ++ GN L_INC_FILE inc :: post) = tr_top pend (pre ++ inc ++ post).
Proof. exact include_in_place. Qed.

Theorem C06_annotations_attach_to_next_statement : forall anns s g rest pend,
  Forall (fun a => exists t, a = GN L_ANN [t]) anns ->
  is_inc_file s = false -> ann_free s = true -> tr_stmt s = Some g ->
  tr_top pend (anns ++ s :: rest) =
  (wrap g (pend ++ flat_map kids_of anns) :: fst (tr_top [] rest), snd (tr_top [] rest)).
Proof. exact annotations_attach. Qed.

Theorem C06_if_else_roles : forall c t e,
  tr_stmt (GN L_IF [c; GN L_BLOCK t; GN L_BLOCK e]) =
  Some (GN O_IF [c; GN O_BLOCK (tr_list t); some (GN O_BLOCK (tr_list e))]).
Proof. exact if_roles. Qed.
Theorem C06_if_without_else : forall c t,
  tr_stmt (GN L_IF [c; GN L_BLOCK t]) = Some (GN O_IF [c; GN O_BLOCK (tr_list t); none]).
Proof. exact if_no_else. Qed.
Theorem C06_single_statement_bodies : forall c x y gx gy,
  tr_stmt x = Some gx -> tr_stmt y = Some gy ->
  tr_stmt (GN L_IF [c; GN L_SINGLE [x]; GN L_SINGLE [y]]) =
  Some (GN O_IF [c; GN O_BLOCK [gx]; some (GN O_BLOCK [gy])]).
Proof. exact if_single_statement_bodies. Qed.
Theorem C06_loop_gate_def_bodies : forall c v it b n ps qs r l,
  tr_stmt (GN L_WHILE [c; GN L_BLOCK b]) = Some (GN O_WHILE [c; GN O_BLOCK (tr_list b)]) /\
  tr_stmt (GN L_FOR [v; it; GN L_BLOCK b]) = Some (GN O_FOR [v; it; GN O_BLOCK (tr_list b)]) /\
  tr_stmt (GN L_GATEDEF [n; ps; qs; GN l b]) = Some (GN O_GATEDEF [n; ps; qs; GN O_BLOCK (tr_list b)]) /\
  tr_stmt (GN L_DEF [n; ps; r; GN l b]) = Some (GN O_DEF [n; ps; GN O_BLOCK (tr_list b); r]).
Proof. intros. repeat split. Qed.
Theorem C06_switch_roles : forall c v1 b1 v2 b2 d l0 l1 l2 l3 l4 l5,
  tr_stmt (GN L_SWITCH [c; GN l0 [GN l1 [v1; GN l2 b1]; GN l3 [v2; GN l4 b2]]; GN l5 d]) =
  Some (GN O_SWITCH [c; GN O_STMTS [GN O_CASE [v1; GN O_STMTS (tr_list b1)]; GN O_CASE [v2; GN O_STMTS (tr_list b2)]];
                     some (GN O_STMTS (tr_list d))]).
Proof. exact switch_roles. Qed.

Theorem C06_operators_keep_their_meaning_except_power : forall o, o <> 18 -> asg_binop o = o.
Proof. exact asg_binop_same. Qed.

(* known findings, with witnesses *)
Theorem C06_annotation_inside_block_refuted :
  let a := GN 1000 [] in let x := GN L_LEAF [GN 1001 []] in let c := GN 1002 [] in
  translate [GN L_IF [c; GN L_BLOCK [GN L_ANN [a]; x]]] =
    [GN O_ANNOTATED [GN O_IF [c; GN O_BLOCK [GN O_LEAF [GN 1001 []]]; none]; GN O_ANNS [a]]].
Proof. exact annotation_in_block_refuted. Qed.
Theorem C06_power_stored_as_concatenation_refuted : asg_binop 18 = 19.
Proof. exact asg_binop_power_refuted. Qed.

Print Assumptions C06_statements_in_source_order.
Print Assumptions C06_blocks_in_order.
Print Assumptions C06_includes_expanded_in_place.
Print Assumptions C06_annotations_attach_to_next_statement.
Print Assumptions C06_if_else_roles.
Print Assumptions C06_if_without_else.
Print Assumptions C06_single_statement_bodies.
Print Assumptions C06_loop_gate_def_bodies.
Print Assumptions C06_switch_roles.
Print Assumptions C06_operators_keep_their_meaning_except_power.
Print Assumptions C06_annotation_inside_block_refuted.
Print Assumptions C06_power_stored_as_concatenation_refuted.
