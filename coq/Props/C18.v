(* Property C18: includes act as in-place textual inclusion with ordered path search.
   Model/Include.v models resolve_file_path over an abstract file system and the expansion of
   includes (parse_included_files + the include arm of syntax_to_semantic) over file contents
   abstracted to markers and includes.  Proved for every file system, every search and
   environment list and every path:
   - an absolute path is the file itself, whatever the lists say;
   - a relative path resolves to the first directory of the list in force (the search list if one
     is given, else the QASM3_PATH list) that contains the file, and to the path as written iff no
     directory of that list contains it; the environment list is ignored when a search list is given;
   - an include whose file can be read is replaced, in place, by the expansion of that file
     (recursively), the standard-library include contributes no file, and an include that cannot
     be read contributes exactly one diagnostic event and nothing else.
   Together with C06_includes_expanded_in_place (the graph of a program with an included file is
   the graph of the program with the file's statements written at the include site).
   PARTIAL: the file-system behaviour (is_file, read_to_string, env::split_paths), the tagging of
   an included file's diagnostics with its path, the in-place equivalence on real programs and
   the absence of panics are checked on the implementation by the `inc` family, which builds the
   directory trees under /verif/build/tmp and compares with the extracted model. *)
From Coq Require Import NArith List Bool.
From OQ3 Require Import Model.Include Proofs.IncludeP.
Import ListNotations.
Open Scope N_scope.

Theorem C18_absolute_path_is_the_file_itself : forall fs search env d f,
  resolve fs search env (PAbs d f) = RFile d f.
Proof. exact absolute_is_itself. Qed.

Theorem C18_relative_path_first_match : forall fs search env f d,
  resolve fs search env (PRel f) = RFile d f <->
  exists l1 l2, dirs_of search env = l1 ++ d :: l2 /\ has fs d f = true /\
                forall d', In d' l1 -> has fs d' f = false.
Proof. exact relative_first_match. Qed.

Theorem C18_relative_path_not_found : forall fs search env f,
  resolve fs search env (PRel f) = RAsGiven f <-> forall d, In d (dirs_of search env) -> has fs d f = false.
Proof. exact relative_no_match. Qed.

Theorem C18_search_list_shadows_environment : forall fs l env1 env2 p,
  resolve fs (Some l) env1 p = resolve fs (Some l) env2 p.
Proof. exact search_list_shadows_environment. Qed.

Theorem C18_include_expanded_in_place : forall fs search env content fuel pre p post d f,
  resolve fs search env p = RFile d f -> has fs d f = true ->
  expand fs search env content (S fuel) (pre ++ IInc p :: post) =
  expand fs search env content (S fuel) pre ++ expand fs search env content fuel (content d f) ++
  expand fs search env content (S fuel) post.
Proof. exact expand_include_in_place. Qed.

Theorem C18_unreadable_include_one_diagnostic : forall fs search env content fuel pre p post,
  readable fs (resolve fs search env p) = false ->
  expand fs search env content fuel (pre ++ IInc p :: post) =
  expand fs search env content fuel pre ++ EUnreadable (resolve fs search env p) :: expand fs search env content fuel post.
Proof. exact expand_unreadable. Qed.

(* non-vacuity: file 7 exists in directories 2 and 3; the list [1; 3; 2] finds it in 3 *)
Example C18_nonvacuous :
  resolve [(2, 7); (3, 7)] (Some [1; 3; 2]) (Some [2]) (PRel 7) = RFile 3 7 /\
  resolve [(2, 7); (3, 7)] None (Some [2]) (PRel 7) = RFile 2 7 /\
  resolve [(2, 7); (3, 7)] (Some [1]) (Some [2]) (PRel 7) = RAsGiven 7.
Proof. vm_compute. auto. Qed.

Print Assumptions C18_absolute_path_is_the_file_itself.
Print Assumptions C18_relative_path_first_match.
Print Assumptions C18_relative_path_not_found.
Print Assumptions C18_search_list_shadows_environment.
Print Assumptions C18_include_expanded_in_place.
Print Assumptions C18_unreadable_include_one_diagnostic.
