(* Property C16: statement parsing is compositional: context never changes a statement's parse.
   Proved by computation in the kernel on the pipeline model, for every ordered pair of the 146
   statement templates (21316 pairs): if each parses without diagnostics on its own, their
   concatenation parses without diagnostics and its statement list is exactly the statements of
   the first followed by those of the second (same node kinds, same texts), at top level and
   inside a block body -- outside four listed known-finding classes, which have witnesses:
   `let` is parsed by two different statement routines (alias declaration at the start of a file,
   let statement after the first expression statement and inside every block), and after an
   assignment statement the operator loop keeps going, so a following statement that starts with
   a binary operator token is glued to it (x = 1; -a;); and an anonymous block that is the last
   statement of a block body is left as a bare BLOCK_EXPR instead of an expression statement;
   and an empty statement `;` directly after a statement handled by the top-level item routine is
   a diagnostic although it is accepted after expression statements and inside every block.
   PARTIAL: sequences longer than two and statements beyond the templates are checked on the
   implementation by the `accept` family (random sequences of generated statements). *)
From Coq Require Import NArith Arith List Bool.
From OQ3 Require Import gen.Templates Model.Accept Proofs.ComposeTopP Proofs.ComposeBlockP.
Import ListNotations.

Theorem C16_pairs_compose_at_top_level : forall i j,
  In (i, j) id_pairs -> k_c16 i j = false -> composes_top i j = true.
Proof.
  intros i j Hp K. pose proof pairs_compose_top as H. rewrite forallb_forall in H.
  specialize (H (i, j) Hp). cbn in H. rewrite K in H. exact H.
Qed.

Theorem C16_pairs_compose_in_a_block : forall i j,
  In (i, j) id_pairs -> k_c16_block i j = false -> composes_block i j = true.
Proof.
  intros i j Hp K. pose proof pairs_compose_block as H. rewrite forallb_forall in H.
  specialize (H (i, j) Hp). cbn in H. rewrite K in H. exact H.
Qed.

Theorem C16_let_context_refuted :
  composes_top T_expr_call T_alias_slice = false /\ composes_block T_decl_int T_alias_slice = false.
Proof. exact let_context_refuted. Qed.
Theorem C16_assignment_glues_operator_refuted : composes_top T_assign_lit T_expr_neg = false.
Proof. exact assignment_glues_operator_refuted. Qed.
Theorem C16_trailing_anon_block_refuted : composes_block T_decl_int T_anon_block = false.
Proof. exact trailing_anon_block_refuted. Qed.

Theorem C16_empty_after_item_refuted :
  composes_top T_decl_int T_empty = false /\ composes_top T_expr_call T_empty = true /\
  composes_block T_decl_int T_empty = true.
Proof. exact empty_after_item_refuted. Qed.

Example C16_nonvacuous : (21316 <=? List.length id_pairs)%nat = true /\
  (6551 <=? List.length (filter (fun '(i, j) => negb (k_c16 i j)) id_pairs))%nat = true.
Proof. vm_compute. auto. Qed.

Print Assumptions C16_pairs_compose_at_top_level.
Print Assumptions C16_pairs_compose_in_a_block.
Print Assumptions C16_let_context_refuted.
Print Assumptions C16_assignment_glues_operator_refuted.
Print Assumptions C16_trailing_anon_block_refuted.
Print Assumptions C16_empty_after_item_refuted.
