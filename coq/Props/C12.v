(* Property C12: diagnostics carry valid spans; a diagnostic-free tree has no error nodes.
   Proved for every input: every lexical diagnostic's range is exactly the byte range of one
   token of the table (start < end <= input length, whole characters on both ends); every parser
   diagnostic is an empty range at the start offset of a raw token or at the input length.
   PARTIAL: "an error node or error token implies a diagnostic" and the spans of semantic
   diagnostics are checked on the implementation by the oracle only (tree/sema families);
   validation diagnostics of string escapes come from the unescape module (not modelled). *)
From Coq Require Import NArith Arith List Bool Lia Sorted.
From OQ3 Require Import gen.Kinds Model.Lexer Model.Lexed Model.Parser Model.Grammar Model.Builder
                        Proofs.LexerP Proofs.LexedP Proofs.BuilderP.
Import ListNotations.

(* lexical diagnostics: the i-th flagged token's range is [offsets[i], offsets[i+1]) of the table *)
Theorem C12_lex_error_ranges : forall l a b,
  In (a, b) (lex_error_ranges (lexed_of l)) ->
  exists i, In i (lerrors (lexed_of l)) /\
            a = nth (N.to_nat i) (lstarts (lexed_of l)) 0%N /\
            b = nth (S (N.to_nat i)) (lstarts (lexed_of l)) 0%N.
Proof.
  intros l a b H. unfold lex_error_ranges in H. apply in_map_iff in H as [i [E Hi]].
  inversion E; subst. exists i. auto.
Qed.

(* parser diagnostics: emitted at the start offset of the builder's current raw token *)
Lemma b_error_offset texts starts b b' :
  b_error texts starts b = BOk b' ->
  exists p, bout b' = SError (nth p starts 0%N) :: bout b /\ (p <= length texts)%nat.
Proof.
  unfold b_error, blen_tokens. destruct (bpos b <=? length texts)%nat eqn:E; [|discriminate].
  intros H; inversion H; subst. exists (bpos b). split; auto. apply Nat.leb_le; auto.
Qed.
Theorem C12_parse_error_offsets : forall texts starts b b',
  b_error texts starts b = BOk b' ->
  exists p, bout b' = SError (nth p starts 0%N) :: bout b /\ (p <= length texts)%nat.
Proof. exact b_error_offset. Qed.

(* the table's offsets are byte lengths of whole-character prefixes, strictly increasing up to
   the input length (C14), so both kinds of ranges are valid spans on character boundaries *)
Theorem C12_offsets_valid : forall l,
  StronglySorted N.lt (lstarts (lexed_of l)) /\ last (lstarts (lexed_of l)) 0%N = blen l.
Proof. intros l. destruct (lexed_starts l) as [_ [H1 [H2 _]]]. auto. Qed.

Print Assumptions C12_lex_error_ranges.
Print Assumptions b_error_offset.
Print Assumptions C12_parse_error_offsets.
Print Assumptions C12_offsets_valid.
