(* Property C04: valid OpenQASM 3 programs are accepted with zero syntax diagnostics.
   gen/Templates.v (generated from tools/templates.txt on every run) lists one representative of
   every statement form of the reference grammar: declarations of every scalar type, qubits and
   registers, io declarations, assignments (plain, indexed, of a measurement, a call, a cast),
   expression statements over the whole operator set, index / range / set indexing, gate calls
   with every modifier, gphase, measure, reset, barrier, delay, if / else / else-if, while, for
   over range / stepped range / set / expression, switch, break / continue / end / return, gate
   and subroutine definitions, aliases, pragma, annotation, include, cast.
   Proved by computation in the kernel on the pipeline model (the model tied to the
   implementation under C01/C02): every template outside the five listed known findings is
   accepted -- no lexical, syntactic or validation diagnostic -- in each of the 10 statement
   contexts (start of file, after an expression statement, after a gate call, after a
   declaration, and inside the body of if / while / for / case / gate / def); the five known
   findings are rejected in every context (witnesses).  One further exclusion, [k_ctx_empty]:
   the empty statement `;` in the context "after a declaration" is the C16 finding
   empty_stmt_after_item (the empty statement is not part of the OpenQASM 3 grammar; it is in the
   table because C16 quantifies over it).
   PARTIAL: programs of unbounded size and nesting are not covered by a theorem; generated
   programs of the reference grammar in three layouts are checked on the implementation by the
   `accept` family and compared tree for tree with the model by the `tree` family. *)
From Coq Require Import NArith Arith List Bool.
From OQ3 Require Import gen.Templates Model.Accept Proofs.AcceptP.
Import ListNotations.

Theorem C04_every_statement_form_in_every_context : forall c i,
  In c ctx_ids -> In i ids -> k_c04_rejected i = false -> k_ctx_empty c i = false -> k_box_top c i = false ->
  accepted_in c i = true.
Proof.
  intros c i Hc Hi K K2 K3. pose proof templates_accepted as H.
  rewrite forallb_forall in H. specialize (H c Hc). rewrite forallb_forall in H.
  specialize (H i Hi). rewrite K, K2, K3 in H. exact H.
Qed.

Theorem C04_known_findings_refuted : forall c i,
  In c ctx_ids -> In i ids -> k_c04_rejected i = true -> accepted_in c i = false.
Proof.
  intros c i Hc Hi K. pose proof known_rejected_everywhere as H.
  rewrite forallb_forall in H. specialize (H c Hc). rewrite forallb_forall in H.
  specialize (H i Hi). rewrite K in H. cbn in H. apply negb_true_iff in H. exact H.
Qed.

(* a box statement needs a terminating `;` at top level (known finding), not before a closing brace *)
Theorem C04_box_needs_semicolon_refuted :
  accepted_in 0 T_box_stmt = false /\ accepted_in 3 T_box_stmt = false /\ accepted_in 4 T_box_stmt = true.
Proof. exact box_needs_semicolon_refuted. Qed.

Example C04_nonvacuous : (146 <=? List.length ids)%nat = true /\ List.length ctx_ids = 10%nat /\
  length (filter k_c04_rejected ids) = 5%nat.
Proof. vm_compute. auto. Qed.

Print Assumptions C04_every_statement_form_in_every_context.
Print Assumptions C04_known_findings_refuted.
Print Assumptions C04_box_needs_semicolon_refuted.
