(* Property C08: expressions are typed consistently; conversions are explicit or diagnosed.
   Proved, for all types of any width (Model/TypeRules.v mirrors the decision logic of
   classical_declaration_statement_to_asg_stmt, assignment_stmt_to_asg_stmt and
   BinaryExpr::new_texpr_with_cast; inputs are the types the analyser computed):
   outside the two listed known-finding classes, a declaration with initializer and an
   assignment to a declared identifier either report a type diagnostic or end up with a value
   whose type equals the target up to const-ness (directly or through a cast to exactly the
   target type), and every downward conversion is diagnosed; arithmetic results have the
   common type with each operand untouched iff it already has that type, else cast to it.
   PARTIAL: the types of identifiers, literals, casts, measurements and calls are inputs here
   (hypothesis lit_typed); they are checked on the implementation by the semt family. *)
From Coq Require Import NArith List Bool.
From OQ3 Require Import Model.Types Model.TypesSpec Model.TypeRules Model.TypeRulesSpec
                        Proofs.TypesP Proofs.TypeRulesP.
Import ListNotations.
Open Scope N_scope.

Theorem C08_decl_sound_outside_known : forall t v lit,
  k_decl_const_narrow t v lit = false -> c08_sound t v (decl_check t v lit) = true.
Proof. exact decl_sound. Qed.

Theorem C08_decl_downward_diagnosed_outside_known : forall t v lit,
  lit_typed v lit -> downward_conv t v = true -> k_decl_const_narrow t v lit = false ->
  cr_diag (decl_check t v lit) = true.
Proof. exact decl_downward. Qed.

Theorem C08_assign_sound_outside_known : forall s v lit,
  k_assign_int_literal s v lit = false -> c08_sound s v (assign_check s v lit) = true.
Proof. exact assign_sound. Qed.

Theorem C08_assign_downward_diagnosed_outside_known : forall s v lit,
  lit_typed v lit -> downward_conv s v = true -> k_assign_int_literal s v lit = false ->
  cr_diag (assign_check s v lit) = true.
Proof. exact assign_downward. Qed.

Theorem C08_arith_operands_cast : forall op tl tr,
  let '(t, cl, cr) := arith_cast op tl tr in
  t = implicit_cast_type op tl tr /\ (cl = false <-> t = tl) /\ (cr = false <-> t = tr).
Proof. exact arith_cast_spec. Qed.

Theorem C08_oracle_silent_on_model_decl : forall t v lit, lit_typed v lit ->
  c08_decl_laws t v lit (cr_cast (decl_check t v lit)) (cr_diag (decl_check t v lit)) = [].
Proof. exact c08_decl_laws_model. Qed.
Theorem C08_oracle_silent_on_model_assign : forall s v lit, lit_typed v lit ->
  c08_assign_laws s v lit (cr_cast (assign_check s v lit)) (cr_diag (assign_check s v lit)) = [].
Proof. exact c08_assign_laws_model. Qed.

(* known findings on the pinned tree: witnesses *)
Lemma C08_finding_decl_const_narrow_refuted :
  exists t v, k_decl_const_narrow t v NotLiteral = true /\
              c08_sound t v (decl_check t v NotLiteral) = false /\ downward_conv t v = false.
Proof. exists (Int (Some 8) false), (Int (Some 32) true). vm_compute. auto. Qed.
Lemma C08_finding_assign_int_literal_refuted :
  exists s v, k_assign_int_literal s v (LitInt true) = true /\
              c08_sound s v (assign_check s v (LitInt true)) = false.
Proof. exists (Float None false), (Int (Some 128) true). vm_compute. auto. Qed.

Example C08_nonvacuous :
  decl_check (Float (Some 32) false) (Int (Some 8) false) NotLiteral = {| cr_cast := true; cr_diag := false |} /\
  decl_check (Int (Some 8) false) (Float (Some 32) false) NotLiteral = {| cr_cast := false; cr_diag := true |} /\
  downward_conv (Int (Some 8) false) (Float (Some 32) false) = true.
Proof. vm_compute. auto. Qed.

Print Assumptions C08_decl_sound_outside_known.
Print Assumptions C08_decl_downward_diagnosed_outside_known.
Print Assumptions C08_assign_sound_outside_known.
Print Assumptions C08_assign_downward_diagnosed_outside_known.
Print Assumptions C08_arith_operands_cast.
Print Assumptions C08_oracle_silent_on_model_decl.
Print Assumptions C08_oracle_silent_on_model_assign.
Print Assumptions C08_finding_decl_const_narrow_refuted.
Print Assumptions C08_finding_assign_int_literal_refuted.
