(* Property C20: type promotion is a join on the numeric tower and never narrows.
   This file holds only statements closed by [exact], their axiom audit and pins. *)
From Coq Require Import NArith List Bool.
From OQ3 Require Import Model.Types Model.TypesSpec Proofs.TypesP.
Open Scope N_scope.

(* symmetric in its arguments up to const-ness *)
Theorem C20_symmetric_upto_const : forall a b,
  equal_up_to_constness (promote_types a b) (promote_types b a) = true.
Proof. exact promote_symmetric_upto_const. Qed.

(* returns the type itself for two equal types *)
Theorem C20_idempotent : forall a, promote_types a a = a.
Proof. exact promote_idempotent. Qed.

(* is an upper bound of both operands (all widths, all const flags, all shapes) *)
Theorem C20_upper_bound : forall a b,
  is_void (promote_types a b) = false ->
  ty_le a (promote_types a b) = true /\ ty_le b (promote_types a b) = true.
Proof. exact promote_upper_bound. Qed.

(* is const only if both operands are -- outside the two listed const-ness classes *)
Theorem C20_const_iff_both_outside_known : forall a b,
  k_const_eq a b = false -> k_const_cross a b = false ->
  is_void (promote_types a b) = false ->
  is_const (promote_types a b) = is_const a && is_const b.
Proof. exact promote_const_iff_both. Qed.

(* 'no common type' exactly for pairs without an upper bound -- outside the listed classes *)
Theorem C20_void_iff_no_bound_outside_known : forall a b,
  is_void a && is_void b = false -> k_complex a b = false -> k_sign a b = false ->
  (is_void (promote_types a b) = true <-> ~ exists c, ub a b c = true).
Proof. exact promote_void_iff_no_bound. Qed.

(* literal castability is a superset of promotion into the target *)
Theorem C20_can_cast_literal_superset : forall t l,
  is_void (promote_types t l) = false ->
  equal_up_to_constness (promote_types t l) t = true -> can_cast_literal t l = true.
Proof. exact can_cast_literal_superset. Qed.

(* never float/complex into an integer target, nor complex into a float target *)
Theorem C20_can_cast_literal_never_downward : forall t l lt ll,
  level t = Some lt -> level l = Some ll -> lt < ll -> can_cast_literal t l = false.
Proof. exact can_cast_literal_never_downward. Qed.

Theorem C20_equal_up_to_constness_equiv :
  (forall a, equal_up_to_constness a a = true) /\
  (forall a b, equal_up_to_constness a b = equal_up_to_constness b a) /\
  (forall a b c, equal_up_to_constness a b = true -> equal_up_to_constness b c = true ->
                 equal_up_to_constness a c = true).
Proof. exact (conj eutc_refl (conj eutc_sym eutc_trans)). Qed.

(* the executable oracle that the correspondence driver applies to the implementation's
   observed results flags nothing on the model: it is the conjunction of the laws above *)
Theorem C20_oracle_silent_on_model : forall a b,
  c20_laws a b (promote_types a b) (promote_types b a) (promote_types a a) (can_cast_literal a b) = nil.
Proof. exact c20_laws_model. Qed.

(* ---- known findings on the pinned tree: witnesses (replayed on the implementation) ---- *)
Lemma C20_finding_const_eq_refuted :
  exists a b, k_const_eq a b = true /\ is_void (promote_types a b) = false /\
              is_const (promote_types a b) = true /\ is_const b = false.
Proof. exists (Int (Some 8) true), (Int (Some 8) false). vm_compute. auto. Qed.
Lemma C20_finding_const_cross_refuted :
  exists a b, k_const_cross a b = true /\ is_void (promote_types a b) = false /\
              is_const (promote_types a b) = true /\ is_const a = false.
Proof. exists (Int None false), (Float None true). vm_compute. auto. Qed.
Lemma C20_finding_complex_refuted :
  exists a b c, k_complex a b = true /\ is_void (promote_types a b) = true /\ ub a b c = true.
Proof. exists (Complex (Some 8) false), (Complex (Some 16) false), (Complex None false). vm_compute. auto. Qed.
Lemma C20_finding_sign_refuted :
  exists a b c, k_sign a b = true /\ is_void (promote_types a b) = true /\ ub a b c = true.
Proof. exists (Int (Some 8) false), (UInt (Some 8) false), (Float None false). vm_compute. auto. Qed.

(* ---- non-vacuity: the hypotheses are met by non-trivial pairs ---- *)
Example C20_nonvacuous :
  let a := Int (Some 8) true in let b := Float (Some 4294967295) true in
  is_void (promote_types a b) = false /\ known_C20 a b = false /\
  promote_types a b = b /\ is_void a && is_void b = false.
Proof. vm_compute. auto. Qed.

Print Assumptions C20_symmetric_upto_const.
Print Assumptions C20_idempotent.
Print Assumptions C20_upper_bound.
Print Assumptions C20_const_iff_both_outside_known.
Print Assumptions C20_void_iff_no_bound_outside_known.
Print Assumptions C20_can_cast_literal_superset.
Print Assumptions C20_can_cast_literal_never_downward.
Print Assumptions C20_equal_up_to_constness_equiv.
Print Assumptions C20_oracle_silent_on_model.
Print Assumptions C20_finding_const_eq_refuted.
Print Assumptions C20_finding_const_cross_refuted.
Print Assumptions C20_finding_complex_refuted.
Print Assumptions C20_finding_sign_refuted.
