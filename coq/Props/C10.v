(* Property C10: literal values reach the semantic graph exactly.
   Proved: for every n and every spelling of n in radix 2, 8, 10 or 16 (either prefix case,
   either digit case, underscores anywhere among the digits) the AST accessor value is n when
   n < 2^128 and "no value" otherwise (u128::from_str_radix is modelled, not assumed); the text
   between matching outer quotes of a bit string is returned verbatim.
   PARTIAL: float values (Rust f64 parsing/printing is an oracle: the harness compares the
   nearest double bit for bit), timing/imaginary/boolean literals and the negation folding are
   checked on the implementation only. *)
From Coq Require Import NArith List Bool.
From OQ3 Require Import Model.Literals Proofs.LiteralsP.
Import ListNotations.
Open Scope N_scope.

Theorem C10_int_value_every_spelling : forall r pfx cs ds,
  (r = 2 \/ r = 8 \/ r = 10 \/ r = 16) -> In pfx (prefix_chars r) ->
  spelled r cs ds -> ds <> [] ->
  int_value (pfx ++ cs) =
    (if digits_value r ds 0 <? two128 then Some (digits_value r ds 0) else None).
Proof. exact int_value_spelled. Qed.

Theorem C10_bit_string_verbatim : forall q body,
  (q = 34 \/ q = 39) -> between_quotes (q :: body ++ [q]) = Some body.
Proof. exact between_quotes_quote. Qed.

(* non-vacuity: 0XfF_0 = 4080, 0b1_01 = 5, 340282366920938463463374607431768211456 has no value *)
Example C10_nonvacuous :
  int_value [48; 88; 102; 70; 95; 48] = Some 4080 /\ int_value [48; 98; 49; 95; 48; 49] = Some 5 /\
  int_value [51;52;48;50;56;50;51;54;54;57;50;48;57;51;56;52;54;51;52;54;51;51;55;52;54;48;55;52;51;49;55;54;56;50;49;49;52;53;54] = None.
Proof. vm_compute. auto. Qed.

Print Assumptions C10_int_value_every_spelling.
Print Assumptions C10_bit_string_verbatim.
