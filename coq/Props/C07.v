(* Property C07: names resolve by lexical scoping; undeclared and duplicate names are diagnosed.
   Model/Scoping.v abstracts a program to its tree of declarations, uses and scope constructs;
   compile gives the symbol-table operations the analyser performs (with_scope! = Enter ... Exit,
   initializer before the declared name, parameters inside the definition's scope, the
   definition's own name after it).  lres_prog is the reference: a purely lexical resolver that
   passes an environment function down the tree and never "leaves" a scope.
   Proved for every program tree (any depth, any names, built-ins included): running the model
   of SymbolTable (the one tied to symbols.rs under C19) on the compiled operations yields, use
   by use and declaration by declaration, exactly the events of the lexical reference -- a use
   refers to the innermost enclosing preceding declaration, an undeclared use is unresolved, a
   second declaration in the same block is a duplicate and creates nothing, inner blocks shadow
   silently, names of a closed block are gone -- never panics, and leaves exactly the global
   scope open.
   PARTIAL: that the analyser issues these operations for each construct (the mapping from
   statements to items, in the harness generator), stores the results in the graph and logs one
   diagnostic per unresolved use / duplicate is the `scope` correspondence. *)
From Coq Require Import NArith List Bool.
From OQ3 Require Import Model.Types Model.SymTab Model.Scoping Proofs.ScopingP.
Import ListNotations.
Open Scope N_scope.

Theorem C07_stack_discipline_is_lexical_scoping : forall its,
  evs (snd (run init (compile_all its))) = lres_prog its /\
  ~ In OPanic (snd (run init (compile_all its))) /\
  open_scopes (compile_all its) = 1.
Proof. exact lexical. Qed.

Theorem C07_redeclaration_keeps_first : forall outer loc nx x t i,
  assoc x loc = Some i -> lres_item outer loc nx (IDecl x t) = ([EDup], loc, nx).
Proof. exact redeclaration_keeps_first. Qed.

Theorem C07_shadowing_is_silent : forall outer loc nx x t,
  assoc x loc = None ->
  lres_item outer loc nx (IDecl x t) = ([EBound nx], (x, nx) :: loc, N.succ nx).
Proof. exact shadowing_is_silent. Qed.

Theorem C07_names_of_a_closed_block_are_gone : forall outer loc nx sub b,
  snd (fst (lres_item outer loc nx (IScope sub b))) = loc.
Proof. exact scope_exit_restores. Qed.

(* non-vacuity: int a; { int a; use a; int a; } use a; use b;  with a = 1, b = 2:
   ids 7 and 8, inner use sees 8, duplicate, outer use sees 7, b unresolved *)
Example C07_nonvacuous :
  lres_prog [IDecl 1 Void; IScope false [IDecl 1 Void; IUse 1; IDecl 1 Void]; IUse 1; IUse 2]
  = [EBound 7; EBound 8; ERes 8; EDup; ERes 7; EUnres].
Proof. vm_compute. reflexivity. Qed.

Print Assumptions C07_stack_discipline_is_lexical_scoping.
Print Assumptions C07_redeclaration_keeps_first.
Print Assumptions C07_shadowing_is_silent.
Print Assumptions C07_names_of_a_closed_block_are_gone.
