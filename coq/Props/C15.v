(* Property C15: well-formed lexemes are classified correctly regardless of neighbours/layout.
   Proved (maximal munch, for ANY following text satisfying the stated one-character side
   condition, and -- since the lexer is a function of the remaining input only -- for any
   preceding text): identifiers, whitespace runs, line comments, the 22 punctuation characters
   that no rule can extend.  PARTIAL: numbers, strings, keywords-through-tables, pragma /
   annotation / version lines and the sequence theorem are covered by the correspondence
   (generated lexeme sequences in two layouts) and the oracle only. *)
From Coq Require Import NArith Arith List Bool.
From OQ3 Require Import gen.Kinds Model.Lexer Model.Lexed Proofs.LexerP Proofs.LexClassP.
Import ListNotations.
Open Scope N_scope.

Theorem C15_ident_munch : forall c body rest,
  is_id_start c = true -> cp c <> 112 -> cp c <> 79 -> cp c <> 47 -> is_whitespace c = false ->
  Forall (fun x => xc x = true) body ->
  (match rest with [] => True | x :: _ => xc x = false /\ is_emoji_nonascii x = false end) ->
  advance_token (c :: body ++ rest) = Some (Ident, rest).
Proof. exact ident_munch. Qed.

Theorem C15_whitespace_munch : forall c body rest,
  is_whitespace c = true -> Forall (fun x => is_whitespace x = true) body ->
  (match rest with [] => True | x :: _ => is_whitespace x = false end) ->
  advance_token (c :: body ++ rest) = Some (Whitespace, rest).
Proof. exact whitespace_munch. Qed.

Theorem C15_line_comment_munch : forall body rest,
  Forall (fun x => is x 10 = false) body ->
  (match rest with [] => True | x :: _ => is x 10 = true end) ->
  advance_token (plain 47 :: plain 47 :: body ++ rest) = Some (LineComment, rest).
Proof. exact line_comment_munch. Qed.

Theorem C15_punct_solo : forall k tk rest, In (k, tk) solo_punct ->
  advance_token (plain k :: rest) = Some (tk, rest).
Proof. exact punct_solo. Qed.

(* the lexer is context-free on the left: the stream for [a ++ b] is the stream for [a] followed
   by the stream for [b] whenever [a] ends at a token boundary -- stated through fuel-free
   unfolding: tokenizing starts afresh at every token boundary *)
Theorem C15_token_boundary_restart : forall fuel l k rest ts,
  advance_token l = Some (k, rest) -> tokenize_fuel fuel rest = Some ts ->
  tokenize_fuel (S fuel) l = Some ({| tkind := k; ttext := prefix_before l rest |} :: ts).
Proof. intros fuel l k rest ts H1 H2. cbn. rewrite H1, H2. reflexivity. Qed.

Print Assumptions C15_ident_munch.
Print Assumptions C15_whitespace_munch.
Print Assumptions C15_line_comment_munch.
Print Assumptions C15_punct_solo.
Print Assumptions C15_token_boundary_restart.
