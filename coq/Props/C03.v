(* Property C03: semantic analysis returns normally on every syntax-error-free program.
   What is a theorem here is the symbol-table side: for every program tree (any nesting of the
   scope constructs, any declarations and uses) the operations the analyser performs on the
   symbol table -- Enter/Exit around each construct (with_scope!), bindings, look-ups -- never
   make the model of SymbolTable panic (exit_scope's assert, the index into all_symbols) and
   leave exactly the global scope open.  It is the second and third conjunct of the C07
   refinement theorem.
   PARTIAL: that the translation functions (stmt_to_asg_stmt, expr_to_asg_texpr, ...) do not
   panic on a syntax-error-free tree, terminate and do not exhaust memory is not modelled: it is
   an oracle on the implementation (`nopanic`, `scope`, `use`, `graph` families), with five
   listed classes of known panics. *)
From Coq Require Import NArith List Bool.
From OQ3 Require Import Model.Types Model.SymTab Model.Scoping Proofs.ScopingP.
Import ListNotations.
Open Scope N_scope.

Theorem C03_symbol_table_never_panics_and_scopes_balance : forall its,
  ~ In OPanic (snd (run init (compile_all its))) /\ open_scopes (compile_all its) = 1.
Proof. intros its. destruct (lexical its) as [_ [H1 H2]]. split; assumption. Qed.

(* non-vacuity: a nested program with a subroutine scope inside local scopes *)
Example C03_nonvacuous :
  open_scopes (compile_all [IScope false [IDecl 1 Void; IScope true [IUse 1; IScope false [IDecl 1 Void]]]; IUse 1]) = 1 /\
  length (compile_all [IScope false [IDecl 1 Void; IScope true [IUse 1; IScope false [IDecl 1 Void]]]; IUse 1]) = 10%nat.
Proof. vm_compute. auto. Qed.

Print Assumptions C03_symbol_table_never_panics_and_scopes_balance.
