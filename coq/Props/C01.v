(* Property C01: lexing and parsing return normally on every input (no panic, no hang).
   Proved here, for every input of any length:
     - the lexer terminates within one fuel unit per character (no panic site exists in it);
     - theorem A: the grammar never exhausts loop or recursion fuel (the model's image of a hang
       or unbounded event growth) and never violates a token precondition (assert!(p.at(..)),
       bump(kind), nth(n<=3)), and consumes every token;
     - the work bound: recursion depth and the number of loop iterations are bounded by
       3*tokens+6 call-backs deep and tokens+1 iterations per loop (the fuel that suffices).
     - theorem B, part 1 (marker discipline): for every token sequence the grammar completes,
       abandons, precedes and extends only markers that are live / completed (none of the
       marker unreachable!()/assert sites can fire, extend_to never underflows), every marker
       a grammar function starts is completed or abandoned (no DropBomb), and so the grammar
       phase returns normally with all tokens consumed and no live marker;
     - theorem B, part 2 (event::process): every forward-parent pointer the grammar writes
       leads strictly forward to a Start event that is never popped (a marker obtained from
       precede is always completed, never abandoned), hence event::process never reaches its
       unreachable!() and its chain walk terminates.
     Together: the parser (TopEntryPoint::parse up to the step list) returns normally on every
     token sequence and on every text.
     - theorem B, part 3a: the step list is one well-bracketed tree rooted at SOURCE_FILE whose
       Token steps carry exactly the input tokens (by counting completed Start slots against
       Finish events; forward parents only move Enters earlier).
     - theorem B, part 3b: on such a step list the trivia builder never fails its range
       assertion or its state assertions and the tree builder returns exactly one tree, rooted
       at SOURCE_FILE.
     Together, for every text: both entry points of the model (SourceFile::parse and
     SourceFile::parse_check_lex) return without hanging and without a panic in the lexer, the
     parser, event processing, the trivia builder or the tree builder.
   NOT proved: that the validation pass (validation.rs: Literal::token / TimingLiteral::
   identifier unwraps on the finished tree) never panics; this needs tree-shape facts about
   LITERAL and TIMING_LITERAL nodes and is covered by the bounded-exhaustive correspondence
   and the no-panic oracle on the implementation only. *)
From Coq Require Import NArith Arith List Bool.
From OQ3 Require Import gen.Kinds Model.Lexer Model.Lexed Model.Parser Model.Grammar Model.Builder
                        Proofs.LexerP Proofs.WP Proofs.GrammarA Proofs.MarkerB Proofs.GrammarB5 Proofs.ProcessB Proofs.PipelineP Proofs.PipelineB.
Import ListNotations.

Theorem C01_lexer_total : forall l, tokenize_fuel (S (length l)) l = Some (tokenize l).
Proof. exact tokenize_fuel_enough. Qed.

(* theorem A at the token level: any token sequence without EOF-kind tokens *)
Theorem C01_parser_total_A : forall inp,
  (forall i k j, nth_error inp i = Some (k, j) -> k <> K_EOF) ->
  match run_parser inp with
  | Steps _ => True
  | Panicked w => okA w     (* only marker-discipline sites remain possible: theorem B *)
  | Hang => False
  end.
Proof. exact run_parser_total. Qed.

(* the grammar returns having consumed every token *)
Theorem C01_grammar_consumes_all : forall inp,
  (forall i k j, nth_error inp i = Some (k, j) -> k <> K_EOF) ->
  match source_file inp (tie inp (fuel_for inp)) init_state with
  | Ok _ s => pos s = ntoks inp
  | Panic w => okA w
  | OutOfFuel => False
  end.
Proof. exact source_file_total. Qed.

(* theorem B parts 1 and 2 for every token sequence and every recursion fuel: no marker
   assertion fires, no marker is left live, every forward-parent pointer leads strictly forward
   to a Start event *)
Theorem C01_marker_discipline_B : forall inp n,
  match source_file inp (tie inp n) init_state with
  | Ok _ s => live s = [] /\ EvOK s
  | Panic w => ~ mark w
  | OutOfFuel => True
  end.
Proof. exact source_file_markers. Qed.

(* A and B together: the grammar phase returns normally *)
Theorem C01_grammar_phase_total : forall inp,
  (forall i k j, nth_error inp i = Some (k, j) -> k <> K_EOF) ->
  exists s, source_file inp (tie inp (fuel_for inp)) init_state = Ok tt s /\
            pos s = ntoks inp /\ live s = [] /\ EvOK s.
Proof. exact grammar_phase_total. Qed.

(* event::process is total on well-formed events *)
Theorem C01_process_total : forall s, EvOK s -> exists st, process (rev (evs s)) = Some st.
Proof. exact process_total. Qed.

(* the parser model returns its steps on every token sequence: no panic, no hang *)
Theorem C01_parser_total_AB : forall inp,
  (forall i k j, nth_error inp i = Some (k, j) -> k <> K_EOF) ->
  exists st, run_parser inp = Steps st.
Proof. exact run_parser_total_AB. Qed.

(* ... and on every text *)
Theorem C01_text_parser_total_AB : forall l, exists st, run_parser (to_input (lexed_of l)) = Steps st.
Proof. intros l. apply run_parser_total_AB. apply to_input_ne_eof. Qed.

(* theorem B part 3a: the step list is one well-bracketed tree rooted at SOURCE_FILE (it starts
   with Enter SOURCE_FILE, ends with the Exit closing it, the depth in between never falls below
   one), and its Token steps carry exactly the input tokens, each at least one raw token *)
Theorem C01_parser_output_is_one_tree : forall inp,
  (forall i k j, nth_error inp i = Some (k, j) -> k <> K_EOF) ->
  exists st, run_parser inp = Steps st /\ TreeSteps (ntoks inp) st.
Proof. exact run_parser_tree. Qed.

(* every text, both entry points: no hang; a panic can only come from the validation pass *)
Theorem C01_parse_total : forall l,
  match parse_source l with
  | POk r => tree_kind (pr_tree r) = K_SOURCE_FILE /\ Builder.tree_text (pr_tree r) = l
  | PPanic stage _ => stage = 4%N
  | PNoTree _ => False
  | PHang => False
  end.
Proof. exact parse_source_total. Qed.
Theorem C01_parse_check_lex_total : forall l,
  match parse_check_lex l with
  | POk r => tree_kind (pr_tree r) = K_SOURCE_FILE /\ Builder.tree_text (pr_tree r) = l
  | PPanic stage _ => stage = 4%N
  | PNoTree _ => True
  | PHang => False
  end.
Proof. exact parse_check_lex_total. Qed.

(* theorem A for every text *)
Theorem C01_text_total_A : forall l,
  match run_parser (to_input (lexed_of l)) with
  | Steps _ => True
  | Panicked w => okA w
  | Hang => False
  end.
Proof. exact parse_text_total. Qed.

(* non-vacuity: a deeply nested, erroneous input still terminates *)
Example C01_nonvacuous :
  match run_parser [(K_DEF_KW, false); (K_IDENT, false); (K_L_PAREN, false); (K_INT_NUMBER, false);
                    (K_R_PAREN, false); (K_IF_KW, false); (K_L_PAREN, false); (K_L_PAREN, false)] with
  | Steps l => Nat.leb 8 (length l) = true | _ => False end.
Proof. vm_compute. reflexivity. Qed.

Print Assumptions C01_lexer_total.
Print Assumptions C01_parser_total_A.
Print Assumptions C01_grammar_consumes_all.
Print Assumptions C01_text_total_A.
Print Assumptions C01_marker_discipline_B.
Print Assumptions C01_grammar_phase_total.
Print Assumptions C01_process_total.
Print Assumptions C01_parser_total_AB.
Print Assumptions C01_text_parser_total_AB.
Print Assumptions C01_parser_output_is_one_tree.
Print Assumptions C01_parse_total.
Print Assumptions C01_parse_check_lex_total.
