(* Property C14: tokens partition the input on character boundaries.
   A text is a list of whole characters (code point + class bits); byte lengths are UTF-8
   lengths computed in the model, so "ends on a character boundary" is structural: every
   token text is a list of whole characters and every offset is the byte length of a list
   of whole characters. *)
From Coq Require Import NArith List Bool Sorted.
From OQ3 Require Import Model.Lexer Model.Lexed Proofs.LexerP Proofs.LexedP.
Import ListNotations.
Open Scope N_scope.

(* every token consumes at least one character and leaves a suffix of the input *)
Theorem C14_advance_progress : forall l k rest,
  advance_token l = Some (k, rest) -> exists pre, pre <> [] /\ l = pre ++ rest.
Proof. exact advance_progress. Qed.

(* the token loop never runs out of fuel: one unit per character suffices *)
Theorem C14_tokenize_total : forall l, tokenize_fuel (S (length l)) l = Some (tokenize l).
Proof. exact tokenize_fuel_enough. Qed.

(* the token texts spell the input; every token is non-empty; lengths sum to the input length *)
Theorem C14_tokens_partition : forall l,
  concat (map ttext (tokenize l)) = l /\
  Forall (fun t => 0 < tlen t) (tokenize l) /\
  sum_tlen (tokenize l) = blen l.
Proof.
  exact (fun l => conj (tokenize_spell l) (conj (proj2 (tokens_lengths l)) (proj1 (tokens_lengths l)))).
Qed.

(* a literal's suffix offset never exceeds its length *)
Theorem C14_suffix_start_le_len : forall l, Forall suffix_ok (tokenize l).
Proof. exact tokenize_suffix_ok. Qed.

(* the parser-facing table: start offsets strictly increase, end at the input length, there is
   one more offset than tokens, and the i-th offset is the byte length of the first i token
   texts (whole characters), so slicing the input by the table never fails *)
Theorem C14_lexed_starts : forall l,
  lstarts (lexed_of l) = offsets (tokenize l) 0 /\
  StronglySorted N.lt (lstarts (lexed_of l)) /\
  last (lstarts (lexed_of l)) 0 = blen l /\
  length (lstarts (lexed_of l)) = S (length (tokenize l)).
Proof. exact lexed_starts. Qed.
Theorem C14_offsets_on_char_boundaries : forall ts off i, (i <= length ts)%nat ->
  nth_error (offsets ts off) i = Some (off + blen (concat (map ttext (firstn i ts)))).
Proof. exact offsets_nth. Qed.

(* non-vacuity: "0x_Fns /* " has 4 tokens with lengths 4,2,1,3 *)
Example C14_nonvacuous :
  let a k := {| cp := k; xs := true; xc := true; em := false |} in
  let o k := {| cp := k; xs := false; xc := false; em := false |} in
  let d k := {| cp := k; xs := false; xc := true; em := false |} in
  map tlen (tokenize [d 48; a 120; a 95; a 70; a 110; a 115; o 32; o 47; o 42; o 32]) = [4; 2; 1; 3].
Proof. vm_compute. reflexivity. Qed.

Print Assumptions C14_advance_progress.
Print Assumptions C14_tokenize_total.
Print Assumptions C14_tokens_partition.
Print Assumptions C14_suffix_start_le_len.
Print Assumptions C14_lexed_starts.
Print Assumptions C14_offsets_on_char_boundaries.
