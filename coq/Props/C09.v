(* Property C09: declared symbols carry exactly the declared type.
   Proved for the model of designator_to_asg / scalar_type_to_type, all widths (any n < 2^128):
   base type and const-ness are always the written ones; the recorded width or register length
   is the written one or the declaration is diagnosed; a width >= 2^32 is diagnosed and replaced
   by zero (never by n mod 2^32: fixed in /repo).  Known finding: an identifier of non-const
   type used as designator is neither evaluated nor diagnosed.
   PARTIAL: gate/subroutine arities and the gate listing are checked on the implementation by the
   semw/semg families only. *)
From Coq Require Import NArith List Bool.
From OQ3 Require Import Model.Types Model.Declared Proofs.DeclaredP.
Import ListNotations.
Open Scope N_scope.

Theorem C09_width_exact_or_diagnosed_outside_known : forall k d c,
  takes_width k = true \/ d = DNone -> k_nonconst_designator d = false ->
  let '(t, e) := declared_type k d c in
  e <> NoDiag \/ (written_width d = Some (type_width k t)).
Proof. exact declared_width_exact. Qed.

Theorem C09_base_and_const_exact : forall k d c,
  let t := fst (declared_type k d c) in
  (match k with KQubit => True | _ => is_const t = c end) /\
  (match k, t with
   | KAngle, Angle _ _ | KBool, Bool _ | KComplex, Complex _ _ | KDuration, Duration _
   | KFloat, Float _ _ | KInt, Int _ _ | KStretch, Stretch _ | KUInt, UInt _ _
   | KBit, (Bit _ | BitArray (D1 _) _) | KQubit, (Qubit | QubitArray (D1 _)) => True
   | _, _ => False end).
Proof. exact declared_base_const. Qed.

Theorem C09_width_overflow_diagnosed : forall n, two32 <= n ->
  designator_width (DLitInt n) = (Some 0, InvalidDesignatorError) /\
  designator_width (DConstCastInt n) = (Some 0, InvalidDesignatorError).
Proof. exact width_overflow_diagnosed. Qed.

Lemma C09_finding_nonconst_designator_refuted :
  exists d, k_nonconst_designator d = true /\ written_width d = None /\
            snd (designator_width d) = NoDiag.
Proof. exists DNonConst. vm_compute. auto. Qed.

Example C09_nonvacuous :
  declared_type KInt (DLitInt 4294967295) true = (Int (Some 4294967295) true, NoDiag) /\
  declared_type KBit (DConstCastInt 12) false = (BitArray (D1 12) false, NoDiag).
Proof. vm_compute. auto. Qed.

Print Assumptions C09_width_exact_or_diagnosed_outside_known.
Print Assumptions C09_base_and_const_exact.
Print Assumptions C09_width_overflow_diagnosed.
Print Assumptions C09_finding_nonconst_designator_refuted.
