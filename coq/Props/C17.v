(* Property C17: analysis is invariant under layout and renaming, one-pass and deterministic.
   Proved on the models (all inputs, no bound):
   - layout: the parser's input -- hence its events and the tree up to trivia -- depends only on
     the sequence of non-trivia tokens (kind and text) and on which neighbours have trivia between
     them: two token streams with the same skeleton (every maximal run of whitespace/comment
     tokens collapsed to one marker) give the same parser input (shortcuts.rs:to_input);
   - renaming: for every injective renaming of names that leaves the built-in names alone, the
     symbol table answers every history with the same ids, found/missing/duplicate outcomes and
     types, the names being renamed; ids are allocated in binding order independent of names;
   - one pass: the responses of the symbol table to a history are a prefix of its responses to
     any extension of it; the graph of a program is a prefix of the graph of the program with
     statements appended;
   - determinism holds by construction (the models are functions).
   PARTIAL: that the analyser as a whole (expression typing, const values, annotations ...) has
   these four properties is checked on the implementation by the `meta` family: re-layouts,
   token-level renamings, every prefix at a statement boundary and repeated runs of generated
   programs (valid and with faults) must give equal graphs, symbol tables (up to the renaming)
   and diagnostic kinds in order. *)
From Coq Require Import NArith List Bool.
From OQ3 Require Import gen.Kinds Model.Types Model.Lexer Model.Lexed Model.SymTab Model.Graph Proofs.MetaP.
Import ListNotations.
Open Scope N_scope.

Theorem C17_parser_input_ignores_trivia : forall ks1 ts1 ks2 ts2,
  skel ks1 ts1 true = skel ks2 ts2 true ->
  to_input_loop ks1 ts1 false [] = to_input_loop ks2 ts2 false [].
Proof. exact layout_irrelevant. Qed.

Theorem C17_symbol_table_invariant_under_renaming : forall rho h,
  (forall a b, rho a = rho b -> a = b) ->
  (forall n, In n (name_U :: builtin_names) -> rho n = n) ->
  snd (run init (map (ren_op rho) h)) = map (ren_out rho) (snd (run init h)).
Proof. exact renaming_invariant_model. Qed.

Theorem C17_symbol_table_one_pass : forall h1 h2,
  ~ In OPanic (snd (srun sinit h1)) ->
  snd (srun sinit (h1 ++ h2)) = snd (srun sinit h1) ++ snd (srun (fst (srun sinit h1)) h2).
Proof. exact symbol_table_prefix. Qed.

Theorem C17_graph_one_pass : forall a b, exists rest, translate (a ++ b) = translate a ++ rest.
Proof. exact graph_prefix. Qed.

(* non-vacuity: "a /* c */ +  b" and "a + b" have the same skeleton, "a+b" a different one;
   renaming a->b, b->a swaps which name is found, the ids stay *)
Example C17_nonvacuous :
  let ws := K_WHITESPACE in let cm := K_COMMENT in let id := K_IDENT in let pl := K_PLUS in
  skel [id; ws; cm; ws; pl; ws; ws; id] [[]; []; []; []; []; []; []; []] true =
  skel [id; ws; pl; ws; id] [[]; []; []; []; []] true /\
  skel [id; pl; id] [[]; []; []] true <> skel [id; ws; pl; ws; id] [[]; []; []; []; []] true /\
  snd (run init [Bind 1 Qubit; Lookup 1; Lookup 2]) = [OBound 7; OFound 7 1 Qubit; OMissing].
Proof. vm_compute. repeat split; auto. discriminate. Qed.

Print Assumptions C17_parser_input_ignores_trivia.
Print Assumptions C17_symbol_table_invariant_under_renaming.
Print Assumptions C17_symbol_table_one_pass.
Print Assumptions C17_graph_one_pass.
