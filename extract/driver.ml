(* Correspondence driver: reads "<family>\t<input...>\t<impl result>[\t<oracle>]" lines produced by
   the Rust harness, evaluates the extracted Coq model on the same input, and prints
     MISMATCH / ORACLE / KNOWN / SAMPLE / SUMMARY lines.
   Hand-written glue (trusted): parsing and printing only. *)
open BinNums

module L = Stdlib.List
module String = Stdlib.String   (* Coq's String module is extracted too (Model/Accept.v) *)
module Char = Stdlib.Char
module Buffer = Stdlib.Buffer
module H = Stdlib.Hashtbl

(* ---------- numbers ---------- *)
let rec pos_of_int (i : int) : positive =
  if i = 1 then Coq_xH
  else if i land 1 = 0 then Coq_xO (pos_of_int (i lsr 1))
  else Coq_xI (pos_of_int (i lsr 1))
let n_of_int (i : int) : coq_N = if i = 0 then N0 else Npos (pos_of_int i)
let rec int_of_pos (p : positive) : int =
  match p with Coq_xH -> 1 | Coq_xO q -> 2 * int_of_pos q | Coq_xI q -> 2 * int_of_pos q + 1
let int_of_n (n : coq_N) : int = match n with N0 -> 0 | Npos p -> int_of_pos p
let n10 = n_of_int 10
(* decimal strings of any size *)
let n_of_string (s : string) : coq_N =
  let r = ref N0 in
  String.iter (fun c -> r := BinNat.N.add (BinNat.N.mul !r n10) (n_of_int (Char.code c - 48))) s;
  !r
let string_of_n (n : coq_N) : string =
  let rec go n acc =
    match n with
    | N0 -> acc
    | _ ->
      let q = BinNat.N.div n n10 and r = BinNat.N.modulo n n10 in
      go q (string_of_int (int_of_n r) ^ acc)
  in
  match n with N0 -> "0" | _ -> go n ""

let split_on c s = String.split_on_char c s
let words s = L.filter (fun x -> x <> "") (split_on ' ' s)

(* ---------- output / counters ---------- *)
let cases = ref 0
let mismatches = ref 0
let oracle_fails = ref 0
let known = ref 0
let nontrivial = ref 0
let samples_left = ref 5
let fidelity = ref 0
let skipped = ref 0
let dedupe = ref true
let seen : (int, unit) H.t = H.create 100000
let max_report = 50

let report kind fields =
  print_string kind;
  L.iter (fun f -> print_char '\t'; print_string f) fields;
  print_newline ()

let mismatch fam input impl model =
  incr mismatches;
  if !mismatches <= max_report then report "MISMATCH" [fam; input; "impl=" ^ impl; "model=" ^ model]
let oracle_fail fam input what =
  incr oracle_fails;
  if !oracle_fails <= max_report then report "ORACLE" [fam; input; what]
let known_hit fam key input =
  incr known;
  if !known <= 20 then report "KNOWN" [fam; key; input]
let sample fam input impl =
  if !samples_left > 0 then (decr samples_left; report "SAMPLE" [fam; input; impl])
let count_case input is_nontrivial =
  incr cases;
  if is_nontrivial then begin
    if !dedupe then begin
      let h = H.hash input in
      (* two different inputs with equal hash are counted once: conservative *)
      if not (H.mem seen h) then (H.add seen h (); incr nontrivial)
    end else incr nontrivial
  end

(* ---------- family: types ---------- *)
open Types

let enc_w = function None -> "n" | Some w -> string_of_n w
let enc_c c = if c then "1" else "0"
let enc_d = function
  | D1 a -> "D1 " ^ string_of_n a
  | D2 (a, b) -> "D2 " ^ string_of_n a ^ " " ^ string_of_n b
  | D3 (a, b, c) -> "D3 " ^ string_of_n a ^ " " ^ string_of_n b ^ " " ^ string_of_n c
let rec enc_ty (t : coq_Ty) : string =
  match t with
  | Bit c -> "Bit " ^ enc_c c
  | Qubit -> "Qubit" | HardwareQubit -> "HardwareQubit"
  | Int (w, c) -> "Int " ^ enc_w w ^ " " ^ enc_c c
  | UInt (w, c) -> "UInt " ^ enc_w w ^ " " ^ enc_c c
  | Float (w, c) -> "Float " ^ enc_w w ^ " " ^ enc_c c
  | Angle (w, c) -> "Angle " ^ enc_w w ^ " " ^ enc_c c
  | Complex (w, c) -> "Complex " ^ enc_w w ^ " " ^ enc_c c
  | Bool c -> "Bool " ^ enc_c c
  | Duration c -> "Duration " ^ enc_c c
  | Stretch c -> "Stretch " ^ enc_c c
  | BitArray (d, c) -> "BitArray " ^ enc_d d ^ " " ^ enc_c c
  | QubitArray d -> "QubitArray " ^ enc_d d
  | IntArray d -> "IntArray " ^ enc_d d
  | UIntArray d -> "UIntArray " ^ enc_d d
  | FloatArray d -> "FloatArray " ^ enc_d d
  | AngleArray d -> "AngleArray " ^ enc_d d
  | ComplexArray d -> "ComplexArray " ^ enc_d d
  | BoolArray d -> "BoolArray " ^ enc_d d
  | DurationArray d -> "DurationArray " ^ enc_d d
  | Gate (a, b) -> "Gate " ^ string_of_n a ^ " " ^ string_of_n b
  | SubroutineDef (n, r) -> "SubroutineDef " ^ string_of_n n ^ " " ^ enc_ty r
  | Range -> "Range" | Set_ -> "Set" | Void -> "Void" | ToDo -> "ToDo" | Undefined -> "Undefined"

exception Parse of string
let parse_w = function "n" -> None | s -> Some (n_of_string s)
let parse_c = function "1" -> true | "0" -> false | s -> raise (Parse ("const flag " ^ s))
let parse_d toks =
  match toks with
  | "D1" :: a :: r -> (D1 (n_of_string a), r)
  | "D2" :: a :: b :: r -> (D2 (n_of_string a, n_of_string b), r)
  | "D3" :: a :: b :: c :: r -> (D3 (n_of_string a, n_of_string b, n_of_string c), r)
  | _ -> raise (Parse "dims")
let rec parse_ty (toks : string list) : coq_Ty * string list =
  match toks with
  | "Bit" :: c :: r -> (Bit (parse_c c), r)
  | "Qubit" :: r -> (Qubit, r)
  | "HardwareQubit" :: r -> (HardwareQubit, r)
  | "Int" :: w :: c :: r -> (Int (parse_w w, parse_c c), r)
  | "UInt" :: w :: c :: r -> (UInt (parse_w w, parse_c c), r)
  | "Float" :: w :: c :: r -> (Float (parse_w w, parse_c c), r)
  | "Angle" :: w :: c :: r -> (Angle (parse_w w, parse_c c), r)
  | "Complex" :: w :: c :: r -> (Complex (parse_w w, parse_c c), r)
  | "Bool" :: c :: r -> (Bool (parse_c c), r)
  | "Duration" :: c :: r -> (Duration (parse_c c), r)
  | "Stretch" :: c :: r -> (Stretch (parse_c c), r)
  | "BitArray" :: r -> let (d, r) = parse_d r in
    (match r with c :: r -> (BitArray (d, parse_c c), r) | _ -> raise (Parse "BitArray"))
  | "QubitArray" :: r -> let (d, r) = parse_d r in (QubitArray d, r)
  | "IntArray" :: r -> let (d, r) = parse_d r in (IntArray d, r)
  | "UIntArray" :: r -> let (d, r) = parse_d r in (UIntArray d, r)
  | "FloatArray" :: r -> let (d, r) = parse_d r in (FloatArray d, r)
  | "AngleArray" :: r -> let (d, r) = parse_d r in (AngleArray d, r)
  | "ComplexArray" :: r -> let (d, r) = parse_d r in (ComplexArray d, r)
  | "BoolArray" :: r -> let (d, r) = parse_d r in (BoolArray d, r)
  | "DurationArray" :: r -> let (d, r) = parse_d r in (DurationArray d, r)
  | "Gate" :: a :: b :: r -> (Gate (n_of_string a, n_of_string b), r)
  | "SubroutineDef" :: n :: r -> let (t, r) = parse_ty r in (SubroutineDef (n_of_string n, t), r)
  | "Range" :: r -> (Range, r)
  | "Set" :: r -> (Set_, r)
  | "Void" :: r -> (Void, r)
  | "ToDo" :: r -> (ToDo, r)
  | "Undefined" :: r -> (Undefined, r)
  | t :: _ -> raise (Parse ("type " ^ t))
  | [] -> raise (Parse "empty type")
let ty_of_string s = fst (parse_ty (words s))

let base_name = function
  | BBit -> "Bit" | BQubit -> "Qubit" | BHardwareQubit -> "HardwareQubit" | BInt -> "Int"
  | BUInt -> "UInt" | BFloat -> "Float" | BAngle -> "Angle" | BComplex -> "Complex"
  | BBool -> "Bool" | BDuration -> "Duration" | BStretch -> "Stretch" | BBitArray -> "BitArray"
  | BQubitArray -> "QubitArray" | BIntArray -> "IntArray" | BUIntArray -> "UIntArray"
  | BFloatArray -> "FloatArray" | BAngleArray -> "AngleArray" | BComplexArray -> "ComplexArray"
  | BBoolArray -> "BoolArray" | BDurationArray -> "DurationArray" | BGate -> "Gate"
  | BSubroutineDef -> "SubroutineDef" | BRange -> "Range" | BSet -> "Set" | BVoid -> "Void"
  | BToDo -> "ToDo" | BUndefined -> "Undefined"
let b01 b = if b then "1" else "0"

let model_unary t =
  let dims = match ty_dims t with
    | None -> "n"
    | Some v -> "[" ^ String.concat "," (L.map string_of_n v) ^ "]" in
  Printf.sprintf "base=%s;scalar=%s;width=%s;const=%s;quantum=%s;ndims=%s;dims=%s"
    (base_name (base_type t)) (b01 (is_scalar t)) (enc_w (width t)) (b01 (is_const t))
    (b01 (is_quantum t)) (string_of_n (ty_num_dims t)) dims

let ops = [ (OAdd, "Add"); (OSub, "Sub"); (OMul, "Mul"); (ODiv, "Div"); (OMod, "Mod"); (ORem, "Rem");
            (OShl, "Shl"); (OShr, "Shr"); (OBitXOr, "BitXOr"); (OBitOr, "BitOr"); (OBitAnd, "BitAnd") ]
let model_binary a b =
  let s = Printf.sprintf "promote=%s;pne=%s;ccl=%s;ebt=%s;eutc=%s;shape=%s;edims=%s"
      (enc_ty (promote_types a b)) (enc_ty (promote_types_not_equal a b))
      (b01 (can_cast_literal a b)) (b01 (equal_base_type a b)) (b01 (equal_up_to_constness a b))
      (b01 (equal_up_to_shape a b)) (b01 (equal_up_to_dims a b)) in
  s ^ String.concat "" (L.map (fun (op, nm) -> ";" ^ nm ^ "=" ^ enc_ty (implicit_cast_type op a b)) ops)

(* impl results kept for the C20 oracle (needs promote(b,a) and promote(a,a)) *)
let promo : (string * string, string * bool) H.t = H.create 40000
let field key s =
  let fs = split_on ';' s in
  let k = key ^ "=" in
  let kl = String.length k in
  match L.find_opt (fun f -> String.length f >= kl && String.sub f 0 kl = k) fs with
  | Some f -> String.sub f kl (String.length f - kl)
  | None -> raise (Parse ("field " ^ key))

let law_name = function
  | 1 -> "symmetric-up-to-const" | 2 -> "idempotent" | 3 -> "upper-bound" | 4 -> "const-only-if-both"
  | 5 -> "void-iff-no-bound" | 6 -> "literal-castability-superset" | 7 -> "literal-cast-never-downward"
  | _ -> "?"
let known_key = function
  | 101 -> "C20.k_const_eq" | 102 -> "C20.k_const_cross" | 103 -> "C20.k_complex" | 104 -> "C20.k_sign"
  | _ -> "?"

let types_finish () =
  H.iter (fun (sa, sb) (sp, ccl) ->
      let a = ty_of_string sa and b = ty_of_string sb and p = ty_of_string sp in
      match H.find_opt promo (sb, sa), H.find_opt promo (sa, sa) with
      | Some (sq, _), Some (spaa, _) ->
        let q = ty_of_string sq and paa = ty_of_string spaa in
        let bad = TypesSpec.c20_laws a b p q paa ccl in
        L.iter (fun l -> oracle_fail "ty2" (sa ^ " | " ^ sb)
                   (Printf.sprintf "law %s violated: promote(a,b)=%s promote(b,a)=%s can_cast_literal=%b"
                      (law_name (int_of_n l)) sp sq ccl)) bad;
        L.iter (fun k -> known_hit "ty2" (known_key (int_of_n k)) (sa ^ " | " ^ sb ^ " => " ^ sp))
          (TypesSpec.c20_known_hits a b p)
      | _ -> ()) promo

let handle_types fam fields =
  match fam, fields with
  | "ty1", [st; impl] ->
    let t = ty_of_string st in
    count_case st true; sample fam st impl;
    let m = model_unary t in
    if m <> impl then mismatch fam st impl m
  | "ty2", [sa; sb; impl] ->
    let a = ty_of_string sa and b = ty_of_string sb in
    let input = sa ^ " | " ^ sb in
    count_case input (sa <> sb); sample fam input impl;
    let m = model_binary a b in
    if m <> impl then mismatch fam input impl m;
    H.replace promo (sa, sb) (field "promote" impl, field "ccl" impl = "1")
  | "ty3", [sa; sb; sc; impl] ->
    let a = ty_of_string sa and b = ty_of_string sb and c = ty_of_string sc in
    let input = sa ^ " | " ^ sb ^ " | " ^ sc in
    count_case input true;
    let m = Printf.sprintf "l=%s;r=%s" (enc_ty (promote_types (promote_types a b) c))
        (enc_ty (promote_types a (promote_types b c))) in
    if m <> impl then mismatch fam input impl m
  | _ -> raise (Parse ("bad " ^ fam ^ " line"))

(* ---------- family: symtab ---------- *)
open SymTab

let sym_ty = function
  | 0 -> Int (None, false) | 1 -> Qubit | 2 -> Float (Some (n_of_int 64), true)
  | 3 -> Gate (n_of_int 1, n_of_int 1) | _ -> raise (Parse "type index")
let parse_op (s : string) : op =
  let r = String.sub s 1 (String.length s - 1) in
  let two r = match split_on ':' r with
    | [n; t] -> (n_of_int (int_of_string n), sym_ty (int_of_string t)) | _ -> raise (Parse "op") in
  match s.[0] with
  | 'e' -> Enter (match int_of_string r with 0 -> Local | 1 -> Subroutine | 2 -> Calibration | _ -> Global)
  | 'x' -> Exit
  | 'b' -> let (n, t) = two r in Bind (n, t)
  | 'l' -> Lookup (n_of_int (int_of_string r))
  | 'n' -> let (n, t) = two r in LookupOrNew (n, t)
  | _ -> raise (Parse "op")
let enc_ty_ t = String.map (fun c -> if c = ' ' then '_' else c) (enc_ty t)
let out_str = function
  | OOk -> "ok" | OPanic -> "P" | OBound i -> "B" ^ string_of_n i | OAlready -> "A"
  | OFound (i, n, t) -> "F" ^ string_of_n i ^ ":" ^ string_of_n n ^ ":" ^ enc_ty_ t
  | OMissing -> "M"
let handle_symtab fields =
  match fields with
  | [hist; impl; orc] ->
    let ops = L.map parse_op (words hist) in
    let nontriv = L.exists (function Bind _ | LookupOrNew _ -> true | _ -> false) ops
                  && L.exists (function Lookup _ | Exit -> true | _ -> false) ops in
    count_case hist nontriv; sample "symtab" hist impl;
    let (s, outs) = run init ops in
    let panicked = L.exists (fun o -> o = OPanic) outs in
    let fin = if panicked then "" else
        Printf.sprintf "depth=%d;n=%d;all=%s" (L.length s.scopes) (L.length s.all)
          (String.concat "," (L.map (fun (n, t) -> string_of_n n ^ ":" ^ enc_ty_ t) s.all)) in
    let m = String.concat " " (L.map out_str outs) ^ "|" ^ fin in
    if m <> impl then mismatch "symtab" hist impl m;
    if orc <> "ok" then oracle_fail "symtab" hist orc
  | _ -> raise (Parse "bad symtab line")


(* ---------- family: lex ---------- *)
open Lexer

let parse_chars (s : string) : ch list =
  L.map (fun t -> match split_on '.' t with
      | [c; b] -> let b = int_of_string b in
        { cp = n_of_int (int_of_string c); xs = b land 1 <> 0; xc = b land 2 <> 0; em = b land 4 <> 0 }
      | _ -> raise (Parse "char")) (words s)
let base_num = function Binary -> "2" | Octal -> "8" | Decimal -> "10" | Hexadecimal -> "16"
let tk_str (k : coq_TokenKind) : string =
  match k with
  | LineComment -> "LC" | BlockComment t -> "BC" ^ b01 t | Whitespace -> "WS" | Ident -> "ID"
  | HardwareIdent -> "HW" | InvalidIdent -> "INV"
  | OpenQasmVersionStmt (ma, mi) -> "VER" ^ b01 ma ^ b01 mi
  | Pragma -> "PRAGMA" | Dim -> "DIM" | Annotation -> "ANN"
  | Literal (lk, ss) ->
    let k = match lk with
      | LInt (b, e) -> "I" ^ base_num b ^ "." ^ b01 e
      | LFloat (b, e) -> "F" ^ base_num b ^ "." ^ b01 e
      | LByte t -> "Y" ^ b01 t
      | LStr t -> "S" ^ b01 t
      | LBitStr (t, c) -> "B" ^ b01 t ^ b01 c in
    "L" ^ k ^ "/" ^ string_of_n ss
  | Semi -> "Semi" | Comma -> "Comma" | Dot -> "Dot" | OpenParen -> "OpenParen"
  | CloseParen -> "CloseParen" | OpenBrace -> "OpenBrace" | CloseBrace -> "CloseBrace"
  | OpenBracket -> "OpenBracket" | CloseBracket -> "CloseBracket" | At -> "At" | Pound -> "Pound"
  | Tilde -> "Tilde" | Question -> "Question" | Colon -> "Colon" | Dollar -> "Dollar" | Eq -> "Eq"
  | Bang -> "Bang" | Lt -> "Lt" | Gt -> "Gt" | Minus -> "Minus" | And -> "And" | Or -> "Or"
  | Plus -> "Plus" | Star -> "Star" | Slash -> "Slash" | Caret -> "Caret" | Percent -> "Percent"
  | Unknown -> "Unknown"
let join_n l = String.concat "," (L.map string_of_n l)
let model_lex (cs : ch list) : string =
  let ts = tokenize cs in
  let lx = Lexed.lexed_of cs in
  let kinds = match L.rev lx.Lexed.lkinds with _ :: r -> L.rev r | [] -> [] in  (* without EOF *)
  Printf.sprintf "toks=%s;kinds=%s;starts=%s;errs=%s"
    (String.concat "," (L.map (fun t -> tk_str t.tkind ^ ":" ^ string_of_n (tlen t)) ts))
    (join_n kinds) (join_n lx.Lexed.lstarts) (join_n lx.Lexed.lerrors)
let handle_lex fields =
  match fields with
  | [txt; impl; orc] ->
    let cs = parse_chars txt in
    count_case txt (L.length cs >= 2); sample "lex" txt impl;
    let m = model_lex cs in
    if m <> impl then begin
      mismatch "lex" txt impl m;
      (* the model flags exactly the malformed lexemes (C11 lemmas): a byte range it flags and the
         implementation does not diagnose is a missed diagnostic on this input *)
      let starts s = L.map int_of_string (L.filter (fun x -> x <> "") (split_on ',' (field "starts" s))) in
      let errs s = L.map int_of_string (L.filter (fun x -> x <> "") (split_on ',' (field "errs" s))) in
      (try
         let ms = starts m and is_ = starts impl in
         let range st i = (L.nth st i, L.nth st (i + 1)) in
         let impl_ranges = L.map (range is_) (errs impl) in
         L.iter (fun i ->
             let (a, b) = range ms i in
             if not (L.exists (fun (c, d) -> c < b && a < d) impl_ranges) then
               oracle_fail "lex" txt (Printf.sprintf "FAIL C11: the malformed lexeme at bytes %d..%d is not diagnosed" a b)) (errs m)
       with _ -> ())
    end;
    if orc <> "ok" then begin
      if String.length orc > 11 && String.sub orc 0 11 = "FAIL KNOWN " then
        (match split_on ' ' orc with _ :: _ :: key :: _ -> known_hit "lex" key txt | _ -> ())
      else oracle_fail "lex" txt orc
    end
  | _ -> raise (Parse "bad lex line")


(* ---------- family: pk (token-level parser) ---------- *)
let nat_of_int (i : int) : Datatypes.nat =
  let rec go i acc = if i = 0 then acc else go (i - 1) (Datatypes.S acc) in go i Datatypes.O
let rec int_of_nat (n : Datatypes.nat) : int =
  match n with Datatypes.O -> 0 | Datatypes.S m -> 1 + int_of_nat m
let int_of_nat n = let rec go n acc = match n with Datatypes.O -> acc | Datatypes.S m -> go m (acc + 1) in go n 0

let site_str (w : Parser.site) : string =
  match w with
  | Parser.SBumpAssert -> "bump-assert" | Parser.SNthAssert -> "nth-assert"
  | Parser.SGrammarAssert n -> "grammar-assert-" ^ string_of_n n
  | Parser.SMarker n -> "marker-" ^ string_of_n n | Parser.SDropBomb -> "dropbomb"
  | Parser.SProcess -> "process-unreachable" | Parser.SUnreachable n -> "unreachable-" ^ string_of_n n
let steps_str (l : Parser.step list) : string =
  String.concat " " (L.map (function
      | Parser.StEnter k -> "E" ^ string_of_n k
      | Parser.StExit -> "X"
      | Parser.StToken (k, n) -> "T" ^ string_of_n k ^ ":" ^ string_of_int (int_of_nat n)
      | Parser.StError -> "!") l)
let strip_errors (s : string) : string =
  String.concat " " (L.filter (fun t -> t <> "!") (words s))
let parse_toks (s : string) : (coq_N * bool) list =
  L.map (fun t -> match split_on '.' t with
      | [k; j] -> (n_of_int (int_of_string k), j = "1")
      | _ -> raise (Parse "token")) (words s)
let model_pk inp : string =
  match Grammar.run_parser inp with
  | Grammar.Steps l -> steps_str l
  | Grammar.Panicked w -> "PANIC " ^ site_str w
  | Grammar.Hang -> "HANG"
let is_prefix p s = String.length s >= String.length p && String.sub s 0 (String.length p) = p
let handle_pk fields =
  match fields with
  | [toks; impl; orc] ->
    let inp = parse_toks toks in
    count_case toks (L.length inp >= 2); sample "pk" toks impl;
    let m = model_pk inp in
    (* outcome class and skeleton (enter/exit/token) decide; error placement is fidelity *)
    let cls s = if is_prefix "PANIC" s then "PANIC" else if s = "HANG" then "HANG" else strip_errors s in
    if cls m <> cls impl then mismatch "pk" toks impl m
    else if m <> impl && not (is_prefix "PANIC" m) then begin
      (* same skeleton, different error placement: has-any-error must still agree (C04/C12) *)
      let has_err s = L.mem "!" (words s) in
      if has_err m <> has_err impl then mismatch "pk" toks impl m
      else (incr fidelity; if !fidelity <= 5 then report "FIDELITY" ["pk"; toks; "impl=" ^ impl; "model=" ^ m])
    end;
    if orc <> "ok" then oracle_fail "pk" toks orc
  | _ -> raise (Parse "bad pk line")


(* ---------- family: tree (text-level pipeline) ---------- *)
let rec sexp (t : Builder.tree) : string =
  match t with
  | Builder.Leaf (k, x) -> string_of_n k ^ ":" ^ string_of_n (Lexer.blen x)
  | Builder.Node (k, c) -> "(" ^ String.concat " " (string_of_n k :: L.map sexp c) ^ ")"
let ranges_str l = String.concat "," (L.map (fun (a, b) -> string_of_n a ^ "-" ^ string_of_n b) l)
let drop_field key s =
  String.concat ";" (L.filter (fun f -> not (is_prefix (key ^ "=") f)) (split_on ';' s))
let model_tree (cs : Lexer.ch list) : string =
  let cl = match Builder.parse_check_lex cs with Builder.POk _ -> "1" | _ -> "0" in
  match Builder.parse_source cs with
  | Builder.POk r ->
    Printf.sprintf "T=%s;PE=%s;LE=%s;VT=%s;CL=%s" (sexp r.Builder.pr_tree)
      (join_n r.Builder.pr_parse_errors) (ranges_str r.Builder.pr_lex_errors)
      (ranges_str r.Builder.pr_timing_errors) cl
  | Builder.PNoTree _ -> "NOTREE"
  | Builder.PPanic (st, w) -> "PANIC stage " ^ string_of_n st ^ " site " ^ string_of_n w
  | Builder.PHang -> "HANG"
let handle_tree fields =
  match fields with
  | [txt; impl; orc] ->
    let cs = parse_chars txt in
    count_case txt (L.length cs >= 3); sample "tree" txt impl;
    let m = model_tree cs in
    let impl' = if is_prefix "PANIC" impl then "PANIC" else drop_field "VE" impl in
    let m' = if is_prefix "PANIC" m then "PANIC" else m in
    if m' <> impl' then mismatch "tree" txt impl m;
    if orc <> "ok" then oracle_fail "tree" txt orc
  | _ -> raise (Parse "bad tree line")


(* ---------- family: semt (declaration / assignment type rules, C08) ---------- *)
let lit_of_string = function
  | "none" -> TypeRules.NotLiteral | "int+" -> TypeRules.LitInt true | "int-" -> TypeRules.LitInt false
  | "other" -> TypeRules.LitOther | s -> raise (Parse ("lit " ^ s))
let c08_key = function 201 -> "C08.decl_const_narrow" | 202 -> "C08.decl_literal_width"
                     | 203 -> "C08.assign_int_literal" | _ -> "?"
let handle_semt fields =
  match fields with
  | [form; st; sv; slit; impl; orc] ->
    let input = form ^ " | " ^ st ^ " | " ^ sv ^ " | " ^ slit in
    count_case input true; sample "semt" input impl;
    if is_prefix "PANIC" impl then (if orc <> "ok" then oracle_fail "semt" input orc)
    else if is_prefix "arith:" form then begin
      (* operands of an arithmetic expression against TypeRules.arith_cast *)
      let op = match String.sub form 6 (String.length form - 6) with
        | "+" -> Types.OAdd | "-" -> Types.OSub | "*" -> Types.OMul | "/" -> Types.ODiv
        | o -> raise (Parse ("arith op " ^ o)) in
      let tl = ty_of_string st and tr = ty_of_string sv in
      let ((t, cl), cr) = TypeRules.arith_cast op tl tr in
      let m = Printf.sprintf "ty=%s;lc=%s;rc=%s" (enc_ty t) (b01 cl) (b01 cr) in
      if m <> impl then begin
        mismatch "semt" input impl m;
        oracle_fail "semt" input ("FAIL C08: arithmetic operands [" ^ impl ^ "] are not cast exactly when they differ from the common type [" ^ m ^ "]")
      end;
      if orc <> "ok" then oracle_fail "semt" input orc
    end
    else begin
      let t = ty_of_string st and v = ty_of_string sv and lit = lit_of_string slit in
      let cast = field "cast" impl = "1" and diag = field "diag" impl = "1" in
      (* literal typing (C08): an integer literal is const int[128]; every literal is const *)
      (match lit with
       | TypeRules.LitInt _ -> if sv <> "Int 128 1" then oracle_fail "semt" input ("FAIL C08: integer literal typed " ^ sv)
       | TypeRules.LitOther -> if not (Types.is_const v) then oracle_fail "semt" input ("FAIL C08: literal not typed const: " ^ sv)
       | TypeRules.NotLiteral -> ());
      let r = if form = "decl" then TypeRules.decl_check t v lit else TypeRules.assign_check t v lit in
      let m = Printf.sprintf "cast=%s;diag=%s" (b01 r.TypeRules.cr_cast) (b01 r.TypeRules.cr_diag) in
      let i = Printf.sprintf "cast=%s;diag=%s" (b01 cast) (b01 diag) in
      if m <> i then mismatch "semt" input i m;
      let laws = if form = "decl" then TypeRulesSpec.c08_decl_laws t v lit cast diag
        else TypeRulesSpec.c08_assign_laws t v lit cast diag in
      L.iter (fun l -> oracle_fail "semt" input
                 (Printf.sprintf "FAIL C08: %s: cast=%b diag=%b"
                    (if int_of_n l = 1 then "neither a diagnostic nor a value of the target type (up to const)"
                     else "downward conversion accepted without a diagnostic") cast diag)) laws;
      let kn = if form = "decl" then TypeRulesSpec.c08_decl_known t v lit cast diag
        else TypeRulesSpec.c08_assign_known t v lit cast diag in
      L.iter (fun k -> known_hit "semt" (c08_key (int_of_n k)) input) kn;
      if orc <> "ok" then oracle_fail "semt" input orc
    end
  | _ -> raise (Parse "bad semt line")


(* ---------- family: semw (declared types, C09) ---------- *)
let skind_of_string = function
  | "angle" -> Declared.KAngle | "bit" -> Declared.KBit | "bool" -> Declared.KBool | "complex" -> Declared.KComplex
  | "duration" -> Declared.KDuration | "float" -> Declared.KFloat | "int" -> Declared.KInt
  | "stretch" -> Declared.KStretch | "uint" -> Declared.KUInt | "qubit" -> Declared.KQubit
  | s -> raise (Parse ("kind " ^ s))
let desig_of_string s =
  match split_on ':' s with
  | ["none"] -> Declared.DNone | ["lit"; n] -> Declared.DLitInt (n_of_string n) | ["litother"] -> Declared.DLitOther
  | ["constcast"; n] -> Declared.DConstCastInt (n_of_string n) | ["constother"] -> Declared.DConstOther
  | ["nonconst"] -> Declared.DNonConst | _ -> raise (Parse ("designator " ^ s))
let ddiag_str = function
  | Declared.NoDiag -> "None" | Declared.ConstIntegerError -> "ConstIntegerError"
  | Declared.InvalidDesignatorError -> "InvalidDesignatorError"
let handle_semw fields =
  match fields with
  | ["sig"; input; orc] ->
    (* signatures and the gate listing: decided on the implementation by the harness *)
    count_case input true;
    if orc <> "ok" then oracle_fail "semw" input orc
  | [kind; form; c; impl; orc] ->
    let input = kind ^ " | " ^ form ^ " | " ^ c in
    count_case input (form <> "none"); sample "semw" input impl;
    if is_prefix "PANIC" impl then (if orc <> "ok" then oracle_fail "semw" input orc)
    else begin
      let k = skind_of_string kind and d = desig_of_string form and cc = (c = "1") in
      let (t, e) = Declared.declared_type k d cc in
      let m = "type=" ^ enc_ty t ^ ";diag=" ^ ddiag_str e in
      if m <> impl then mismatch "semw" input impl m;
      (* C09 on the implementation: recorded width = written width, or diagnosed *)
      let ity = ty_of_string (field "type" impl) and idiag = field "diag" impl in
      (match Declared.written_width d with
       | Some w ->
         if idiag = "None" && Declared.type_width k ity <> w then
           oracle_fail "semw" input ("FAIL C09: recorded type " ^ field "type" impl ^ " does not carry the written width and nothing is diagnosed")
       | None ->
         if idiag = "None" then begin
           (* the listed finding is "no width recorded, nothing diagnosed"; a number invented for a
              non-constant designator is something else *)
           if Declared.k_nonconst_designator d && Declared.type_width k ity = None then known_hit "semw" "C09.nonconst_designator" input
           else if Declared.k_nonconst_designator d then
             oracle_fail "semw" input ("FAIL C09: a designator that is not a constant gives the recorded type " ^ field "type" impl ^ " a width, and nothing is diagnosed")
           else oracle_fail "semw" input "FAIL C09: a designator that is not a constant integer is not diagnosed"
         end);
      if orc <> "ok" then oracle_fail "semw" input orc
    end
  | _ -> raise (Parse "bad semw line")


(* ---------- family: lit (literal values, C10) ---------- *)
let relay_oracle fam input orc =
  if orc <> "ok" then begin
    if is_prefix "KNOWN " orc then
      (match split_on ' ' orc with _ :: key :: _ -> known_hit fam key input | _ -> ())
    else if is_prefix "SKIP" orc then incr skipped
    else oracle_fail fam input orc
  end
let codes s = L.map (fun t -> n_of_int (int_of_string t)) (words s)
let handle_lit fields =
  match fields with
  | [cls; txt; expected; impl; orc] ->
    let input = cls ^ " | " ^ txt in
    count_case input true; sample "lit" input impl;
    (match cls with
     | "int" | "intx" ->
       let m = match Literals.int_value (codes txt) with Some v -> string_of_n v | None -> "none" in
       let a = field "ast" impl in
       if m <> a then begin
         mismatch "lit" input ("ast=" ^ a) ("ast=" ^ m);
         (* the model is the reference reading of the literal *)
         oracle_fail "lit" input ("FAIL C10: the integer literal is read as " ^ a ^ " instead of " ^ m)
       end
     | "bits" ->
       let body = Literals.between_quotes (codes txt) in
       (match body with
        | Some b ->
          let m = Printf.sprintf "str=%s;ty=BitArray D1 %s 1" (String.concat " " (L.map string_of_n b)) (string_of_n (Literals.bit_width b)) in
          if m <> impl then begin
            mismatch "lit" input impl m;
            oracle_fail "lit" input ("FAIL C10: the bit string is recorded as [" ^ impl ^ "] instead of its bits verbatim with their count as width [" ^ m ^ "]")
          end;
          if string_of_n (Literals.bit_width b) <> expected then oracle_fail "lit" input "FAIL C10: model width differs from the number of bits generated"
        | None -> mismatch "lit" input impl "none")
     | _ -> ());
    relay_oracle "lit" input orc
  | _ -> raise (Parse "bad lit line")


(* ---------- family: use (usage rules, C13) ---------- *)
let usym_of_string s =
  match split_on ':' s with
  | ["g"; a; b] -> Usage.YGate (n_of_string a, n_of_string b)
  | ["d"] -> Usage.YDef N0 | ["q"] -> Usage.YQubit | ["a"] -> Usage.YQubitArr
  | ["c0"] -> Usage.YClassical false | ["c1"] -> Usage.YClassical true | ["u"] -> Usage.YUndef
  | _ -> raise (Parse ("usage symbol " ^ s))
let uoperand_of_string s =
  let sym c = match c with
    | 'q' -> Usage.YQubit | 'a' -> Usage.YQubitArr | 'c' -> Usage.YClassical false | 'k' -> Usage.YClassical true
    | 'u' -> Usage.YUndef | 'g' -> Usage.YGate (N0, n_of_int 1) | 'd' -> Usage.YDef N0
    | 'h' -> Usage.YHwQubit
    | _ -> raise (Parse ("operand " ^ s)) in
  if s = "hw" then Usage.OHw
  else if String.length s = 2 && s.[0] = 'i' then Usage.OIdent (sym s.[1])
  else if String.length s = 2 && s.[0] = 'x' then Usage.OIndexed (sym s.[1])
  else raise (Parse ("operand " ^ s))
let uops s = if s = "-" then [] else L.map uoperand_of_string (split_on ',' s)
let uscope = function "G" -> Usage.ScGlobal | "L" -> Usage.ScLocal | "S" -> Usage.ScSubroutine | s -> raise (Parse ("scope " ^ s))
let usite_of_string s =
  match words s with
  | ["gc"; callee; np; ops] -> Usage.SGateCall (usym_of_string callee, n_of_string np, uops ops)
  | ["me"; o] -> Usage.SMeasure (uoperand_of_string o)
  | ["re"; o] -> Usage.SReset (uoperand_of_string o)
  | ["ba"; ops] -> Usage.SBarrier (uops ops)
  | ["bo"; l; r] -> Usage.SBinOp (l = "1", r = "1")
  | ["dc"; e; n] -> Usage.SDefCall (n_of_string e, n_of_string n)
  | ["as"; t] -> Usage.SAssign (usym_of_string t, true)
  | ["as"; t; "x"] -> Usage.SAssign (usym_of_string t, false)
  | ["qd"; sc] -> Usage.SQubitDecl (uscope sc)
  | ["gd"; sc] -> Usage.SGateDef (uscope sc)
  | ["dd"; sc] -> Usage.SDefDef (uscope sc)
  | ["rt"; sc] -> Usage.SReturn (uscope sc)
  | ["dl"; d] -> Usage.SDelay (d = "1")
  | _ -> raise (Parse ("site " ^ s))
let udiag_name d =
  match int_of_n (Usage.diag_code d) with
  | 0 -> "NumGateParamsError" | 1 -> "NumGateQubitsError" | 2 -> "NumDefParamsError" | 3 -> "IncompatibleTypesError"
  | 4 -> "MutateConstError" | 5 -> "NotInGlobalScopeError" | 6 -> "ReturnInGlobalScopeError" | 7 -> "UndefGateError"
  | _ -> "UndefVarError"
let handle_use fields =
  match fields with
  | [input; impl; orc] ->
    let sites = L.map usite_of_string (split_on ';' input) in
    let model = L.concat_map Usage.site_diags sites in
    count_case input (model <> [] || L.length sites > 1); sample "use" input impl;
    if impl = "PANIC" || impl = "SYNTAX" then relay_oracle "use" input orc
    else begin
      let m = String.concat "," (L.map udiag_name model) in
      if is_prefix "SKIP" orc then incr skipped
      else begin
        if m <> impl then begin
          mismatch "use" (input ^ " ;; " ^ orc) impl m;
          (* the model's list is exactly the rules broken (theorem C13): the implementation's list is wrong on this input *)
          oracle_fail "use" (input ^ " ;; " ^ orc) ("FAIL C13: usage diagnostics [" ^ impl ^ "] but the rules broken at these sites are [" ^ m ^ "]")
        end;
        if is_prefix "FAIL" orc then oracle_fail "use" input orc
      end
    end
  | _ -> raise (Parse "bad use line")


(* ---------- family: scope (lexical scoping, C07) ---------- *)
(* items: d<n> h<n> u<n> g<n> [ ( ]  -> item tree + flat tag list in event order *)
let parse_items (toks : string list) : Scoping.item list * (char * coq_N) list =
  let tags = ref [] in
  let rec go toks acc =
    match toks with
    | [] -> (L.rev acc, [])
    | "]" :: r -> (L.rev acc, r)
    | ("[" | "(") as b :: r ->
      let (body, r') = go r [] in
      go r' (Scoping.IScope (b = "(", body) :: acc)
    | t :: r ->
      let c = t.[0] and n = n_of_string (String.sub t 1 (String.length t - 1)) in
      tags := (c, n) :: !tags;
      (match c with
       | 'd' | 'h' -> go r (Scoping.IDecl (n, Types.Void) :: acc)
       | 'u' | 'g' | 't' -> go r (Scoping.IUse n :: acc)
       | _ -> raise (Parse ("item " ^ t)))
  in
  let (its, rest) = go toks [] in
  if rest <> [] then raise (Parse "unbalanced items");
  (its, L.rev !tags)
let handle_scope fields =
  match fields with
  | [items; impl; orc] ->
    let (its, tags) = parse_items (words items) in
    let input = items in
    count_case input (L.length tags > 3); sample "scope" input impl;
    if impl = "PANIC" || impl = "SYNTAX" then relay_oracle "scope" input orc
    else begin
      (* the model of SymbolTable run on the compiled operations ... *)
      let outs = snd (SymTab.run SymTab.init (Scoping.compile_all its)) in
      let evs = Scoping.evs outs in
      (* ... must equal the lexical reference (theorem `lexical`; re-checked here as a sanity test) *)
      if evs <> Scoping.lres_prog its then mismatch "scope" input "model-run" "lexical-reference";
      if L.length evs <> L.length tags then raise (Parse "event count");
      let ev_s = Buffer.create 64 and dg_s = Buffer.create 16 in
      let add b x = if Buffer.length b > 0 then Buffer.add_char b ' '; Buffer.add_string b x in
      L.iter2 (fun e (c, n) ->
          (* 'h': a declaration, 't': a use (identifier inside a type) that the graph does not store *)
          let vis = c <> 'h' && c <> 't' in
          (match e with
           | Scoping.EBound i -> if vis then add ev_s ("B" ^ string_of_n i)
           | Scoping.EDup -> if vis then add ev_s "D"; add dg_s ("X" ^ string_of_n n)
           | Scoping.ERes i -> if vis then add ev_s ("R" ^ string_of_n i)
           | Scoping.EUnres -> if vis then add ev_s "U"; add dg_s (if c = 'g' then "G" else "V")))
        evs tags;
      let m = Buffer.contents ev_s ^ "|" ^ Buffer.contents dg_s in
      if m <> impl then begin
        mismatch "scope" (input ^ " ;; " ^ orc) impl m;
        (* the model's events are those of lexical scoping (theorem C07) *)
        oracle_fail "scope" (input ^ " ;; " ^ orc) ("FAIL C07: resolution events/diagnostics [" ^ impl ^ "] differ from lexical scoping [" ^ m ^ "]")
      end;
      if int_of_n (Scoping.open_scopes (Scoping.compile_all its)) <> 1 then mismatch "scope" input "-" "model leaves scopes open";
      if is_prefix "FAIL" orc then oracle_fail "scope" input orc
    end
  | _ -> raise (Parse "bad scope line")


(* ---------- family: shape (AST mirrors the derivation, C05) ---------- *)
let bop_of_int k = L.nth Shape.all_bops k
let uop_of_int k = L.nth Shape.all_uops k
let rec parse_mexpr (toks : string list) : Shape.mexpr * string list =
  match toks with
  | [] -> raise (Parse "mexpr: empty")
  | t :: r ->
    let arg () = int_of_string (String.sub t 1 (String.length t - 1)) in
    (match t.[0] with
     | 'i' -> (Shape.XId (n_of_int (arg ())), r)
     | 'n' -> (Shape.XInt (n_of_int (arg ())), r)
     | 'b' -> let (l, r1) = parse_mexpr r in let (rr, r2) = parse_mexpr r1 in (Shape.XBin (bop_of_int (arg ()), l, rr), r2)
     | 'u' -> let (e, r1) = parse_mexpr r in (Shape.XUn (uop_of_int (arg ()), e), r1)
     | 'x' -> let (b, r1) = parse_mexpr r in let (i, r2) = parse_mexpr r1 in (Shape.XIndex (b, i), r2)
     | 'c' ->
       (match r with
        | f :: r0 ->
          let (a, r1) = parse_mexpr r0 in
          if t = "c1" then (Shape.XCall (n_of_string f, a, None), r1)
          else let (b, r2) = parse_mexpr r1 in (Shape.XCall (n_of_string f, a, Some b), r2)
        | [] -> raise (Parse "mexpr: call"))
     | 't' -> let (e, r1) = parse_mexpr r in (Shape.XCast e, r1)
     | 'p' -> let (e, r1) = parse_mexpr r in (Shape.XParen e, r1)
     | _ -> raise (Parse ("mexpr token " ^ t)))
let string_of_codes l = String.concat "" (L.map (fun n -> String.make 1 (Char.chr (int_of_n n))) l)
let handle_shape fields =
  match fields with
  | ["E"; enc; text; impl; orc] ->
    let toks = words enc in
    let (e, rest) = parse_mexpr toks in
    if rest <> [] then raise (Parse "mexpr: trailing tokens");
    let input = text in
    count_case input (L.length toks > 1); sample "shape" input impl;
    if impl = "PANIC" then oracle_fail "shape" input orc
    else begin
      (* the text must be the one the Coq printer produces: exactly the parentheses the table requires *)
      let is_init = is_prefix "int x = " text in
      let c = if is_init then Shape.CInit else Shape.CStmt in
      let mtext = string_of_codes (Shape.ctx_text c e) in
      if mtext <> text then mismatch "shape" input ("text=" ^ text) ("text=" ^ mtext);
      (* the typed AST read through the accessors is the derivation (source parentheses dropped) *)
      let expected = String.concat " " (L.filter (fun t -> t <> "p") toks) in
      if expected <> impl then begin
        incr oracle_fails;
        if !oracle_fails <= max_report then
          report "ORACLE" ["shape"; input; "FAIL C05: typed AST shape " ^ impl ^ " differs from the derivation " ^ expected]
      end;
      (* and the pipeline model builds the expected tree for it *)
      if not (Shape.shape_ok_in c e) then mismatch "shape" input "-" "model tree differs from the expected shape";
      if is_prefix "FAIL" orc then oracle_fail "shape" input orc
    end
  | ["L"; enc; text; impl; orc] ->
    (* a re-layout (other trivia between the same tokens) of an E case: implementation only *)
    let toks = words enc in
    count_case text (L.length toks > 1);
    if impl = "PANIC" then oracle_fail "shape" text orc
    else begin
      let expected = String.concat " " (L.filter (fun t -> t <> "p") toks) in
      if expected <> impl then
        oracle_fail "shape" text ("FAIL C05: typed AST shape " ^ impl ^ " of a re-layout differs from the derivation " ^ expected)
      else if is_prefix "FAIL" orc then oracle_fail "shape" text orc
    end
  | ["S"; kind; text; impl; expected] ->
    let input = kind ^ " | " ^ text in
    count_case input true; sample "shape" input impl;
    if impl <> expected then begin
      incr oracle_fails;
      if !oracle_fails <= max_report then
        report "ORACLE" ["shape"; input; "FAIL C05: roles " ^ impl ^ " expected " ^ expected]
    end
  | _ -> raise (Parse "bad shape line")


(* ---------- family: graph (structure of the semantic graph, C06) ---------- *)
let label_table : (string, int) H.t = H.create 1000
let label_names : (int, string) H.t = H.create 1000
let () =
  L.iter (fun (w, k) -> H.replace label_table w k; H.replace label_names k w)
    [ ("ann", 1); ("version", 2); ("incstd", 3); ("incfile", 4); ("if", 5); ("while", 6); ("for", 7); ("switch", 8);
      ("gatedef", 9); ("def", 10); ("block", 11); ("single", 12); ("leaf", 13); ("case", 14); ("empty", 15);
      ("oannotated", 50); ("oif", 51); ("owhile", 52); ("ofor", 53); ("oswitch", 54); ("ogatedef", 55); ("odef", 56);
      ("oblock", 57); ("osome", 58); ("onone", 59); ("ostmts", 60); ("ocase", 61); ("oleaf", 62); ("oanns", 63); ("obad", 99) ]
let next_label = ref 1000
let intern w =
  match H.find_opt label_table w with
  | Some k -> k
  | None -> let k = !next_label in incr next_label; H.replace label_table w k; H.replace label_names k w; k
(* tokens of an s-expression *)
let sexp_tokens (s : string) : string list =
  let out = ref [] and buf = Buffer.create 16 in
  let flush () = if Buffer.length buf > 0 then (out := Buffer.contents buf :: !out; Buffer.clear buf) in
  String.iter (fun c ->
      match c with
      | '(' | ')' -> flush (); out := String.make 1 c :: !out
      | ' ' -> flush ()
      | c -> Buffer.add_char buf c) s;
  flush (); L.rev !out
let rec parse_gn (toks : string list) : Graph.gn * string list =
  match toks with
  | "(" :: w :: r ->
    let rec kids r acc =
      match r with
      | ")" :: r' -> (L.rev acc, r')
      | [] -> raise (Parse "sexp: unbalanced")
      | _ -> let (k, r') = parse_gn r in kids r' (k :: acc) in
    let (ks, r') = kids r [] in
    (Graph.GN (n_of_int (intern w), ks), r')
  | "(" :: [] | ")" :: _ | [] -> raise (Parse "sexp: malformed")
  | w :: r -> (Graph.GN (n_of_int (intern w), []), r)
let rec show_gn (g : Graph.gn) : string =
  match g with
  | Graph.GN (l, ks) ->
    let w = match H.find_opt label_names (int_of_n l) with Some w -> w | None -> string_of_n l in
    if ks = [] then w else "(" ^ String.concat " " (w :: L.map show_gn ks) ^ ")"
let gn_of_string s =
  let (g, rest) = parse_gn (sexp_tokens s) in
  if rest <> [] then raise (Parse "sexp: trailing tokens");
  g
let rec first_diff (a : Graph.gn list) (b : Graph.gn list) : string =
  match a, b with
  | [], [] -> "-"
  | x :: a', y :: b' -> if x = y then first_diff a' b' else "impl " ^ show_gn x ^ " <> model " ^ show_gn y
  | x :: _, [] -> "impl has extra " ^ show_gn x
  | [], y :: _ -> "model has extra " ^ show_gn y
let handle_graph fields =
  match fields with
  | [src; impl; orc] ->
    let input = src in
    if impl = "PANIC" || impl = "SYNTAX" then (count_case input true; relay_oracle "graph" input orc)
    else begin
      let s = gn_of_string src and o = gn_of_string impl in
      let (Graph.GN (_, stmts)) = s and (Graph.GN (_, outs)) = o in
      count_case input (L.length stmts > 1); sample "graph" input impl;
      let m = Graph.translate stmts in
      if m <> outs then begin
        mismatch "graph" (first_diff outs m ^ " ;; " ^ orc) "-" "-";
        (* the model's graph is the structure-preserving translation of the program (theorems C06) *)
        oracle_fail "graph" (first_diff outs m ^ " ;; " ^ orc) "FAIL C06: the graph differs from the structure-preserving translation of the program"
      end;
      (* property: outside the known class the theorems of C06 apply to the model's output *)
      let known_ann = Graph.k_annotation_in_block stmts in
      if is_prefix "KNOWN C06.annotation_inside_block" orc <> known_ann then
        oracle_fail "graph" input "FAIL C06: harness and model disagree on whether an annotation sits inside a block";
      if known_ann then known_hit "graph" "C06.annotation_inside_block" input
      else if is_prefix "FAIL" orc then oracle_fail "graph" input orc
    end
  | _ -> raise (Parse "bad graph line")


let asg_op_name = function
  | 0 -> "Or" | 1 -> "And" | 2 -> "BitOr" | 3 -> "BitXOr" | 4 -> "BitAnd" | 5 -> "Eq" | 6 -> "Neq" | 7 -> "Lt" | 8 -> "Le"
  | 9 -> "Gt" | 10 -> "Ge" | 11 -> "Shl" | 12 -> "Shr" | 13 -> "Add" | 14 -> "Sub" | 15 -> "Mul" | 16 -> "Div" | 17 -> "Rem"
  | 18 -> "PowerOp" | 19 -> "ConcatenationOp" | _ -> "?"
let handle_graphop fields =
  match fields with
  | [code; impl; orc] ->
    let input = "operator " ^ code in
    count_case (input ^ orc) true;
    if impl = "PANIC" || impl = "SYNTAX" then relay_oracle "graph" input orc
    else begin
      let c = int_of_string code in
      let m = int_of_n (Graph.asg_binop (n_of_int c)) in
      if asg_op_name m <> impl then mismatch "graph" input impl (asg_op_name m);
      (* property: the operator keeps its meaning *)
      if m <> c then known_hit "graph" "C06.power_stored_as_concatenation" input
    end
  | _ -> raise (Parse "bad graphop line")


(* ---------- family: accept (C04 acceptance, C16 compositionality) ---------- *)
let rec nat_of_int (i : int) : Datatypes.nat = if i = 0 then Datatypes.O else Datatypes.S (nat_of_int (i - 1))
let c04_key i =
  let eq a = (nat_of_int i = a) in
  if eq Templates.coq_T_assign_binary then "C04.assign_binary_rhs"
  else if eq Templates.coq_T_gphase_ctrl then "C04.ctrl_gphase_operands"
  else if eq Templates.coq_T_measure_arrow then "C04.measure_arrow"
  else if eq Templates.coq_T_for_expr_stmt then "C04.for_expr_iterable_stmt_body"
  else "C04.gate_def_empty_parens"
let handle_accept fields =
  match fields with
  | ["T"; i; c; n] ->
    let input = "template " ^ i ^ " in context " ^ c in
    count_case input true;
    let ii = int_of_string i and cc = int_of_string c in
    let m = Accept.accepted_in (nat_of_int cc) (nat_of_int ii) in
    if is_prefix "PANIC" n then oracle_fail "accept" input ("FAIL C01: parser panicked: " ^ n)
    else begin
      let impl_ok = (n = "0") in
      if impl_ok <> m then mismatch "accept" input ("diagnostics=" ^ n) (if m then "accepted" else "rejected");
      if not impl_ok then begin
        if Accept.k_c04_rejected (nat_of_int ii) then known_hit "accept" (c04_key ii) input
        else if Accept.k_ctx_empty (nat_of_int cc) (nat_of_int ii) then known_hit "accept" "C16.empty_stmt_after_item" input
        else if Accept.k_box_top (nat_of_int cc) (nat_of_int ii) then known_hit "accept" "C04.box_statement_needs_semicolon" input
        else oracle_fail "accept" input ("FAIL C04: " ^ n ^ " syntax diagnostics on a statement of the reference grammar")
      end
    end
  | ["C"; i; j; t; b] ->
    let input = "templates " ^ i ^ " then " ^ j in
    count_case input true;
    if is_prefix "PANIC" t then oracle_fail "accept" input ("FAIL C01: parser panicked: " ^ t)
    else if t = "-" then ()
    else begin
      let ni = nat_of_int (int_of_string i) and nj = nat_of_int (int_of_string j) in
      let mt = Accept.composes_top ni nj and mb = Accept.composes_block ni nj in
      if (t = "1") <> mt || (b = "1") <> mb then
        mismatch "accept" input ("top=" ^ t ^ " block=" ^ b) (Printf.sprintf "top=%b block=%b" mt mb);
      if (t <> "1" && mt) || (b <> "1" && mb) then
        (* the implementation fails to compose a pair the model composes: outside every listed class *)
        oracle_fail "accept" input "FAIL C16: the concatenation does not parse to the statements of its parts (the model of the pinned grammar composes this pair)"
      else if t <> "1" || b <> "1" then begin
        if Accept.is_let ni || Accept.is_let nj then known_hit "accept" "C16.let_context" input
        else if b = "1" && Accept.k_empty_after_item ni nj then known_hit "accept" "C16.empty_stmt_after_item" input
        else if Accept.ends_with_assignment ni && Accept.starts_with_operator nj then known_hit "accept" "C16.assignment_glues_operator" input
        else if t = "1" && Accept.is_anon_block nj then known_hit "accept" "C16.trailing_anon_block" input
        else oracle_fail "accept" input "FAIL C16: the concatenation does not parse to the statements of its parts"
      end
    end
  | ["P"; n; orc] | ["R"; n; orc] ->
    count_case orc true;
    ignore n;
    if is_prefix "FAIL" orc then oracle_fail "accept" "generated" orc
    else if is_prefix "KNOWN " orc then (match split_on ' ' orc with _ :: key :: _ -> known_hit "accept" key orc | _ -> ())
    else if is_prefix "SKIP" orc then incr skipped
  | _ -> raise (Parse "bad accept line")


(* ---------- family: nopanic (C03; implementation oracle only) ---------- *)
let handle_nopanic fields =
  match fields with
  | [cls; res; orc] ->
    count_case (cls ^ orc) (res <> "SYNTAX");
    relay_oracle "nopanic" (cls ^ " " ^ res) orc
  | _ -> raise (Parse "bad nopanic line")


(* ---------- family: meta (C17; relations between runs of the implementation) ---------- *)
let handle_meta fields =
  match fields with
  | [rel; size; orc] ->
    count_case (rel ^ size ^ orc) (rel <> "base");
    relay_oracle "meta" (rel ^ " " ^ size) orc
  | _ -> raise (Parse "bad meta line")


(* ---------- family: inc (includes, C18) ---------- *)
let parse_dirs s = if s = "-" then None else Some (L.map n_of_string (split_on ',' s))
let parse_inc_items s : Include.item list =
  if s = "-" then [] else
    L.map (fun t ->
        match t.[0] with
        | 'm' -> Include.IMark (n_of_string (String.sub t 1 (String.length t - 1)))
        | 's' -> Include.IIncStd
        | 'r' -> Include.IInc (Include.PRel (n_of_string (String.sub t 1 (String.length t - 1))))
        | 'a' ->
          (match split_on ':' (String.sub t 1 (String.length t - 1)) with
           | [d; f] -> Include.IInc (Include.PAbs (n_of_string d, n_of_string f))
           | _ -> raise (Parse ("include item " ^ t)))
        | _ -> raise (Parse ("include item " ^ t))) (words s)
let handle_inc fields =
  match fields with
  | [fs; mode; contents; main; impl; orc] ->
    let input = fs ^ " | " ^ mode ^ " | " ^ contents ^ " | " ^ main in
    count_case input (main <> "-"); sample "inc" input impl;
    if fs = "-" && main = "-" then relay_oracle "inc" input orc
    else if impl = "PANIC" then relay_oracle "inc" input orc
    else begin
      let fsys = if fs = "-" then [] else
          L.map (fun p -> match split_on ':' p with [d; f] -> (n_of_string d, n_of_string f) | _ -> raise (Parse "fs")) (split_on ',' fs) in
      let (search, env) = match split_on '|' mode with
        | [s_; e_] -> (parse_dirs (String.sub s_ 2 (String.length s_ - 2)), parse_dirs (String.sub e_ 2 (String.length e_ - 2)))
        | _ -> raise (Parse "mode") in
      let table = if contents = "-" then [] else
          L.map (fun c -> match split_on '=' c with
              | [k; its] -> (match split_on ':' k with [d; f] -> ((n_of_string d, n_of_string f), parse_inc_items its) | _ -> raise (Parse "content key"))
              | _ -> raise (Parse "content")) (split_on ';' contents) in
      let content d f = match L.assoc_opt (d, f) table with Some its -> its | None -> [] in
      let evs = Include.expand fsys search env content (Accept.ids |> fun _ -> nat_of_int 10) (parse_inc_items main) in
      (* a file included twice declares its marker twice: the symbol table lists it once *)
      let rec dedup seen = function [] -> [] | x :: r -> if L.mem x seen then dedup seen r else x :: dedup (x :: seen) r in
      let marks = dedup [] (L.filter_map (function Include.EMark t -> Some ("M" ^ string_of_n t) | _ -> None) evs) in
      let unread = L.filter_map (function
          | Include.EUnreadable (Include.RFile (d, f)) -> Some ("XF" ^ string_of_n d ^ ":" ^ string_of_n f)
          | Include.EUnreadable (Include.RAsGiven f) -> Some ("XG" ^ string_of_n f)
          | _ -> None) evs in
      (* diagnostics live in one list per file: only their multiset is comparable across files *)
      let m = String.concat " " marks ^ "|" ^ String.concat " " (L.sort compare unread) in
      let impl_n = match split_on '|' impl with
        | [a; b] -> a ^ "|" ^ String.concat " " (L.sort compare (words b))
        | _ -> impl in
      if m <> impl_n then begin
        mismatch "inc" (input ^ " ;; " ^ orc) impl_n m;
        oracle_fail "inc" (input ^ " ;; " ^ orc) ("FAIL C18: included files / unreadable includes [" ^ impl_n ^ "] differ from the ordered path search [" ^ m ^ "]")
      end;
      relay_oracle "inc" input orc
    end
  | _ -> raise (Parse "bad inc line")

(* ---------- main loop ---------- *)
let () =
  Array.iter (fun a -> if a = "--nodedupe" then dedupe := false) Sys.argv;
  let fam_seen = ref "" in
  (try
     while true do
       let line = input_line stdin in
       match split_on '\t' line with
       | fam :: fields ->
         fam_seen := fam;
         (try
            (match fam with
             | "ty1" | "ty2" | "ty3" -> handle_types fam fields
             | "symtab" -> handle_symtab fields
             | "lex" -> handle_lex fields
             | "pk" -> handle_pk fields
             | "tree" -> handle_tree fields
             | "semt" -> handle_semt fields
             | "semw" -> handle_semw fields
             | "lit" -> handle_lit fields
             | "use" -> handle_use fields
             | "scope" -> handle_scope fields
             | "shape" -> handle_shape fields
             | "graph" -> handle_graph fields
             | "graphop" -> handle_graphop fields
             | "accept" -> handle_accept fields
             | "nopanic" -> handle_nopanic fields
             | "meta" -> handle_meta fields
             | "inc" -> handle_inc fields
             | _ -> raise (Parse ("unknown family " ^ fam)))
          with Parse m -> report "DRIVER-ERROR" [m; line]; incr mismatches)
       | [] -> ()
     done
   with End_of_file -> ());
  types_finish ();
  report "SUMMARY" [ "cases=" ^ string_of_int !cases; "nontrivial=" ^ string_of_int !nontrivial;
                     "mismatch=" ^ string_of_int !mismatches; "oracle=" ^ string_of_int !oracle_fails;
                     "known=" ^ string_of_int !known; "fidelity=" ^ string_of_int !fidelity; "skipped=" ^ string_of_int !skipped ]
