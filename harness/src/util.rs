use std::io::Write;

/// xorshift64* PRNG; every random choice of the harness derives from one seed.
pub struct Rng(pub u64);
impl Rng {
    pub fn new(seed: u64) -> Rng {
        Rng(seed.wrapping_mul(0x9E3779B97F4A7C15) | 1)
    }
    pub fn next(&mut self) -> u64 {
        let mut x = self.0;
        x ^= x >> 12;
        x ^= x << 25;
        x ^= x >> 27;
        self.0 = x;
        x.wrapping_mul(0x2545F4914F6CDD1D)
    }
    pub fn below(&mut self, n: u64) -> u64 {
        (self.next() >> 11) % n
    }
}

pub fn arg_val(args: &[String], key: &str) -> Option<String> {
    let mut i = 0;
    while i < args.len() {
        if args[i] == key && i + 1 < args.len() {
            return Some(args[i + 1].clone());
        }
        i += 1;
    }
    None
}

pub fn arg_u64(args: &[String], key: &str, default: u64) -> u64 {
    arg_val(args, key).map(|s| s.parse().expect("numeric argument")).unwrap_or(default)
}

pub fn out() -> std::io::BufWriter<std::io::StdoutLock<'static>> {
    std::io::BufWriter::with_capacity(1 << 20, std::io::stdout().lock())
}

/// For families that call printing routines of the implementation: the harness output goes to a duplicate
/// of the original standard output, and file descriptor 1 is pointed at /dev/null for the rest of the run.
pub fn out_detached() -> std::io::BufWriter<std::fs::File> {
    extern "C" {
        fn dup(fd: i32) -> i32;
        fn dup2(a: i32, b: i32) -> i32;
    }
    use std::os::unix::io::{AsRawFd, FromRawFd};
    let null = std::fs::OpenOptions::new().write(true).open("/dev/null").expect("/dev/null");
    // SAFETY: plain POSIX descriptor duplication; `saved` is owned by the returned File
    let saved = unsafe { dup(1) };
    assert!(saved >= 0);
    let r = unsafe { dup2(null.as_raw_fd(), 1) };
    assert!(r >= 0);
    std::io::BufWriter::with_capacity(1 << 20, unsafe { std::fs::File::from_raw_fd(saved) })
}

pub fn finish(mut w: impl Write) {
    w.flush().unwrap();
}

/// Run `f`, turning a panic into Err(message). The default panic hook is silenced by the caller.
pub fn catch<T>(f: impl FnOnce() -> T + std::panic::UnwindSafe) -> Result<T, String> {
    // under the watchdog too (the caller may have armed it with the input; otherwise without one)
    let armed_here = WATCH.lock().map(|g| g.is_none()).unwrap_or(false);
    if armed_here {
        watch_case("(input not recorded by this family: see the reproduce command)");
    }
    let r = std::panic::catch_unwind(f);
    if armed_here {
        watch_idle();
    }
    match r {
        Ok(v) => Ok(v),
        Err(e) => {
            let msg = if let Some(s) = e.downcast_ref::<&str>() {
                s.to_string()
            } else if let Some(s) = e.downcast_ref::<String>() {
                s.clone()
            } else {
                "panic".to_string()
            };
            Err(msg.replace(['\t', '\n'], " "))
        }
    }
}

pub fn silence_panics() {
    if std::env::var("OQ3H_SHOW_PANICS").is_ok() {
        return;
    }
    std::panic::set_hook(Box::new(|_| {}));
}

// ---------------------------------------------------------------- watchdog
// A case on which the implementation does not return (endless loop, unbounded recursion turned into a loop
// by the optimiser) would stall the whole check.  Every call into the analyser is bracketed by
// `watch_case` / `watch_idle`; a background thread ends the process with exit status 97 and a line
// "HANG\t<input>" on standard error once a single case has been running for more than the limit
// (OQ3H_CASE_LIMIT seconds, default 30).  tools/check.py turns that line into a failing input.
use std::sync::Mutex;
static WATCH: Mutex<Option<(std::time::Instant, String)>> = Mutex::new(None);
static WATCH_STARTED: std::sync::Once = std::sync::Once::new();

pub fn watch_case(desc: &str) {
    WATCH_STARTED.call_once(|| {
        let limit: u64 = std::env::var("OQ3H_CASE_LIMIT").ok().and_then(|v| v.parse().ok()).unwrap_or(30);
        std::thread::spawn(move || loop {
            std::thread::sleep(std::time::Duration::from_millis(250));
            let hung = match WATCH.lock() {
                Ok(g) => g.as_ref().filter(|(t0, _)| t0.elapsed().as_secs() >= limit).map(|(_, d)| d.clone()),
                Err(_) => None,
            };
            if let Some(d) = hung {
                eprintln!("HANG\t{}\t{}", limit, d.replace('\n', "\\n").replace('\t', " "));
                std::process::exit(97);
            }
        });
    });
    if let Ok(mut g) = WATCH.lock() {
        *g = Some((std::time::Instant::now(), desc.to_string()));
    }
}
pub fn watch_idle() {
    if let Ok(mut g) = WATCH.lock() {
        *g = None;
    }
}
