// Family `use` (C13): programs made of usage sites (gate calls, operands, subroutine calls, const
// assignment, declarations outside the global scope, return, delay), each independently
// respecting or violating its rule, in every scope kind.
// Line: "use\t<site descriptors joined by ';'>\t<usage diagnostics in order, comma separated>\t<oracle>"
use crate::sema::*;
use crate::util::*;
use std::io::Write;

pub const USAGE_KINDS: &[&str] = &[
    "NumGateParamsError",
    "NumGateQubitsError",
    "NumDefParamsError",
    "IncompatibleTypesError",
    "MutateConstError",
    "NotInGlobalScopeError",
    "ReturnInGlobalScopeError",
    "UndefGateError",
    "UndefVarError",
];

const STD: &[(&str, usize, usize)] = &[
    ("x", 0, 1), ("y", 0, 1), ("z", 0, 1), ("h", 0, 1), ("s", 0, 1), ("sdg", 0, 1), ("t", 0, 1), ("tdg", 0, 1), ("sx", 0, 1), ("id", 0, 1),
    ("p", 1, 1), ("rx", 1, 1), ("ry", 1, 1), ("rz", 1, 1), ("phase", 1, 1), ("u1", 1, 1), ("u2", 2, 1), ("u3", 3, 1),
    ("cx", 0, 2), ("cy", 0, 2), ("cz", 0, 2), ("ch", 0, 2), ("swap", 0, 2), ("CX", 0, 2),
    ("cp", 1, 2), ("crx", 1, 2), ("cry", 1, 2), ("crz", 1, 2), ("cphase", 1, 2), ("cu", 4, 2), ("ccx", 0, 3), ("cswap", 0, 3), ("U", 3, 1),
];

pub fn preamble() -> String {
    let mut s = String::from("include \"stdgates.inc\";\nqubit q; qubit[4] r; int c; const int k = 1; bit[4] cb; duration du = 10ns;\nlet hq = $5; let ar = r;\n");
    for np in 0..=4usize {
        for nq in 1..=4usize {
            let ps: Vec<String> = (0..np).map(|i| format!("p{i}")).collect();
            let qs: Vec<String> = (0..nq).map(|i| format!("a{i}")).collect();
            let pl = if np == 0 { String::new() } else { format!("({})", ps.join(", ")) };
            s.push_str(&format!("gate g{np}_{nq}{pl} {} {{ }}\n", qs.join(", ")));
        }
    }
    for np in 0..=3usize {
        let ps: Vec<String> = (0..np).map(|i| format!("int x{i}")).collect();
        s.push_str(&format!("def f{np}({}) {{ }}\n", ps.join(", ")));
    }
    s
}

struct Site {
    text: String,
    desc: String,
}

fn operand(rng: &mut Rng, bad_bias: u64) -> (String, &'static str) {
    // (text, code)
    let good: &[(&str, &str)] = &[("q", "iq"), ("r", "ia"), ("r[1]", "xa"), ("$2", "hw"), ("r[0]", "xa"), ("$0", "hw"), ("hq", "ih"), ("ar", "ia"), ("ar[2]", "xa")];
    let bad: &[(&str, &str)] = &[("c", "ic"), ("k", "ik"), ("zz", "iu"), ("q[0]", "xq"), ("cb[1]", "xc"), ("zz[0]", "xu"), ("g0_1", "ig"), ("f0", "id"), ("c[0]", "xc")];
    if rng.below(100) < bad_bias {
        let (t, c) = bad[rng.below(bad.len() as u64) as usize];
        (t.to_string(), c)
    } else {
        let (t, c) = good[rng.below(good.len() as u64) as usize];
        (t.to_string(), c)
    }
}

fn gen_site(rng: &mut Rng, ctx_scope: char, n: &mut u32) -> Site {
    *n += 1;
    let id = *n;
    match rng.below(14) {
        0..=4 => {
            // gate call
            // a block-local classical variable that shadows a global gate: calling it is calling a non-gate
            if ctx_scope == 'L' && rng.below(10) == 0 {
                let (g, _, _) = STD[rng.below(STD.len() as u64) as usize];
                let (t, c) = operand(rng, 0);
                // (in a block of its own, so that later sites of the same body still see the gate)
                return Site { text: format!("if (true) {{ int {g} = 1; {g} {t}; }}"), desc: format!("gc c0 0 {c}") };
            }
            let (name, callee) = match rng.below(12) {
                0 => ("c".to_string(), "c0".to_string()),
                1 => ("nosuch".to_string(), "u".to_string()),
                2 => (format!("f{}", rng.below(4)), "d".to_string()),
                3 => ("q".to_string(), "q".to_string()),
                4 | 5 | 6 => {
                    let (g, np, nq) = STD[rng.below(STD.len() as u64) as usize];
                    (g.to_string(), format!("g:{np}:{nq}"))
                }
                _ => {
                    let np = rng.below(5);
                    let nq = 1 + rng.below(4);
                    (format!("g{np}_{nq}"), format!("g:{np}:{nq}"))
                }
            };
            let (dnp, dnq) = if let Some(r) = callee.strip_prefix("g:") {
                let mut it = r.split(':');
                (it.next().unwrap().parse::<u64>().unwrap(), it.next().unwrap().parse::<u64>().unwrap())
            } else {
                (rng.below(3), 1 + rng.below(2))
            };
            // respect or violate each arity independently
            let np = if rng.below(3) == 0 { rng.below(6) } else { dnp };
            // inv / pow modifiers do not change the arity rule
            let m = match rng.below(6) {
                0 => "inv @ ",
                1 => "pow(2) @ ",
                2 => "inv @ pow(3) @ ",
                _ => "",
            };
            // (behind a modifier a gate call parses even without any operand)
            let nq = if rng.below(3) == 0 { if m.is_empty() { 1 + rng.below(5) } else { rng.below(6) } } else { dnq };
            let bias = if rng.below(4) == 0 { 40 } else { 0 };
            let ops: Vec<(String, &str)> = (0..nq).map(|_| operand(rng, bias)).collect();
            let params: Vec<String> = (0..np).map(|i| if rng.below(2) == 0 { format!("{}.5", i) } else { format!("{}", i + 1) }).collect();
            let pl = if np == 0 { String::new() } else { format!("({})", params.join(", ")) };
            Site {
                text: format!("{m}{name}{pl} {};", ops.iter().map(|o| o.0.clone()).collect::<Vec<_>>().join(", ")),
                desc: format!("gc {callee} {np} {}", if ops.is_empty() { "-".to_string() } else { ops.iter().map(|o| o.1).collect::<Vec<_>>().join(",") }),
            }
        }
        5 => {
            let (t, c) = operand(rng, 35);
            if rng.below(2) == 0 || !matches!(c, "iq" | "hw") {
                Site { text: format!("measure {t};"), desc: format!("me {c}") }
            } else {
                Site { text: format!("bit mb{id} = measure {t};"), desc: format!("me {c}") }
            }
        }
        6 => {
            let (t, c) = operand(rng, 35);
            Site { text: format!("reset {t};"), desc: format!("re {c}") }
        }
        7 => {
            let k = 1 + rng.below(3);
            let ops: Vec<(String, &str)> = (0..k).map(|_| operand(rng, 25)).collect();
            Site { text: format!("barrier {};", ops.iter().map(|o| o.0.clone()).collect::<Vec<_>>().join(", ")), desc: format!("ba {}", ops.iter().map(|o| o.1).collect::<Vec<_>>().join(",")) }
        }
        8 => {
            let opnd: &[(&str, u8)] = &[("c", 0), ("q", 1), ("r", 1), ("$1", 1), ("3", 0), ("k", 0), ("1.5", 0)];
            let (l, lq) = opnd[rng.below(opnd.len() as u64) as usize];
            let (r, rq) = opnd[rng.below(opnd.len() as u64) as usize];
            let op = ["+", "-", "*", "/", "&", "|", "^", "<<", ">>", "%"][rng.below(10) as usize];
            Site { text: format!("({l} {op} {r});"), desc: format!("bo {lq} {rq}") }
        }
        9 => {
            let e = rng.below(4);
            let s = if rng.below(2) == 0 { e } else { rng.below(5) };
            let args: Vec<String> = (0..s).map(|i| format!("{}", i + 1)).collect();
            Site { text: format!("f{e}({});", args.join(", ")), desc: format!("dc {e} {s}") }
        }
        10 => {
            let (t, c) = [("c", "c0"), ("k", "c1"), ("zz", "u"), ("q", "q"), ("r", "a"), ("g1_1", "g:1:1"), ("f1", "d")][rng.below(7) as usize];
            // the value: an integer (fits every target here that has a type), or a float (does not fit the
            // int targets `c` and `k`; the other targets are undefined or not assignable anyway)
            if (t == "c" || t == "k") && rng.below(3) == 0 {
                Site { text: format!("{t} = {};", ["2.5", "1.0e1", "du"][rng.below(3) as usize]), desc: format!("as {c} x") }
            } else {
                Site { text: format!("{t} = 1;"), desc: format!("as {c}") }
            }
        }
        11 => match rng.below(3) {
            0 => Site { text: if rng.below(2) == 0 { format!("qubit nq{id};") } else { format!("qubit[3] nq{id};") }, desc: format!("qd {ctx_scope}") },
            1 => Site { text: format!("gate ng{id}(th) b0, b1 {{ }}"), desc: format!("gd {ctx_scope}") },
            _ => Site { text: format!("def nd{id}(int y) -> int {{ return y; }}"), desc: format!("dd {ctx_scope}") },
        },
        12 => Site { text: if rng.below(2) == 0 { "return;".into() } else { "return 1;".into() }, desc: format!("rt {ctx_scope}") },
        _ => {
            let (t, d) = [("10ns", 1), ("2.5us", 1), ("du", 1), ("5", 0), ("c", 0), ("k", 0), ("3dt", 1)][rng.below(7) as usize];
            Site { text: format!("delay[{t}] q;"), desc: format!("dl {d}") }
        }
    }
}

/// wrap statements in a scope context; returns (text, scope code seen by the statements)
fn context(kind: u64, id: u32, inner: &str) -> String {
    match kind {
        0 => inner.to_string(),
        1 => format!("if (true) {{ {inner} }}"),
        2 => format!("if (true) {{ }} else {{ {inner} }}"),
        3 => format!("while (true) {{ {inner} }}"),
        4 => format!("for int i{id} in [0:1] {{ {inner} }}"),
        5 => format!("switch (c) {{ case 1 {{ {inner} }} }}"),
        6 => format!("switch (c) {{ case 2, 3 {{ }} default {{ {inner} }} }}"),
        7 => format!("gate w{id} e0 {{ {inner} }}"),
        8 => format!("def w{id}() {{ {inner} }}"),
        9 => format!("def w{id}() {{ if (true) {{ {inner} }} }}"),
        10 => format!("while (true) {{ if (true) {{ {inner} }} }}"),
        11 => format!("gate w{id}(th) e0, e1 {{ while (true) {{ {inner} }} }}"),
        // brace-less single-statement bodies (exactly one statement inside): each is a scope of its own
        12 => format!("if (true) {inner}"),
        13 => format!("if (true) ; else {inner}"),
        14 => format!("while (true) {inner}"),
        15 => format!("for int i{id} in [0:1] {inner}"),
        16 => format!("if (false) ; else if (true) ; else {inner}"),
        _ => format!("def w{id}() {{ if (true) ; else {inner} }}"),
    }
}
fn context_scope(kind: u64) -> char {
    match kind {
        0 => 'G',
        7 | 8 => 'S',
        _ => 'L',
    }
}

pub fn run(args: &[String]) {
    silence_panics();
    let mut w = out();
    let seed = arg_u64(args, "--seed", 1);
    let n = arg_u64(args, "--random", 200);
    let shard = arg_u64(args, "--shard", 0);
    let nshards = arg_u64(args, "--nshards", 1);
    let pre = preamble();
    for case in 0..n {
        if case % nshards != shard {
            continue;
        }
        let mut rng = Rng::new(seed.wrapping_mul(1_000_003).wrapping_add(case));
        let ngroups = 1 + rng.below(3);
        let mut text = pre.clone();
        let mut descs = Vec::new();
        let mut id = 0u32;
        for _ in 0..ngroups {
            let kind = if case < 18 * nshards { (case / nshards) % 18 } else { rng.below(18) };
            let sc = context_scope(kind);
            let k = if kind >= 12 { 1 } else { 1 + rng.below(3) };
            let mut inner = String::new();
            for _ in 0..k {
                let mut s = gen_site(&mut rng, sc, &mut id);
                // a brace-less body is one statement
                while kind >= 12 && (s.text.matches(';').count() != 1 || s.text.contains('{')) {
                    s = gen_site(&mut rng, sc, &mut id);
                }
                inner.push_str(&s.text);
                inner.push(' ');
                descs.push(s.desc);
            }
            id += 1;
            text.push_str(&context(kind, id, &inner));
            text.push('\n');
        }
        let o = run_sema(&text);
        let input = descs.join(";");
        let flat = text[pre.len()..].replace('\n', " ");
        if let Some(p) = &o.panic {
            writeln!(w, "use\t{input}\tPANIC\tFAIL C03: analysis panicked on an error-free program: {} ;; {flat}", &p[..p.len().min(90)]).unwrap();
            continue;
        }
        if o.any_syntax {
            writeln!(w, "use\t{input}\tSYNTAX\tSKIP generated program has syntax errors ;; {flat}").unwrap();
            continue;
        }
        let diags: Vec<&str> = o.errors.iter().map(|e| e.0.as_str()).map(|k| k.split('(').next().unwrap()).filter(|k| USAGE_KINDS.contains(k)).collect();
        let others: Vec<&str> = o.errors.iter().map(|e| e.0.as_str()).filter(|k| !USAGE_KINDS.contains(&k.split('(').next().unwrap())).collect();
        let mut oracle = "ok".to_string();
        if o.scope_depth != 1 {
            oracle = format!("FAIL C03: {} scopes open after analysis ;; {flat}", o.scope_depth);
        } else if !others.is_empty() {
            oracle = format!("SKIP unexpected other diagnostics {others:?} ;; {flat}");
        }
        writeln!(w, "use\t{input}\t{}\t{oracle} ;; {flat}", diags.join(",")).unwrap();
    }
    finish(w);
}
