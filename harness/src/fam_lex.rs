// Family `lex`: text -> oq3_lexer::tokenize and oq3_parser::LexedStr (+ to_input through the
// parser-facing API is covered by the `tree` family).
// Line: "lex\t<chars as cp.bits>\t<impl>\t<oracle>"
//   impl   = toks=<kind:len:suffix_start,...>;kinds=<u16,...>;starts=<..>;errs=<token idx,...>
//   oracle = C14 facts checked on the implementation + (for generated lexeme sequences) the
//            expected kinds/texts (C15) or the expected diagnostic location (C11).
use crate::util::*;
use oq3_lexer::{Base, LiteralKind, TokenKind};
use oq3_parser::{LexedStr, SyntaxKind};
use std::io::Write;
use unicode_properties::UnicodeEmoji;
use unicode_xid::UnicodeXID;

pub fn enc_text(text: &str) -> String {
    let mut s = String::new();
    for (i, c) in text.chars().enumerate() {
        if i > 0 {
            s.push(' ');
        }
        let bits = (c.is_xid_start() as u32) | ((c.is_xid_continue() as u32) << 1) | ((c.is_emoji_char() as u32) << 2);
        s.push_str(&format!("{}.{}", c as u32, bits));
    }
    s
}
pub fn dec_text(s: &str) -> String {
    s.split_whitespace().map(|t| char::from_u32(t.split('.').next().unwrap().parse().unwrap()).unwrap()).collect()
}

fn b(x: bool) -> u8 {
    x as u8
}
fn base_n(bs: Base) -> u8 {
    bs as u8
}
pub fn kind_str(k: &TokenKind) -> String {
    match k {
        TokenKind::LineComment => "LC".into(),
        TokenKind::BlockComment { terminated } => format!("BC{}", b(*terminated)),
        TokenKind::Whitespace => "WS".into(),
        TokenKind::Ident => "ID".into(),
        TokenKind::HardwareIdent => "HW".into(),
        TokenKind::InvalidIdent => "INV".into(),
        TokenKind::OpenQasmVersionStmt { major, minor } => format!("VER{}{}", b(*major), b(*minor)),
        TokenKind::Pragma => "PRAGMA".into(),
        TokenKind::Dim => "DIM".into(),
        TokenKind::Annotation => "ANN".into(),
        TokenKind::Literal { kind, suffix_start } => {
            let k = match kind {
                LiteralKind::Int { base, empty_int } => format!("I{}.{}", base_n(*base), b(*empty_int)),
                LiteralKind::Float { base, empty_exponent } => format!("F{}.{}", base_n(*base), b(*empty_exponent)),
                LiteralKind::Byte { terminated } => format!("Y{}", b(*terminated)),
                LiteralKind::Str { terminated } => format!("S{}", b(*terminated)),
                LiteralKind::BitStr { terminated, consecutive_underscores } => {
                    format!("B{}{}", b(*terminated), b(*consecutive_underscores))
                }
            };
            format!("L{k}/{suffix_start}")
        }
        other => format!("{other:?}"),
    }
}

pub struct LexOut {
    pub imp: String,
    pub oracle: Option<String>,
    pub kinds: Vec<SyntaxKind>,
    pub texts: Vec<String>,
    pub starts: Vec<usize>,
    pub errs: Vec<usize>,
}

/// Lex `text` with the implementation; check the C14 facts on what it returned.
pub fn lex_case(text: &str) -> LexOut {
    let mut oracle: Option<String> = None;
    let mut fail = |m: String| {
        if oracle.is_none() {
            oracle = Some(m);
        }
    };
    let r = std::panic::catch_unwind(|| {
        let toks: Vec<(TokenKind, u32)> = oq3_lexer::tokenize(text).map(|t| (t.kind, t.len)).collect();
        let lexed = LexedStr::new(text);
        let n = lexed.len();
        let kinds: Vec<SyntaxKind> = (0..n).map(|i| lexed.kind(i)).collect();
        let starts: Vec<usize> = (0..=n).map(|i| lexed.text_start(i)).collect();
        let texts: Vec<String> = (0..n).map(|i| lexed.text(i).to_string()).collect();
        let errs: Vec<usize> = lexed.errors().map(|(i, _)| i).collect();
        (toks, kinds, starts, texts, errs)
    });
    let (toks, kinds, starts, texts, errs) = match r {
        Ok(v) => v,
        Err(_) => {
            return LexOut { imp: "PANIC".into(), oracle: Some("C14/C01: lexing panicked".into()), kinds: vec![], texts: vec![], starts: vec![], errs: vec![] };
        }
    };
    // C14 facts on the implementation
    let mut off = 0usize;
    for (k, len) in &toks {
        if *len == 0 {
            fail(format!("zero-length token at byte {off}"));
        }
        off += *len as usize;
        if off > text.len() || !text.is_char_boundary(off) {
            fail(format!("token ends off a character boundary at byte {off}"));
            break;
        }
        if let TokenKind::Literal { suffix_start, .. } = k {
            if suffix_start > len {
                fail(format!("suffix_start {suffix_start} exceeds token length {len}"));
            }
        }
    }
    if off != text.len() {
        fail(format!("token lengths sum to {off}, input has {} bytes", text.len()));
    }
    for w in starts.windows(2) {
        if w[0] >= w[1] {
            fail("token table offsets are not strictly increasing".into());
        }
    }
    if *starts.last().unwrap() != text.len() {
        fail("token table does not end at the input length".into());
    }
    if texts.concat() != text {
        fail("token table slices do not spell the input".into());
    }
    let again: Vec<(TokenKind, u32)> = oq3_lexer::tokenize(text).map(|t| (t.kind, t.len)).collect();
    if again != toks {
        fail("lexing twice gave different streams".into());
    }
    let imp = format!(
        "toks={};kinds={};starts={};errs={}",
        toks.iter().map(|(k, l)| format!("{}:{}", kind_str(k), l)).collect::<Vec<_>>().join(","),
        kinds.iter().map(|k| (*k as u16).to_string()).collect::<Vec<_>>().join(","),
        starts.iter().map(|k| k.to_string()).collect::<Vec<_>>().join(","),
        errs.iter().map(|k| k.to_string()).collect::<Vec<_>>().join(","),
    );
    LexOut { imp, oracle, kinds, texts, starts, errs }
}

pub fn emit(w: &mut impl Write, text: &str, extra_oracle: Option<String>) {
    let o = lex_case(text);
    let verdict = o.oracle.or(extra_oracle).map(|m| format!("FAIL {m}")).unwrap_or("ok".into());
    writeln!(w, "lex\t{}\t{}\t{}", enc_text(text), o.imp, verdict).unwrap();
}

// ---------------------------------------------------------------- lexeme generators (C15, C11)
#[derive(Clone, Debug, PartialEq)]
pub enum Sep {
    /// may touch its neighbours when they are "safe" punctuation
    Any,
    /// runs to end of line: must be followed by a line break
    Line,
    /// version header: must be followed by whitespace or ';'
    Version,
}
#[derive(Clone, Debug)]
pub struct Lexeme {
    pub text: String,
    /// expected (SyntaxKind, text) of the non-trivia tokens this lexeme yields
    pub expect: Vec<(SyntaxKind, String)>,
    pub sep: Sep,
    pub safe_punct: bool,
}

pub const KEYWORDS: &[&str] = &[
    "barrier", "box", "cal", "const", "def", "defcal", "defcalgrammar", "delay", "extern", "gate", "gphase",
    "include", "let", "measure", "dim", "reset", "break", "case", "continue", "default", "else", "end", "for",
    "if", "in", "return", "switch", "while", "array", "creg", "input", "mutable", "output", "qreg", "qubit",
    "readonly", "void", "ctrl", "inv", "negctrl", "pow", "false", "true",
];
pub const TYPES: &[&str] = &["angle", "bit", "bool", "complex", "duration", "float", "int", "stretch", "uint"];
// '#' never lexes to a punctuation token (it starts #pragma / #dim or an invalid identifier)
pub const PUNCT: &str = "!$%&()*+,-./:;<=>?@[]^_{|}~";
const UNSAFE_PUNCT: &str = "/.@$_*";
const IDENT_START: &[char] = &['a', 'x', 'q', 'Z', '_', 'é', 'λ', '变', 'π', 'O', 'p'];
// (the last four may continue an identifier but not start one: a combining mark, the middle dot, a non-ASCII digit, a Thai vowel sign)
const IDENT_CONT: &[char] = &['a', 'b', 'z', 'Q', '0', '7', '_', 'é', '量', 'm', 's', '\u{302}', '\u{b7}', '\u{663}', '\u{e33}'];

fn kw_kind(s: &str) -> Option<SyntaxKind> {
    SyntaxKind::from_keyword(s).or(SyntaxKind::from_scalar_type(s))
}

fn gen_ident(rng: &mut Rng) -> String {
    loop {
        let mut s = String::new();
        s.push(IDENT_START[rng.below(IDENT_START.len() as u64) as usize]);
        for _ in 0..rng.below(6) {
            s.push(IDENT_CONT[rng.below(IDENT_CONT.len() as u64) as usize]);
        }
        // not a keyword / type name / lone underscore / pragma-or-version trigger
        if kw_kind(&s).is_none() && s != "_" && s != "pragma" && s != "OPENQASM" {
            return s;
        }
    }
}
fn digits(rng: &mut Rng, set: &[u8], allow_us: bool) -> String {
    let mut s = String::new();
    s.push(set[rng.below(set.len() as u64) as usize] as char);
    for _ in 0..rng.below(6) {
        if allow_us && rng.below(4) == 0 {
            s.push('_');
        }
        s.push(set[rng.below(set.len() as u64) as usize] as char);
    }
    s
}
fn gen_int(rng: &mut Rng) -> String {
    match rng.below(5) {
        0 => format!("0b{}", digits(rng, b"01", true)),
        1 => format!("0o{}", digits(rng, b"01234567", true)),
        2 => format!("0x{}", digits(rng, b"0123456789abcdefABCDEF", true)),
        3 => "0".to_string(),
        _ => digits(rng, b"0123456789", true),
    }
}
fn gen_float(rng: &mut Rng) -> String {
    let ip = digits(rng, b"0123456789", true);
    let fp = digits(rng, b"0123456789", true);
    let ex = |rng: &mut Rng| {
        let e = if rng.below(2) == 0 { "e" } else { "E" };
        let sg = ["", "+", "-"][rng.below(3) as usize];
        format!("{e}{sg}{}", digits(rng, b"0123456789", false))
    };
    match rng.below(6) {
        0 => format!("{ip}.{fp}"),
        1 => format!("{ip}."),
        2 => format!(".{fp}"),
        3 => format!("{ip}{}", ex(rng)),
        4 => format!("{ip}.{fp}{}", ex(rng)),
        _ => format!(".{fp}{}", ex(rng)),
    }
}
const UNITS: &[&str] = &["ns", "us", "µs", "ms", "s", "dt", "im"];

pub fn gen_lexeme(rng: &mut Rng) -> Lexeme {
    use SyntaxKind::*;
    let one = |text: String, k: SyntaxKind| Lexeme { expect: vec![(k, text.clone())], text, sep: Sep::Any, safe_punct: false };
    match rng.below(20) {
        0 | 1 => one(gen_ident(rng), IDENT),
        2 | 3 => {
            let s = KEYWORDS[rng.below(KEYWORDS.len() as u64) as usize];
            one(s.to_string(), kw_kind(s).unwrap())
        }
        4 => {
            let s = TYPES[rng.below(TYPES.len() as u64) as usize];
            one(s.to_string(), kw_kind(s).unwrap())
        }
        5 => one(format!("${}", digits(rng, b"0123456789", false)), HARDWAREIDENT),
        6 | 7 => one(gen_int(rng), INT_NUMBER),
        8 => one(gen_float(rng), FLOAT_NUMBER),
        9 => {
            // number + unit, with or without a separating blank
            let (num, k) = if rng.below(2) == 0 { (gen_int(rng), INT_NUMBER) } else { (gen_float(rng), FLOAT_NUMBER) };
            // a hexadecimal literal would swallow 'd' of "dt"; a float ending in '.' is fine
            let num = if num.starts_with("0x") { "17".to_string() } else { num };
            let unit = UNITS[rng.below(UNITS.len() as u64) as usize];
            let sp = if rng.below(2) == 0 { "" } else { " " };
            Lexeme { text: format!("{num}{sp}{unit}"), expect: vec![(k, num), (IDENT, unit.to_string())], sep: Sep::Any, safe_punct: false }
        }
        10 => {
            let q = if rng.below(2) == 0 { '"' } else { '\'' };
            let body = digits(rng, b"01", true);
            one(format!("{q}{body}{q}"), BIT_STRING)
        }
        11 => {
            let q = if rng.below(2) == 0 { '"' } else { '\'' };
            let pool = ["abc", "hello world", "x.inc", "a\\\\b", "2", "été", "/* no */", "// no", "a_b", "10a"];
            let mut body = pool[rng.below(pool.len() as u64) as usize].to_string();
            if rng.below(4) == 0 {
                body.push('\\');
                body.push(q);
                body.push('z');
            }
            one(format!("{q}{body}{q}"), STRING)
        }
        12 | 13 | 14 => {
            let cs: Vec<char> = PUNCT.chars().collect();
            let c = cs[rng.below(cs.len() as u64) as usize];
            let k = SyntaxKind::from_char(c).unwrap();
            Lexeme { text: c.to_string(), expect: vec![(k, c.to_string())], sep: Sep::Any, safe_punct: !UNSAFE_PUNCT.contains(c) }
        }
        15 => Lexeme {
            // (also with non-ASCII text: a comment's extent is measured in characters, its length in bytes)
            text: if rng.below(3) == 0 { format!("// θ{} → φ by π (µs) */ \"", rng.below(100)) } else { format!("// c{} */ \"", rng.below(100)) },
            expect: vec![],
            sep: Sep::Line,
            safe_punct: false,
        },
        16 => {
            let t = ["/* a */", "/* /* nested */ \" */", "/**/", "/* line\nbreak */", "/* é→ü ∀ε */"][rng.below(5) as usize];
            Lexeme { text: t.to_string(), expect: vec![], sep: Sep::Any, safe_punct: false }
        }
        17 => {
            let t = ["pragma foo bar", "#pragma x \"y", "pragma\t1"][rng.below(3) as usize].to_string();
            Lexeme { expect: vec![(PRAGMA, t.clone())], text: t, sep: Sep::Line, safe_punct: false }
        }
        18 => {
            let t = ["@bind a b", "@x", "@_k 1 // c"][rng.below(3) as usize].to_string();
            Lexeme { expect: vec![(ANNOTATION, t.clone())], text: t, sep: Sep::Line, safe_punct: false }
        }
        _ => {
            let t = ["OPENQASM 3.0", "OPENQASM 3", "OPENQASM  3.1", "OPENQASM\t10.25"][rng.below(4) as usize].to_string();
            Lexeme { expect: vec![(VERSION_STRING, t.clone())], text: t, sep: Sep::Version, safe_punct: false }
        }
    }
}

fn gen_sep(rng: &mut Rng, need_newline: bool, ws_only: bool, may_be_empty: bool) -> String {
    if may_be_empty && rng.below(2) == 0 {
        return String::new();
    }
    let mut s = String::new();
    if need_newline {
        if rng.below(3) == 0 {
            s.push('\r');
        }
        s.push('\n');
    }
    let n = if need_newline { rng.below(2) } else { 1 + rng.below(2) };
    for _ in 0..n {
        match rng.below(if ws_only { 4 } else { 6 }) {
            0 => s.push(' '),
            1 => s.push('\t'),
            2 => s.push('\n'),
            3 => s.push_str("  "),
            4 => s.push_str(if rng.below(3) == 0 { "/* ç */" } else { "/* c */" }),
            _ => s.push_str(if rng.below(3) == 0 { "// çé→\n" } else { "// c\n" }),
        }
    }
    s
}

/// Lay out a lexeme sequence with random separators; `minimal` = as few separators as the side
/// conditions allow.
pub fn layout(ls: &[Lexeme], rng: &mut Rng, minimal: bool) -> String {
    let mut s = String::new();
    for (i, l) in ls.iter().enumerate() {
        s.push_str(&l.text);
        let last = i + 1 == ls.len();
        let next_semi = !last && ls[i + 1].text == ";";
        match l.sep {
            Sep::Line => s.push_str(&gen_sep(rng, true, false, false)),
            Sep::Version => {
                if !(next_semi && (minimal || rng.below(2) == 0)) {
                    // whitespace must follow directly (a comment would invalidate the header)
                    s.push_str([" ", "\n", "\t"][rng.below(3) as usize]);
                    if !minimal {
                        s.push_str(&gen_sep(rng, false, false, true));
                    }
                }
            }
            Sep::Any => {
                if last {
                    if !minimal {
                        let sep = gen_sep(rng, false, false, true);
                        if l.text.ends_with('/') && sep.starts_with('/') {
                            s.push(' ');
                        }
                        s.push_str(&sep);
                    }
                } else {
                    let touch_ok = l.safe_punct || ls[i + 1].safe_punct;
                    let empty_ok = touch_ok && (minimal || rng.below(2) == 0);
                    if !empty_ok {
                        let sep = gen_sep(rng, false, false, false);
                        // a comment directly after '/' would fuse into a comment opener
                        if l.text.ends_with('/') && sep.starts_with('/') {
                            s.push(' ');
                        }
                        s.push_str(&sep);
                    }
                }
            }
        }
    }
    s
}

fn check_expected(o: &LexOut, ls: &[Lexeme]) -> Option<String> {
    let want: Vec<(SyntaxKind, String)> = ls.iter().flat_map(|l| l.expect.clone()).collect();
    let got: Vec<(SyntaxKind, String)> = o
        .kinds
        .iter()
        .zip(o.texts.iter())
        .filter(|(k, _)| !k.is_trivia())
        .map(|(k, t)| (*k, t.clone()))
        .collect();
    if !o.errs.is_empty() {
        return Some(format!("C15: lexical error reported on token {} of a well-formed sequence", o.errs[0]));
    }
    if want != got {
        let i = want.iter().zip(got.iter()).position(|(a, b)| a != b).unwrap_or(want.len().min(got.len()));
        if let (Some(a), Some(b)) = (want.get(i), got.get(i)) {
            if a.0 == b.0 && b.1 == format!("{}\r", a.1) {
                return Some("KNOWN C15.crlf_in_line_lexeme the carriage return of a CRLF line break is part of the pragma/annotation text".into());
            }
        }
        return Some(format!(
            "C15: non-trivia token {i}: expected {:?}, got {:?}",
            want.get(i),
            got.get(i)
        ));
    }
    None
}

// malformed lexemes (C11); `to_eof` = the lexeme swallows the rest of the input
struct Bad {
    text: &'static str,
    to_eof: bool,
    /// must be followed by this (so that it stays malformed and does not fuse differently)
    follow: &'static str,
}
const BAD: &[Bad] = &[
    Bad { text: "\"abc", to_eof: true, follow: "" },
    Bad { text: "'0101", to_eof: true, follow: "" },
    Bad { text: "\"01_1", to_eof: true, follow: "" },
    Bad { text: "/* open", to_eof: true, follow: "" },
    Bad { text: "/* /* inner */ still open", to_eof: true, follow: "" },
    Bad { text: "0b", to_eof: false, follow: " " },
    Bad { text: "0o", to_eof: false, follow: ";" },
    Bad { text: "0x", to_eof: false, follow: " " },
    Bad { text: "0b_", to_eof: false, follow: " " },
    Bad { text: "1e", to_eof: false, follow: " " },
    Bad { text: "1.5e+", to_eof: false, follow: ";" },
    Bad { text: ".5E-", to_eof: false, follow: " " },
    // an exponent marker without digits after a literal with a base prefix
    Bad { text: "0b1e", to_eof: false, follow: " " },
    Bad { text: "0o7e-", to_eof: false, follow: " " },
    Bad { text: "0x1.5e", to_eof: false, follow: ";" },
    Bad { text: "OPENQASM x", to_eof: false, follow: "" },
    Bad { text: "OPENQASM 3.", to_eof: false, follow: ";" },
    Bad { text: "OPENQASM 3.0x", to_eof: false, follow: " " },
    Bad { text: "OPENQASM ;", to_eof: false, follow: "" },
    Bad { text: "a😀b", to_eof: false, follow: " " },
    Bad { text: "😀", to_eof: false, follow: " " },
    Bad { text: "#foo", to_eof: false, follow: " " },
    Bad { text: "#", to_eof: false, follow: " " },
    Bad { text: "$😀", to_eof: false, follow: " " },
];
// fixed finding: unterminated bit string with consecutive underscores (a violation again if it returns)
const BAD_FIXED: &[&str] = &["\"0__1", "'1__"];

pub fn run(args: &[String]) {
    silence_panics();
    let mut w = out();
    if let Some(t) = arg_val(args, "--text") {
        emit(&mut w, &dec_text(&t), None);
        finish(w);
        return;
    }
    let shard = arg_u64(args, "--shard", 0);
    let nshards = arg_u64(args, "--nshards", 1);
    let seed = arg_u64(args, "--seed", 1);
    let mut rng = Rng::new(seed.wrapping_add(shard.wrapping_mul(7919)));
    // (a) bounded-exhaustive over the 14-character critical alphabet
    let alpha: Vec<char> = "pO#@\"'/*.0e_\nµ".chars().collect();
    let maxlen = arg_u64(args, "--exhaustive", 0) as u32;
    let mut count = 0u64;
    for len in 0..=maxlen {
        if len == 0 && maxlen == 0 {
            break;
        }
        let total = (alpha.len() as u64).pow(len);
        for k in 0..total {
            count += 1;
            if count % nshards != shard {
                continue;
            }
            let mut s = String::new();
            let mut x = k;
            for _ in 0..len {
                s.push(alpha[(x % alpha.len() as u64) as usize]);
                x /= alpha.len() as u64;
            }
            emit(&mut w, &s, None);
        }
    }
    // (b) random UTF-8 text from fragments and odd characters
    let frags: &[&str] = &[
        "OPENQASM", " 3", ".0", ";", "pragma", " ", "\n", "#pragma", "#dim", "#", "@", "ann", "0b", "0x", "0o", "1", "9_",
        "_", ".", "e", "E", "+", "-", "\"", "'", "\\", "/*", "*/", "//", "/", "*", "0", "1_", "__", "ns", "us", "µs", "ms",
        "s", "dt", "im", "$", "$1", "q", "π", "😀", "\u{200d}", "\u{feff}", "\0", "\u{85}", "\u{2028}", "\u{10ffff}", "é",
        "\t", "\r", "x", "ab", "(", ")", "[", "]", "{", "}", "=", "<", ">", "!", "~", "?", ":", ",", "&", "|", "^", "%", "№",
        "int", "def", "OPENQAS", "pragm", "p", "O",
    ];
    // every prefix of the multi-character look-aheads of the lexer, in a few surroundings
    if arg_u64(args, "--random", 0) > 0 && shard == 0 {
        for word in ["#dim", "#pragma x", "pragma x", "OPENQASM 3.0", "OPENQASM 3", "#pragmatic", "OPENQASMs 3"] {
            let cs: Vec<char> = word.chars().collect();
            for k in 1..=cs.len() {
                let pre: String = cs[..k].iter().collect();
                for before in ["", " ", "a", "#", "\n"] {
                    for after in ["", " ", "x", ";", "\n", "1", "=2;", "\t3.1;"] {
                        emit(&mut w, &format!("{before}{pre}{after}"), None);
                    }
                }
            }
        }
    }
    for _ in 0..arg_u64(args, "--random", 0) {
        let n = 1 + rng.below(12);
        let mut s = String::new();
        for _ in 0..n {
            s.push_str(frags[rng.below(frags.len() as u64) as usize]);
        }
        emit(&mut w, &s, None);
    }
    // (c) well-formed lexeme sequences (C15): two layouts of the same sequence
    for _ in 0..arg_u64(args, "--lexemes", 0) {
        let n = 1 + rng.below(8) as usize;
        let ls: Vec<Lexeme> = (0..n).map(|_| gen_lexeme(&mut rng)).collect();
        let t1 = layout(&ls, &mut rng, false);
        let minimal = rng.below(2) == 0;
        let t2 = layout(&ls, &mut rng, minimal);
        let o1 = lex_case(&t1);
        let o2 = lex_case(&t2);
        let mut extra = check_expected(&o1, &ls);
        if extra.is_none() {
            let nt = |o: &LexOut| -> Vec<(SyntaxKind, String)> {
                o.kinds.iter().zip(o.texts.iter()).filter(|(k, _)| !k.is_trivia()).map(|(k, t)| (*k, t.clone())).collect()
            };
            let strip = |v: Vec<(SyntaxKind, String)>| -> Vec<(SyntaxKind, String)> {
                v.into_iter().map(|(k, t)| (k, t.trim_end_matches('\r').to_string())).collect()
            };
            if nt(&o1) != nt(&o2) && strip(nt(&o1)) == strip(nt(&o2)) {
                extra = Some("KNOWN C15.crlf_in_line_lexeme the carriage return of a CRLF line break is part of the pragma/annotation text".into());
            } else if nt(&o1) != nt(&o2) {
                extra = Some(format!("C15: changing only trivia changed the non-trivia tokens; other layout: {:?}", t2));
            }
        }
        emit(&mut w, &t1, extra);
        emit(&mut w, &t2, check_expected(&o2, &ls));
    }
    // (d) malformed lexemes spliced into well-formed sequences (C11)
    for i in 0..arg_u64(args, "--malformed", 0) {
        let n = rng.below(6) as usize;
        let ls: Vec<Lexeme> = (0..n).map(|_| gen_lexeme(&mut rng)).collect();
        let cut = rng.below(n as u64 + 1) as usize;
        // formerly a known finding (fixed in /repo): unterminated bit string with consecutive underscores
        let formerly_known = i % 16 == 15;
        let (btext, to_eof, follow) = if formerly_known {
            (BAD_FIXED[rng.below(BAD_FIXED.len() as u64) as usize], true, "")
        } else {
            let b = &BAD[rng.below(BAD.len() as u64) as usize];
            (b.text, b.to_eof, b.follow)
        };
        let mut s = layout(&ls[..cut], &mut rng, false);
        if !s.is_empty() && !s.ends_with(char::is_whitespace) {
            s.push(' ');
        }
        let bad_at = s.len();
        s.push_str(btext);
        s.push_str(follow);
        if !to_eof || rng.below(2) == 0 {
            if !s.ends_with(char::is_whitespace) && !s.ends_with(';') {
                s.push(' ');
            }
            let mut tail = layout(&ls[cut..], &mut rng, false);
            if to_eof {
                // keep the lexeme unterminated: drop its terminator from what follows
                if btext.starts_with('/') {
                    tail = tail.replace("*/", "* /");
                } else {
                    let q = btext.chars().next().unwrap();
                    tail = tail.replace(q, "");
                }
            }
            s.push_str(&tail);
        }
        let o = lex_case(&s);
        // the diagnostic must sit on the token that contains the malformed lexeme's first byte
        let tok = (0..o.kinds.len()).find(|&t| o.starts[t] <= bad_at && bad_at < o.starts[t + 1]);
        let located = tok.map(|t| o.errs.contains(&t)).unwrap_or(false);
        let extra = if located {
            None
        } else {
            Some(format!("C11: no lexical diagnostic on malformed lexeme {btext:?} at byte {bad_at}"))
        };
        emit(&mut w, &s, extra);
    }
    // (e) number prefixes / exponents without digits, glued to whatever follows and precedes them (C11):
    //     the diagnostic must not depend on the neighbours
    let heads = ["0b", "0B", "0o", "0O", "0x", "0X", "0b_", "0x_", "1e", "1E", "1.5e+", ".5E-", "2.e", "0e", "1e_", "00b", "1_e", "0b1e", "0x1.5e", "0o7.e", "0B1E"];
    let tails = [".", ".5", ".e1", "e", "e3", "E-1", "E+", "_", "_1", "x", "im", "ns", "0", "1", "9", "a", "f", "g", "b1", "\"", "'", ";", " ", "..", "+1", "-1", "[", "us", "dt", "e+5", ".0im", "p", "z"];
    let fronts = ["", "", " ", "x=", "(", "-", "a", "1", "\"01\"", "//c\n", "[", "$"];
    let nadj = arg_u64(args, "--adjacent", 0);
    let mut k = 0u64;
    if nadj > 0 {
        'outer: for f in fronts {
            for h in heads {
                for t in tails {
                    for t2 in ["", ";", "5", " q"] {
                        k += 1;
                        if k > nadj {
                            break 'outer;
                        }
                        if k % nshards != shard {
                            continue;
                        }
                        emit(&mut w, &format!("{f}{h}{t}{t2}"), None);
                    }
                }
            }
        }
    }
    finish(w);
}
