// Family `accept` (C04, C16): acceptance of the reference grammar and compositionality of statements.
//  T lines: every statement template (tools/templates.txt) in every context: number of diagnostics
//  C lines: every ordered pair of templates: does the concatenation have exactly the statements of
//           the parts (kinds and texts), at top level and inside a block
//  P lines: generated programs of the reference grammar in every layout: number of diagnostics
//  R lines: random sequences of generated statements: compositionality on the implementation
use crate::gen::*;
use crate::util::*;
use oq3_syntax::ast::{self, AstNode};
use oq3_syntax::SourceFile;
use std::io::Write;

pub fn templates() -> Vec<(String, String)> {
    include_str!("../../tools/templates.txt")
        .lines()
        .filter(|l| !l.trim().is_empty())
        .map(|l| {
            let (n, t) = l.split_once('\t').unwrap();
            (n.to_string(), t.replace("\\n", "\n"))
        })
        .collect()
}

pub fn ctx_wrap(c: usize, t: &str) -> String {
    match c {
        0 => t.to_string(),
        1 => format!("y; {t}"),
        2 => format!("h q; {t}"),
        3 => format!("int z; {t}"),
        4 => format!("if (c) {{ {t} }}"),
        5 => format!("while (c) {{ {t} }}"),
        6 => format!("for int i in [0:1] {{ {t} }}"),
        7 => format!("switch (c) {{ case 1 {{ {t} }} }}"),
        8 => format!("gate gg a {{ {t} }}"),
        _ => format!("def ff() {{ {t} }}"),
    }
}

fn nerr(text: &str) -> Result<usize, String> {
    catch(|| SourceFile::parse(text).errors().len())
}

/// (kind, text) of the top-level statements, None if there are diagnostics
fn top_stmts(text: &str) -> Option<Vec<(u16, String)>> {
    let p = SourceFile::parse(text);
    if !p.errors().is_empty() {
        return None;
    }
    Some(p.tree().statements().map(|s| (s.syntax().kind() as u16, s.syntax().text().to_string())).collect())
}
/// statements of the block of `if (c) { ... }`
fn block_stmts(inner: &str) -> Option<Vec<(u16, String)>> {
    let text = format!("if (c) {{ {inner} }}");
    let p = SourceFile::parse(&text);
    if !p.errors().is_empty() {
        return None;
    }
    let st: Vec<ast::Stmt> = p.tree().statements().collect();
    if st.len() != 1 {
        return None;
    }
    match &st[0] {
        ast::Stmt::IfStmt(i) => i.then_branch_block().map(|b| b.statements().map(|s| (s.syntax().kind() as u16, s.syntax().text().to_string())).collect()),
        _ => None,
    }
}

fn compose(parts: &[String]) -> (Option<bool>, Option<bool>) {
    compose_with(parts, " ")
}
fn compose_with(parts: &[String], sep: &str) -> (Option<bool>, Option<bool>) {
    // None = a part does not parse cleanly alone
    let mut expect = Vec::new();
    for p in parts {
        match top_stmts(p) {
            Some(s) => expect.extend(s),
            None => return (None, None),
        }
    }
    let joined = format!("{}{sep}", parts.join(sep));
    let top = top_stmts(&joined).map(|s| s == expect).unwrap_or(false);
    let blk = block_stmts(&joined).map(|s| s == expect).unwrap_or(false);
    (Some(top), Some(blk))
}

pub fn run(args: &[String]) {
    silence_panics();
    let mut w = out();
    let seed = arg_u64(args, "--seed", 1);
    let shard = arg_u64(args, "--shard", 0);
    let nshards = arg_u64(args, "--nshards", 1);
    let ts = templates();
    let mut k = 0u64;
    if arg_u64(args, "--templates", 1) > 0 {
        for (i, (_, t)) in ts.iter().enumerate() {
            for c in 0..10 {
                k += 1;
                if k % nshards != shard {
                    continue;
                }
                match nerr(&ctx_wrap(c, t)) {
                    Ok(n) => writeln!(w, "accept\tT\t{i}\t{c}\t{n}").unwrap(),
                    Err(p) => writeln!(w, "accept\tT\t{i}\t{c}\tPANIC {p}").unwrap(),
                }
            }
        }
        for (i, (_, a)) in ts.iter().enumerate() {
            for (j, (_, b)) in ts.iter().enumerate() {
                k += 1;
                if k % nshards != shard {
                    continue;
                }
                let r = catch(std::panic::AssertUnwindSafe(|| compose(&[a.clone(), b.clone()])));
                match r {
                    Ok((Some(t), Some(bk))) => writeln!(w, "accept\tC\t{i}\t{j}\t{}\t{}", t as u8, bk as u8).unwrap(),
                    Ok(_) => writeln!(w, "accept\tC\t{i}\t{j}\t-\t-").unwrap(),
                    Err(p) => writeln!(w, "accept\tC\t{i}\t{j}\tPANIC {p}\t-").unwrap(),
                }
            }
        }
    }
    // generated programs in every layout
    let np = arg_u64(args, "--programs", 0);
    for case in 0..np {
        if case % nshards != shard {
            continue;
        }
        let mut rng = Rng::new(seed.wrapping_mul(11_000_027).wrapping_add(case));
        let size = 1 + rng.below(10) as usize;
        let depth = rng.below(6) as u32;
        let prog = Gen { rng: &mut rng, sema_safe: false }.program(size, depth);
        let lay = Layout { redundant_parens: rng.below(3) == 0, trivia: rng.below(3) as u8 };
        let (text, _) = print_program(&prog, lay, &mut rng);
        let flat = text.replace('\n', "\\n").replace('\t', "\\t");
        match nerr(&text) {
            Ok(0) => writeln!(w, "accept\tP\t0\tok ;; {flat}").unwrap(),
            Ok(n) => {
                // the first statement that does not parse alone
                let first_bad = prog.iter().map(|s| print_program(std::slice::from_ref(s), Layout { redundant_parens: false, trivia: 0 }, &mut rng).0).find(|t| nerr(t).map(|n| n > 0).unwrap_or(true)).unwrap_or_default();
                writeln!(w, "accept\tP\t{n}\tFAIL C04: {n} syntax diagnostics on a program of the reference grammar (first rejected statement: {}) ;; {flat}", first_bad.trim()).unwrap()
            }
            Err(p) => writeln!(w, "accept\tP\tPANIC\tFAIL C01: parser panicked: {p} ;; {flat}").unwrap(),
        }
    }
    // random sequences of generated statements
    let nr = arg_u64(args, "--sequences", 0);
    for case in 0..nr {
        if case % nshards != shard {
            continue;
        }
        let mut rng = Rng::new(seed.wrapping_mul(13_000_027).wrapping_add(case));
        let n = 2 + rng.below(4) as usize;
        let mut env = Env::new();
        env.qubits.push("q0".into());
        let mut parts = Vec::new();
        let mut model = Vec::new();
        for _ in 0..n {
            // the empty statement is a statement kind of its own for C16
            let s = if rng.below(8) == 0 { MStmt::Empty } else { Gen { rng: &mut rng, sema_safe: false }.stmt(&mut env, 2) };
            let (t, _) = print_program(std::slice::from_ref(&s), Layout { redundant_parens: false, trivia: 0 }, &mut rng);
            parts.push(t.trim_end().to_string());
            model.push(s);
        }
        let flat = parts.join(" ").replace('\n', "\\n");
        // known classes: a `let` anywhere; a statement starting with `-` after a statement ending in an assignment
        let has_let = model.iter().any(|s| matches!(s, MStmt::Alias { .. }));
        let glue = parts.windows(2).any(|w| w[1].starts_with('-') && ends_with_assignment(&model[parts.iter().position(|p| p == &w[0]).unwrap_or(0)]));
        let trailing_scope = matches!(model.last(), Some(MStmt::Scope(_)));
        // an empty statement directly after a statement handled by the top-level item routine, while the
        // parser is still in its item loop (every earlier statement was an item as well)
        let empty_after_item = {
            let mut hit = false;
            for i in 0..parts.len() {
                if !starts_item(&parts[i]) {
                    break;
                }
                if i + 1 < parts.len() && matches!(model[i + 1], MStmt::Empty) {
                    hit = true;
                    break;
                }
            }
            hit
        };
        let r = catch(std::panic::AssertUnwindSafe(|| compose_with(&parts, "\n")));
        let line = match r {
            Ok((Some(t), Some(b))) => {
                // each failing side must be explained by a listed class
                let top_known = has_let || glue || empty_after_item;
                let block_known = has_let || glue || trailing_scope;
                if t && b {
                    "ok".to_string()
                } else if (t || top_known) && (b || block_known) {
                    if has_let {
                        "KNOWN C16.let_context".to_string()
                    } else if glue {
                        "KNOWN C16.assignment_glues_operator".to_string()
                    } else if !t {
                        "KNOWN C16.empty_stmt_after_item".to_string()
                    } else {
                        "KNOWN C16.trailing_anon_block".to_string()
                    }
                } else {
                    format!("FAIL C16: the concatenation does not parse to the statements of its parts (top level ok={t}, in block ok={b})")
                }
            }
            Ok(_) => "SKIP a generated statement does not parse alone (C04 decides that)".to_string(),
            Err(p) => format!("FAIL C01: parser panicked: {p}"),
        };
        writeln!(w, "accept\tR\t{n}\t{line} ;; {flat}").unwrap();
    }
    finish(w);
}

/// the dispatch condition of items.rs:opt_item on the first two tokens of a statement's text
fn starts_item(text: &str) -> bool {
    let t = text.trim_start();
    let word: String = t.chars().take_while(|c| c.is_alphanumeric() || *c == '_').collect();
    let rest = t[word.len()..].trim_start();
    const TYPES: [&str; 10] = ["angle", "bit", "bool", "complex", "duration", "float", "int", "stretch", "uint", "array"];
    const ITEMS: [&str; 23] = [
        "qubit", "const", "gate", "break", "continue", "end", "if", "while", "for", "def", "defcal", "cal", "defcalgrammar", "extern",
        "reset", "barrier", "OPENQASM", "include", "switch", "let", "delay", "input", "output",
    ];
    (TYPES.contains(&word.as_str()) && !rest.starts_with('(')) || ITEMS.contains(&word.as_str())
}

fn ends_with_assignment(s: &MStmt) -> bool {
    match s {
        MStmt::Assign { .. } | MStmt::AssignIdx { .. } => true,
        MStmt::If { then, els, .. } => match els.as_ref().unwrap_or(then) {
            MBody::Single(s) => ends_with_assignment(s),
            _ => false,
        },
        MStmt::While { body, .. } | MStmt::For { body, .. } => match body {
            MBody::Single(s) => ends_with_assignment(s),
            _ => false,
        },
        _ => false,
    }
}
