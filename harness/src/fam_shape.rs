// Family `shape` (C05): the typed AST mirrors the derivation.
//  expressions: random trees over all 19 binary / 3 unary operators, index, call, cast, printed
//    with exactly the parentheses the OpenQASM 3 table requires (plus optional redundant ones);
//    line "shape\tE\t<prefix encoding of the model expression>\t<text>\t<shape read through typed accessors>\t<oracle>"
//  statements: every statement kind with its constituents in known roles;
//    line "shape\tS\t<kind>\t<text>\t<roles read through typed accessors>\t<expected roles>"
use crate::util::*;
use oq3_syntax::ast::{self, AstNode, HasArgList, HasName, HasTextNode};
use oq3_syntax::SourceFile;
use std::io::Write;

#[derive(Clone, Debug)]
pub enum X {
    Id(u8),
    Int(u8),
    Bin(usize, Box<X>, Box<X>),
    Un(usize, Box<X>),
    Index(Box<X>, Box<X>),
    Call(u8, Box<X>, Option<Box<X>>),
    Cast(Box<X>),
    Paren(Box<X>),
}

pub const BOPS: &[(&str, u8, bool)] = &[
    ("||", 1, false), ("&&", 2, false), ("|", 3, false), ("^", 4, false), ("&", 5, false), ("==", 6, false), ("!=", 6, false),
    ("<", 7, false), ("<=", 7, false), (">", 7, false), (">=", 7, false), ("<<", 8, false), (">>", 8, false), ("+", 9, false), ("-", 9, false),
    ("*", 10, false), ("/", 10, false), ("%", 10, false), ("**", 12, true),
];
pub const UOPS: &[&str] = &["-", "!", "~"];

impl X {
    pub fn enc(&self, o: &mut String) {
        match self {
            X::Id(c) => o.push_str(&format!("i{c} ")),
            X::Int(d) => o.push_str(&format!("n{d} ")),
            X::Bin(k, l, r) => {
                o.push_str(&format!("b{k} "));
                l.enc(o);
                r.enc(o);
            }
            X::Un(k, e) => {
                o.push_str(&format!("u{k} "));
                e.enc(o);
            }
            X::Index(b, i) => {
                o.push_str("x ");
                b.enc(o);
                i.enc(o);
            }
            X::Call(f, a, None) => {
                o.push_str(&format!("c1 {f} "));
                a.enc(o);
            }
            X::Call(f, a, Some(b)) => {
                o.push_str(&format!("c2 {f} "));
                a.enc(o);
                b.enc(o);
            }
            X::Cast(e) => {
                o.push_str("t ");
                e.enc(o);
            }
            X::Paren(e) => {
                o.push_str("p ");
                e.enc(o);
            }
        }
    }
    /// mirrors Model/Shape.v:pr
    pub fn print(&self, parent: u8, right: bool, o: &mut String) {
        match self {
            X::Id(c) => o.push(*c as char),
            X::Int(d) => o.push(*d as char),
            X::Bin(k, l, r) => {
                let (t, lv, ra) = BOPS[*k];
                let need = lv < parent || (lv == parent && right != ra);
                if need {
                    o.push('(');
                }
                l.print(lv, false, o);
                o.push(' ');
                o.push_str(t);
                o.push(' ');
                r.print(lv, true, o);
                if need {
                    o.push(')');
                }
            }
            X::Un(k, e) => {
                let need = 11 < parent;
                if need {
                    o.push('(');
                }
                o.push_str(UOPS[*k]);
                e.print(11, true, o);
                if need {
                    o.push(')');
                }
            }
            X::Index(b, i) => {
                b.print(13, false, o);
                o.push('[');
                i.print(0, false, o);
                o.push(']');
            }
            X::Call(f, a, b) => {
                o.push(*f as char);
                o.push('(');
                a.print(0, false, o);
                if let Some(b) = b {
                    o.push_str(", ");
                    b.print(0, false, o);
                }
                o.push(')');
            }
            X::Cast(e) => {
                o.push_str("int[32](");
                e.print(0, false, o);
                o.push(')');
            }
            X::Paren(e) => {
                o.push('(');
                e.print(0, false, o);
                o.push(')');
            }
        }
    }
}

pub fn gen_x(rng: &mut Rng, depth: u32, redundant: bool) -> X {
    if redundant && rng.below(5) == 0 {
        return X::Paren(Box::new(gen_x(rng, depth, redundant)));
    }
    if depth == 0 || rng.below(5) == 0 {
        return if rng.below(4) == 0 { X::Int(b'0' + rng.below(10) as u8) } else { X::Id(b'a' + rng.below(5) as u8) };
    }
    match rng.below(12) {
        0 | 1 => X::Un(rng.below(3) as usize, Box::new(gen_x(rng, depth - 1, redundant))),
        2 => {
            // a literal cannot be indexed
            let b = match gen_x(rng, depth - 1, redundant) {
                X::Int(_) => X::Id(b'a'),
                X::Paren(p) if matches!(*p, X::Int(_)) => X::Id(b'b'),
                b => b,
            };
            X::Index(Box::new(b), Box::new(gen_x(rng, depth - 1, redundant)))
        }
        3 => {
            let a = gen_x(rng, depth - 1, redundant);
            let b = if rng.below(2) == 0 { Some(Box::new(gen_x(rng, depth - 1, redundant))) } else { None };
            X::Call(b'f' + rng.below(3) as u8, Box::new(a), b)
        }
        4 => X::Cast(Box::new(gen_x(rng, depth - 1, redundant))),
        _ => X::Bin(rng.below(19) as usize, Box::new(gen_x(rng, depth - 1, redundant)), Box::new(gen_x(rng, depth - 1, redundant))),
    }
}

fn starts_with_type(x: &X) -> bool {
    match x {
        X::Cast(_) => true,
        X::Bin(_, l, _) => starts_with_type(l),
        X::Index(b, _) => starts_with_type(b),
        _ => false,
    }
}

fn bop_index(op: ast::BinaryOp) -> Option<usize> {
    use ast::{ArithOp::*, BinaryOp::*, CmpOp, LogicOp, Ordering};
    let t = match op {
        LogicOp(LogicOp::Or) => "||",
        LogicOp(LogicOp::And) => "&&",
        ArithOp(BitOr) => "|",
        ArithOp(BitXor) => "^",
        ArithOp(BitAnd) => "&",
        CmpOp(CmpOp::Eq { negated: false }) => "==",
        CmpOp(CmpOp::Eq { negated: true }) => "!=",
        CmpOp(CmpOp::Ord { ordering: Ordering::Less, strict: true }) => "<",
        CmpOp(CmpOp::Ord { ordering: Ordering::Less, strict: false }) => "<=",
        CmpOp(CmpOp::Ord { ordering: Ordering::Greater, strict: true }) => ">",
        CmpOp(CmpOp::Ord { ordering: Ordering::Greater, strict: false }) => ">=",
        ArithOp(Shl) => "<<",
        ArithOp(Shr) => ">>",
        ArithOp(Add) => "+",
        ArithOp(Sub) => "-",
        ArithOp(Mul) => "*",
        ArithOp(Div) => "/",
        ArithOp(Rem) => "%",
        PowerOp => "**",
        _ => return None,
    };
    BOPS.iter().position(|b| b.0 == t)
}

/// the expression as the typed accessors present it, in the prefix encoding (parentheses dropped)
pub fn typed_shape(e: Option<ast::Expr>, o: &mut String) {
    let Some(e) = e else {
        o.push_str("MISSING ");
        return;
    };
    match e {
        ast::Expr::BinExpr(b) => {
            match b.op_kind().and_then(bop_index) {
                Some(k) => {
                    // the other operator accessors agree: the token is the operator's spelling (composite
                    // operators are glued into one token by the tree builder), sub_exprs = (lhs, rhs)
                    let tok_ok = b.op_token().map(|t| t.text() == BOPS[k].0).unwrap_or(false);
                    let (l, r) = b.sub_exprs();
                    if tok_ok && l == b.lhs() && r == b.rhs() {
                        o.push_str(&format!("b{k} "))
                    } else {
                        o.push_str(&format!("b{k}!accessors "))
                    }
                }
                None => o.push_str("b? "),
            }
            typed_shape(b.lhs(), o);
            typed_shape(b.rhs(), o);
        }
        ast::Expr::PrefixExpr(p) => {
            match p.op_kind() {
                Some(ast::UnaryOp::Neg) => o.push_str("u0 "),
                Some(ast::UnaryOp::LogicNot) => o.push_str("u1 "),
                Some(ast::UnaryOp::Not) => o.push_str("u2 "),
                None => o.push_str("u? "),
            }
            typed_shape(p.expr(), o);
        }
        ast::Expr::ParenExpr(p) => typed_shape(p.expr(), o),
        ast::Expr::Identifier(i) => {
            let s = i.string();
            o.push_str(&format!("i{} ", s.bytes().next().unwrap_or(0)));
        }
        ast::Expr::Literal(l) => {
            let s = l.syntax().text().to_string();
            o.push_str(&format!("n{} ", s.bytes().next().unwrap_or(0)));
        }
        ast::Expr::IndexedIdentifier(ii) => {
            let ops: Vec<ast::IndexOperator> = ii.index_operators().collect();
            for _ in &ops {
                o.push_str("x ");
            }
            match ii.identifier() {
                Some(i) => o.push_str(&format!("i{} ", i.string().bytes().next().unwrap_or(0))),
                None => o.push_str("MISSING "),
            }
            for op in ops {
                index_arg(op, o);
            }
        }
        ast::Expr::IndexExpr(ie) => {
            o.push_str("x ");
            typed_shape(ie.expr(), o);
            match ie.index_operator() {
                Some(op) => index_arg(op, o),
                None => o.push_str("MISSING "),
            }
        }
        ast::Expr::CallExpr(c) => {
            let args: Vec<ast::Expr> = c.arg_list().and_then(|a| a.expression_list()).map(|l| l.exprs().collect()).unwrap_or_default();
            let f = c.identifier().map(|i| i.string().bytes().next().unwrap_or(0)).unwrap_or(0);
            o.push_str(&format!("c{} {f} ", args.len()));
            for a in args {
                typed_shape(Some(a), o);
            }
        }
        ast::Expr::CastExpression(c) => {
            o.push_str("t ");
            typed_shape(c.expr(), o);
        }
        other => o.push_str(&format!("OTHER:{:?} ", other.syntax().kind())),
    }
}
fn index_arg(op: ast::IndexOperator, o: &mut String) {
    match op.index_kind() {
        Some(ast::IndexKind::ExpressionList(l)) => {
            let v: Vec<ast::Expr> = l.exprs().collect();
            if v.len() == 1 {
                typed_shape(v.into_iter().next(), o)
            } else {
                o.push_str(&format!("LIST{} ", v.len()))
            }
        }
        _ => o.push_str("SET "),
    }
}


// ---------------------------------------------------------------- statement roles
fn tx<N: AstNode>(n: Option<N>) -> String {
    match n {
        Some(n) => n.syntax().text().to_string().trim().to_string(),
        None => "none".into(),
    }
}
fn bos(b: ast::BlockOrStmt) -> String {
    match b {
        ast::BlockOrStmt::BlockExpr(b) => format!("block:{}", b.syntax().text().to_string().trim()),
        ast::BlockOrStmt::Stmt(s) => format!("stmt:{}", s.syntax().text().to_string().trim()),
    }
}
fn small_expr(rng: &mut Rng) -> String {
    let x = gen_x(rng, 2, false);
    let mut t = String::new();
    // parenthesised so that it can stand anywhere an expression is allowed
    x.print(0, false, &mut t);
    if matches!(x, X::Cast(_)) || starts_with_type(&x) {
        format!("({t})")
    } else {
        t
    }
}
fn body(rng: &mut Rng, tag: &str) -> (String, String) {
    // (text, expected role text)
    let e = small_expr(rng);
    match rng.below(4) {
        0 => {
            let t = format!("{{ {tag} = ({e}); }}");
            (t.clone(), format!("block:{t}"))
        }
        1 => {
            let t = format!("{{ }}");
            (t.clone(), format!("block:{t}"))
        }
        2 => {
            let t = format!("{tag} = ({e});");
            (t.clone(), format!("stmt:{t}"))
        }
        _ => {
            let t = format!("reset {tag};");
            (t.clone(), format!("stmt:{t}"))
        }
    }
}

fn first_stmt(text: &str) -> Result<(usize, Option<ast::Stmt>), String> {
    catch(|| {
        let parse = SourceFile::parse(text);
        let n = parse.errors().len();
        let st = parse.tree().statements().next();
        (n, st)
    })
}

fn stmt_case(w: &mut impl Write, rng: &mut Rng, kind: u64) {
    let (name, text, expected, read): (&str, String, String, Box<dyn Fn(ast::Stmt) -> String>) = match kind {
        0 => {
            let c = small_expr(rng);
            let (tt, te) = body(rng, "a");
            let els = match rng.below(4) {
                0 => None,
                1 => {
                    // else-if chain: the else branch is itself an if statement, in the else role
                    let c2 = small_expr(rng);
                    let (t2, _) = body(rng, "b");
                    let tail = if rng.below(2) == 0 {
                        let (t3, _) = body(rng, "d");
                        format!(" else {t3}")
                    } else {
                        String::new()
                    };
                    let t = format!("if ({c2}) {t2}{tail}");
                    Some((t.clone(), format!("stmt:{t}")))
                }
                _ => Some(body(rng, "b")),
            };
            let text = match &els {
                Some((et, _)) => format!("if ({c}) {tt} else {et}"),
                None => format!("if ({c}) {tt}"),
            };
            let expected = format!("cond={c};then={te};else={}", els.map(|e| e.1).unwrap_or("none".into()));
            ("if", text, expected, Box::new(|s| match s {
                ast::Stmt::IfStmt(i) => format!("cond={};then={};else={}", tx(i.condition()), bos(i.true_body_block_or_stmt()), i.false_body_block_or_stmt().map(bos).unwrap_or("none".into())),
                o => format!("OTHER {:?}", o.syntax().kind()),
            }))
        }
        1 => {
            let c = small_expr(rng);
            let (bt, be) = body(rng, "a");
            ("while", format!("while ({c}) {bt}"), format!("cond={c};body={be}"), Box::new(|s| match s {
                ast::Stmt::WhileStmt(i) => format!("cond={};body={}", tx(i.condition()), bos(i.block_or_stmt())),
                o => format!("OTHER {:?}", o.syntax().kind()),
            }))
        }
        2 => {
            let ty = ["int", "uint[8]", "float[64]", "angle"][rng.below(4) as usize];
            let v = ["i", "j", "k"][rng.below(3) as usize];
            let (mut bt, mut be) = body(rng, "a");
            let which = rng.below(4);
            if which == 3 && !bt.starts_with('{') {
                // `for .. in <expression> <single statement>` is a listed C04 finding: a block body is used here
                bt = "{ }".to_string();
                be = "block:{ }".to_string();
            }
            let (it, ie) = match which {
                0 => {
                    let (a, b) = (small_expr(rng), small_expr(rng));
                    (format!("[{a}:{b}]"), format!("range:{a}|none|{b}"))
                }
                1 => {
                    let (a, st, b) = (small_expr(rng), small_expr(rng), small_expr(rng));
                    (format!("[{a}:{st}:{b}]"), format!("range:{a}|{st}|{b}"))
                }
                2 => {
                    let (a, b) = (small_expr(rng), small_expr(rng));
                    (format!("{{{a}, {b}}}"), format!("set:{a}|{b}"))
                }
                _ => ("arr".to_string(), "expr:arr".to_string()),
            };
            ("for", format!("for {ty} {v} in {it} {bt}"), format!("type={ty};var={v};iter={ie};body={be}"), Box::new(|s| match s {
                ast::Stmt::ForStmt(f) => {
                    let it = f.for_iterable();
                    let iter = match it {
                        Some(it) => {
                            if let Some(r) = it.range_expr() {
                                let (a, st, b) = r.start_step_stop();
                                format!("range:{}|{}|{}", tx(a), tx(st), tx(b))
                            } else if let Some(se) = it.set_expression() {
                                let v: Vec<String> = se.expression_list().map(|l| l.exprs().map(|e| tx(Some(e))).collect()).unwrap_or_default();
                                format!("set:{}", v.join("|"))
                            } else {
                                format!("expr:{}", tx(it.for_iterable_expr()))
                            }
                        }
                        None => "none".into(),
                    };
                    format!("type={};var={};iter={iter};body={}", tx(f.scalar_type()), tx(f.loop_var()), bos(f.block_or_stmt()))
                }
                o => format!("OTHER {:?}", o.syntax().kind()),
            }))
        }
        3 => {
            let np = rng.below(4);
            let nq = 1 + rng.below(3);
            let ps: Vec<String> = (0..np).map(|i| format!("p{i}")).collect();
            let qs: Vec<String> = (0..nq).map(|i| format!("q{i}")).collect();
            // `gate g() q { }` (empty parentheses) is a listed C04 finding: no parentheses without parameters
            let pl = if np == 0 { String::new() } else { format!("({})", ps.join(", ")) };
            let b = if rng.below(2) == 0 { "{ }".to_string() } else { format!("{{ U({}, 0, 0) q0; }}", small_expr(rng)) };
            let had_parens = !pl.is_empty();
            ("gate", format!("gate g{pl} {} {b}", qs.join(", ")), format!("name=g;params={};qubits={};body={b}", if had_parens { ps.join("|") } else { "none".into() }, qs.join("|")), Box::new(|s| match s {
                ast::Stmt::Gate(g) => {
                    let ps = g.angle_params().map(|l| l.params().map(|p| tx(Some(p))).collect::<Vec<_>>().join("|")).unwrap_or("none".into());
                    let qs = g.qubit_params().map(|l| l.params().map(|p| tx(Some(p))).collect::<Vec<_>>().join("|")).unwrap_or("none".into());
                    format!("name={};params={ps};qubits={qs};body={}", tx(g.name()), tx(g.body()))
                }
                o => format!("OTHER {:?}", o.syntax().kind()),
            }))
        }
        4 => {
            let np = rng.below(4);
            let tys = ["int", "float[32]", "bit", "qubit", "angle[8]"];
            let ps: Vec<(String, String)> = (0..np).map(|i| (tys[rng.below(5) as usize].to_string(), format!("x{i}"))).collect();
            let ret = if rng.below(2) == 0 { Some(["int", "bit", "float[64]"][rng.below(3) as usize]) } else { None };
            let b = if rng.below(2) == 0 { "{ }".to_string() } else { format!("{{ return {}; }}", small_expr(rng)) };
            let pt: Vec<String> = ps.iter().map(|(t, n)| format!("{t} {n}")).collect();
            let rt = ret.map(|r| format!(" -> {r}")).unwrap_or_default();
            ("def", format!("def f({}){rt} {b}", pt.join(", ")), format!("name=f;params={};ret={};body={b}", ps.iter().map(|(t, n)| format!("{t}:{n}")).collect::<Vec<_>>().join("|"), ret.unwrap_or("none")), Box::new(|s| match s {
                ast::Stmt::Def(d) => {
                    let ps = d.typed_param_list().map(|l| l.typed_params().map(|p| format!("{}:{}", tx(p.param_type()), tx(p.name()))).collect::<Vec<_>>().join("|")).unwrap_or("none".into());
                    format!("name={};params={ps};ret={};body={}", tx(d.name()), tx(d.return_signature().and_then(|r| r.scalar_type())), tx(d.body()))
                }
                o => format!("OTHER {:?}", o.syntax().kind()),
            }))
        }
        5 => {
            let ty = ["int", "uint[8]", "float[64]", "angle", "bool", "bit[4]", "complex[float[32]]", "duration"][rng.below(8) as usize];
            let is_const = rng.below(3) == 0;
            let init = if is_const || rng.below(2) == 0 { Some(small_expr(rng)) } else { None };
            let text = format!("{}{ty} v{};", if is_const { "const " } else { "" }, init.as_ref().map(|i| format!(" = {i}")).unwrap_or_default());
            ("decl", text, format!("const={is_const};type={ty};name=v;init={}", init.unwrap_or("none".into())), Box::new(|s| match s {
                ast::Stmt::ClassicalDeclarationStatement(d) => format!("const={};type={};name={};init={}", d.const_token().is_some(), tx(d.scalar_type()), tx(d.name()), tx(d.expr())),
                o => format!("OTHER {:?}", o.syntax().kind()),
            }))
        }
        6 => {
            // gate call: modifiers in order, name, parameters in order, operands in order
            let mods_all = ["inv", "pow(2)", "ctrl", "ctrl(2)", "negctrl", "negctrl(3)", "pow(k)"];
            let nm = rng.below(4);
            let ms: Vec<&str> = (0..nm).map(|_| mods_all[rng.below(7) as usize]).collect();
            let np = rng.below(4);
            let ps: Vec<String> = (0..np).map(|_| small_expr(rng)).collect();
            let nq = 1 + rng.below(4);
            let ops = ["q", "r[0]", "$1", "r[1]", "s", "$0"];
            let qs: Vec<&str> = (0..nq).map(|_| ops[rng.below(6) as usize]).collect();
            let mt: String = ms.iter().map(|m| format!("{m} @ ")).collect();
            let pl = if np == 0 { String::new() } else { format!("({})", ps.join(", ")) };
            let text = format!("{mt}g{pl} {};", qs.join(", "));
            ("gatecall", text, format!("mods={};name=g;params={};qubits={}", ms.join("|"), ps.join("|"), qs.join("|")), Box::new(|s| {
                let read_call = |c: ast::GateCallExpr| {
                    let ps: Vec<String> = c.arg_list().and_then(|a| a.expression_list()).map(|l| l.exprs().map(|e| tx(Some(e))).collect()).unwrap_or_default();
                    let qs: Vec<String> = c.qubit_list().map(|l| l.gate_operands().map(|o| tx(Some(o))).collect()).unwrap_or_default();
                    format!("name={};params={};qubits={}", tx(c.identifier()), ps.join("|"), qs.join("|"))
                };
                match s {
                    ast::Stmt::ExprStmt(es) => match es.expr() {
                        Some(ast::Expr::GateCallExpr(c)) => format!("mods=;{}", read_call(c)),
                        Some(ast::Expr::ModifiedGateCallExpr(m)) => {
                            let ms: Vec<String> = m
                                .modifiers()
                                .map(|md| match md {
                                    ast::Modifier::InvModifier(_) => "inv".to_string(),
                                    ast::Modifier::PowModifier(p) => format!("pow{}", tx(p.paren_expr())),
                                    ast::Modifier::CtrlModifier(c) => format!("ctrl{}", c.paren_expr().map(|p| tx(Some(p))).unwrap_or_default()),
                                    ast::Modifier::NegCtrlModifier(c) => format!("negctrl{}", c.paren_expr().map(|p| tx(Some(p))).unwrap_or_default()),
                                })
                                .collect();
                            format!("mods={};{}", ms.join("|"), m.gate_call_expr().map(read_call).unwrap_or("nocall".into()))
                        }
                        o => format!("OTHEREXPR {:?}", o.map(|e| e.syntax().kind())),
                    },
                    o => format!("OTHER {:?}", o.syntax().kind()),
                }
            }))
        }
        7 => {
            let idx = rng.below(2) == 0;
            let rhs = small_expr(rng);
            // a binary operator at the top of the assigned value is a known parser finding (C04)
            let rhs = format!("({rhs})");
            let (lt, le) = if idx {
                let i = small_expr(rng);
                (format!("a[{i}]"), format!("indexed:a[{i}]"))
            } else {
                ("a".to_string(), "ident:a".to_string())
            };
            ("assign", format!("{lt} = {rhs};"), format!("target={le};value={rhs}"), Box::new(|s| match s {
                ast::Stmt::AssignmentStmt(a) => {
                    let t = match (a.identifier(), a.indexed_identifier()) {
                        (Some(i), _) => format!("ident:{}", tx(Some(i))),
                        (None, Some(ii)) => format!("indexed:{}", tx(Some(ii))),
                        _ => "none".into(),
                    };
                    format!("target={t};value={}", tx(a.rhs()))
                }
                o => format!("OTHER {:?}", o.syntax().kind()),
            }))
        }
        8 => {
            let c = small_expr(rng);
            let nc = 1 + rng.below(3);
            let mut text = format!("switch ({c}) {{ ");
            let mut exp = format!("control={c}");
            for i in 0..nc {
                let nv = 1 + rng.below(3);
                let vals: Vec<String> = (0..nv).map(|j| format!("{}", i * 10 + j)).collect();
                let b = if rng.below(2) == 0 { "{ }".to_string() } else { format!("{{ a = ({}); }}", small_expr(rng)) };
                text.push_str(&format!("case {} {b} ", vals.join(", ")));
                exp.push_str(&format!(";case={}:{b}", vals.join("|")));
            }
            if rng.below(2) == 0 {
                let b = format!("{{ b = ({}); }}", small_expr(rng));
                text.push_str(&format!("default {b} "));
                exp.push_str(&format!(";default={b}"));
            } else {
                exp.push_str(";default=none");
            }
            text.push('}');
            ("switch", text, exp, Box::new(|s| match s {
                ast::Stmt::SwitchCaseStmt(sw) => {
                    let mut o = format!("control={}", tx(sw.control()));
                    for c in sw.case_exprs() {
                        let vals: Vec<String> = c.expression_list().map(|l| l.exprs().map(|e| tx(Some(e))).collect()).unwrap_or_default();
                        o.push_str(&format!(";case={}:{}", vals.join("|"), tx(c.block_expr())));
                    }
                    o.push_str(&format!(";default={}", tx(sw.default_block())));
                    o
                }
                o => format!("OTHER {:?}", o.syntax().kind()),
            }))
        }
        9 => {
            let d = ["10ns", "du", "2.5us", "(a + b)"][rng.below(4) as usize];
            let nq = 1 + rng.below(3);
            let ops = ["q", "r[0]", "$1", "s"];
            let qs: Vec<&str> = (0..nq).map(|_| ops[rng.below(4) as usize]).collect();
            ("delay", format!("delay[{d}] {};", qs.join(", ")), format!("duration={d};qubits={}", qs.join("|")), Box::new(|s| match s {
                ast::Stmt::DelayStmt(dl) => format!("duration={};qubits={}", tx(dl.designator().and_then(|d| d.expr())), dl.qubit_list().map(|l| l.gate_operands().map(|o| tx(Some(o))).collect::<Vec<_>>().join("|")).unwrap_or("none".into())),
                o => format!("OTHER {:?}", o.syntax().kind()),
            }))
        }
        10 => {
            let nq = 1 + rng.below(3);
            let ops = ["q", "r[0]", "$1", "s"];
            let qs: Vec<&str> = (0..nq).map(|_| ops[rng.below(4) as usize]).collect();
            ("barrier", format!("barrier {};", qs.join(", ")), format!("qubits={}", qs.join("|")), Box::new(|s| match s {
                ast::Stmt::Barrier(b) => format!("qubits={}", b.qubit_list().map(|l| l.gate_operands().map(|o| tx(Some(o))).collect::<Vec<_>>().join("|")).unwrap_or("none".into())),
                o => format!("OTHER {:?}", o.syntax().kind()),
            }))
        }
        11 => {
            let inp = rng.below(2) == 0;
            let ty = ["int", "float[64]", "bit[2]", "angle[8]"][rng.below(4) as usize];
            ("io", format!("{} {ty} v;", if inp { "input" } else { "output" }), format!("input={inp};type={ty};name=v"), Box::new(|s| match s {
                ast::Stmt::IODeclarationStatement(d) => format!("input={};type={};name={}", d.input_token().is_some(), tx(d.scalar_type()), tx(d.name())),
                o => format!("OTHER {:?}", o.syntax().kind()),
            }))
        }
        12 => {
            let op = ["q", "r[2]", "$3"][rng.below(3) as usize];
            ("reset", format!("reset {op};"), format!("operand={op}"), Box::new(|s| match s {
                ast::Stmt::Reset(r) => format!("operand={}", tx(r.gate_operand())),
                o => format!("OTHER {:?}", o.syntax().kind()),
            }))
        }
        13 => {
            let op = ["q", "r[2]", "$3"][rng.below(3) as usize];
            ("measure", format!("c = measure {op};"), format!("target=c;operand={op}"), Box::new(|s| match s {
                ast::Stmt::AssignmentStmt(a) => match a.rhs() {
                    Some(ast::Expr::MeasureExpression(m)) => format!("target={};operand={}", tx(a.identifier()), tx(m.gate_operand())),
                    o => format!("OTHEREXPR {:?}", o.map(|e| e.syntax().kind())),
                },
                o => format!("OTHER {:?}", o.syntax().kind()),
            }))
        }
        _ => {
            let w = if rng.below(2) == 0 { Some(1 + rng.below(9)) } else { None };
            let text = match w {
                Some(w) => format!("qubit[{w}] qq;"),
                None => "qubit qq;".into(),
            };
            ("qdecl", text, format!("name=qq;width={}", w.map(|w| w.to_string()).unwrap_or("none".into())), Box::new(|s| match s {
                ast::Stmt::QuantumDeclarationStatement(q) => format!("name={};width={}", tx(q.name()), tx(q.qubit_type().and_then(|t| t.designator()).and_then(|d| d.expr()))),
                o => format!("OTHER {:?}", o.syntax().kind()),
            }))
        }
    };
    match first_stmt(&text) {
        Ok((nerr, Some(st))) => {
            let got = match catch(std::panic::AssertUnwindSafe(|| read(st))) {
                Ok(g) => g,
                Err(p) => format!("PANIC {p}"),
            };
            let got = if nerr > 0 { format!("SYNTAX-ERRORS {nerr} {got}") } else { got };
            writeln!(w, "shape\tS\t{name}\t{text}\t{got}\t{expected}").unwrap();
        }
        Ok((nerr, None)) => writeln!(w, "shape\tS\t{name}\t{text}\tNO-STATEMENT {nerr}\t{expected}").unwrap(),
        Err(p) => writeln!(w, "shape\tS\t{name}\t{text}\tPANIC {p}\t{expected}").unwrap(),
    }
    // the same statement under another layout (blanks, line breaks, comments between all tokens): the accessors
    // must return the same constituents (compared with all trivia squeezed out)
    let squeeze = |s: &str| -> String {
        let mut t = s.to_string();
        for c in ["/* c */", "/* é */", "// c"] {
            t = t.replace(c, "");
        }
        t.chars().filter(|c| !c.is_whitespace()).collect()
    };
    let text2 = relayout(&text, rng);
    let flat2 = text2.replace('\n', "\\n");
    let got2 = match first_stmt(&text2) {
        Ok((nerr, Some(st))) => {
            let g = match catch(std::panic::AssertUnwindSafe(|| read(st))) {
                Ok(g) => g,
                Err(p) => format!("PANIC {p}"),
            };
            if nerr > 0 { format!("SYNTAX-ERRORS{nerr}{g}") } else { g }
        }
        Ok((nerr, None)) => format!("NO-STATEMENT{nerr}"),
        Err(p) => format!("PANIC {p}"),
    };
    // only where the canonical layout is right (otherwise the S line above already reports it)
    let enc = squeeze(&expected);
    let impl2 = squeeze(&got2);
    if enc != "p" && !enc.is_empty() {
        writeln!(w, "shape\tL\t{enc}\t{flat2}\t{}\tok", if impl2.is_empty() { "-".to_string() } else { impl2 }).unwrap();
    }
}

/// the same tokens with other trivia (blanks, line breaks, comments) between every two of them
fn relayout(text: &str, rng: &mut Rng) -> String {
    let lexed = oq3_parser::LexedStr::new(text);
    let mut o = String::new();
    // operator characters that were adjacent stay adjacent (`==`, `<<=`, `**` are several raw tokens)
    let punct = |t: &str| t.chars().next().map(|c| !c.is_alphanumeric() && c != '_' && c != '"' && c != '$').unwrap_or(false);
    let mut prev: Option<usize> = None;
    for i in 0..lexed.len() {
        if lexed.kind(i).is_trivia() {
            continue;
        }
        let glued = matches!(prev, Some(j) if j + 1 == i && punct(lexed.text(j)) && punct(lexed.text(i)));
        prev = Some(i);
        if !o.is_empty() && !glued {
            o.push_str([" ", "  ", "\n", "   ", " /* c */ ", "\n/* c */", " // c\n", " /* é */ "][rng.below(8) as usize]);
        }
        o.push_str(lexed.text(i));
    }
    o
}

fn expr_case(w: &mut impl Write, x: &X, ctx: u8, rng: &mut Rng) {
    expr_case1(w, x, ctx, None);
    expr_case1(w, x, ctx, Some(rng));
}

fn expr_case1(w: &mut impl Write, x: &X, ctx: u8, lay: Option<&mut Rng>) {
    let mut enc = String::new();
    x.enc(&mut enc);
    let mut t = String::new();
    x.print(0, false, &mut t);
    let text = if ctx == 0 { format!("{t};") } else { format!("int x = {t};") };
    // line kind E: the text of the Coq printer; L: a re-layout of it (implementation only)
    let (text, tag) = match lay {
        Some(rng) => (relayout(&text, rng).replace('\n', "\\n"), "L"),
        None => (text, "E"),
    };
    let parse_text = text.replace("\\n", "\n");
    let r = catch(|| {
        let text = &parse_text;
        let parse = SourceFile::parse(&text);
        let nerr = parse.errors().len();
        let file = parse.tree();
        let mut shape = String::new();
        let stmts: Vec<ast::Stmt> = file.statements().collect();
        if stmts.len() != 1 {
            shape.push_str(&format!("STMTS{} ", stmts.len()));
        } else {
            match &stmts[0] {
                ast::Stmt::ExprStmt(es) if ctx == 0 => typed_shape(es.expr(), &mut shape),
                ast::Stmt::ClassicalDeclarationStatement(d) if ctx == 1 => typed_shape(d.expr(), &mut shape),
                other => shape.push_str(&format!("STMT:{:?} ", other.syntax().kind())),
            }
        }
        (nerr, shape)
    });
    match r {
        Ok((nerr, shape)) => {
            let oracle = if nerr > 0 { format!("FAIL C04: {nerr} syntax diagnostics on a valid expression") } else { "ok".into() };
            writeln!(w, "shape\t{tag}\t{}\t{text}\t{}\t{oracle}", enc.trim_end(), shape.trim_end()).unwrap();
        }
        Err(p) => writeln!(w, "shape\t{tag}\t{}\t{text}\tPANIC\tFAIL C01: parser panicked: {p}", enc.trim_end()).unwrap(),
    }
}

pub fn run(args: &[String]) {
    silence_panics();
    let mut w = out();
    let seed = arg_u64(args, "--seed", 1);
    let n = arg_u64(args, "--exprs", 200);
    let shard = arg_u64(args, "--shard", 0);
    let nshards = arg_u64(args, "--nshards", 1);
    for case in 0..n {
        if case % nshards != shard {
            continue;
        }
        let mut rng = Rng::new(seed.wrapping_mul(9_000_011).wrapping_add(case));
        let depth = 1 + rng.below(6) as u32;
        let redundant = rng.below(3) == 0;
        let x = gen_x(&mut rng, depth, redundant);
        let ctx = if starts_with_type(&x) { 1 } else { rng.below(2) as u8 };
        expr_case(&mut w, &x, ctx, &mut rng);
    }
    let ns = arg_u64(args, "--stmts", 200);
    for case in 0..ns {
        if case % nshards != shard {
            continue;
        }
        let mut rng = Rng::new(seed.wrapping_mul(5_000_011).wrapping_add(case));
        stmt_case(&mut w, &mut rng, case / nshards % 15);
    }
    finish(w);
}
