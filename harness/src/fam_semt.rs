// Family `semt` (C08/C09): classical declarations and assignments over target type x value form.
// Line: "semt\t<decl|assign>\t<target type>\t<value type>\t<lit>\t<cast=0|1;diag=0|1;sym=<type>>\t<oracle>"
use crate::sema::*;
use crate::util::*;
use std::io::Write;

/// Debug tree of a types::Type -> the encoding used by the `types` family
pub fn enc_type(d: &D) -> String {
    let w = |d: &D| -> String {
        match d {
            D::Atom(a) if a == "None" => "n".into(),
            D::Node(n, v) if n == "Some" => v[0].1.name().to_string(),
            _ => "?".into(),
        }
    };
    let c = |d: &D| -> &'static str {
        if d.name() == "True" { "1" } else { "0" }
    };
    let dims = |d: &D| -> String {
        if let D::Node(n, v) = d {
            format!("{} {}", n, v.iter().map(|(_, x)| x.name().to_string()).collect::<Vec<_>>().join(" "))
        } else {
            "?".into()
        }
    };
    match d {
        D::Atom(a) => a.clone(),
        D::Node(n, v) => match n.as_str() {
            "Bit" | "Bool" | "Duration" | "Stretch" => format!("{} {}", n, c(&v[0].1)),
            "Int" | "UInt" | "Float" | "Angle" | "Complex" => format!("{} {} {}", n, w(&v[0].1), c(&v[1].1)),
            "BitArray" => format!("{} {} {}", n, dims(&v[0].1), c(&v[1].1)),
            "QubitArray" | "IntArray" | "UIntArray" | "FloatArray" | "AngleArray" | "ComplexArray" | "BoolArray" | "DurationArray" => {
                format!("{} {}", n, dims(&v[0].1))
            }
            "Gate" => format!("Gate {} {}", v[0].1.name(), v[1].1.name()),
            "SubroutineDef" => {
                let inner = &v[0].1;
                format!(
                    "SubroutineDef {} {}",
                    inner.field("num_params").map(|x| x.name().to_string()).unwrap_or("?".into()),
                    inner.field("return_type").map(enc_type).unwrap_or("?".into())
                )
            }
            _ => format!("{n}?"),
        },
        _ => "?".into(),
    }
}

pub struct TargetTy {
    pub text: String,
    pub is_const: bool,
}

pub fn target_types() -> Vec<(String, bool)> {
    // (type text, takes width)
    let mut v = Vec::new();
    for (b, w) in [("int", true), ("uint", true), ("float", true), ("angle", true), ("complex", true), ("bool", false), ("bit", false), ("duration", false), ("stretch", false)] {
        if w {
            for width in ["", "8", "32", "64"] {
                let t = if width.is_empty() {
                    b.to_string()
                } else if b == "complex" {
                    format!("complex[float[{width}]]")
                } else {
                    format!("{b}[{width}]")
                };
                v.push((t, true));
            }
        } else {
            v.push((b.to_string(), false));
        }
    }
    v
}

/// (prelude, value text, literal info)
pub fn value_forms() -> Vec<(String, String, &'static str)> {
    let mut v: Vec<(String, String, &'static str)> = Vec::new();
    for (t, l) in [("5", "int+"), ("-5", "int-"), ("1.5", "other"), ("-1.5", "other"), ("true", "other"), ("\"0101\"", "other"), ("3ns", "other"), ("2im", "other"), ("1.5 im", "other"), ("-2im", "other"), ("0", "int+")] {
        v.push((String::new(), t.to_string(), l));
    }
    // variables and const variables of every type
    for (t, _) in target_types() {
        v.push((format!("{t} v;"), "v".into(), "none"));
    }
    for (t, init) in [("int", "3"), ("int[8]", "3"), ("int[64]", "3"), ("uint[8]", "3"), ("uint[32]", "3"), ("float", "1.5"), ("float[32]", "1.5"), ("float[64]", "1.5"), ("bool", "true"), ("duration", "3ns"), ("complex[float[64]]", "2im"), ("bit", "\"1\""), ("angle[8]", "1.5")] {
        v.push((format!("const {t} v = {init};"), "v".into(), "none"));
    }
    // arithmetic expressions (parenthesised so that assignments parse)
    for (a, b) in [("int[8]", "int[8]"), ("int[8]", "int[32]"), ("int[32]", "float[32]"), ("float[32]", "float[64]"), ("uint[8]", "uint[16]"), ("float", "int"), ("int[8]", "uint[8]"), ("bool", "bool"), ("angle[8]", "angle[8]")] {
        for op in ["+", "*", "/"] {
            v.push((format!("{a} v; {b} w;"), format!("(v {op} w)"), "none"));
        }
    }
    // casts
    for (s, t) in [("int[8]", "float[32]"), ("float[64]", "int[8]"), ("int[8]", "bool"), ("uint[8]", "int[8]"), ("bit", "bool"), ("int[32]", "uint[32]"), ("float[32]", "complex[float[32]]")] {
        v.push((format!("{s} v;"), format!("{t}(v)"), "none"));
    }
    // measurement
    v.push(("qubit q;".into(), "measure q".into(), "none"));
    v.push(("qubit[4] q;".into(), "measure q".into(), "none"));
    // subroutine calls
    for t in ["int[8]", "float[32]", "bool", "bit", "uint[16]"] {
        v.push((format!("def f(int[8] a) -> {t} {{ {t} r; return r; }}"), "f(1)".into(), "none"));
    }
    v
}

fn find_stmt_with_symbol<'a>(stmts: &'a [D], kind: &str) -> Option<&'a D> {
    stmts.iter().rev().find(|s| s.name() == kind)
}

pub fn semt_case(form: &str, target: &str, is_const: bool, prelude: &str, value: &str, lit: &str) -> Option<String> {
    // probe statement gives the value's own type and shape
    let decl_kw = if is_const { "const " } else { "" };
    // "redecl": the same declaration when the name is already declared in this scope -- the initializer is
    // checked all the same (reported to the model as a declaration; the redeclaration diagnostic is expected)
    let redecl = form == "redecl";
    let form = if redecl { "decl" } else { form };
    let text = if redecl {
        format!("{prelude}\n{target} x;\n{value};\n{decl_kw}{target} x = {value};")
    } else if form == "decl" {
        format!("{prelude}\n{value};\n{decl_kw}{target} x = {value};")
    } else {
        format!("{prelude}\n{value};\n{target} x;\nx = {value};")
    };
    let last_start = text.rfind('\n').map(|i| i + 1).unwrap_or(0) as u32;
    let o = run_sema(&text);
    if let Some(p) = &o.panic {
        return Some(format!("semt\t{form}\t{decl_kw}{target}\t?\t{lit}\tPANIC {}\tFAIL C03: analysis panicked on an error-free program: {} ;; {}", &p[..p.len().min(60)], &p[..p.len().min(100)], text.replace('\n', " ")));
    }
    if o.any_syntax {
        // not a case for this family (the value form does not parse here)
        return None;
    }
    let stmts: Vec<D> = o.stmts.iter().map(|s| parse_debug(s)).collect();
    // the probe: last ExprStmt before the target statements
    let probe = stmts.iter().rev().find(|s| s.name() == "ExprStmt")?;
    let probe_texpr = probe.arg(0)?;
    let val_ty = enc_type(probe_texpr.field("ty")?);
    let (sym_ty, value_in_graph) = if form == "decl" {
        let d = find_stmt_with_symbol(&stmts, "DeclareClassical")?.arg(0)?;
        let init = d.field("initializer")?;
        let sym_ty = o.symbols.iter().rev().find(|(n, _)| n == "x").map(|(_, t)| enc_type(&parse_debug(t)))?;
        (sym_ty, init.arg(0)?.clone())
    } else {
        let a = find_stmt_with_symbol(&stmts, "Assignment")?.arg(0)?;
        let sym_ty = o.symbols.iter().rev().find(|(n, _)| n == "x").map(|(_, t)| enc_type(&parse_debug(t)))?;
        (sym_ty, a.field("rvalue")?.clone())
    };
    // cast? the value in the graph is Cast{operand: probe value, typ}
    let mut cast = 0;
    let mut cast_ty = String::new();
    if value_in_graph != *probe_texpr {
        if let Some(expr) = value_in_graph.field("expression") {
            if expr.name() == "Cast" {
                let c = expr.arg(0)?;
                if c.field("operand") == Some(probe_texpr) {
                    cast = 1;
                    cast_ty = enc_type(c.field("typ")?);
                }
            }
        }
        if cast == 0 {
            cast = 2; // something else happened to the value
        }
    }
    let diags: Vec<&str> = o.errors.iter().filter(|(_, s, _, _)| *s >= last_start).map(|(k, _, _, _)| k.as_str()).collect();
    let type_diag = diags.iter().any(|k| ["IncompatibleTypesError", "CastError", "IncompatibleDimensionError"].contains(k));
    let mut oracle = "ok".to_string();
    if cast == 2 {
        oracle = "FAIL C08: the value stored in the graph is neither the value nor a cast of it".into();
    } else if cast == 1 && cast_ty != sym_ty {
        oracle = format!("FAIL C08: implicit cast to {cast_ty}, not to the target type {sym_ty}");
    }
    Some(format!(
        "semt\t{form}\t{sym_ty}\t{val_ty}\t{lit}\tcast={};diag={};other={}\t{oracle}",
        cast.min(1),
        type_diag as u8,
        diags.iter().filter(|k| !["IncompatibleTypesError", "CastError", "IncompatibleDimensionError"].contains(k) && !(redecl && k.starts_with("RedeclarationError"))).cloned().collect::<Vec<_>>().join(","),
    ))
}

/// declarations of a variable named `{n}`: every target type non-const, and a const of the common ones
fn arith_vars() -> Vec<String> {
    let mut v: Vec<String> = target_types().into_iter().map(|(t, _)| format!("{t} {{n}};")).collect();
    for (t, init) in [("int", "3"), ("int[8]", "3"), ("int[32]", "3"), ("uint[8]", "3"), ("uint[32]", "3"), ("float", "1.5"), ("float[32]", "1.5"), ("float[64]", "1.5"), ("angle[8]", "1.5"), ("complex[float[64]]", "2im")] {
        v.push(format!("const {t} {{n}} = {init};"));
    }
    v
}

/// operands of an arithmetic expression: which of them are wrapped in a cast, and to which type
fn arith_case(da: &str, db: &str, op: &str) -> Option<String> {
    let text = format!("{}\n{}\n(v {op} w);", da.replace("{n}", "v"), db.replace("{n}", "w"));
    let o = run_sema(&text);
    if o.panic.is_some() || o.any_syntax || !o.errors.is_empty() {
        return None; // operators without support and pairs without a common type are other properties' business
    }
    let stmts: Vec<D> = o.stmts.iter().map(|s| parse_debug(s)).collect();
    let probe = stmts.iter().rev().find(|s| s.name() == "ExprStmt")?;
    let mut te = probe.arg(0)?;
    // the parentheses are kept as a node of their own in some versions: look through them
    while te.field("expression").map(|e| e.name() == "Paren").unwrap_or(false) {
        te = te.field("expression")?.arg(0)?;
    }
    let expr = te.field("expression")?;
    if expr.name() != "BinaryExpr" {
        return None;
    }
    let b = expr.arg(0)?;
    let ty = enc_type(te.field("ty")?);
    let side = |name: &str| -> Option<(u8, String, String)> {
        let t = b.field(name)?;
        let e = t.field("expression")?;
        if e.name() == "Cast" {
            let c = e.arg(0)?;
            Some((1, enc_type(c.field("typ")?), enc_type(c.field("operand")?.field("ty")?)))
        } else {
            Some((0, enc_type(t.field("ty")?), enc_type(t.field("ty")?)))
        }
    };
    let (lc, lty, tl) = side("left")?;
    let (rc, rty, tr) = side("right")?;
    let mut oracle = "ok".to_string();
    if lty != ty || rty != ty {
        oracle = format!("FAIL C08: an operand of an arithmetic expression of type {ty} is of type {} (left) / {} (right) and not cast to it ;; {}", lty, rty, text.replace('\n', " "));
    }
    Some(format!("semt\tarith:{op}\t{tl}\t{tr}\t-\tty={ty};lc={lc};rc={rc}\t{oracle}"))
}

pub fn run(args: &[String]) {
    silence_panics();
    let mut w = out();
    let shard = arg_u64(args, "--shard", 0);
    let nshards = arg_u64(args, "--nshards", 1);
    let mut count = 0u64;
    // arithmetic operands: every ordered pair of declared types
    let vars = arith_vars();
    for da in &vars {
        for db in &vars {
            for op in ["+", "-", "*", "/"] {
                count += 1;
                if count % nshards != shard {
                    continue;
                }
                if let Some(line) = arith_case(da, db, op) {
                    writeln!(w, "{line}").unwrap();
                }
            }
        }
    }
    for (target, _) in target_types() {
        for is_const in [false, true] {
            for (prelude, value, lit) in value_forms() {
                for form in ["decl", "assign"] {
                    if form == "assign" && is_const {
                        continue; // assignment to a const symbol is C13's business
                    }
                    count += 1;
                    if count % nshards != shard {
                        continue;
                    }
                    if form == "decl" && !is_const {
                        if let Some(line) = semt_case("redecl", &target, is_const, &prelude, &value, lit) {
                            writeln!(w, "{line}").unwrap();
                        }
                    }
                    if let Some(line) = semt_case(form, &target, is_const, &prelude, &value, lit) {
                        writeln!(w, "{line}").unwrap();
                    }
                }
            }
        }
    }
    finish(w);
}
