// Family `graph` (C06): the semantic graph preserves the program's structure, order and operators.
// Line: "graph\t<source skeleton>\t<graph skeleton read from the implementation>\t<oracle>"
// Skeletons are s-expressions.  Structural statements use the labels of Model/Graph.v; every other
// statement is (leaf <content>) where content is the reference translation of the statement
// (computed here from the model program) resp. what the graph holds.
use crate::gen::*;
use crate::sema::*;
use crate::util::*;
use std::io::Write;

fn hex(s: &str) -> String {
    let mut o = String::from("x");
    for b in s.bytes() {
        o.push_str(&format!("{b:02x}"));
    }
    o
}

// ---------------------------------------------------------------- reference translation
fn asg_op(op: &str) -> &'static str {
    match op {
        "+" => "Add",
        "-" => "Sub",
        "*" => "Mul",
        "/" => "Div",
        "%" => "Rem",
        "<<" => "Shl",
        ">>" => "Shr",
        "|" => "BitOr",
        "^" => "BitXOr",
        "&" => "BitAnd",
        "==" => "Eq",
        "!=" => "Neq",
        "**" => "PowerOp",
        "<" => "Lt",
        "<=" => "Le",
        ">" => "Gt",
        ">=" => "Ge",
        "&&" => "And",
        "||" => "Or",
        _ => "UnknownOp",
    }
}

fn float_canon(s: &str) -> String {
    // the graph stores the parsed value printed by Rust
    match s.parse::<f64>() {
        Ok(f) => format!("{f}"),
        Err(_) => s.to_string(),
    }
}

pub fn ref_expr(e: &MExpr) -> String {
    match e {
        MExpr::Int(n) => format!("(int {n})"),
        MExpr::Float(s) => format!("(float {})", hex(&float_canon(s))),
        MExpr::Bool(b) => format!("(bool {b})"),
        MExpr::Bits(s) => format!("(bits {})", hex(s)),
        MExpr::Timing(n, u) => {
            let u = if *u == "µs" { "us" } else { *u };
            if n.contains('.') {
                format!("(timingf {} {u})", hex(&float_canon(n)))
            } else {
                format!("(timing {n} {u})")
            }
        }
        MExpr::Imag(n) => format!("(imag {n})"),
        MExpr::Ident(n) => format!("(id {n})"),
        MExpr::HwQubit(n) => format!("(hw ${n})"),
        MExpr::Bin(op, l, r) => format!("(bin {} {} {})", asg_op(op), ref_expr(l), ref_expr(r)),
        MExpr::Neg(x) => match &**x {
            // a negated literal is folded into the literal
            MExpr::Int(n) => format!("(int -{n})"),
            MExpr::Float(s) => format!("(float {})", hex(&format!("-{}", float_canon(s)))),
            x => format!("(neg {})", ref_expr(x)),
        },
        MExpr::Un(op, x) => format!("(un {} {})", if *op == "!" { "not" } else { "bitnot" }, ref_expr(x)),
        MExpr::Paren(x) => ref_expr(x),
        MExpr::Cast(_, x) => ref_expr(x),
        MExpr::Call(f, args) => format!("(call {f} {})", args.iter().map(ref_expr).collect::<Vec<_>>().join(" ")),
        MExpr::Index(b, idx) => match &**b {
            MExpr::Ident(n) => format!("(idxid {n} {})", idx.iter().map(ref_expr).collect::<Vec<_>>().join(" ")),
            b => format!("(index {} {})", ref_expr(b), idx.iter().map(ref_expr).collect::<Vec<_>>().join(" ")),
        },
        MExpr::Measure(q) => format!("(measure {})", ref_qubit(q)),
    }
}
fn ref_qubit(q: &MQubit) -> String {
    match q {
        MQubit::Name(n) => format!("(gopid {n})"),
        MQubit::Indexed(n, i) => format!("(gopidx {n} (int {i}))"),
        MQubit::Hw(n) => format!("(gophw ${n})"),
    }
}
fn ref_mods(ms: &[MMod]) -> String {
    let v: Vec<String> = ms
        .iter()
        .map(|m| match m {
            MMod::Inv => "(inv)".to_string(),
            MMod::Pow(e) => format!("(pow {})", ref_expr(e)),
            MMod::Ctrl(None) => "(ctrl none)".to_string(),
            MMod::Ctrl(Some(e)) => format!("(ctrl {})", ref_expr(e)),
            MMod::NegCtrl(None) => "(negctrl none)".to_string(),
            MMod::NegCtrl(Some(e)) => format!("(negctrl {})", ref_expr(e)),
        })
        .collect();
    format!("(mods {})", v.join(" "))
}
fn ref_type(t: &str) -> String {
    // Debug form of the return type (const)
    let (base, w) = match t.find('[') {
        Some(i) => (&t[..i], format!("Some({})", &t[i + 1..t.len() - 1])),
        None => (t, "None".to_string()),
    };
    let b = match base {
        "int" => "Int",
        "uint" => "UInt",
        "float" => "Float",
        _ => "Other",
    };
    hex(&format!("{b}({w}, True)"))
}

fn ref_body(b: &MBody) -> String {
    match b {
        MBody::Block(ss) => format!("(block {})", ss.iter().map(ref_stmt).collect::<Vec<_>>().join(" ")),
        MBody::Single(s) => format!("(single {})", ref_stmt(s)),
    }
}
fn ref_block(ss: &[MStmt]) -> String {
    format!("(block {})", ss.iter().map(ref_stmt).collect::<Vec<_>>().join(" "))
}

/// the source skeleton of a statement: structure for Model/Graph.v, reference content in leaves
pub fn ref_stmt(s: &MStmt) -> String {
    let leaf = |c: String| format!("(leaf {c})");
    match s {
        MStmt::Decl { name, init, .. } => leaf(format!("(declc {name} {})", init.as_ref().map(ref_expr).unwrap_or("none".into()))),
        MStmt::Qubit { name, .. } => leaf(format!("(declq {name})")),
        MStmt::IODecl { input, name, .. } => leaf(format!("({} {name})", if *input { "input" } else { "output" })),
        MStmt::Assign { name, rhs } => leaf(format!("(assign (lvid {name}) {})", ref_expr(rhs))),
        MStmt::AssignIdx { name, idx, rhs } => leaf(format!("(assign (lvidx {name} {}) {})", ref_expr(idx), ref_expr(rhs))),
        MStmt::GateCall { mods, name, params, qubits } => leaf(format!(
            "(gatecall {name} {} (qubits {}) {})",
            if params.is_empty() { "none".to_string() } else { format!("(params {})", params.iter().map(ref_expr).collect::<Vec<_>>().join(" ")) },
            qubits.iter().map(ref_qubit).collect::<Vec<_>>().join(" "),
            ref_mods(mods)
        )),
        MStmt::GPhase { mods, arg } => {
            if mods.is_empty() {
                leaf(format!("(gphase {})", ref_expr(arg)))
            } else {
                leaf(format!("(mgphase {} {})", ref_expr(arg), ref_mods(mods)))
            }
        }
        MStmt::Reset(q) => leaf(format!("(reset {})", ref_qubit(q))),
        MStmt::Barrier(qs) => leaf(format!("(barrier {})", qs.iter().map(ref_qubit).collect::<Vec<_>>().join(" "))),
        MStmt::Delay(d, qs) => leaf(format!("(delay {} {})", ref_expr(d), qs.iter().map(ref_qubit).collect::<Vec<_>>().join(" "))),
        MStmt::If { cond, then, els } => match els {
            Some(e) => format!("(if {} {} {})", ref_expr(cond), ref_body(then), ref_body(e)),
            None => format!("(if {} {})", ref_expr(cond), ref_body(then)),
        },
        MStmt::While { cond, body } => format!("(while {} {})", ref_expr(cond), ref_body(body)),
        MStmt::For { var, iter, body, .. } => {
            let it = match iter {
                MIter::Range(a, st, b) => format!("(range {} {} {})", ref_expr(a), st.as_ref().map(ref_expr).unwrap_or("none".into()), ref_expr(b)),
                MIter::Set(es) => format!("(set {})", es.iter().map(ref_expr).collect::<Vec<_>>().join(" ")),
                MIter::Expr(e) => format!("(iterexpr {})", ref_expr(e)),
            };
            format!("(for (var {var}) {it} {})", ref_body(body))
        }
        MStmt::Switch { control, cases, default } => {
            let cs: Vec<String> = cases.iter().map(|(vals, ss)| format!("(case (vals {}) {})", vals.iter().map(ref_expr).collect::<Vec<_>>().join(" "), ref_block(ss))).collect();
            match default {
                Some(d) => format!("(switch {} (cases {}) {})", ref_expr(control), cs.join(" "), ref_block(d)),
                None => format!("(switch {} (cases {}))", ref_expr(control), cs.join(" ")),
            }
        }
        MStmt::Break => leaf("(break)".into()),
        MStmt::Continue => leaf("(continue)".into()),
        MStmt::End => leaf("(end)".into()),
        MStmt::GateDef { name, params, qubits, body } => format!(
            "(gatedef (name {name}) {} (qubits {}) {})",
            if params.is_empty() { "none".to_string() } else { format!("(params {})", params.join(" ")) },
            qubits.join(" "),
            ref_block(body)
        ),
        MStmt::Def { name, params, ret, body } => format!(
            "(def (name {name}) (params {}) (ret {}) {})",
            params.iter().map(|p| p.1.clone()).collect::<Vec<_>>().join(" "),
            ret.as_ref().map(|r| ref_type(r)).unwrap_or("void".into()),
            ref_block(body)
        ),
        MStmt::Return(e) => leaf(format!("(exprstmt (return {}))", e.as_ref().map(ref_expr).unwrap_or("none".into()))),
        MStmt::Alias { name, rhs } => leaf(format!("(alias {name} {})", ref_expr(rhs))),
        MStmt::Pragma(t) => leaf(format!("(pragma {})", hex(&format!(" {t}")))),
        MStmt::Annotation(t) => format!("(ann {})", hex(&format!("@{t}"))),
        MStmt::IncludeStd => "(incstd)".into(),
        MStmt::ExprStmt(e) => leaf(format!("(exprstmt {})", ref_expr(e))),
        MStmt::Scope(ss) => leaf(format!("(scope {})", ss.iter().map(ref_stmt).collect::<Vec<_>>().join(" "))),
        MStmt::Empty => "(empty)".into(),
    }
}

// ---------------------------------------------------------------- reading the graph
struct Rd<'a> {
    syms: &'a [(String, String)],
}
impl<'a> Rd<'a> {
    fn sym(&self, d: &D) -> String {
        match d.name() {
            "Ok" => d.arg(0).and_then(|s| s.arg(0)).and_then(|n| n.name().parse::<usize>().ok()).and_then(|i| self.syms.get(i)).map(|s| s.0.clone()).unwrap_or("?badid".into()),
            _ => "?err".into(),
        }
    }
    fn opt<'d>(&self, d: &'d D) -> Option<&'d D> {
        // Some(x) / None
        if d.name() == "Some" {
            d.arg(0)
        } else {
            None
        }
    }
    fn expr(&self, d: &D) -> String {
        // TExpr { expression, ty }
        let e = if d.name() == "TExpr" { d.field("expression").unwrap() } else { d };
        let inner = |e: &D| e.arg(0).cloned().unwrap_or(D::Atom("".into()));
        match e.name() {
            "Literal" => {
                let l = inner(e);
                let v = inner(&l);
                let val = |k: &str| v.field(k).map(|x| match x {
                    D::Str(s) => s.clone(),
                    o => o.name().to_string(),
                }).unwrap_or_default();
                match l.name() {
                    "Int" => format!("(int {}{})", if val("sign") == "true" { "" } else { "-" }, val("value")),
                    "Float" => format!("(float {})", hex(&val("value"))),
                    "Bool" => format!("(bool {})", val("value")),
                    "BitString" => format!("(bits {})", hex(&val("value"))),
                    "TimingIntLiteral" => format!("(timing {}{} {})", if val("sign") == "true" { "" } else { "-" }, val("value"), unit(&val("time_unit"))),
                    "TimingFloatLiteral" => format!("(timingf {} {})", hex(&val("value")), unit(&val("time_unit"))),
                    "ImaginaryInt" => format!("(imag {}{})", if val("sign") == "true" { "" } else { "-" }, val("value")),
                    "ImaginaryFloat" => format!("(imagf {})", hex(&val("value"))),
                    o => format!("(lit? {o})"),
                }
            }
            "Identifier" => format!("(id {})", self.sym(&inner(e))),
            "HardwareQubit" => format!("(hw {})", hwname(&inner(e))),
            "BinaryExpr" => {
                let b = inner(e);
                let op = b.field("op").unwrap();
                let opn = if op.name() == "ArithOp" || op.name() == "CmpOp" { op.arg(0).unwrap().name().to_string() } else { op.name().to_string() };
                format!("(bin {opn} {} {})", self.expr(b.field("left").unwrap()), self.expr(b.field("right").unwrap()))
            }
            "UnaryExpr" => {
                let u = inner(e);
                format!("(neg {})", self.expr(u.field("operand").unwrap()))
            }
            "Cast" => self.expr(inner(e).field("operand").unwrap()),
            "SubroutineCall" => {
                let c = inner(e);
                let ps: Vec<String> = self.opt(c.field("params").unwrap()).map(|l| l.list().iter().map(|x| self.expr(x)).collect()).unwrap_or_default();
                format!("(call {} {})", self.sym(c.field("name").unwrap()), ps.join(" "))
            }
            "IndexedIdentifier" => self.indexed(&inner(e), "idxid"),
            "IndexExpression" => {
                let ie = inner(e);
                format!("(index {} {})", self.expr(ie.field("expr").unwrap()), self.index_op(ie.field("index").unwrap()))
            }
            "MeasureExpression" => format!("(measure {})", self.expr(inner(e).field("operand").unwrap())),
            "GateOperand" => {
                let g = inner(e);
                match g.name() {
                    "Identifier" => format!("(gopid {})", self.sym(&inner(&g))),
                    "HardwareQubit" => format!("(gophw {})", hwname(&inner(&g))),
                    "IndexedIdentifier" => self.indexed(&inner(&g), "gopidx"),
                    o => format!("(gop? {o})"),
                }
            }
            "Return" => {
                let r = inner(e);
                format!("(return {})", self.opt(r.field("value").unwrap()).map(|x| self.expr(x)).unwrap_or("none".into()))
            }
            "RangeExpression" => self.range(&inner(e)),
            o => format!("(expr? {o})"),
        }
    }
    fn index_op(&self, d: &D) -> String {
        // ExpressionList(ExpressionList { expressions: [..] }) / SetExpression(..)
        let i = d.arg(0).unwrap();
        i.field("expressions").map(|l| l.list().iter().map(|x| self.expr(x)).collect::<Vec<_>>().join(" ")).unwrap_or("?".into())
    }
    fn indexed(&self, ii: &D, label: &str) -> String {
        let idx: Vec<String> = ii.field("indexes").unwrap().list().iter().map(|x| self.index_op(x)).collect();
        format!("({label} {} {})", self.sym(ii.field("identifier").unwrap()), idx.join(" "))
    }
    fn range(&self, r: &D) -> String {
        format!(
            "(range {} {} {})",
            self.expr(r.field("start").unwrap()),
            self.opt(r.field("step").unwrap()).map(|x| self.expr(x)).unwrap_or("none".into()),
            self.expr(r.field("stop").unwrap())
        )
    }
    fn mods(&self, d: &D) -> String {
        let v: Vec<String> = d
            .list()
            .iter()
            .map(|m| match m.name() {
                "Inv" => "(inv)".to_string(),
                "Pow" => format!("(pow {})", self.expr(m.arg(0).unwrap())),
                "Ctrl" => format!("(ctrl {})", self.opt(m.arg(0).unwrap()).map(|x| self.expr(x)).unwrap_or("none".into())),
                "NegCtrl" => format!("(negctrl {})", self.opt(m.arg(0).unwrap()).map(|x| self.expr(x)).unwrap_or("none".into())),
                o => format!("(mod? {o})"),
            })
            .collect();
        format!("(mods {})", v.join(" "))
    }
    fn block(&self, d: &D) -> String {
        // Block { statements: [...] }
        format!("(oblock {})", d.field("statements").unwrap().list().iter().map(|s| self.stmt(s)).collect::<Vec<_>>().join(" "))
    }
    fn stmts(&self, d: &D) -> String {
        format!("(ostmts {})", d.list().iter().map(|s| self.stmt(s)).collect::<Vec<_>>().join(" "))
    }
    fn stmt(&self, d: &D) -> String {
        let leaf = |c: String| format!("(oleaf {c})");
        let i = d.arg(0).cloned().unwrap_or(D::Atom("".into()));
        let f = |k: &str| i.field(k).unwrap();
        match d.name() {
            "DeclareClassical" => leaf(format!("(declc {} {})", self.sym(f("name")), self.opt(f("initializer")).map(|x| self.expr(x)).unwrap_or("none".into()))),
            "DeclareQuantum" => leaf(format!("(declq {})", self.sym(f("name")))),
            "InputDeclaration" => leaf(format!("(input {})", self.sym(f("name")))),
            "OutputDeclaration" => leaf(format!("(output {})", self.sym(f("name")))),
            "Assignment" => {
                let lv = f("lvalue");
                let l = match lv.name() {
                    "Identifier" => format!("(lvid {})", self.sym(lv.arg(0).unwrap())),
                    _ => self.indexed(lv.arg(0).unwrap(), "lvidx"),
                };
                leaf(format!("(assign {l} {})", self.expr(f("rvalue"))))
            }
            "GateCall" => leaf(format!(
                "(gatecall {} {} (qubits {}) {})",
                self.sym(f("name")),
                self.opt(f("params")).map(|l| format!("(params {})", l.list().iter().map(|x| self.expr(x)).collect::<Vec<_>>().join(" "))).unwrap_or("none".into()),
                f("qubits").list().iter().map(|x| self.expr(x)).collect::<Vec<_>>().join(" "),
                self.mods(f("modifiers"))
            )),
            "GPhaseCall" => leaf(format!("(gphase {})", self.expr(f("arg")))),
            "ModifiedGPhaseCall" => leaf(format!("(mgphase {} {})", self.expr(f("arg")), self.mods(f("modifiers")))),
            "Reset" => leaf(format!("(reset {})", self.expr(f("gate_operand")))),
            "Barrier" => leaf(format!("(barrier {})", self.opt(f("qubits")).map(|l| l.list().iter().map(|x| self.expr(x)).collect::<Vec<_>>().join(" ")).unwrap_or("none".into()))),
            "Delay" => leaf(format!("(delay {} {})", self.expr(f("duration")), f("qubits").list().iter().map(|x| self.expr(x)).collect::<Vec<_>>().join(" "))),
            "Break" => leaf("(break)".into()),
            "Continue" => leaf("(continue)".into()),
            "End" => leaf("(end)".into()),
            "ExprStmt" => leaf(format!("(exprstmt {})", self.expr(&i))),
            "Alias" => leaf(format!("(alias {} {})", self.sym(f("name")), self.expr(f("rhs")))),
            "Pragma" => leaf(format!("(pragma {})", hex(&dstr(f("pragma_text"))))),
            "NullStmt" => leaf("(null)".into()),
            "If" => format!("(oif {} {} {})", self.expr(f("condition")), self.block(f("then_branch")), match self.opt(f("else_branch")) {
                Some(b) => format!("(osome {})", self.block(b)),
                None => "(onone)".into(),
            }),
            "While" => format!("(owhile {} {})", self.expr(f("condition")), self.block(f("loop_body"))),
            "ForStmt" => {
                let it = f("iterable");
                let its = match it.name() {
                    "RangeExpression" => self.range(it.arg(0).unwrap()),
                    "SetExpression" => format!("(set {})", it.arg(0).unwrap().field("expressions").unwrap().list().iter().map(|x| self.expr(x)).collect::<Vec<_>>().join(" ")),
                    _ => format!("(iterexpr {})", self.expr(it.arg(0).unwrap())),
                };
                format!("(ofor (var {}) {its} {})", self.sym(f("loop_var")), self.block(f("loop_body")))
            }
            "SwitchCaseStmt" => {
                let cs: Vec<String> = f("cases").list().iter().map(|c| format!("(ocase (vals {}) {})", c.field("control_values").unwrap().list().iter().map(|x| self.expr(x)).collect::<Vec<_>>().join(" "), self.stmts(c.field("statements").unwrap()))).collect();
                format!("(oswitch {} (ostmts {}) {})", self.expr(f("control")), cs.join(" "), match self.opt(f("default_block")) {
                    Some(b) => format!("(osome {})", self.stmts(b)),
                    None => "(onone)".into(),
                })
            }
            "GateDefinition" => format!(
                "(ogatedef (name {}) {} (qubits {}) {})",
                self.sym(f("name")),
                self.opt(f("params")).map(|l| format!("(params {})", l.list().iter().map(|x| self.sym(x)).collect::<Vec<_>>().join(" "))).unwrap_or("none".into()),
                f("qubits").list().iter().map(|x| self.sym(x)).collect::<Vec<_>>().join(" "),
                self.block(f("block"))
            ),
            "DefStmt" => format!(
                "(odef (name {}) (params {}) {} (ret {}))",
                self.sym(f("name")),
                f("params").list().iter().map(|x| self.sym(x)).collect::<Vec<_>>().join(" "),
                self.block(f("block")),
                if f("return_type").name() == "Void" { "void".to_string() } else { hex(&dbg_type(f("return_type"))) }
            ),
            "AnnotatedStmt" => format!(
                "(oannotated {} (oanns {}))",
                self.stmt(f("stmt")),
                f("annotations").list().iter().map(|a| hex(&dstr(a.field("annotation_text").unwrap()))).collect::<Vec<_>>().join(" ")
            ),
            o => format!("(stmt? {o})"),
        }
    }
}
fn dstr(d: &D) -> String {
    match d {
        D::Str(s) => s.replace("\\\"", "\"").replace("\\\\", "\\"),
        o => o.name().to_string(),
    }
}
fn hwname(d: &D) -> String {
    d.field("identifier").map(dstr).unwrap_or("?".into())
}
fn unit(u: &str) -> &'static str {
    match u {
        "Second" => "s",
        "MilliSecond" => "ms",
        "MicroSecond" => "us",
        "NanoSecond" => "ns",
        "Cycle" => "dt",
        _ => "?",
    }
}
fn dbg_type(d: &D) -> String {
    // Int(Some(8), True)
    match d {
        D::Node(n, v) => format!("{n}({})", v.iter().map(|(_, x)| dbg_type(x)).collect::<Vec<_>>().join(", ")),
        D::Atom(a) => a.clone(),
        _ => "?".into(),
    }
}

fn has_nested_annotation(ss: &[MStmt], depth: u32) -> bool {
    ss.iter().any(|s| match s {
        MStmt::Annotation(_) => depth > 0,
        MStmt::If { then, els, .. } => body_ann(then) || els.as_ref().map(body_ann).unwrap_or(false),
        MStmt::While { body, .. } | MStmt::For { body, .. } => body_ann(body),
        MStmt::Switch { cases, default, .. } => cases.iter().any(|c| has_nested_annotation(&c.1, 1)) || default.as_ref().map(|d| has_nested_annotation(d, 1)).unwrap_or(false),
        MStmt::GateDef { body, .. } | MStmt::Def { body, .. } => has_nested_annotation(body, 1),
        _ => false,
    })
}
fn body_ann(b: &MBody) -> bool {
    match b {
        MBody::Block(ss) => has_nested_annotation(ss, 1),
        MBody::Single(s) => has_nested_annotation(std::slice::from_ref(s), 1),
    }
}

pub fn graph_case(w: &mut impl Write, prog: &[MStmt], text: &str) {
    let src = format!("(file {})", prog.iter().map(ref_stmt).collect::<Vec<_>>().join(" "));
    let o = run_sema(text);
    let flat = text.replace('\n', "\\n").replace('\t', " ");
    if let Some(p) = &o.panic {
        writeln!(w, "graph\t{src}\tPANIC\tFAIL C03: analysis panicked on an error-free program: {} ;; {flat}", &p[..p.len().min(90)]).unwrap();
        return;
    }
    if o.any_syntax {
        writeln!(w, "graph\t{src}\tSYNTAX\tFAIL C04: a program of the reference grammar has syntax diagnostics ;; {flat}").unwrap();
        return;
    }
    let rd = Rd { syms: &o.symbols };
    let out: Vec<String> = o.stmts.iter().map(|s| rd.stmt(&parse_debug(s))).collect();
    let mut oracle = "ok".to_string();
    if has_nested_annotation(prog, 0) {
        oracle = "KNOWN C06.annotation_inside_block".into();
    }
    if o.scope_depth != 1 {
        oracle = format!("FAIL C03: {} scopes open after analysis", o.scope_depth);
    }
    writeln!(w, "graph\t{src}\t(ofile {})\t{oracle} ;; {flat}", out.join(" ")).unwrap();
}

pub fn run(args: &[String]) {
    silence_panics();
    let mut w = out();
    let seed = arg_u64(args, "--seed", 1);
    let n = arg_u64(args, "--random", 200);
    let shard = arg_u64(args, "--shard", 0);
    let nshards = arg_u64(args, "--nshards", 1);
    let maxdepth = arg_u64(args, "--depth", 5) as u32;
    for case in 0..n {
        if case % nshards != shard {
            continue;
        }
        let mut rng = Rng::new(seed.wrapping_mul(3_000_017).wrapping_add(case));
        let size = 2 + rng.below(10) as usize;
        let depth = rng.below(maxdepth as u64 + 1) as u32;
        let prog = Gen { rng: &mut rng, sema_safe: true }.program(size, depth);
        let lay = Layout { redundant_parens: rng.below(4) == 0, trivia: if rng.below(3) == 0 { 1 } else { 0 } };
        let (text, _) = print_program(&prog, lay, &mut rng);
        graph_case(&mut w, &prog, &text);
    }
    // operator table: every binary operator once, in two contexts
    if shard == 0 {
        let ops = ["||", "&&", "|", "^", "&", "==", "!=", "<", "<=", ">", ">=", "<<", ">>", "+", "-", "*", "/", "%", "**", "++"];
        for (code, op) in ops.iter().enumerate() {
            for ctx in 0..2 {
                let text = if ctx == 0 { format!("int a; int b; int x = a {op} b;") } else { format!("int a; int b; (a {op} b);") };
                let o = run_sema(&text);
                if let Some(p) = &o.panic {
                    let cls = if p.contains("not supported") || p.contains("unsupported") || p.contains("Unsupported") { "KNOWN C03.unsupported_operator_panics" } else { "FAIL C03: analysis panicked on an error-free program:" };
                    writeln!(w, "graphop\t{code}\tPANIC\t{cls} {} ;; {text}", &p[..p.len().min(80)]).unwrap();
                    continue;
                }
                if o.any_syntax {
                    writeln!(w, "graphop\t{code}\tSYNTAX\tFAIL C04: a program of the reference grammar has syntax diagnostics ;; {text}").unwrap();
                    continue;
                }
                let rd = Rd { syms: &o.symbols };
                let last = rd.stmt(&parse_debug(o.stmts.last().unwrap()));
                // (oleaf (declc x (bin OP ..))) / (oleaf (exprstmt (bin OP ..)))
                let opn = last.split("(bin ").nth(1).and_then(|r| r.split(' ').next()).unwrap_or("?").to_string();
                writeln!(w, "graphop\t{code}\t{opn}\tok ;; {text}").unwrap();
            }
        }
    }
    finish(w);
}
