// Family `scope` (C07): programs over a small pool of colliding names (user names, built-in
// constants, U, standard gate names) with nested scopes; the symbol references stored in the
// graph are read back in analysis order and compared with the lexical reference of the model.
// Line: "scope\t<items>\t<events>|<diags>\t<oracle>"
//   items : d<n> declaration, h<n> declaration made by `include "stdgates.inc"` (not in the graph),
//           u<n> variable use, g<n> gate-name use, [ local scope, ( subroutine scope, ] end
//   events: B<id> bound, D duplicate, R<id> resolved, U unresolved (graph order = analysis order)
//   diags : V<n> UndefVarError, G<n> UndefGateError (n unknown: 0), X<n> RedeclarationError(name)
use crate::sema::*;
use crate::util::*;
use std::collections::HashMap;
use std::io::Write;

const POOL: &[&str] = &["a", "b", "pi", "U", "h", "x"];
const STD_ORDER: &[&str] = &[
    "x", "y", "z", "h", "s", "sdg", "t", "tdg", "sx", "id", "p", "rx", "ry", "rz", "phase", "u1", "u2", "u3", "cx", "cy", "cz", "ch", "swap", "CX", "cp", "crx", "cry", "crz", "cphase", "cu", "ccx",
    "cswap",
];

struct G<'a> {
    rng: &'a mut Rng,
    text: String,
    items: Vec<String>,
    /// names in item order (None for scope brackets)
    written: Vec<Option<String>>,
    names: HashMap<String, u32>,
    defs: Vec<(String, usize)>,
    fresh: u32,
}

impl<'a> G<'a> {
    fn num(&mut self, n: &str) -> u32 {
        let builtin = ["pi", "π", "euler", "ℇ", "tau", "τ", "U"];
        if let Some(i) = builtin.iter().position(|b| *b == n) {
            return 100 + i as u32;
        }
        let k = self.names.len() as u32 + 1;
        *self.names.entry(n.to_string()).or_insert(k)
    }
    fn item(&mut self, tag: char, n: &str) {
        let k = self.num(n);
        self.items.push(format!("{tag}{k}"));
        self.written.push(Some(n.to_string()));
    }
    fn open(&mut self, sub: bool) {
        self.items.push(if sub { "(".into() } else { "[".into() });
        self.written.push(None);
    }
    fn close(&mut self) {
        self.items.push("]".into());
        self.written.push(None);
    }
    fn pool(&mut self) -> &'static str {
        POOL[self.rng.below(POOL.len() as u64) as usize]
    }
    /// expression text; appends its uses in analysis order
    fn expr(&mut self, depth: u32) -> String {
        if depth == 0 || self.rng.below(3) == 0 {
            return if self.rng.below(4) == 0 {
                format!("{}", self.rng.below(9))
            } else {
                let n = self.pool();
                self.item('u', n);
                n.to_string()
            };
        }
        match self.rng.below(7) {
            0 => {
                let e = self.expr(depth - 1);
                format!("-({e})")
            }
            1 => {
                let e = self.expr(depth - 1);
                format!("int[32]({e})")
            }
            2 => {
                // index expression: base then index
                let n = self.pool();
                self.item('u', n);
                let e = self.expr(depth - 1);
                format!("{n}[{e}]")
            }
            3 if !self.defs.is_empty() => {
                let (f, np) = self.defs[self.rng.below(self.defs.len() as u64) as usize].clone();
                let np = if self.rng.below(4) == 0 { self.rng.below(3) as usize } else { np };
                let args: Vec<String> = (0..np).map(|_| self.expr(depth - 1)).collect();
                self.item('u', &f);
                format!("{f}({})", args.join(", "))
            }
            _ => {
                let l = self.expr(depth - 1);
                let op = ["+", "-", "*", "&", "<<"][self.rng.below(5) as usize];
                let r = self.expr(depth - 1);
                format!("({l} {op} {r})")
            }
        }
    }
    fn operand(&mut self) -> String {
        let n = self.pool();
        self.item('u', n);
        if self.rng.below(4) == 0 {
            let e = self.expr(1);
            format!("{n}[{e}]")
        } else {
            n.to_string()
        }
    }
    fn block(&mut self, depth: u32, sub: bool, pre: &[(&str, char)]) {
        self.open(sub);
        for (n, c) in pre {
            self.item(*c, n);
        }
        self.text.push_str("{ ");
        let k = self.rng.below(4);
        for _ in 0..k {
            self.stmt(depth.saturating_sub(1), false);
        }
        self.text.push_str("} ");
        self.close();
    }
    /// the body of if / else / while / for: a block, or a single statement without braces (which is
    /// analysed in a scope of its own just as well -- a declaration there does not leak)
    fn body(&mut self, depth: u32, pre: &[(&str, char)]) {
        if self.rng.below(3) == 0 {
            self.open(false);
            for (n, _) in pre {
                self.item('d', n);
            }
            self.stmt(0, false);
            self.close();
        } else {
            self.block(depth, false, pre);
        }
    }
    fn stmt(&mut self, depth: u32, global: bool) {
        let r = self.rng.below(if depth == 0 { 8 } else { 15 });
        match r {
            0 | 1 => {
                let n = self.pool();
                match self.rng.below(5) {
                    0 => {
                        self.text.push_str(&format!("int {n}; "));
                        self.item('d', n);
                    }
                    1 => {
                        let e = self.expr(2);
                        self.text.push_str(&format!("int {n} = {e}; "));
                        self.item('d', n);
                    }
                    2 => {
                        self.text.push_str(&format!("qubit {n}; "));
                        self.item('d', n);
                    }
                    3 => {
                        self.text.push_str(&format!("const int {n} = 2; "));
                        self.item('d', n);
                    }
                    _ => {
                        let e = self.expr(1);
                        self.text.push_str(&format!("float {n} = {e}; "));
                        self.item('d', n);
                    }
                }
            }
            2 => {
                let n = self.pool();
                let e = self.expr(2);
                self.text.push_str(&format!("{n} = {e}; "));
                self.item('u', n);
            }
            3 => {
                let e = self.expr(2);
                self.text.push_str(&format!("({e}); "));
            }
            4 | 5 => {
                // gate call: operands, then parameters, then the gate name
                let g = self.pool();
                let nq = 1 + self.rng.below(2);
                let qs: Vec<String> = (0..nq).map(|_| self.operand()).collect();
                let np = self.rng.below(3);
                let ps: Vec<String> = (0..np).map(|_| self.expr(1)).collect();
                self.item('g', g);
                let pl = if np == 0 { String::new() } else { format!("({})", ps.join(", ")) };
                self.text.push_str(&format!("{g}{pl} {}; ", qs.join(", ")));
            }
            6 => {
                let q = self.operand();
                let form = ["measure", "reset", "barrier"][self.rng.below(3) as usize];
                self.text.push_str(&format!("{form} {q}; "));
            }
            7 => {
                // indexed assignment: target first, then the right-hand side
                let n = self.pool();
                self.item('u', n);
                let i = self.expr(1);
                let e = self.expr(1);
                self.text.push_str(&format!("{n}[{i}] = {e}; "));
            }
            8 => {
                let c = self.expr(1);
                self.text.push_str(&format!("if ({c} == 1) "));
                self.body(depth, &[]);
                if self.rng.below(2) == 0 {
                    self.text.push_str("else ");
                    self.body(depth, &[]);
                } else {
                    // the analyser opens and closes a scope for the absent else branch
                    self.open(false);
                    self.close();
                }
            }
            9 => {
                let c = self.expr(1);
                self.text.push_str(&format!("while ({c} == 1) "));
                self.body(depth, &[]);
            }
            10 => {
                let v = self.pool();
                match self.rng.below(3) {
                    0 => {
                        // range: start, stop, then step
                        let a = self.expr(1);
                        let b = self.expr(1);
                        self.text.push_str(&format!("for int {v} in [{a}:{b}] "));
                    }
                    1 => {
                        let a = self.expr(1);
                        let b = self.expr(1);
                        let s = self.expr(0);
                        self.text.push_str(&format!("for int {v} in [{a}:{s}:{b}] "));
                    }
                    _ => {
                        let a = self.expr(1);
                        let b = self.expr(1);
                        self.text.push_str(&format!("for int {v} in {{{a}, {b}}} "));
                    }
                }
                self.body(depth, &[(v, 'd')]);
            }
            11 => {
                let c = self.expr(1);
                self.text.push_str(&format!("switch ({c}) {{ "));
                let nc = 1 + self.rng.below(2);
                for i in 0..nc {
                    self.text.push_str(&format!("case {} ", i + 1));
                    self.block(depth, false, &[]);
                }
                if self.rng.below(2) == 0 {
                    self.text.push_str("default ");
                    self.block(depth, false, &[]);
                } else {
                    self.open(false);
                    self.close();
                }
                self.text.push_str("} ");
            }
            12 if global || self.rng.below(8) == 0 => {
                // gate definition: parameters, qubits, body in one subroutine scope; name bound afterwards
                let g = if self.rng.below(2) == 0 { self.pool().to_string() } else { self.fresh("gg") };
                let np = self.rng.below(3);
                let nq = 1 + self.rng.below(2);
                let ps: Vec<&str> = (0..np).map(|_| self.pool()).collect();
                let qs: Vec<&str> = (0..nq).map(|_| self.pool()).collect();
                let pl = if np == 0 { String::new() } else { format!("({})", ps.join(", ")) };
                self.text.push_str(&format!("gate {g}{pl} {} ", qs.join(", ")));
                let mut pre: Vec<(&str, char)> = ps.iter().map(|p| (*p, 'd')).collect();
                pre.extend(qs.iter().map(|q| (*q, 'd')));
                self.block(depth, true, &pre);
                self.item('d', &g);
            }
            13 if global => {
                let f = self.fresh("f");
                let np = self.rng.below(3) as usize;
                let ps: Vec<&str> = (0..np).map(|_| self.pool()).collect();
                // a parameter type may name a width: that identifier is a use at this point of the signature
                // (after the parameters before it, before the parameter itself); tag 't': a use that is not
                // stored in the graph, only its diagnostic shows
                let mut pl: Vec<String> = Vec::new();
                let mut pre: Vec<(&str, char)> = Vec::new();
                for p in &ps {
                    if self.rng.below(3) == 0 {
                        let wn = self.pool();
                        pl.push(format!("{}[{wn}] {p}", if self.rng.below(2) == 0 { "int" } else { "bit" }));
                        pre.push((wn, 't'));
                    } else {
                        pl.push(format!("int {p}"));
                    }
                    pre.push((*p, 'd'));
                }
                self.text.push_str(&format!("def {f}({}) ", pl.join(", ")));
                self.block(depth, true, &pre);
                self.item('d', &f);
                self.defs.push((f, np));
            }
            _ => {
                let n = self.pool();
                self.text.push_str(&format!("int {n}; "));
                self.item('d', n);
            }
        }
    }
    fn fresh(&mut self, p: &str) -> String {
        self.fresh += 1;
        format!("{p}{}", self.fresh)
    }
}

fn sym_of(d: &D) -> Option<String> {
    // Ok(SymbolId(n)) / Err(..)
    match d.name() {
        "Ok" => d.arg(0).and_then(|s| s.arg(0)).map(|n| n.name().to_string()),
        "Err" => Some("E".to_string()),
        _ => None,
    }
}

/// symbol references of the graph in the order the analyser created them
fn events(d: &D, out: &mut Vec<String>, undefined_ok: &mut bool) {
    let decl = |d: &D, out: &mut Vec<String>| match sym_of(d) {
        Some(s) if s == "E" => out.push("D".into()),
        Some(s) => out.push(format!("B{s}")),
        None => out.push("?".into()),
    };
    let usev = |d: &D, out: &mut Vec<String>| match sym_of(d) {
        Some(s) if s == "E" => out.push("U".into()),
        Some(s) => out.push(format!("R{s}")),
        None => out.push("?".into()),
    };
    match d {
        D::List(v) => {
            for x in v {
                events(x, out, undefined_ok);
            }
        }
        D::Node(name, fields) => {
            let f = |k: &str| d.field(k);
            let positional = fields.iter().all(|(k, _)| k.is_none());
            let key = if positional && name != "Identifier" { "" } else { name.as_str() };
            match key {
                "GateDefinition" => {
                    if let Some(p) = f("params") {
                        // Some([..]) / None
                        if let Some(l) = p.arg(0) {
                            for x in l.list() {
                                decl(x, out);
                            }
                        }
                    }
                    for x in f("qubits").map(|q| q.list()).unwrap_or(&[]) {
                        decl(x, out);
                    }
                    events(f("block").unwrap(), out, undefined_ok);
                    decl(f("name").unwrap(), out);
                }
                "DefStmt" => {
                    for x in f("params").map(|q| q.list()).unwrap_or(&[]) {
                        decl(x, out);
                    }
                    events(f("block").unwrap(), out, undefined_ok);
                    decl(f("name").unwrap(), out);
                }
                "DeclareClassical" => {
                    events(f("initializer").unwrap(), out, undefined_ok);
                    decl(f("name").unwrap(), out);
                }
                "DeclareQuantum" | "InputDeclaration" | "OutputDeclaration" => decl(f("name").unwrap(), out),
                "Alias" => {
                    events(f("rhs").unwrap(), out, undefined_ok);
                    decl(f("name").unwrap(), out);
                }
                "Assignment" => {
                    let lv = f("lvalue").unwrap();
                    if lv.name() == "Identifier" {
                        events(f("rvalue").unwrap(), out, undefined_ok);
                        usev(lv.arg(0).unwrap(), out);
                    } else {
                        events(lv, out, undefined_ok);
                        events(f("rvalue").unwrap(), out, undefined_ok);
                    }
                }
                "ForStmt" => {
                    events(f("iterable").unwrap(), out, undefined_ok);
                    decl(f("loop_var").unwrap(), out);
                    events(f("loop_body").unwrap(), out, undefined_ok);
                }
                "GateCall" => {
                    events(f("qubits").unwrap(), out, undefined_ok);
                    events(f("params").unwrap(), out, undefined_ok);
                    usev(f("name").unwrap(), out);
                    events(f("modifiers").unwrap(), out, undefined_ok);
                }
                "SubroutineCall" => {
                    events(f("params").unwrap(), out, undefined_ok);
                    usev(f("name").unwrap(), out);
                }
                "RangeExpression" => {
                    events(f("start").unwrap(), out, undefined_ok);
                    events(f("stop").unwrap(), out, undefined_ok);
                    events(f("step").unwrap(), out, undefined_ok);
                }
                "IndexedIdentifier" if f("identifier").is_some() => {
                    usev(f("identifier").unwrap(), out);
                    events(f("indexes").unwrap(), out, undefined_ok);
                }
                "Identifier" if fields.len() == 1 && sym_of(&fields[0].1).is_some() => usev(&fields[0].1, out),
                "TExpr" => {
                    let e = f("expression").unwrap();
                    if e.name() == "Identifier" && e.arg(0).map(|x| x.name() == "Err").unwrap_or(false) && f("ty").map(|t| t.name() != "Undefined").unwrap_or(true) {
                        *undefined_ok = false;
                    }
                    events(e, out, undefined_ok);
                }
                _ => {
                    for (_, x) in fields {
                        events(x, out, undefined_ok);
                    }
                }
            }
        }
        _ => {}
    }
}

pub fn run(args: &[String]) {
    silence_panics();
    let mut w = out();
    let seed = arg_u64(args, "--seed", 1);
    let n = arg_u64(args, "--random", 200);
    let shard = arg_u64(args, "--shard", 0);
    let nshards = arg_u64(args, "--nshards", 1);
    let maxdepth = arg_u64(args, "--depth", 5) as u32;
    for case in 0..n {
        if case % nshards != shard {
            continue;
        }
        let mut rng = Rng::new(seed.wrapping_mul(7_000_003).wrapping_add(case));
        let size = 2 + rng.below(10);
        let depth = 1 + rng.below(maxdepth as u64) as u32;
        let inc_at = if rng.below(2) == 0 { Some(rng.below(size.min(4))) } else { None };
        let mut g = G { rng: &mut rng, text: String::new(), items: vec![], written: vec![], names: HashMap::new(), defs: vec![], fresh: 0 };
        for i in 0..size {
            if inc_at == Some(i) {
                g.text.push_str("include \"stdgates.inc\"; ");
                for s in STD_ORDER {
                    g.item('h', s);
                }
            }
            g.stmt(depth, true);
        }
        let text = g.text.clone();
        let items = g.items.join(" ");
        let written = g.written.clone();
        let names: HashMap<u32, String> = g.names.iter().map(|(k, v)| (*v, k.clone())).collect();
        let _ = names;
        let o = run_sema(&text);
        if let Some(p) = &o.panic {
            writeln!(w, "scope\t{items}\tPANIC\tFAIL C03: analysis panicked on an error-free program: {} ;; {text}", &p[..p.len().min(90)]).unwrap();
            continue;
        }
        if o.any_syntax {
            writeln!(w, "scope\t{items}\tSYNTAX\tSKIP generated program has syntax errors ;; {text}").unwrap();
            continue;
        }
        let mut ev = Vec::new();
        let mut undefined_ok = true;
        for s in &o.stmts {
            events(&parse_debug(s), &mut ev, &mut undefined_ok);
        }
        // diagnostics about names, in order
        let mut diags = Vec::new();
        for (k, _, _, _) in &o.errors {
            if k.starts_with("UndefVarError") {
                diags.push("V".to_string());
            } else if k.starts_with("UndefGateError") {
                diags.push("G".to_string());
            } else if k.starts_with("RedeclarationError") {
                let nm = k.split('"').nth(1).unwrap_or("");
                diags.push(format!("X{}", g.num(nm)));
            }
        }
        // oracle: every stored reference indexes a symbol whose name is the identifier as written
        let mut oracle = "ok".to_string();
        let vis: Vec<&String> = written.iter().zip(g.items.iter()).filter(|(w, it)| w.is_some() && !it.starts_with('h') && !it.starts_with('t')).map(|(w, _)| w.as_ref().unwrap()).collect();
        if vis.len() == ev.len() {
            for (nm, e) in vis.iter().zip(ev.iter()) {
                if let Some(id) = e.strip_prefix('B').or_else(|| e.strip_prefix('R')) {
                    let id: usize = id.parse().unwrap_or(usize::MAX);
                    match o.symbols.get(id) {
                        Some((sn, _)) if sn == *nm => {}
                        other => {
                            oracle = format!("FAIL C07: reference {e} for identifier '{nm}' indexes {:?} in the final symbol table", other.map(|x| &x.0));
                            break;
                        }
                    }
                }
            }
        }
        if !undefined_ok {
            oracle = "FAIL C07: an unresolved identifier is not typed Undefined".into();
        }
        if o.scope_depth != 1 {
            oracle = format!("FAIL C03: {} scopes open after analysis", o.scope_depth);
        }
        writeln!(w, "scope\t{items}\t{}|{}\t{oracle} ;; {text}", ev.join(" "), diags.join(" ")).unwrap();
    }
    finish(w);
}
