// Family `sema`: placeholder dispatcher (probe mode) -- extended below by sub-families.
use crate::sema::*;
use crate::util::*;
use std::io::Write;

pub fn run(args: &[String]) {
    silence_panics();
    let mut w = out();
    if let Some(t) = arg_val(args, "--probe") {
        let o = run_sema(&t);
        writeln!(w, "{o:#?}").unwrap();
        for s in &o.stmts {
            writeln!(w, "{:?}", parse_debug(s)).unwrap();
        }
    }
    finish(w);
}
