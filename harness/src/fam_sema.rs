// Family `sema`: placeholder dispatcher (probe mode) -- extended below by sub-families.
use crate::sema::*;
use crate::util::*;
use std::io::Write;

pub fn run(args: &[String]) {
    silence_panics();
    let mut w = out();
    if args.iter().any(|a| a == "--gen-demo") {
        let mut rng = Rng::new(arg_u64(args, "--seed", 1));
        for _ in 0..arg_u64(args, "--n", 3) {
            let prog = crate::gen::Gen { rng: &mut rng, sema_safe: true }.program(8, 2);
            let (text, _) = crate::gen::print_program(&prog, crate::gen::Layout { redundant_parens: false, trivia: 0 }, &mut rng);
            let o = run_sema(&text);
            writeln!(w, "-----\n{text}\n=> syntax_errors={} panic={:?} errors={:?}", o.syntax_errors, o.panic, o.errors.iter().map(|e| e.0.clone()).collect::<Vec<_>>()).unwrap();
        }
    }
    if let Some(t) = arg_val(args, "--probe") {
        let o = run_sema(&t);
        writeln!(w, "{o:#?}").unwrap();
        for s in &o.stmts {
            writeln!(w, "{:?}", parse_debug(s)).unwrap();
        }
    }
    finish(w);
}
