// Harness: runs the implementation (/repo, built with --cfg oq3_verif) on generated or given
// cases and prints one canonical line per case: "<family>\t<input>\t<impl result>".
// The extracted Coq model (extract/driver) reads these lines and reports disagreements.
mod fam_lex;
mod gen;
mod fam_lit;
mod fam_pk;
mod fam_sema;
mod fam_semt;
mod fam_semw;
mod fam_scope;
mod fam_shape;
mod fam_graph;
mod fam_accept;
mod fam_nopanic;
mod fam_meta;
mod fam_inc;
mod sema;
mod fam_tree;
mod fam_use;
mod fam_symtab;
mod fam_types;
mod util;

fn main() {
    let args: Vec<String> = std::env::args().collect();
    if args.len() < 2 {
        eprintln!("usage: oq3h <family> [args]");
        std::process::exit(2);
    }
    let rest = &args[2..];
    match args[1].as_str() {
        "types" => fam_types::run(rest),
        "symtab" => fam_symtab::run(rest),
        "lex" => fam_lex::run(rest),
        "lit" => fam_lit::run(rest),
        "pk" => fam_pk::run(rest),
        "tree" => fam_tree::run(rest),
        "sema" => fam_sema::run(rest),
        "semt" => fam_semt::run(rest),
        "semw" => fam_semw::run(rest),
        "use" => fam_use::run(rest),
        "scope" => fam_scope::run(rest),
        "shape" => fam_shape::run(rest),
        "graph" => fam_graph::run(rest),
        "accept" => fam_accept::run(rest),
        "nopanic" => fam_nopanic::run(rest),
        "meta" => fam_meta::run(rest),
        "inc" => fam_inc::run(rest),
        f => {
            eprintln!("unknown family {f}");
            std::process::exit(2);
        }
    }
}
