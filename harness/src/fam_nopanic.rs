// Family `nopanic` (C03): semantic analysis returns normally on every syntax-error-free program.
// Sources: statement templates in contexts (with and without declarations of the names they use),
// generated programs of the wider grammar, programs with injected semantic faults (deleted,
// duplicated, swapped statements), the repository's snippets and token-level mutants of them,
// statement templates with random expression holes; only inputs without syntax diagnostics count.
// Line: "nopanic\t<source class>\t<result: ok|PANIC site>\t<oracle>"
use crate::fam_accept::{ctx_wrap, templates};
use crate::gen::*;
use crate::sema::*;
use crate::util::*;
use std::cell::RefCell;
use std::io::Write;

thread_local! {
    pub static LAST_PANIC_LOC: RefCell<String> = RefCell::new(String::new());
}

pub fn install_hook() {
    std::panic::set_hook(Box::new(|info| {
        let loc = info.location().map(|l| format!("{}:{}", l.file().rsplit('/').next().unwrap_or(""), l.line())).unwrap_or_default();
        // the innermost function of the repository on the stack names the site (robust against line shifts)
        let bt = std::backtrace::Backtrace::force_capture().to_string();
        let mut site = String::new();
        for line in bt.lines() {
            let l = line.trim();
            if let Some(i) = l.find(": ") {
                let f = &l[i + 2..];
                if (f.starts_with("oq3_semantics::") || f.starts_with("oq3_source_file::") || f.starts_with("oq3_syntax::") || f.starts_with("<oq3_")) && !f.contains("{{closure}}::{{closure}}") {
                    site = f.split("::h").next().unwrap_or(f).replace("::{{closure}}", "").to_string();
                    break;
                }
            }
        }
        LAST_PANIC_LOC.with(|c| *c.borrow_mut() = format!("{site}@{loc}"));
    }));
}

const PRELUDE: &str = "include \"stdgates.inc\";\nqubit q; qubit[4] r; qubit[4] qr; int a; int b; int c; int d; int e; int x; int y; bit[4] cb; float t; float u; duration dd = 5ns; int[8] arr; def f(int p0, int p1) -> int { return p0; }\n";

/// known panic classes: by site function (innermost repository function on the stack), message and source class
pub fn classify(msg: &str, site: &str, class: &str) -> Option<&'static str> {
    let m = msg;
    let f = site.rsplit("::").next().unwrap_or("");
    if f == "binary_op_to_asg_type" {
        return Some("C03.unsupported_operator_panics");
    }
    if f == "expr_to_asg_texpr" && (m.contains("Unary operators other than minus") || m.contains("are supported as operands to unary minus")) {
        return Some("C03.unsupported_unary_operand_panics");
    }
    if (f == "expr_to_asg_texpr" || f == "io_declaration_statement_to_asg_stmt") && (m.contains("not supported") || m.contains("are not supported")) {
        return Some("C03.unsupported_expression_panics");
    }
    // an integer literal that has no u128 value (a digit outside its radix: 0b123, or >= 2^128)
    if (f == "literal_to_asg_texpr" || f == "negative_int_to_asg_type") && m.contains("called `Option::unwrap()` on a `None` value") {
        return Some("C03.integer_literal_without_value_panics");
    }
    // inputs the parser accepts although a mandatory constituent is missing or of the wrong kind
    // (call of a literal, `$0` as a name, a string followed by an identifier, compound assignment ...):
    // only token-level mutants and the repository's own snippets reach these
    let missing_child = m.contains("called `Option::unwrap()` on a `None` value") || m.contains("You have found a bug in oq3_parser") || m.contains("Error in oq3_syntax") || m.contains("expr::ExprStmt is None");
    let listed_site = ["call_expr_to_asg_texpr", "expr_to_asg_texpr", "expr_stmt_to_asg_stmt", "stmt_to_asg_stmt", "block_or_stmt", "true_body_block_or_stmt", "qubit_list_to_asg_texpr", "range_expression_to_asg_type", "gate_call_expr_to_asg_stmt", "assignment_stmt_to_asg_stmt", "classical_declaration_statement_to_asg_stmt", "scalar_type_to_type", "index_operator_to_asg_type"].contains(&f);
    if missing_child && listed_site && (class == "mutant" || class == "corpus" || class == "witness") {
        return Some("C03.malformed_tree_unwrap_panics");
    }
    None
}

fn case(w: &mut impl Write, class: &str, text: &str) {
    // only syntax-error-free inputs are in scope (a parser panic is C01's business)
    match catch(|| oq3_syntax::SourceFile::parse(text).errors().len()) {
        Ok(0) => {}
        Ok(_) => {
            // C11: with any syntax diagnostic the analysis is not run: empty program, no semantic diagnostics
            let o = run_sema(text);
            let flat = text.replace('\n', "\\n").replace('\t', " ");
            let verdict = if let Some(p) = &o.panic {
                format!("FAIL C11: the pipeline panicked on an input with syntax diagnostics: {} ;; {flat}", &p[..p.len().min(100)])
            } else if !o.any_syntax || !o.stmts.is_empty() || !o.errors.is_empty() {
                format!("FAIL C11: the input has syntax diagnostics but the analysis ran (any_syntax_errors={}, {} statements, {} semantic diagnostics) ;; {flat}", o.any_syntax, o.stmts.len(), o.errors.len())
            } else {
                "SKIP input has syntax diagnostics".to_string()
            };
            writeln!(w, "nopanic\t{class}\tSYNTAX\t{verdict}").unwrap();
            return;
        }
        _ => {
            writeln!(w, "nopanic\t{class}\tSYNTAX\tSKIP input has syntax diagnostics").unwrap();
            return;
        }
    }
    let o = run_sema(text);
    let flat = text.replace('\n', "\\n").replace('\t', " ");
    let flat = if flat.len() > 600 { format!("{}...", &flat[..flat.char_indices().take_while(|(i, _)| *i < 600).last().map(|x| x.0).unwrap_or(0)]) } else { flat };
    if let Some(p) = &o.panic {
        let full = LAST_PANIC_LOC.with(|c| c.borrow().clone());
        let loc = full.split('@').next().unwrap_or("").to_string();
        let loc = if loc.is_empty() { full.clone() } else { loc };
        // a panic while parsing is C01's; only the analyser's are decided here. Parsing panics show no syntax count.
        let msg = &p[..p.len().min(100)];
        match classify(p, &loc, class) {
            Some(k) => writeln!(w, "nopanic\t{class}\tPANIC {loc}\tKNOWN {k} {msg} ;; {flat}").unwrap(),
            None => writeln!(w, "nopanic\t{class}\tPANIC {loc}\tFAIL C03: analysis panicked at {loc}: {msg} ;; {flat}").unwrap(),
        }
        return;
    }
    if o.any_syntax {
        writeln!(w, "nopanic\t{class}\tSYNTAX\tFAIL C11: the parse has no diagnostic but the analysis reports syntax errors and did not run ;; {flat}").unwrap();
        return;
    }
    if o.scope_depth != 1 {
        writeln!(w, "nopanic\t{class}\tok\tFAIL C03: {} scopes open after analysis ;; {flat}", o.scope_depth).unwrap();
        return;
    }
    writeln!(w, "nopanic\t{class}\tok\tok").unwrap();
}

pub fn run(args: &[String]) {
    install_hook();
    let mut w = out();
    let seed = arg_u64(args, "--seed", 1);
    let shard = arg_u64(args, "--shard", 0);
    let nshards = arg_u64(args, "--nshards", 1);
    let mut k = 0u64;
    let mut mine = || {
        k += 1;
        k % nshards == shard
    };
    // (a) statement templates in contexts, with undeclared names and with a prelude declaring them
    if arg_u64(args, "--templates", 1) > 0 {
        for (_, t) in templates() {
            for c in 0..10 {
                if mine() {
                    case(&mut w, "template", &ctx_wrap(c, &t));
                }
                if mine() {
                    case(&mut w, "template+prelude", &format!("{PRELUDE}{}", ctx_wrap(c, &t)));
                }
            }
            // every statement form as a brace-less body (the analyser wraps it in a block itself)
            for wrapped in [format!("if (c) {t}"), format!("if (c) c = 1; else {t}"), format!("while (c) {t}"), format!("for int i in [0:1] {t}"), format!("def ff() {{ if (c) {t} }}")] {
                if mine() {
                    case(&mut w, "template-braceless", &wrapped);
                }
                if mine() {
                    case(&mut w, "template-braceless+prelude", &format!("{PRELUDE}{wrapped}"));
                }
            }
        }
        // witnesses of listed findings, so that they are reported on every run
        for t in ["0b123;", "int x = 340282366920938463463374607431768211456;", "x = -0o9;", "def f(mutable array[uint[16], 4, 2] a) {}", "array[int[8], 2] a = {1, 2};",
                  // empty parentheses are accepted as an expression (pinned by parse_gate_call_err1_test) and have no translation
                  "while (()) {}", "gphase();"] {
            if mine() {
                case(&mut w, "witness", t);
            }
        }
        // the repository's snippets
        for s in crate::fam_tree::corpus() {
            if mine() {
                case(&mut w, "corpus", &s);
            }
        }
    }
    // (b) generated programs of the wider grammar, and the same with injected faults
    for i in 0..arg_u64(args, "--programs", 0) {
        if i % nshards != shard {
            continue;
        }
        let mut rng = Rng::new(seed.wrapping_mul(17_000_023).wrapping_add(i));
        let size = 2 + rng.below(10) as usize;
        let depth = rng.below(5) as u32;
        let safe = rng.below(2) == 0;
        let mut prog = Gen { rng: &mut rng, sema_safe: safe }.program(size, depth);
        let lay = Layout { redundant_parens: false, trivia: 0 };
        let (text, _) = print_program(&prog, lay, &mut rng);
        case(&mut w, if safe { "program" } else { "program-wide" }, &text);
        // faults: delete / duplicate / swap top-level statements
        for _ in 0..2 {
            if prog.len() < 2 {
                break;
            }
            let a = rng.below(prog.len() as u64) as usize;
            match rng.below(3) {
                0 => {
                    prog.remove(a);
                }
                1 => {
                    let s = prog[a].clone();
                    let b = rng.below(prog.len() as u64 + 1) as usize;
                    prog.insert(b, s);
                }
                _ => {
                    let b = rng.below(prog.len() as u64) as usize;
                    prog.swap(a, b);
                }
            }
        }
        let (text, _) = print_program(&prog, lay, &mut rng);
        case(&mut w, "program-faults", &text);
    }
    // (c) token-level mutants of snippet windows and templates with random holes (those that parse cleanly)
    let nm = arg_u64(args, "--mutants", 0);
    if nm > 0 {
        let mut rng = Rng::new(seed.wrapping_mul(19_000_013).wrapping_add(shard));
        let corp = crate::fam_tree::corpus();
        for _ in 0..nm / nshards.max(1) {
            let src = &corp[rng.below(corp.len() as u64) as usize];
            let lexed = oq3_parser::LexedStr::new(src);
            let mut toks: Vec<String> = (0..lexed.len()).map(|i| lexed.text(i).to_string()).collect();
            if toks.len() < 2 {
                continue;
            }
            for _ in 0..(1 + rng.below(2)) {
                let i = rng.below(toks.len() as u64) as usize;
                match rng.below(4) {
                    0 => {
                        toks.remove(i);
                    }
                    1 => {
                        let j = rng.below(toks.len() as u64) as usize;
                        toks.swap(i, j);
                    }
                    2 => {
                        let t = toks[i].clone();
                        toks.insert(i, t);
                    }
                    _ => {
                        let frag = ["1", "x", "q", "2.5", "3ns", "\"01\"", "true", "(", ")", "[0]", "-", "+", "**", "<", "&&", "~", "!", "$0", "int", "pi", "im", "{", "}", ";"];
                        toks[i] = frag[rng.below(frag.len() as u64) as usize].to_string();
                    }
                }
                if toks.is_empty() {
                    break;
                }
            }
            case(&mut w, "mutant", &toks.concat());
        }
    }
    finish(w);
}
