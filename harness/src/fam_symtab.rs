// Family `symtab`: operation histories on oq3_semantics::symbols::SymbolTable.
// Line: "symtab\t<history>\t<responses>|<final>\t<oracle>"
use crate::fam_types::enc;
use crate::util::*;
use oq3_semantics::symbols::{ScopeType, SymbolId, SymbolTable, SymbolType};
use oq3_semantics::types::{IsConst, Type};
use std::collections::HashMap;
use std::io::Write;

pub fn name_str(n: u32) -> &'static str {
    match n {
        0 => "a",
        1 => "b",
        2 => "c",
        3 => "d",
        100 => "pi",
        101 => "π",
        102 => "euler",
        103 => "ℇ",
        104 => "tau",
        105 => "τ",
        106 => "U",
        _ => panic!("bad name index"),
    }
}
fn name_idx(s: &str) -> u32 {
    for n in [0u32, 1, 2, 3, 100, 101, 102, 103, 104, 105, 106] {
        if name_str(n) == s {
            return n;
        }
    }
    9999
}
pub fn ty_of(t: u32) -> Type {
    match t {
        0 => Type::Int(None, IsConst::False),
        1 => Type::Qubit,
        2 => Type::Float(Some(64), IsConst::True),
        3 => Type::Gate(1, 1),
        _ => panic!("bad type index"),
    }
}
fn enc_(t: &Type) -> String {
    enc(t).replace(' ', "_")
}
fn id_num(id: &SymbolId) -> String {
    // SymbolId's field is private; its Debug form is "SymbolId(n)"
    let s = format!("{id:?}");
    s.trim_start_matches("SymbolId(").trim_end_matches(')').to_string()
}

#[derive(Clone, Debug, PartialEq)]
pub enum Op {
    Enter(u32),
    Exit,
    Bind(u32, u32),
    Lookup(u32),
    LookupOrNew(u32, u32),
}
pub fn op_str(o: &Op) -> String {
    match o {
        Op::Enter(k) => format!("e{k}"),
        Op::Exit => "x".into(),
        Op::Bind(n, t) => format!("b{n}:{t}"),
        Op::Lookup(n) => format!("l{n}"),
        Op::LookupOrNew(n, t) => format!("n{n}:{t}"),
    }
}
pub fn parse_op(s: &str) -> Op {
    let (h, r) = s.split_at(1);
    let two = |r: &str| {
        let mut it = r.split(':');
        (it.next().unwrap().parse().unwrap(), it.next().unwrap().parse().unwrap())
    };
    match h {
        "e" => Op::Enter(r.parse().unwrap()),
        "x" => Op::Exit,
        "b" => {
            let (n, t) = two(r);
            Op::Bind(n, t)
        }
        "l" => Op::Lookup(r.parse().unwrap()),
        "n" => {
            let (n, t) = two(r);
            Op::LookupOrNew(n, t)
        }
        _ => panic!("bad op"),
    }
}

/// Run one history on the implementation; returns (responses|final, oracle verdict).
pub fn run_history(h: &[Op]) -> (String, String) {
    let mut resp: Vec<String> = Vec::new();
    let mut oracle: Option<String> = None;
    let fail = |o: &mut Option<String>, m: String| {
        if o.is_none() {
            *o = Some(m);
        }
    };
    // oracle state: stack of maps name -> id (ids as opaque strings), record id -> (name,type)
    let mut stack: Vec<HashMap<u32, String>> = vec![HashMap::new()];
    let mut record: Vec<(String, u32, Type)> = Vec::new();
    let mut table = SymbolTable::new();
    // built-ins must be present from the start
    for n in 100u32..=106 {
        match table.lookup(name_str(n)) {
            Ok(r) => {
                let want = if n == 106 { Type::Gate(3, 1) } else { Type::Float(Some(64), IsConst::True) };
                if r.symbol_type() != &want {
                    fail(&mut oracle, format!("builtin {} has type {:?}", name_str(n), r.symbol_type()));
                }
                let id = id_num(&r.symbol_id());
                if record.iter().any(|(i, _, _)| *i == id) {
                    fail(&mut oracle, format!("builtin id {id} reused"));
                }
                stack[0].insert(n, id.clone());
                record.push((id, n, want));
            }
            Err(_) => fail(&mut oracle, format!("builtin {} missing", name_str(n))),
        }
    }
    let mut panicked = false;
    for o in h {
        let r = std::panic::catch_unwind(std::panic::AssertUnwindSafe(|| match o {
            Op::Enter(k) => {
                let st = match k {
                    0 => ScopeType::Local,
                    1 => ScopeType::Subroutine,
                    2 => ScopeType::Calibration,
                    _ => ScopeType::Global,
                };
                table.verif_enter_scope(st);
                "ok".to_string()
            }
            Op::Exit => {
                table.exit_scope();
                "ok".to_string()
            }
            Op::Bind(n, t) => match table.new_binding(name_str(*n), &ty_of(*t)) {
                Ok(id) => format!("B{}", id_num(&id)),
                Err(_) => "A".to_string(),
            },
            Op::Lookup(n) => match table.lookup(name_str(*n)) {
                Ok(r) => {
                    let id = r.symbol_id();
                    let sym = &table[&id];
                    format!("F{}:{}:{}", id_num(&id), name_idx(sym.name()), enc_(r.symbol_type()))
                }
                Err(_) => "M".to_string(),
            },
            Op::LookupOrNew(n, t) => {
                let id = table.lookup_or_new_binding(name_str(*n), &ty_of(*t));
                format!("B{}", id_num(&id))
            }
        }));
        match r {
            Err(_) => {
                resp.push("P".into());
                panicked = true;
                // oracle: only exiting the global scope (or entering a second global) may panic
                let allowed = match o {
                    Op::Exit => stack.len() == 1,
                    Op::Enter(k) => *k > 2,
                    _ => false,
                };
                if !allowed {
                    fail(&mut oracle, format!("panic at {}", op_str(o)));
                }
                break;
            }
            Ok(s) => {
                // oracle update
                match o {
                    Op::Enter(k) => {
                        if *k > 2 {
                            fail(&mut oracle, "second global scope accepted".into());
                        }
                        stack.push(HashMap::new());
                    }
                    Op::Exit => {
                        if stack.len() == 1 {
                            fail(&mut oracle, "global scope popped".into());
                        } else {
                            stack.pop();
                        }
                    }
                    Op::Bind(n, t) => {
                        let has = stack.last().unwrap().contains_key(n);
                        if s == "A" {
                            if !has {
                                fail(&mut oracle, format!("{} failed though name not in current scope", op_str(o)));
                            }
                        } else {
                            let id = s[1..].to_string();
                            if has {
                                fail(&mut oracle, format!("{} succeeded though name in current scope", op_str(o)));
                            }
                            if record.iter().any(|(i, _, _)| *i == id) {
                                fail(&mut oracle, format!("id {id} reused by {}", op_str(o)));
                            }
                            stack.last_mut().unwrap().insert(*n, id.clone());
                            record.push((id, *n, ty_of(*t)));
                        }
                    }
                    Op::Lookup(n) => {
                        let want = stack.iter().rev().find_map(|m| m.get(n));
                        match (want, s.as_str()) {
                            (None, "M") => {}
                            (None, _) => fail(&mut oracle, format!("{} found an unbound name", op_str(o))),
                            (Some(_), "M") => fail(&mut oracle, format!("{} missed a visible binding", op_str(o))),
                            (Some(id), _) => {
                                let rec = record.iter().find(|(i, _, _)| i == id).unwrap();
                                let exp = format!("F{}:{}:{}", id, rec.1, enc_(&rec.2));
                                if exp != s {
                                    fail(&mut oracle, format!("{} gave {s}, innermost binding is {exp}", op_str(o)));
                                }
                            }
                        }
                    }
                    Op::LookupOrNew(n, t) => {
                        let want = stack.iter().rev().find_map(|m| m.get(n)).cloned();
                        let id = s[1..].to_string();
                        match want {
                            Some(w) => {
                                if w != id {
                                    fail(&mut oracle, format!("{} gave {id}, visible binding is {w}", op_str(o)));
                                }
                            }
                            None => {
                                if record.iter().any(|(i, _, _)| *i == id) {
                                    fail(&mut oracle, format!("id {id} reused by {}", op_str(o)));
                                }
                                stack.last_mut().unwrap().insert(*n, id.clone());
                                record.push((id, *n, ty_of(*t)));
                            }
                        }
                    }
                }
                resp.push(s);
                // the current scope holds exactly the bindings made in it
                let want = stack.last().unwrap().len();
                let got = table.len_current_scope();
                if got != want {
                    fail(&mut oracle, format!("after {}: the current scope has {got} bindings, {want} were made in it", op_str(o)));
                }
            }
        }
    }
    let mut fin = String::new();
    if !panicked {
        let n = table.verif_num_symbols();
        fin = format!("depth={};n={}", table.verif_scope_depth(), n);
        if table.verif_scope_depth() != stack.len() {
            fail(&mut oracle, "scope depth differs from number of open scopes".into());
        }
        if n != record.len() {
            fail(&mut oracle, format!("{} symbols, {} bindings were made", n, record.len()));
        }
        // ids keep denoting the same name and type, also after their scope has been closed.
        // SymbolIds can only be obtained from the table, so re-derive them by lookups of the
        // currently visible names and by the ids recorded in responses (all are "SymbolId(k)").
        // We use the Debug form to rebuild them through `gates()`/lookup where possible; for the
        // rest the dump of all symbols in id order is compared with the record.
        let dump = catch(std::panic::AssertUnwindSafe(|| {
            let mut v = Vec::new();
            // all_symbols in id order through the public Index impl needs a SymbolId; build them
            // by post-incrementing a fresh SymbolId.
            let mut id = SymbolId::new();
            for _ in 0..n {
                let cur = id.post_increment();
                let sym = &table[&cur];
                v.push((id_num(&cur), name_idx(sym.name()), sym.symbol_type().clone()));
            }
            v
        }));
        match dump {
            Ok(v) => {
                for (id, nm, ty) in &record {
                    match v.iter().find(|(i, _, _)| i == id) {
                        Some((_, n2, t2)) => {
                            if n2 != nm || t2 != ty {
                                fail(&mut oracle, format!("id {id} no longer denotes its name/type"));
                            }
                        }
                        None => fail(&mut oracle, format!("id {id} is not in the table")),
                    }
                }
                fin.push_str(";all=");
                fin.push_str(&v.iter().map(|(_, n, t)| format!("{}:{}", n, enc_(t))).collect::<Vec<_>>().join(","));
            }
            Err(e) => fail(&mut oracle, format!("indexing the table panicked: {e}")),
        }
    }
    (format!("{}|{}", resp.join(" "), fin), oracle.map(|m| format!("FAIL {m}")).unwrap_or("ok".into()))
}

const ALPHA9: [Op; 9] = [
    Op::Enter(0),
    Op::Enter(1),
    Op::Exit,
    Op::Bind(0, 0),
    Op::Bind(0, 1),
    Op::Bind(1, 0),
    Op::Bind(1, 1),
    Op::Lookup(0),
    Op::Lookup(1),
];

fn emit(w: &mut impl Write, h: &[Op]) {
    let (r, o) = run_history(h);
    let hs: Vec<String> = h.iter().map(op_str).collect();
    writeln!(w, "symtab\t{}\t{}\t{}", hs.join(" "), r, o).unwrap();
}

pub fn run(args: &[String]) {
    silence_panics();
    let mut w = out();
    if let Some(h) = arg_val(args, "--history") {
        let ops: Vec<Op> = h.split_whitespace().map(parse_op).collect();
        emit(&mut w, &ops);
        finish(w);
        return;
    }
    let maxlen = arg_u64(args, "--exhaustive", 0) as usize;
    let shard = arg_u64(args, "--shard", 0);
    let nshards = arg_u64(args, "--nshards", 1);
    // bounded-exhaustive: every history of length exactly L for L = 0..=maxlen over the 9 ops.
    // Histories are enumerated as base-9 numbers; sharded by index.
    let mut count: u64 = 0;
    for len in 0..=maxlen {
        let total = 9u64.pow(len as u32);
        for k in 0..total {
            count += 1;
            if count % nshards != shard {
                continue;
            }
            let mut h = Vec::with_capacity(len);
            let mut x = k;
            for _ in 0..len {
                h.push(ALPHA9[(x % 9) as usize].clone());
                x /= 9;
            }
            emit(&mut w, &h);
        }
    }
    // random histories up to length 200 over 4 names (two of them collide with built-ins)
    let nrand = arg_u64(args, "--random", 0);
    let seed = arg_u64(args, "--seed", 1);
    let mut rng = Rng::new(seed ^ (shard.wrapping_mul(0x1234567)));
    let names = [0u32, 1, 100, 106];
    for _ in 0..nrand {
        let len = 1 + rng.below(200) as usize;
        let mut h = Vec::with_capacity(len);
        let mut depth = 1;
        for _ in 0..len {
            let r = rng.below(100);
            let n = names[rng.below(4) as usize];
            let t = rng.below(4) as u32;
            let o = if r < 14 {
                depth += 1;
                Op::Enter(rng.below(3) as u32)
            } else if r < 26 {
                // mostly avoid popping the global scope (it ends the history)
                if depth > 1 || rng.below(20) == 0 {
                    if depth > 1 {
                        depth -= 1;
                    }
                    Op::Exit
                } else {
                    Op::Lookup(n)
                }
            } else if r < 55 {
                Op::Bind(n, t)
            } else if r < 90 {
                Op::Lookup(n)
            } else {
                Op::LookupOrNew(n, t)
            }
            ;
            h.push(o);
        }
        emit(&mut w, &h);
    }
    finish(w);
}
