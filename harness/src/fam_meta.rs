// Family `meta` (C17): analysis is invariant under layout and renaming, one-pass and deterministic.
// Relations between runs of the implementation on related inputs (generated programs, valid or
// with semantic faults): re-layout, injective renaming of user identifiers, every prefix at a
// top-level statement boundary, and the same text twice.
// Line: "meta\t<relation>\t<size>\t<oracle>"
use crate::gen::*;
use crate::sema::*;
use crate::util::*;
use std::collections::HashMap;
use std::io::Write;

const RESERVED: &[&str] = &[
    "pi", "π", "euler", "ℇ", "tau", "τ", "U", "x", "y", "z", "h", "s", "sdg", "t", "tdg", "sx", "id", "p", "rx", "ry", "rz", "phase", "u1", "u2", "u3", "cx", "cy", "cz", "ch", "swap", "CX", "cp", "crx", "cry",
    "crz", "cphase", "cu", "ccx", "cswap", "ns", "us", "µs", "ms", "dt", "im",
];

fn kinds(o: &SemaOut) -> Vec<String> {
    o.errors.iter().map(|e| e.0.clone()).collect()
}

/// rename user identifiers token by token (through the implementation's lexer)
fn rename(text: &str, rng: &mut Rng) -> (String, HashMap<String, String>) {
    let lexed = oq3_parser::LexedStr::new(text);
    let mut map: HashMap<String, String> = HashMap::new();
    let mut out = String::new();
    let salt = rng.below(1000);
    for i in 0..lexed.len() {
        let t = lexed.text(i);
        if lexed.kind(i) == oq3_parser::SyntaxKind::IDENT && !RESERVED.contains(&t) {
            let n = map.len();
            let new = map.entry(t.to_string()).or_insert_with(|| match salt % 4 {
                0 => format!("{t}_r{salt}"),
                1 => format!("n{salt}_{n}"),
                2 => format!("Z{n}{t}"),
                // characters that may continue an identifier but not start one
                _ => format!("θ\u{302}{n}\u{b7}{t}\u{663}"),
            });
            out.push_str(new);
        } else {
            out.push_str(t);
        }
    }
    (out, map)
}

fn map_kind(k: &str, map: &HashMap<String, String>) -> String {
    // RedeclarationError("name")
    if let Some(rest) = k.strip_prefix("RedeclarationError(\"") {
        let name = rest.trim_end_matches("\")");
        // (the kind is rendered with Debug, which escapes e.g. combining marks: render the new name the same way)
        return format!("RedeclarationError({:?})", map.get(name).cloned().unwrap_or(name.to_string()));
    }
    k.to_string()
}

/// programs rich in semantic diagnostics whose names also occur inside other tokens of the same statement
/// (C12: a semantic diagnostic's range is a node range)
fn semrange_program(rng: &mut Rng) -> String {
    let names = ["a", "f", "s", "t", "q", "in", "x", "é", "ab", "k", "u", "pi", "h", "cx"];
    let n = names[rng.below(names.len() as u64) as usize];
    let m = names[rng.below(names.len() as u64) as usize];
    let mut s = String::new();
    if rng.below(3) == 0 {
        s.push_str(&format!("gate {} w {{ }}\n", ["s", "t", "h", "x", "cx", "sdg", "id"][rng.below(7) as usize]));
    }
    if rng.below(2) == 0 {
        s.push_str("include \"stdgates.inc\";\n");
    }
    s.push_str("int k0 = 3;\nqubit q0;\nqubit q1;\n");
    let k = 2 + rng.below(6);
    for _ in 0..k {
        let line = match rng.below(14) {
            0 => format!("float {n} = 1.0;"),
            1 => format!("float {n} = 2.0 * float(k0);"),
            2 => format!("int {n}2 = 5;"),
            3 => format!("int {n} = {n}2 + int[32]({n}2);"),
            4 => format!("int {n} = {m};"),
            5 => format!("let {n} = q0 ++ q1;"),
            6 => format!("{n}{m} = {n} + 1;"),
            7 => format!("bit {n} = 1.5;"),
            8 => format!("qubit {n};"),
            9 => format!("if (true) {{ qubit {n}{n}; int {m} = {n}; }}"),
            10 => format!("gate {n} w0 {{ {m} w0; }}"),
            11 => format!("def {n}(int {m}) -> int {{ return {m} + {n}{m}; }}"),
            12 => format!("{n} q0, q1, q0;"),
            _ => format!("const int {n} = {m} + 1; int[{n}] {m}{n};"),
        };
        s.push_str(&line);
        s.push_str(if rng.below(4) == 0 { " " } else { "\n" });
    }
    s
}

pub fn run(args: &[String]) {
    silence_panics();
    let mut w = out();
    let seed = arg_u64(args, "--seed", 1);
    let n = arg_u64(args, "--random", 100);
    let shard = arg_u64(args, "--shard", 0);
    let nshards = arg_u64(args, "--nshards", 1);
    for case in 0..arg_u64(args, "--semranges", 0) {
        if case % nshards != shard {
            continue;
        }
        let mut rng = Rng::new(seed.wrapping_mul(31_000_003).wrapping_add(case));
        let text = semrange_program(&mut rng);
        let o = run_sema(&text);
        let flat = text.replace('\n', "\\n");
        let verdict = if o.any_syntax {
            "SKIP the generated program has syntax diagnostics".to_string()
        } else if o.panic.is_some() {
            // a panic is C03's business (known classes exist): not decided here
            "ok".to_string()
        } else {
            match sem_range_violation(&text, &o) {
                Some(m) => format!("{m} ;; {flat}"),
                None => "ok".to_string(),
            }
        };
        writeln!(w, "meta\tsemrange\t{}\t{verdict}", o.errors.len()).unwrap();
    }
    for case in 0..n {
        if case % nshards != shard {
            continue;
        }
        let mut rng = Rng::new(seed.wrapping_mul(23_000_009).wrapping_add(case));
        let size = 2 + rng.below(9) as usize;
        let depth = rng.below(4) as u32;
        let mut prog = Gen { rng: &mut rng, sema_safe: true }.program(size, depth);
        // half of the programs get semantic faults
        if rng.below(2) == 0 {
            for _ in 0..2 {
                let a = rng.below(prog.len() as u64) as usize;
                match rng.below(3) {
                    0 if prog.len() > 2 => {
                        prog.remove(a);
                    }
                    1 => {
                        let s = prog[a].clone();
                        prog.insert(rng.below(prog.len() as u64 + 1) as usize, s);
                    }
                    _ => {
                        let b = rng.below(prog.len() as u64) as usize;
                        prog.swap(a, b);
                    }
                }
            }
        }
        let plain = Layout { redundant_parens: false, trivia: 0 };
        let (text, _) = print_program(&prog, plain, &mut rng);
        let base = run_sema(&text);
        let flat = text.replace('\n', "\\n");
        if base.panic.is_some() || base.any_syntax {
            writeln!(w, "meta\tbase\t{size}\tSKIP the base program panics or has syntax diagnostics (C03/C04 decide that)").unwrap();
            continue;
        }
        // (0) the spans of the semantic diagnostics (C12)
        if let Some(m) = sem_range_violation(&text, &base) {
            writeln!(w, "meta\tsemrange\t{size}\t{m} ;; {flat}").unwrap();
        }
        // (1) layout
        for tr in [1u8, 2u8] {
            let (t2, _) = print_program(&prog, Layout { redundant_parens: false, trivia: tr }, &mut rng);
            let o = run_sema(&t2);
            if let Some(m) = sem_range_violation(&t2, &o) {
                writeln!(w, "meta\tsemrange\t{size}\t{m} ;; {}", t2.replace('\n', "\\n")).unwrap();
            }
            let verdict = if o.panic.is_some() || o.any_syntax {
                format!("FAIL C17: a re-layout panics or has syntax diagnostics ;; {}", t2.replace('\n', "\\n"))
            } else if o.stmts != base.stmts {
                "FAIL C17: a re-layout changes the graph".to_string()
            } else if o.symbols != base.symbols {
                "FAIL C17: a re-layout changes the symbol table".to_string()
            } else if kinds(&o) != kinds(&base) {
                format!("FAIL C17: a re-layout changes the diagnostics: {:?} vs {:?}", kinds(&o), kinds(&base))
            } else {
                "ok".to_string()
            };
            let verdict = if verdict.starts_with("FAIL") && !verdict.contains(";;") { format!("{verdict} ;; {flat} ;;vs;; {}", t2.replace('\n', "\\n")) } else { verdict };
            writeln!(w, "meta\tlayout{tr}\t{size}\t{verdict}").unwrap();
        }
        // (2) renaming
        {
            let (t2, map) = rename(&text, &mut rng);
            let o = run_sema(&t2);
            let exp_syms: Vec<(String, String)> = base.symbols.iter().map(|(n, t)| (map.get(n).cloned().unwrap_or(n.clone()), t.clone())).collect();
            let exp_kinds: Vec<String> = kinds(&base).iter().map(|k| map_kind(k, &map)).collect();
            let verdict = if o.panic.is_some() || o.any_syntax {
                "FAIL C17: the renamed program panics or has syntax diagnostics".to_string()
            } else if o.stmts != base.stmts {
                "FAIL C17: renaming changes the graph".to_string()
            } else if o.symbols != exp_syms {
                "FAIL C17: renaming changes the symbol table beyond the names".to_string()
            } else if kinds(&o) != exp_kinds {
                format!("FAIL C17: renaming changes the diagnostics: {:?} vs {:?}", kinds(&o), exp_kinds)
            } else {
                "ok".to_string()
            };
            let verdict = if verdict.starts_with("FAIL") { format!("{verdict} ;; {flat} ;;vs;; {}", t2.replace('\n', "\\n")) } else { verdict };
            writeln!(w, "meta\trename\t{}\t{verdict}", map.len()).unwrap();
        }
        // (3) every prefix at a top-level statement boundary
        for k in 1..prog.len() {
            let (tp, _) = print_program(&prog[..k], plain, &mut rng);
            let o = run_sema(&tp);
            let verdict = if o.panic.is_some() || o.any_syntax {
                "FAIL C17: a prefix of the program panics or has syntax diagnostics".to_string()
            } else if o.stmts.len() > base.stmts.len() || o.stmts[..] != base.stmts[..o.stmts.len()] {
                "FAIL C17: the graph of a prefix is not a prefix of the graph".to_string()
            } else if o.symbols.len() > base.symbols.len() || o.symbols[..] != base.symbols[..o.symbols.len()] {
                "FAIL C17: the symbols of a prefix are not a prefix of the symbols".to_string()
            } else if o.errors.len() > base.errors.len() || o.errors[..] != base.errors[..o.errors.len()] {
                "FAIL C17: the diagnostics of a prefix are not a prefix of the diagnostics".to_string()
            } else {
                "ok".to_string()
            };
            let verdict = if verdict.starts_with("FAIL") { format!("{verdict} ;; {} ;;of;; {flat}", tp.replace('\n', "\\n")) } else { verdict };
            writeln!(w, "meta\tprefix\t{k}\t{verdict}").unwrap();
        }
        // (4) twice
        {
            let o = run_sema(&text);
            let same = o.stmts == base.stmts && o.symbols == base.symbols && o.errors == base.errors && o.scope_depth == base.scope_depth;
            writeln!(w, "meta\ttwice\t{size}\t{}", if same { "ok".to_string() } else { format!("FAIL C17: analysing the same text twice gives different results ;; {flat}") }).unwrap();
        }
    }
    finish(w);
}
