// Family `pk`: token-kind sequences (with joint bits) through the public token-level API
// Input::push / Input::was_joint and TopEntryPoint::SourceFile.parse.
// Line: "pk\t<kind.joint ...>\t<steps | PANIC msg>\t<oracle>"
use crate::util::*;
use oq3_parser::{Input, Step, SyntaxKind, TopEntryPoint};
use std::io::Write;

/// Every kind LexedStr can emit as a non-trivia token (computed from the implementation's own
/// tables, so a new keyword or punctuation is picked up automatically).
pub fn lexer_kinds() -> Vec<SyntaxKind> {
    use SyntaxKind::*;
    let mut v: Vec<SyntaxKind> = Vec::new();
    for c in crate::fam_lex::PUNCT.chars() {
        v.push(SyntaxKind::from_char(c).unwrap());
    }
    for d in 0..(SyntaxKind::__LAST as u16) {
        let k = SyntaxKind::from(d);
        if k.is_keyword() || k.is_scalar_type() {
            // only those reachable through from_keyword / from_scalar_type tables
            v.push(k);
        }
    }
    for k in [IDENT, HARDWAREIDENT, INT_NUMBER, FLOAT_NUMBER, STRING, BIT_STRING, PRAGMA, ANNOTATION, VERSION_STRING, ERROR] {
        v.push(k);
    }
    v.sort_by_key(|k| *k as u16);
    v.dedup();
    v
}

pub fn run_tokens(toks: &[(SyntaxKind, bool)]) -> (String, String) {
    let r = catch(std::panic::AssertUnwindSafe(|| {
        let mut input = Input::default();
        for (k, j) in toks {
            input.push(*k);
            if *j {
                input.was_joint();
            }
        }
        let out = TopEntryPoint::SourceFile.parse(&input);
        let mut s = String::new();
        let mut consumed = 0usize;
        let mut depth = 0i64;
        let mut max_depth = 0i64;
        let mut n_steps = 0usize;
        for st in out.iter() {
            n_steps += 1;
            match st {
                Step::Enter { kind } => {
                    s.push_str(&format!("E{} ", kind as u16));
                    depth += 1;
                    max_depth = max_depth.max(depth);
                }
                Step::Exit => {
                    s.push_str("X ");
                    depth -= 1;
                }
                Step::Token { kind, n_input_tokens } => {
                    s.push_str(&format!("T{}:{} ", kind as u16, n_input_tokens));
                    consumed += n_input_tokens as usize;
                }
                Step::Error { .. } => s.push_str("! "),
                Step::FloatSplit { .. } => s.push_str("F "),
            }
        }
        (s.trim_end().to_string(), consumed, depth, n_steps)
    }));
    match r {
        Ok((s, consumed, depth, n_steps)) => {
            let mut oracle = "ok".to_string();
            if consumed != toks.len() {
                oracle = format!("FAIL C02: parser consumed {consumed} of {} tokens", toks.len());
            } else if depth != 0 {
                oracle = "FAIL C02: unbalanced steps".to_string();
            } else if n_steps > 40 * (toks.len() + 1) {
                oracle = format!("FAIL C01: {n_steps} steps for {} tokens (not linear)", toks.len());
            }
            (s, oracle)
        }
        Err(m) => (format!("PANIC {}", &m[..m.len().min(80)]), format!("FAIL C01: parser panicked: {}", &m[..m.len().min(120)])),
    }
}

fn emit(w: &mut impl Write, toks: &[(SyntaxKind, bool)]) {
    let (r, o) = run_tokens(toks);
    let inp: Vec<String> = toks.iter().map(|(k, j)| format!("{}.{}", *k as u16, *j as u8)).collect();
    writeln!(w, "pk\t{}\t{}\t{}", inp.join(" "), r, o).unwrap();
}

pub fn run(args: &[String]) {
    silence_panics();
    let mut w = out();
    if let Some(t) = arg_val(args, "--tokens") {
        let toks: Vec<(SyntaxKind, bool)> = t
            .split_whitespace()
            .map(|x| {
                let mut it = x.split('.');
                (SyntaxKind::from(it.next().unwrap().parse::<u16>().unwrap()), it.next().unwrap() == "1")
            })
            .collect();
        emit(&mut w, &toks);
        finish(w);
        return;
    }
    if args.iter().any(|a| a == "--list-kinds") {
        for k in lexer_kinds() {
            writeln!(w, "{} {:?}", k as u16, k).unwrap();
        }
        finish(w);
        return;
    }
    let kinds = lexer_kinds();
    let nk = kinds.len() as u64;
    let shard = arg_u64(args, "--shard", 0);
    let nshards = arg_u64(args, "--nshards", 1);
    let seed = arg_u64(args, "--seed", 1);
    let maxlen = arg_u64(args, "--exhaustive", 0) as u32;
    // bounded-exhaustive: every sequence of length <= maxlen, once with all tokens separated and once
    // with all tokens adjacent (joint)
    let mut count = 0u64;
    if maxlen > 0 {
        for len in 0..=maxlen {
            let total = nk.pow(len);
            for k in 0..total {
                for joint in [false, true] {
                    if len == 0 && joint {
                        continue;
                    }
                    count += 1;
                    if count % nshards != shard {
                        continue;
                    }
                    let mut v = Vec::with_capacity(len as usize);
                    let mut x = k;
                    for _ in 0..len {
                        v.push((kinds[(x % nk) as usize], joint));
                        x /= nk;
                    }
                    emit(&mut w, &v);
                }
            }
        }
    }
    // word boundaries of the joint-bit set: every suffix of length <= B after a filler that brings the total
    // to exactly 64 and 128 tokens (Input keeps one u64 of joint bits per 64 tokens)
    let blen = arg_u64(args, "--boundary", 0) as u32;
    if blen > 0 {
        use SyntaxKind::*;
        for total_len in [64usize, 128] {
            for len in 0..=blen {
                let total = nk.pow(len);
                for k in 0..total {
                    count += 1;
                    if count % nshards != shard {
                        continue;
                    }
                    let mut v: Vec<(SyntaxKind, bool)> = Vec::with_capacity(total_len);
                    for i in 0..(total_len - len as usize) {
                        v.push((if i % 2 == 0 { IDENT } else { SEMICOLON }, false));
                    }
                    let mut x = k;
                    for _ in 0..len {
                        v.push((kinds[(x % nk) as usize], false));
                        x /= nk;
                    }
                    emit(&mut w, &v);
                }
            }
        }
    }
    // long operator-heavy sequences with random joint bits (every joint bit of the first two 64-token words is
    // exercised next to characters that can combine)
    {
        use SyntaxKind::*;
        let ops: Vec<SyntaxKind> = "-=><:!.*/&%^+|".chars().map(|c| SyntaxKind::from_char(c).unwrap()).collect();
        let fill = [IDENT, INT_NUMBER, SEMICOLON, L_PAREN, R_PAREN];
        let mut lrng = Rng::new(seed.wrapping_mul(7_000_003).wrapping_add(shard));
        for _ in 0..arg_u64(args, "--long", 0) {
            let len = 64 + lrng.below(67) as usize;
            let v: Vec<(SyntaxKind, bool)> = (0..len)
                .map(|_| {
                    let k = if lrng.below(5) < 4 { ops[lrng.below(ops.len() as u64) as usize] } else { fill[lrng.below(fill.len() as u64) as usize] };
                    (k, lrng.below(2) == 0)
                })
                .collect();
            emit(&mut w, &v);
        }
    }
    // random sequences (length 1..=14) with random joint bits, biased towards punctuation runs
    let mut rng = Rng::new(seed.wrapping_add(shard.wrapping_mul(104729)));
    for _ in 0..arg_u64(args, "--random", 0) {
        let len = 1 + rng.below(14) as usize;
        let v: Vec<(SyntaxKind, bool)> = (0..len).map(|_| (kinds[rng.below(nk) as usize], rng.below(2) == 0)).collect();
        emit(&mut w, &v);
    }
    finish(w);
}
