// Family `inc` (C18): includes act as in-place textual inclusion with ordered path search.
// Each case builds a small file system (1-3 directories, 1-4 include files present in none, one
// or several of them, nested includes, absolute and relative paths), analyses a main program
// with a search list / with QASM3_PATH / with neither, and reports
//   which files were included, in order (markers in the symbol table), which includes were
//   unreadable (diagnostics tagged with their path), and whether the analysis equals the analysis
//   of the program with the chosen files' text written at the include sites.
// Line: "inc\t<fs>\t<mode>\t<contents>\t<main>\t<impl: markers|unreadable>\t<oracle>"
use crate::sema::*;
use crate::util::*;
use std::collections::HashMap;
use std::io::Write;
use std::path::PathBuf;

/// file number STDF is a user file that happens to be called stdgates.inc; it is always included with a
/// directory part (`./stdgates.inc`), which is NOT the built-in library
const STDF: u32 = 77;
fn fname(f: u32) -> String {
    if f == STDF {
        "stdgates.inc".to_string()
    } else {
        format!("f{f}.inc")
    }
}
/// the working directory of the analysing process, as a directory number of its own (on no search list)
const CWD: u32 = 999;

#[derive(Clone, Debug)]
enum Item {
    Mark(u32),
    Abs(u32, u32),
    Rel(u32),
    Std,
    /// an annotation statement (attaches to the next statement, wherever that comes from); not part of
    /// the encoding for the model, which is about resolution and order only
    Ann(u32),
    /// an include below the global scope (`if (true) { include "f<n>.inc"; }`): reported, the file is neither
    /// read nor analysed, and the includes after it are not disturbed; not part of the model's encoding
    Blk(u32),
}

fn enc_items(v: &[Item]) -> String {
    let s: Vec<String> = v
        .iter()
        .filter(|i| !matches!(i, Item::Ann(_) | Item::Blk(_)))
        .map(|i| match i {
            Item::Mark(t) => format!("m{t}"),
            Item::Abs(d, f) => format!("a{d}:{f}"),
            Item::Rel(f) => format!("r{f}"),
            Item::Std => "s".to_string(),
            Item::Ann(_) | Item::Blk(_) => unreachable!(),
        })
        .collect();
    if s.is_empty() {
        "-".into()
    } else {
        s.join(" ")
    }
}

struct World {
    root: PathBuf,
    present: Vec<(u32, u32)>,
    content: HashMap<(u32, u32), Vec<Item>>,
    dirs_in_force: Vec<u32>,
}
impl World {
    fn dir(&self, d: u32) -> PathBuf {
        if d == CWD {
            self.root.join("cwd")
        } else {
            self.root.join(format!("d{d}"))
        }
    }
    fn path(&self, d: u32, f: u32) -> PathBuf {
        self.dir(d).join(fname(f))
    }
    fn resolve(&self, it: &Item) -> Option<(u32, u32)> {
        // reference resolver (cross-checked against the Coq model by the driver through the markers)
        match it {
            Item::Abs(d, f) => Some((*d, *f)),
            // not found in any search directory: the path as written, i.e. relative to the working directory
            Item::Rel(f) => self.dirs_in_force.iter().find(|d| self.present.contains(&(**d, *f))).map(|d| (*d, *f)).or(if self.present.contains(&(CWD, *f)) { Some((CWD, *f)) } else { None }),
            _ => None,
        }
    }
    /// the files read when analysing `items` (transitively)
    fn reached(&self, items: &[Item], depth: u32, acc: &mut Vec<(u32, u32)>) {
        for it in items {
            if let Some(t) = self.resolve(it).filter(|t| self.present.contains(t)) {
                if !acc.contains(&t) {
                    acc.push(t);
                    if depth < 8 {
                        self.reached(&self.content[&t], depth + 1, acc);
                    }
                }
            }
        }
    }
    fn text_of(&self, items: &[Item], inline: bool, depth: u32) -> String {
        let mut s = String::new();
        for it in items {
            match it {
                Item::Mark(t) => s.push_str(&format!("int mk_{t};\nint dup_{t};\nint dup_{t};\nqubit qq_{t};\nU(1, 2, mk_{t}) qq_{t};\n")),
                Item::Std => s.push_str("include \"stdgates.inc\";\n"),
                Item::Ann(t) => s.push_str(&format!("@note{t} a b\n")),
                Item::Blk(f) => s.push_str(&format!("if (true) {{ include \"f{f}.inc\"; }}\n")),
                Item::Abs(..) | Item::Rel(..) => {
                    let written = match it {
                        Item::Abs(d, f) => self.path(*d, *f).display().to_string(),
                        Item::Rel(f) => if *f == STDF { "./stdgates.inc".to_string() } else { format!("f{f}.inc") },
                        _ => unreachable!(),
                    };
                    // the path is a string literal: some spellings use escape sequences (same path once unescaped);
                    // deterministic in the item and the nesting depth, so that both texts of a case agree
                    let written = match (written.len() + depth as usize) % 5 {
                        0 => written.replacen(".inc", "\\x2einc", 1),
                        1 => written.replacen("inc", "\\u{69}nc", 1),
                        _ => written,
                    };
                    let target = self.resolve(it).filter(|t| self.present.contains(t));
                    match (inline, target) {
                        (true, Some(t)) if depth < 8 => s.push_str(&self.text_of(&self.content[&t], true, depth + 1)),
                        _ => s.push_str(&format!("include \"{written}\";\n")),
                    }
                }
            }
        }
        s
    }
}

pub fn run(args: &[String]) {
    silence_panics();
    // the printing routines of the implementation write to standard output: detach it
    let mut w = out_detached();
    let seed = arg_u64(args, "--seed", 1);
    let n = arg_u64(args, "--random", 50);
    let shard = arg_u64(args, "--shard", 0);
    let nshards = arg_u64(args, "--nshards", 1);
    // scratch space under the framework's own build directory (never /tmp)
    let exe = std::env::current_exe().unwrap();
    let build = exe.parent().and_then(|p| p.parent()).and_then(|p| p.parent()).unwrap().to_path_buf();
    let base = build.join("tmp").join(format!("inc-{}-{shard}", std::process::id()));
    for case in 0..n {
        if case % nshards != shard {
            continue;
        }
        let mut rng = Rng::new(seed.wrapping_mul(29_000_003).wrapping_add(case));
        let root = base.join(format!("c{case}"));
        let ndirs = 1 + rng.below(3) as u32;
        let nfiles = 1 + rng.below(4) as u32;
        let mut present = Vec::new();
        for f in 0..nfiles {
            // present in none, one or several directories
            for d in 0..ndirs {
                if rng.below(5) < 2 {
                    present.push((d, f));
                }
            }
            // a file of the same name in the working directory
            if rng.below(4) == 0 {
                present.push((CWD, f));
            }
        }
        // which includer each file has: 0 = main, k = file k-1 (only lower-numbered files include higher ones), none
        let mut includer: Vec<Option<u32>> = Vec::new();
        for f in 0..nfiles {
            includer.push(match rng.below(4) {
                0 => None,
                1 | 2 => Some(0),
                _ => {
                    if f > 0 {
                        Some(1 + rng.below(f as u64) as u32)
                    } else {
                        Some(0)
                    }
                }
            });
        }
        let include_item = |rng: &mut Rng, f: u32| -> Item {
            if rng.below(4) == 0 {
                Item::Abs(rng.below(ndirs as u64) as u32, f)
            } else {
                Item::Rel(f)
            }
        };
        let mut tag = 100u32;
        let mut content: HashMap<(u32, u32), Vec<Item>> = HashMap::new();
        // the same file name may exist in several directories with different content (different markers),
        // but with the same nested includes
        let mut nested: HashMap<u32, Vec<Item>> = HashMap::new();
        for f in 0..nfiles {
            let mut v = Vec::new();
            for g in (f + 1)..nfiles {
                if includer[g as usize] == Some(f + 1) {
                    v.push(include_item(&mut rng, g));
                    // the same file included again by the same includer (possibly under another spelling)
                    if rng.below(5) == 0 {
                        v.push(include_item(&mut rng, g));
                    }
                }
            }
            nested.insert(f, v);
        }
        for &(d, f) in &present {
            tag += 1;
            let mut v = vec![Item::Mark(tag)];
            let ns = nested[&f].clone();
            if rng.below(2) == 0 {
                v.splice(0..0, ns);
            } else {
                v.extend(ns);
            }
            // an annotation at the end of an included file belongs to the next statement of the includer
            if rng.below(8) == 0 {
                v.push(Item::Ann(tag + 5000));
            }
            content.insert((d, f), v);
        }
        // a user file called stdgates.inc, in some directories
        if rng.below(4) == 0 {
            for d in 0..ndirs {
                if rng.below(3) == 0 {
                    present.push((d, STDF));
                    tag += 1;
                    content.insert((d, STDF), vec![Item::Mark(tag)]);
                }
            }
        }
        let mut main = vec![Item::Mark(1)];
        if rng.below(3) == 0 {
            main.push(Item::Std);
        }
        for f in 0..nfiles {
            if includer[f as usize] == Some(0) {
                // an include of some file below the global scope, before a top-level include
                if rng.below(6) == 0 {
                    main.push(Item::Blk(rng.below(nfiles as u64) as u32));
                }
                // an annotation directly before the include: it belongs to the first statement of the file
                if rng.below(4) == 0 {
                    tag += 1;
                    main.push(Item::Ann(tag));
                }
                main.push(include_item(&mut rng, f));
                if rng.below(2) == 0 {
                    tag += 1;
                    main.push(Item::Mark(tag));
                }
                // the same file included a second (third) time from the main program
                while rng.below(4) == 0 {
                    main.push(include_item(&mut rng, f));
                }
            }
        }
        if rng.below(5) == 0 {
            main.push(Item::Rel(STDF));
        }
        // mode: search list / environment / neither
        let mut order: Vec<u32> = (0..ndirs).collect();
        for i in (1..order.len()).rev() {
            let j = rng.below(i as u64 + 1) as usize;
            order.swap(i, j);
        }
        order.truncate(1 + rng.below(ndirs as u64) as usize);
        let mode = rng.below(4);
        // also set the other list to something different, to see that it is ignored / used
        let mut env_order: Vec<u32> = (0..ndirs).rev().collect();
        env_order.truncate(1 + rng.below(ndirs as u64) as usize);
        let (mode_s, in_force): (String, Vec<u32>) = match mode {
            0 => (format!("S:{}|E:{}", join(&order), join(&env_order)), order.clone()),
            1 => (format!("S:{}|E:-", join(&order)), order.clone()),
            2 => (format!("S:-|E:{}", join(&env_order)), env_order.clone()),
            _ => ("S:-|E:-".to_string(), vec![]),
        };
        let world = World { root: root.clone(), present: present.clone(), content: content.clone(), dirs_in_force: in_force };
        // materialise
        let _ = std::fs::remove_dir_all(&root);
        for d in 0..ndirs {
            std::fs::create_dir_all(world.dir(d)).unwrap();
        }
        std::fs::create_dir_all(world.dir(CWD)).unwrap();
        std::env::set_current_dir(world.dir(CWD)).unwrap();
        // one file in five worlds is broken: a syntax error or a lexical error somewhere in it (C11: the
        // whole analysis is gated if it is read, at whatever include depth)
        let broken: Option<((u32, u32), &str)> = if !present.is_empty() && rng.below(5) == 0 {
            let mut keys: Vec<(u32, u32)> = content.keys().cloned().collect();
            keys.sort();
            let k = keys[rng.below(keys.len() as u64) as usize];
            Some((k, ["int bad_decl = ;\n", "int lex_bad = 0x;\n", "gate (\n", "x = \"unterminated;\n"][rng.below(4) as usize]))
        } else {
            None
        };
        for (&(d, f), items) in &content {
            let mut t = world.text_of(items, false, 0);
            if let Some((k, line)) = broken {
                if k == (d, f) {
                    if rng.below(2) == 0 {
                        t.push_str(line);
                    } else {
                        t = format!("{line}{t}");
                    }
                }
            }
            std::fs::write(world.path(d, f), t).unwrap();
        }
        let text = world.text_of(&main, false, 0);
        let inlined = world.text_of(&main, true, 0);
        let search_paths: Vec<PathBuf> = order.iter().map(|d| world.dir(*d)).collect();
        let env_val = std::env::join_paths(env_order.iter().map(|d| world.dir(*d))).unwrap();
        match mode {
            0 | 2 => std::env::set_var("QASM3_PATH", &env_val),
            _ => std::env::remove_var("QASM3_PATH"),
        }
        let o = match mode {
            0 | 1 => run_sema_with(&text, Some(&search_paths)),
            _ => run_sema_with(&text, None),
        };
        let oi = match mode {
            0 | 1 => run_sema_with(&inlined, Some(&search_paths)),
            _ => run_sema_with(&inlined, None),
        };
        // ---- the file entry points on the same program: the main program is a file `main.qasm`, given by
        // an absolute path, or by its bare name and found through the list in force, or in the working
        // directory; files of the same name (other content) sit where the ordered search must not look first
        let in_force = world.dirs_in_force.clone();
        let (main_dir, spelled_abs) = match rng.below(3) {
            0 => (rng.below(ndirs as u64) as u32, true),
            1 if !in_force.is_empty() => (in_force[rng.below(in_force.len() as u64) as usize], false),
            _ => (CWD, false),
        };
        let mut decoys: Vec<u32> = Vec::new();
        for d in (0..ndirs).chain(std::iter::once(CWD)) {
            if d == main_dir || rng.below(2) == 0 {
                continue;
            }
            let allowed = if spelled_abs {
                true
            } else if main_dir == CWD {
                !in_force.contains(&d)
            } else {
                let im = in_force.iter().position(|x| *x == main_dir).unwrap();
                match in_force.iter().position(|x| *x == d) {
                    Some(i) => i > im,
                    None => true,
                }
            };
            if allowed {
                decoys.push(d);
            }
        }
        let main_path = world.dir(main_dir).join("main.qasm");
        std::fs::write(&main_path, &text).unwrap();
        for d in &decoys {
            std::fs::write(world.dir(*d).join("main.qasm"), "int decoy_main;\nint decoy_main;\n").unwrap();
        }
        let spelling: PathBuf = if spelled_abs { main_path.clone() } else { PathBuf::from("main.qasm") };
        let of = match mode {
            0 | 1 => run_sema_file(&spelling, Some(&search_paths), false, true),
            _ => run_sema_file(&spelling, None, case / nshards % 2 == 0, true),
        };
        let op = match mode {
            0 | 1 => run_sema_print(&text, Some(&search_paths)),
            _ => run_sema_print(&text, None),
        };
        let main_canon = std::fs::canonicalize(&main_path).map(|p| p.display().to_string()).unwrap_or_default();
        let same_as_string_entry = |x: &SemaOut, own_tag: &str| -> Option<String> {
            if let Some(p) = &x.panic {
                return Some(format!("panicked: {}", &p[..p.len().min(100)]));
            }
            if x.stmts != o.stmts {
                return Some("gives another graph".into());
            }
            if x.symbols != o.symbols {
                return Some("gives other symbols".into());
            }
            if x.syntax_errors != o.syntax_errors || x.any_syntax != o.any_syntax {
                return Some("counts other syntax diagnostics".into());
            }
            let retag = |e: &(String, u32, u32, String)| (e.0.clone(), e.1, e.2, if e.3 == "no file" { own_tag.to_string() } else { e.3.clone() });
            let want: Vec<_> = o.errors.iter().map(retag).collect();
            if x.errors != want {
                return Some(format!("gives other diagnostics: {:?} instead of {:?}", x.errors, want));
            }
            None
        };
        let entry_verdict = if o.panic.is_some() {
            None
        } else if let Some(m) = same_as_string_entry(&of, &main_canon) {
            Some(format!("FAIL C18,C03: the file entry point (main program {} as {}) {m}", main_path.display(), spelling.display()))
        } else {
            same_as_string_entry(&op, "fake.qasm").map(|m| format!("FAIL C12,C03: the string entry point followed by printing its diagnostics {m}"))
        };
        std::env::remove_var("QASM3_PATH");
        std::env::set_current_dir(root.parent().unwrap()).unwrap();
        let fs_s = if present.is_empty() { "-".to_string() } else { present.iter().map(|(d, f)| format!("{d}:{f}")).collect::<Vec<_>>().join(",") };
        let mut keys: Vec<&(u32, u32)> = content.keys().collect();
        keys.sort();
        let cont_s = if keys.is_empty() { "-".to_string() } else { keys.iter().map(|k| format!("{}:{}={}", k.0, k.1, enc_items(&content[k]))).collect::<Vec<_>>().join(";") };
        if let Some((k, line)) = broken {
            let mut acc = Vec::new();
            world.reached(&main, 0, &mut acc);
            if acc.contains(&k) {
                let what = format!("{} (read at include depth >= 1) contains `{}`", world.path(k.0, k.1).display(), line.trim());
                let verdict = if let Some(p) = &o.panic {
                    format!("FAIL C11,C18,C03: panic although the only defect is a syntax error in an included file: {} ;; {what} ;; {}", &p[..p.len().min(100)], text.replace('\n', "\\n"))
                } else if !o.any_syntax || !o.stmts.is_empty() || !o.errors.is_empty() {
                    format!("FAIL C11,C18: an included file has a syntax diagnostic but the analysis ran (any_syntax_errors={}, {} statements, {} semantic diagnostics) ;; {what} ;; {}", o.any_syntax, o.stmts.len(), o.errors.len(), text.replace('\n', "\\n"))
                } else if let Some(v) = &entry_verdict {
                    v.clone()
                } else {
                    "ok".to_string()
                };
                writeln!(w, "inc\t-\tS:-|E:-\t-\t-\t|\t{verdict}").unwrap();
                let _ = std::fs::remove_dir_all(&root);
                continue;
            }
        }
        let head = format!("inc\t{fs_s}\t{mode_s}\t{cont_s}\t{}", enc_items(&main));
        if let Some(p) = &o.panic {
            writeln!(w, "{head}\tPANIC\tFAIL C18,C03: analysis of a program with includes panicked: {} ;; {}", &p[..p.len().min(100)], text.replace('\n', "\\n")).unwrap();
            let _ = std::fs::remove_dir_all(&root);
            continue;
        }
        // markers in symbol order
        let markers: Vec<String> = o.symbols.iter().filter_map(|(n, _)| n.strip_prefix("mk_").map(|t| format!("M{t}"))).collect();
        // unreadable includes: FileNotFound (or other io kinds) tagged with the path
        let mut unread = Vec::new();
        let mut oracle = "ok".to_string();
        for (k, _s, _e, file) in &o.errors {
            if k == "FileNotFound" || k == "PermissionDenied" || k == "IOError" {
                // the diagnostic sits on the path written in the include statement (of the including file)
                let src = if file == "no file" { text.clone() } else { std::fs::read_to_string(file).unwrap_or_default() };
                let (a, b) = (*_s as usize, *_e as usize);
                let written = src.get(a..b).unwrap_or("").trim_matches('"').replace("\\x2e", ".").replace("\\u{69}", "i");
                let p = PathBuf::from(&written);
                let name = p.file_name().and_then(|x| x.to_str()).unwrap_or("");
                let f = if name == "stdgates.inc" { "77" } else { name.trim_start_matches('f').trim_end_matches(".inc") };
                if let Ok(rel) = p.strip_prefix(&root) {
                    let d = rel.components().next().map(|c| c.as_os_str().to_string_lossy().trim_start_matches('d').to_string()).unwrap_or_default();
                    unread.push(format!("XF{d}:{f}"));
                } else {
                    unread.push(format!("XG{f}"));
                }
            } else if k.starts_with("RedeclarationError(\"dup_") {
                // diagnostics of an included file are kept in the list tagged with its path
                let t: u32 = k.trim_start_matches("RedeclarationError(\"dup_").trim_end_matches("\")").parse().unwrap_or(0);
                let owner = content.iter().find(|(_, items)| items.iter().any(|i| matches!(i, Item::Mark(x) if *x == t))).map(|(k, _)| world.path(k.0, k.1).display().to_string());
                let expect = owner.unwrap_or("no file".to_string());
                if *file != expect {
                    oracle = format!("FAIL C18: the diagnostic of marker {t} is tagged '{file}' instead of '{expect}'");
                }
            }
        }
        // in-place textual inclusion: same graph, same symbols, same diagnostic kinds
        if oi.panic.is_some() {
            oracle = "FAIL C18: the inlined program panics".into();
        } else {
            let mut k1: Vec<&String> = o.errors.iter().map(|e| &e.0).collect();
            let mut k2: Vec<&String> = oi.errors.iter().map(|e| &e.0).collect();
            k1.sort();
            k2.sort();
            if o.stmts != oi.stmts {
                oracle = "FAIL C18,C06: the graph differs from the graph of the program with the included text written in place".into();
            } else if o.symbols != oi.symbols {
                oracle = "FAIL C18: the symbols differ from those of the program with the included text written in place".into();
            } else if k1 != k2 {
                oracle = format!("FAIL C18: the diagnostics differ from those of the inlined program: {k1:?} vs {k2:?}");
            }
        }
        if o.scope_depth != 1 {
            oracle = format!("FAIL C03: {} scopes open after analysis", o.scope_depth);
        }
        // the span of every semantic diagnostic is a node range of the file it is tagged with (C12)
        if let (false, Some(v)) = (oracle.starts_with("FAIL"), sem_range_violation(&text, &o)) {
            oracle = v;
        }
        if let (false, Some(v)) = (oracle.starts_with("FAIL"), entry_verdict) {
            oracle = v;
        }
        let oracle = if oracle.starts_with("FAIL") { format!("{oracle} ;; {}", text.replace('\n', "\\n")) } else { oracle };
        writeln!(w, "{head}\t{}|{}\t{oracle}", markers.join(" "), unread.join(" ")).unwrap();
        let _ = std::fs::remove_dir_all(&root);
    }
    // includes below the global scope and degenerate includes: reported, never a panic
    if shard == 0 {
        for (t, want) in [
            ("if (true) { include \"nofile.inc\"; }", "IncludeNotInGlobalScopeError"),
            ("gate g q { include \"nofile.inc\"; }", "IncludeNotInGlobalScopeError"),
            ("def f() { include \"stdgates.inc\"; }", "IncludeNotInGlobalScopeError"),
            ("include \"definitely_missing_file.inc\";", "FileNotFound"),
            ("include 'single_quoted.inc';", "FileNotFound"),
            ("include \"foo\"suffix;", "InvalidFilename"),
            // a syntax error: the analysis is not run, but parsing the includes must not panic
            ("include ;", ""),
        ] {
            let o = run_sema(t);
            let verdict = if let Some(p) = &o.panic {
                format!("FAIL C18: panic on `{t}`: {}", &p[..p.len().min(80)])
            } else if want.is_empty() || o.errors.iter().any(|e| e.0.starts_with(want)) {
                "ok".to_string()
            } else {
                format!("FAIL C18: `{t}` is not reported as {want}: {:?}", o.errors.iter().map(|e| e.0.clone()).collect::<Vec<_>>())
            };
            writeln!(w, "inc\t-\tS:-|E:-\t-\t-\t|\t{verdict}").unwrap();
        }
    }
    let _ = std::fs::remove_dir_all(&base);
    finish(w);
}

fn join(v: &[u32]) -> String {
    v.iter().map(|d| d.to_string()).collect::<Vec<_>>().join(",")
}
