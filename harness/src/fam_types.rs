// Family `types`: every function of types.rs (and asg.rs:implicit_cast_type) on every ordered
// pair of the finite abstraction of property C20.
use crate::util::*;
use oq3_semantics::asg::{self, ArithOp};
use oq3_semantics::types::{self, ArrayDims, IsConst, Type};
use std::io::Write;

pub fn enc_dims(d: &ArrayDims) -> String {
    match d {
        ArrayDims::D1(a) => format!("D1 {a}"),
        ArrayDims::D2(a, b) => format!("D2 {a} {b}"),
        ArrayDims::D3(a, b, c) => format!("D3 {a} {b} {c}"),
    }
}
fn enc_w(w: &Option<u32>) -> String {
    match w {
        None => "n".to_string(),
        Some(w) => w.to_string(),
    }
}
fn enc_c(c: &IsConst) -> &'static str {
    match c {
        IsConst::True => "1",
        IsConst::False => "0",
    }
}
pub fn enc(t: &Type) -> String {
    use Type::*;
    match t {
        Bit(c) => format!("Bit {}", enc_c(c)),
        Qubit => "Qubit".into(),
        HardwareQubit => "HardwareQubit".into(),
        Int(w, c) => format!("Int {} {}", enc_w(w), enc_c(c)),
        UInt(w, c) => format!("UInt {} {}", enc_w(w), enc_c(c)),
        Float(w, c) => format!("Float {} {}", enc_w(w), enc_c(c)),
        Angle(w, c) => format!("Angle {} {}", enc_w(w), enc_c(c)),
        Complex(w, c) => format!("Complex {} {}", enc_w(w), enc_c(c)),
        Bool(c) => format!("Bool {}", enc_c(c)),
        Duration(c) => format!("Duration {}", enc_c(c)),
        Stretch(c) => format!("Stretch {}", enc_c(c)),
        BitArray(d, c) => format!("BitArray {} {}", enc_dims(d), enc_c(c)),
        QubitArray(d) => format!("QubitArray {}", enc_dims(d)),
        IntArray(d) => format!("IntArray {}", enc_dims(d)),
        UIntArray(d) => format!("UIntArray {}", enc_dims(d)),
        FloatArray(d) => format!("FloatArray {}", enc_dims(d)),
        AngleArray(d) => format!("AngleArray {}", enc_dims(d)),
        ComplexArray(d) => format!("ComplexArray {}", enc_dims(d)),
        BoolArray(d) => format!("BoolArray {}", enc_dims(d)),
        DurationArray(d) => format!("DurationArray {}", enc_dims(d)),
        Gate(a, b) => format!("Gate {a} {b}"),
        SubroutineDef(s) => format!("SubroutineDef {} {}", s.num_params, enc(&s.return_type)),
        Range => "Range".into(),
        Set => "Set".into(),
        Void => "Void".into(),
        ToDo => "ToDo".into(),
        Undefined => "Undefined".into(),
    }
}

pub fn universe() -> Vec<Type> {
    use Type::*;
    let widths = [None, Some(1u32), Some(8), Some(32), Some(64), Some(128), Some(u32::MAX)];
    let consts = [IsConst::True, IsConst::False];
    let dims = [
        ArrayDims::D1(3),
        ArrayDims::D1(4),
        ArrayDims::D2(3, 4),
        ArrayDims::D2(4, 3),
        ArrayDims::D3(2, 3, 4),
    ];
    let mut v = vec![Qubit, HardwareQubit, Range, Set, Void, ToDo, Undefined];
    for c in &consts {
        v.push(Bit(c.clone()));
        v.push(Bool(c.clone()));
        v.push(Duration(c.clone()));
        v.push(Stretch(c.clone()));
        for w in &widths {
            v.push(Int(*w, c.clone()));
            v.push(UInt(*w, c.clone()));
            v.push(Float(*w, c.clone()));
            v.push(Angle(*w, c.clone()));
            v.push(Complex(*w, c.clone()));
        }
        for d in &dims {
            v.push(BitArray(d.clone(), c.clone()));
        }
    }
    for d in &dims {
        v.push(QubitArray(d.clone()));
        v.push(IntArray(d.clone()));
        v.push(UIntArray(d.clone()));
        v.push(FloatArray(d.clone()));
        v.push(AngleArray(d.clone()));
        v.push(ComplexArray(d.clone()));
        v.push(BoolArray(d.clone()));
        v.push(DurationArray(d.clone()));
    }
    v.push(Gate(0, 1));
    v.push(Gate(3, 1));
    v.push(Gate(0, 2));
    for n in [0usize, 2] {
        for r in [Void, Int(Some(32), IsConst::False), Int(Some(32), IsConst::True)] {
            v.push(SubroutineDef(types::SubroutineDef { num_params: n, return_type: Box::new(r) }));
        }
    }

    v
}

const OPS: [ArithOp; 11] = [
    ArithOp::Add,
    ArithOp::Sub,
    ArithOp::Mul,
    ArithOp::Div,
    ArithOp::Mod,
    ArithOp::Rem,
    ArithOp::Shl,
    ArithOp::Shr,
    ArithOp::BitXOr,
    ArithOp::BitOr,
    ArithOp::BitAnd,
];

fn b(x: bool) -> u8 {
    x as u8
}

pub fn unary(t: &Type) -> String {
    let dims = match t.dims() {
        None => "n".to_string(),
        Some(v) => format!("[{}]", v.iter().map(|x| x.to_string()).collect::<Vec<_>>().join(",")),
    };
    format!(
        "base={:?};scalar={};width={};const={};quantum={};ndims={};dims={}",
        t.base_type(),
        b(t.is_scalar()),
        enc_w(&t.width()),
        b(t.is_const()),
        b(t.is_quantum()),
        t.num_dims(),
        dims
    )
}

pub fn binary(a: &Type, bb: &Type) -> String {
    watch_case(&format!("type functions on ({}, {})", enc(a), enc(bb)));
    let s = binary_(a, bb);
    watch_idle();
    s
}
fn binary_(a: &Type, bb: &Type) -> String {
    let mut s = format!(
        "promote={};pne={};ccl={};ebt={};eutc={};shape={};edims={}",
        enc(&types::promote_types(a, bb)),
        enc(&types::promote_types_not_equal(a, bb)),
        b(types::can_cast_literal(a, bb)),
        b(types::equal_base_type(a, bb)),
        b(types::verif_equal_up_to_constness(a, bb)),
        b(a.equal_up_to_shape(bb)),
        b(a.equal_up_to_dims(bb)),
    );
    // implicit_cast_type: Add, Div and one of the "likely not correct" group suffice to
    // distinguish the three arms; all eleven are printed.
    for op in OPS.iter() {
        s.push_str(&format!(";{:?}={}", op, enc(&asg::implicit_cast_type(op, a, bb))));
    }
    s
}

pub fn run(args: &[String]) {
    let triples = arg_u64(args, "--triples", 0);
    let seed = arg_u64(args, "--seed", 1);
    let u = universe();
    let mut w = out();
    for t in &u {
        writeln!(w, "ty1\t{}\t{}", enc(t), unary(t)).unwrap();
    }
    for a in &u {
        for bb in &u {
            writeln!(w, "ty2\t{}\t{}\t{}", enc(a), enc(bb), binary(a, bb)).unwrap();
        }
    }
    // triples: promote(promote(a,b),c) and promote(a,promote(b,c)); random sample or all
    if triples > 0 {
        let n = u.len() as u64;
        let total = n * n * n;
        let mut rng = Rng::new(seed);
        let all = triples >= total;
        let count = if all { total } else { triples };
        for i in 0..count {
            let k = if all { i } else { rng.below(total) };
            let (a, bb, c) = (&u[(k / (n * n)) as usize], &u[((k / n) % n) as usize], &u[(k % n) as usize]);
            watch_case(&format!("promote_types on the triple ({}, {}, {})", enc(a), enc(bb), enc(c)));
            let l = types::promote_types(&types::promote_types(a, bb), c);
            let r = types::promote_types(a, &types::promote_types(bb, c));
            watch_idle();
            writeln!(w, "ty3\t{}\t{}\t{}\tl={};r={}", enc(a), enc(bb), enc(c), enc(&l), enc(&r)).unwrap();
        }
    }
    finish(w);
}
