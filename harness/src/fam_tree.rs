// Family `tree`: text -> oq3_syntax::SourceFile::{parse, parse_check_lex} (lexer, parser, trivia
// interleaving, rowan tree, validation).
// Line: "tree\t<chars as cp.bits>\t<impl>\t<oracle>"
//   impl = T=<sexp>;PE=<parser error offsets>;LE=<lexer error ranges>;VT=<timing validation ranges>;
//          VE=<number of other validation errors>;CL=<parse_check_lex has a tree>
use crate::fam_lex::{enc_text, gen_lexeme, layout, Lexeme};
use crate::util::*;
use oq3_syntax::{SourceFile, SyntaxKind, SyntaxNode, NodeOrToken};
use std::io::Write;

fn sexp(n: &SyntaxNode, s: &mut String) {
    s.push('(');
    s.push_str(&(n.kind() as u16).to_string());
    for c in n.children_with_tokens() {
        s.push(' ');
        match c {
            NodeOrToken::Node(x) => sexp(&x, s),
            NodeOrToken::Token(t) => s.push_str(&format!("{}:{}", t.kind() as u16, u32::from(t.text_range().len()))),
        }
    }
    s.push(')');
}

/// C02 facts checked directly on the implementation's tree.
fn check_tiling(n: &SyntaxNode, oracle: &mut Option<String>) {
    let mut pos = n.text_range().start();
    for c in n.children_with_tokens() {
        let r = c.text_range();
        if r.start() != pos && oracle.is_none() {
            *oracle = Some(format!("C02: gap or overlap before child at {:?} of node {:?}", r, n.kind()));
        }
        pos = r.end();
        if let NodeOrToken::Node(x) = c {
            check_tiling(&x, oracle);
        }
    }
    // an empty node is allowed (its range is empty); otherwise the children must end at the node's end
    if pos != n.text_range().end() && oracle.is_none() {
        *oracle = Some(format!("C02: children of {:?} do not reach the end of its range", n.kind()));
    }
}

fn has_error_element(n: &SyntaxNode) -> bool {
    n.descendants_with_tokens().any(|e| e.kind() == SyntaxKind::ERROR)
}

pub fn tree_case(text: &str) -> (String, String) {
    let r = catch(std::panic::AssertUnwindSafe(|| {
        let mut oracle: Option<String> = None;
        let (green, base_errors) = oq3_syntax::parse_text(text);
        let parse = SourceFile::parse(text);
        let root = parse.syntax_node();
        let _ = green;
        let mut s = String::new();
        sexp(&root, &mut s);
        let all = parse.errors();
        let nbase = base_errors.len();
        let mut pe = Vec::new();
        let mut le = Vec::new();
        for e in &all[..nbase.min(all.len())] {
            let r = e.range();
            if r.is_empty() {
                pe.push(u32::from(r.start()).to_string());
            } else {
                le.push(format!("{}-{}", u32::from(r.start()), u32::from(r.end())));
            }
        }
        let mut vt = Vec::new();
        let mut ve = 0;
        for e in &all[nbase.min(all.len())..] {
            let r = e.range();
            if r.is_empty() {
                ve += 1;
            } else {
                vt.push(format!("{}-{}", u32::from(r.start()), u32::from(r.end())));
            }
        }
        // C02 on the implementation
        if root.kind() != SyntaxKind::SOURCE_FILE {
            oracle = Some("C02: root is not SOURCE_FILE".into());
        }
        if root.text().to_string() != text {
            oracle = Some("C02: leaves do not spell the input".into());
        }
        let rr = root.text_range();
        if u32::from(rr.start()) != 0 || u32::from(rr.end()) as usize != text.len() {
            oracle = Some("C02: root does not span [0, len)".into());
        }
        check_tiling(&root, &mut oracle);
        // C12: spans valid, on character boundaries; error node/token <=> at least one diagnostic
        for e in all.iter() {
            let r = e.range();
            let (a, b) = (u32::from(r.start()) as usize, u32::from(r.end()) as usize);
            if !(a <= b && b <= text.len() && text.is_char_boundary(a) && text.is_char_boundary(b)) && oracle.is_none() {
                oracle = Some(format!("C12: diagnostic range {a}..{b} is not a valid span of the text"));
            }
        }
        if has_error_element(&root) && all.is_empty() && oracle.is_none() {
            oracle = Some("C12: tree has an error node or token but no diagnostic".into());
        }
        // the lex-checked entry point
        let cl = SourceFile::parse_check_lex(text);
        let lexed = oq3_parser::LexedStr::new(text);
        let lex_clean = lexed.errors_is_empty();
        if cl.have_parse() != lex_clean && oracle.is_none() {
            oracle = Some(format!("C11: parse_check_lex has_tree={} but lexical errors empty={}", cl.have_parse(), lex_clean));
        }
        if cl.have_parse() {
            let mut s2 = String::new();
            sexp(&cl.syntax_node(), &mut s2);
            if s2 != s && oracle.is_none() {
                oracle = Some("C02: the two entry points built different trees".into());
            }
            if cl.errors().len() != all.len() && oracle.is_none() {
                oracle = Some("C11: the two entry points report different diagnostics on lexically clean input".into());
            }
        } else if cl.errors().is_empty() && oracle.is_none() {
            oracle = Some("C11: no tree and no diagnostics".into());
        }
        (
            format!("T={};PE={};LE={};VT={};VE={};CL={}", s, pe.join(","), le.join(","), vt.join(","), ve, cl.have_parse() as u8),
            oracle,
        )
    }));
    match r {
        Ok((s, o)) => (s, o.map(|m| format!("FAIL {m}")).unwrap_or("ok".into())),
        Err(m) => (format!("PANIC {}", &m[..m.len().min(80)]), format!("FAIL C01: parse panicked: {}", &m[..m.len().min(120)])),
    }
}

pub fn emit(w: &mut impl Write, text: &str) {
    let (r, o) = tree_case(text);
    writeln!(w, "tree\t{}\t{}\t{}", enc_text(text), r, o).unwrap();
}

pub fn corpus() -> Vec<String> {
    let mut v = Vec::new();
    fn walk(d: &std::path::Path, v: &mut Vec<String>) {
        if let Ok(rd) = std::fs::read_dir(d) {
            let mut es: Vec<_> = rd.flatten().map(|e| e.path()).collect();
            es.sort();
            for p in es {
                if p.is_dir() {
                    walk(&p, v);
                } else if p.extension().map(|x| x == "qasm").unwrap_or(false) {
                    if let Ok(s) = std::fs::read_to_string(&p) {
                        v.push(s);
                    }
                }
            }
        }
    }
    walk(std::path::Path::new("/repo/crates/pipeline-tests/tests/snippets"), &mut v);
    v
}

/// Split a snippet into statements (rough: on ';' and '}' boundaries) for windowed mutation.
fn windows(src: &str, rng: &mut Rng) -> String {
    let lines: Vec<&str> = src.lines().filter(|l| !l.trim().is_empty()).collect();
    if lines.is_empty() {
        return String::new();
    }
    let a = rng.below(lines.len() as u64) as usize;
    let n = 1 + rng.below(4) as usize;
    lines[a..(a + n).min(lines.len())].join("\n")
}

pub fn run(args: &[String]) {
    silence_panics();
    let mut w = out();
    if let Some(t) = arg_val(args, "--text") {
        emit(&mut w, &crate::fam_lex::dec_text(&t));
        finish(w);
        return;
    }
    let shard = arg_u64(args, "--shard", 0);
    let _nshards = arg_u64(args, "--nshards", 1);
    let seed = arg_u64(args, "--seed", 1);
    let mut rng = Rng::new(seed.wrapping_add(shard.wrapping_mul(15485863)));
    // (a) whole corpus files (only shard 0), then token-level mutants of windows of them
    let corp = corpus();
    if shard == 0 && arg_u64(args, "--corpus", 0) > 0 {
        for c in &corp {
            emit(&mut w, c);
        }
    }
    let nmut = arg_u64(args, "--mutants", 0);
    for _ in 0..nmut {
        if corp.is_empty() {
            break;
        }
        let src = &corp[rng.below(corp.len() as u64) as usize];
        let win = windows(src, &mut rng);
        // token-level mutation through the implementation's own lexer
        let lexed = oq3_parser::LexedStr::new(&win);
        let mut toks: Vec<String> = (0..lexed.len()).map(|i| lexed.text(i).to_string()).collect();
        if toks.is_empty() {
            continue;
        }
        for _ in 0..(1 + rng.below(3)) {
            let i = rng.below(toks.len() as u64) as usize;
            match rng.below(5) {
                0 => {
                    toks.remove(i);
                }
                1 => {
                    let j = rng.below(toks.len() as u64) as usize;
                    toks.swap(i, j);
                }
                2 => {
                    let t = toks[i].clone();
                    toks.insert(i, t);
                }
                3 => {
                    let l = gen_lexeme(&mut rng);
                    toks.insert(i, format!(" {} ", l.text));
                }
                _ => {
                    let frag = ["(", ")", "[", "]", "{", "}", ";", ",", "=", "==", "->", "@", "**", "++", ":", "1.", ".5", "3ns", "im", "$0"];
                    toks[i] = frag[rng.below(frag.len() as u64) as usize].to_string();
                }
            }
            if toks.is_empty() {
                break;
            }
        }
        emit(&mut w, &toks.concat());
    }
    // (a') every pair / triple of operator characters that can combine into a composite operator, written
    //      adjacent, with a block comment, with a blank, with a comment and a blank, and with a line break between
    //      them (jointness must mean raw adjacency: C02's builder and the parser count raw tokens alike)
    if shard == 0 && arg_u64(args, "--joints", 0) > 0 {
        let ops = ["-", "=", ">", "<", ":", "!", ".", "*", "/", "&", "%", "^", "+", "|"];
        let seps = ["", "/*c*/", " ", "/*c*/ ", "\n", "/**/ /**/"];
        for a in ops {
            for b in ops {
                for sep in seps {
                    emit(&mut w, &format!("int x = p {a}{sep}{b} q;\nint y = 3;\n"));
                    emit(&mut w, &format!("p {a}{sep}{b}{sep}= q; // tail"));
                }
            }
        }
        // the same pairs, separated by a blank, placed so that the first character is parser token 61..65 and
        // 125..129 (the joint bits are kept in 64-bit words), after a first statement whose first token is
        // glued to its successor (`x=1;`) or not (`x = 1;`)
        for first in ["x=1;", "x = 1;"] {
            for target in [63usize, 127] {
                for shift in 0..5usize {
                    let want = target + shift - 2;          // index of the first operator character
                    let before = want - 4 - 3;              // tokens between the first statement and `z = a`
                    let mut text = String::from(first);
                    text.push('\n');
                    for i in 0..(before / 2) {
                        text.push_str(&format!("y{i};\n"));
                    }
                    if before % 2 == 1 {
                        text.push_str(";\n");
                    }
                    for (a, b) in [(">", ">"), ("<", "="), ("=", "="), ("!", "="), ("-", ">"), ("&", "&"), ("|", "|"), ("*", "*"), ("+", "+")] {
                        emit(&mut w, &format!("{text}z = a {a} {b} b;\nint last;\n"));
                        emit(&mut w, &format!("{text}z = a {a}{b} b;\nint last;\n"));
                    }
                    // glued two- and three-character operators in valid statements around the same positions:
                    // no diagnostic may appear (C04), whatever the position of the operator in the token table
                    for stmt in ["z >>= 1;", "z <<= 2;", "int z = a >> b;", "int z = a << b;", "int z = a >= b;", "int z = a <= b;", "int z = a == b;", "int z = a != b;", "int z = a && b;", "int z = a || b;", "int z = a ** b;", "z += 1;", "z -= 1;", "z *= 2;", "z /= 2;", "z |= 1;", "z &= 1;", "z ^= 1;", "z %= 2;", "int z = a ++ b;"] {
                        for pad in ["", "h q;\n", ";\n", "h q; ;\n"] {
                            let t = format!("{text}{pad}{stmt}\nint last;\n");
                            let (r, o) = tree_case(&t);
                            let clean = r.contains(";PE=;LE=;VT=;VE=0;");
                            let o = if o == "ok" && !clean { "FAIL C04: syntax diagnostics on a valid program (an operator near a 64-token boundary)".to_string() } else { o };
                            writeln!(w, "tree\t{}\t{}\t{}", enc_text(&t), r, o).unwrap();
                        }
                    }
                }
            }
        }
        for (a, b, c) in [(".", ".", "."), (".", ".", "="), ("<", "<", "="), (">", ">", "=")] {
            for s1 in seps {
                for s2 in seps {
                    emit(&mut w, &format!("x = p {a}{s1}{b}{s2}{c} q;\nh q;"));
                }
            }
        }
    }
    // (b) random lexeme sequences
    for _ in 0..arg_u64(args, "--lexemes", 0) {
        let n = 1 + rng.below(10) as usize;
        let ls: Vec<Lexeme> = (0..n).map(|_| gen_lexeme(&mut rng)).collect();
        emit(&mut w, &layout(&ls, &mut rng, false));
    }
    // (c) statement templates with random holes
    let templates: &[&str] = &[
        "int[32] x = E;", "const float f = E;", "qubit[E] q;", "bit c;", "x = E;", "x[E] = E;", "c = measure q;",
        "if (E) { S } else S", "while (E) S", "for int i in [E:E] S", "for uint i in {E, E} { S }", "gate g(a, b) q, r { S }",
        "def f(int[8] a, qubit q) -> bit { return E; }", "h q;", "cx q[0], q[1];", "U(E, E, E) q;", "inv @ pow(E) @ ctrl @ h q, r;",
        "gphase(E);", "reset q;", "barrier q, r;", "delay[E] q;", "let a = q[E:E];", "switch (E) { case E { S } default { S } }",
        "include \"stdgates.inc\";", "OPENQASM 3.0;", "pragma foo\n", "@ann bar\nS", "input int[8] p;", "output bit o;",
        "extern e(int[8]) -> bit;", "break;", "continue;", "end;", "return E;", "E;", "{ S S }", "array[int[8], 2, 3] a = {{E, E}, {E}};",
        "creg c[3];", "qreg r[2];", "box { S }", "defcal g q { S }", "cal { S }", "defcalgrammar \"x\";", "duration d = 3ns;",
        "complex[float[64]] z = 1.5 im;", "x += E;", "measure q -> c;",
    ];
    let exprs: &[&str] = &[
        "1", "x", "a + b", "a * b + c", "-a", "!b", "~c", "(a)", "f(a, b)", "a[1]", "a[1:2]", "int[8](a)", "2.5", "1e3", "\"0101\"", "true", "3ns", "2 im",
        "a ** b", "a << 2", "a < b && c", "a == b", "a ++ b", "pi", "$0", "measure q", "a[0][1]", "-1", "a || b", "a ^ b | c & d", "float(x) / 2", "a % b", "a >= b", "a != b",
        "", "+", "(", ")", "1 +", "* 2", "a b", "[", "{", "}", ",",
    ];
    for _ in 0..arg_u64(args, "--templates", 0) {
        let mut s = templates[rng.below(templates.len() as u64) as usize].to_string();
        let mut guard = 0;
        while (s.contains('E') || s.contains('S')) && guard < 12 {
            guard += 1;
            if let Some(i) = s.find('S') {
                // only replace a stand-alone hole
                let rep = if guard > 4 { "h q;".to_string() } else { templates[rng.below(templates.len() as u64) as usize].to_string() };
                let before = s[..i].chars().last();
                let after = s[i + 1..].chars().next();
                let alone = !before.map(|c| c.is_alphanumeric() || c == '_' || c == '"').unwrap_or(false)
                    && !after.map(|c| c.is_alphanumeric() || c == '_' || c == '.').unwrap_or(false);
                if alone {
                    s.replace_range(i..i + 1, &rep);
                    continue;
                }
            }
            if let Some(i) = s.find('E') {
                let before = s[..i].chars().last();
                let after = s[i + 1..].chars().next();
                let alone = !before.map(|c| c.is_alphanumeric() || c == '_' || c == '"').unwrap_or(false)
                    && !after.map(|c| c.is_alphanumeric() || c == '_').unwrap_or(false);
                if alone {
                    s.replace_range(i..i + 1, exprs[rng.below(exprs.len() as u64) as usize]);
                    continue;
                }
            }
            break;
        }
        emit(&mut w, &s);
    }
    // (e) generated programs of the reference grammar in every layout (also decides C04 on the implementation)
    for _ in 0..arg_u64(args, "--programs", 0) {
        let size = 1 + rng.below(8) as usize;
        let depth = rng.below(5) as u32;
        let prog = crate::gen::Gen { rng: &mut rng, sema_safe: false }.program(size, depth);
        let lay = crate::gen::Layout { redundant_parens: rng.below(3) == 0, trivia: rng.below(3) as u8 };
        let (text, _) = crate::gen::print_program(&prog, lay, &mut rng);
        let (r, o) = tree_case(&text);
        let clean = r.contains(";PE=;LE=;VT=;VE=0;");
        let o = if o == "ok" && !clean { "FAIL C04: syntax diagnostics on a program of the reference grammar".to_string() } else { o };
        writeln!(w, "tree\t{}\t{}\t{}", enc_text(&text), r, o).unwrap();
    }
    // (f0) \u{...} and \x.. escapes with every digit count up to 12 (value arithmetic of the unescaper, C01)
    if arg_u64(args, "--escapes", 0) > 0 && shard == 0 {
        for nd in 0..=12usize {
            for d in ["F", "1", "0", "8"] {
                let digits = d.repeat(nd);
                for text in [format!("x = \"\\u{{{digits}}}\";"), format!("\"a\\u{{{digits}\";"), format!("x = \"\\x{digits}\";"), format!("x = '\\u{{{digits}}}';")] {
                    emit(&mut w, &text);
                }
            }
        }
    }
    // (f) string literals with escape sequences, valid and invalid, ASCII and not (validation spans, C12)
    for _ in 0..arg_u64(args, "--escapes", 0) {
        let pieces = ["\\", "\\", "x", "u{", "}", "0", "7", "f", "Z", "é", "€", "😀", "q", "n", "t", "'", " ", "\\\\", "1F600", "D800", "110000", "_",
                      "123456789", "FFFFFFFFFF", "00000000", "7fffffff", "80", "\r", "\n", "\\\n", "  ", "\t", "\""];
        let n = 1 + rng.below(6);
        let mut body = String::new();
        for _ in 0..n {
            body.push_str(pieces[rng.below(pieces.len() as u64) as usize]);
        }
        let text = match rng.below(6) {
            // single-quoted strings are STRING tokens too (the validator looks for double quotes inside them)
            4 => format!("x = '{body}';"),
            5 => format!("x = 'é\"{body}\"';"),
            0 => format!("x = \"{body}\";"),
            1 => format!("include \"{body}\";"),
            2 => format!("é = \"{body}\" ;"),
            _ => format!("f(\"{body}\", 1);"),
        };
        emit(&mut w, &text);
    }
    // (g) a valid statement with exactly one unknown character spliced in at a token boundary
    //     (the only error of the input: an ERROR node must still come with a diagnostic, C12)
    let nun = arg_u64(args, "--unknown", 0);
    if nun > 0 {
        let ts = crate::fam_accept::templates();
        for _ in 0..nun {
            let t = &ts[rng.below(ts.len() as u64) as usize].1;
            let lexed = oq3_parser::LexedStr::new(t);
            let n = lexed.len();
            if n == 0 {
                continue;
            }
            let at = rng.below(n as u64 + 1) as usize;
            let ch = ["§", "`", "\\", "№", "?", "¤", "\u{7f}", "€", "\0", "\u{1}"][rng.below(10) as usize];
            let mut s2 = String::new();
            for i in 0..n {
                if i == at {
                    s2.push_str(ch);
                }
                s2.push_str(lexed.text(i));
            }
            if at == n {
                s2.push_str(ch);
            }
            emit(&mut w, &s2);
        }
    }
    // (d) fragment soups as in the lex family
    for _ in 0..arg_u64(args, "--random", 0) {
        let frags: &[&str] = &["x", " ", "\n", "1", "1.", ".5", "e", "ns", "im", "(", ")", "[", "]", "{", "}", ";", ",", "=", "+", "-", "*", "/", "<", ">", "!", "&", "|", "^", "%", "~", ":", "@", "$1", "\"01\"", "'ab'", "int", "float", "qubit", "gate", "def", "if", "else", "for", "in", "while", "return", "measure", "reset", "let", "const", "delay", "box", "array", "complex", "bit", "ctrl", "inv", "pow", "negctrl", "gphase", "switch", "case", "default", "include", "extern", "input", "output", "barrier", "break", "end", "creg", "qreg", "OPENQASM 3;", "pragma x\n", "// c\n", "/* c */", "->", "é", "😀", "#", "\0", "\u{7f}", "\u{feff}", "\u{200b}", "\r", "\t", "\u{85}"];
        let n = 1 + rng.below(10);
        let mut s = String::new();
        for _ in 0..n {
            s.push_str(frags[rng.below(frags.len() as u64) as usize]);
            if rng.below(3) == 0 {
                s.push(' ');
            }
        }
        emit(&mut w, &s);
    }
    finish(w);
}
