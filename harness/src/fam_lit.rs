// Family `lit` (C10): literal spellings -> AST accessor values and ASG literals.
// Line: "lit\t<class>\t<text as code points>\t<expected>\t<impl>\t<oracle>"
use crate::sema::*;
use crate::util::*;
use oq3_syntax::ast::{self, AstNode};
use oq3_syntax::SourceFile;
use std::io::Write;

fn cps(s: &str) -> String {
    s.chars().map(|c| (c as u32).to_string()).collect::<Vec<_>>().join(" ")
}

fn first_literal(text: &str) -> Option<ast::Literal> {
    let parse = SourceFile::parse(text);
    parse.syntax_node().descendants().find_map(ast::Literal::cast)
}

fn spell_int(n: u128, radix: u32, upper_prefix: bool, rng: &mut Rng, underscores: bool, upper_digits: bool) -> String {
    let digits = match radix {
        2 => format!("{n:b}"),
        8 => format!("{n:o}"),
        16 => if upper_digits { format!("{n:X}") } else { format!("{n:x}") },
        _ => n.to_string(),
    };
    let mut body = String::new();
    for (i, c) in digits.chars().enumerate() {
        if underscores && i > 0 && rng.below(3) == 0 {
            body.push('_');
            if rng.below(6) == 0 {
                body.push('_');
            }
        }
        body.push(c);
    }
    if underscores && rng.below(4) == 0 {
        body.push('_');
    }
    let p = match (radix, upper_prefix) {
        (2, false) => "0b",
        (2, true) => "0B",
        (8, false) => "0o",
        (8, true) => "0O",
        (16, false) => "0x",
        (16, true) => "0X",
        _ => "",
    };
    format!("{p}{body}")
}

fn asg_first_literal(text: &str) -> (Option<D>, Option<String>, Option<String>) {
    let o = run_sema(text);
    if let Some(p) = o.panic {
        return (None, None, Some(p));
    }
    for s in &o.stmts {
        let d = parse_debug(s);
        let mut found: Option<D> = None;
        let mut ty: Option<String> = None;
        d.walk(&mut |x| {
            if found.is_none() && x.name() == "TExpr" {
                if let Some(e) = x.field("expression") {
                    if e.name() == "Literal" {
                        found = e.arg(0).cloned();
                        ty = x.field("ty").map(crate::fam_semt::enc_type);
                    }
                }
            }
        });
        if found.is_some() {
            return (found, ty, None);
        }
    }
    (None, None, None)
}

pub fn run(args: &[String]) {
    silence_panics();
    let mut w = out();
    let seed = arg_u64(args, "--seed", 1);
    let mut rng = Rng::new(seed);
    let n_int = arg_u64(args, "--ints", 400);
    // ---- integers
    let mut values: Vec<u128> = vec![0, 1, 7, 8, 9, 10, 15, 16, 255, 256, (1 << 32) - 1, 1 << 32, u64::MAX as u128, 1u128 << 64, u128::MAX, u128::MAX - 1, 1u128 << 127];
    for bits in 1..=128u32 {
        let m = if bits == 128 { u128::MAX } else { (1u128 << bits) - 1 };
        values.push(((rng.next() as u128) << 64 | rng.next() as u128) & m | (1u128 << (bits - 1)));
    }
    for i in 0..n_int {
        let n = values[(i as usize) % values.len()];
        let radix = [2u32, 8, 10, 16][rng.below(4) as usize];
        let up = rng.below(2) == 0;
        let us = rng.below(2) == 0;
        let upd = rng.below(2) == 0;
        let text = spell_int(n, radix, up, &mut rng, us, upd);
        // the lexer only knows lower-case prefixes; an upper-case prefix lexes as "0" + suffix but the
        // AST accessor still reads it as a radix prefix
        let ast_v = first_literal(&format!("{text};")).and_then(|l| match l.kind() {
            ast::LiteralKind::IntNumber(t) => Some(t.value()),
            _ => None,
        });
        let ast_s = match &ast_v {
            Some(Some(v)) => v.to_string(),
            Some(None) => "none".into(),
            None => "notint".into(),
        };
        let (lit, ty, panic) = asg_first_literal(&format!("{text};"));
        let asg_s = match (&lit, &panic) {
            (_, Some(p)) => format!("PANIC {}", &p[..p.len().min(40)]),
            (Some(d), _) if d.name() == "Int" => {
                let il = d.arg(0).unwrap();
                format!("{}:{}:{}", il.field("value").map(|x| x.name()).unwrap_or("?"), il.field("sign").map(|x| x.name()).unwrap_or("?"), ty.clone().unwrap_or_default())
            }
            _ => "other".into(),
        };
        let (nlit, _, npanic) = asg_first_literal(&format!("-{text};"));
        let neg_s = match (&nlit, &npanic) {
            (_, Some(p)) => format!("PANIC {}", &p[..p.len().min(40)]),
            (Some(d), _) if d.name() == "Int" => {
                let il = d.arg(0).unwrap();
                format!("{}:{}", il.field("value").map(|x| x.name()).unwrap_or("?"), il.field("sign").map(|x| x.name()).unwrap_or("?"))
            }
            _ => "other".into(),
        };
        let mut oracle = "ok".to_string();
        if ast_s != n.to_string() {
            oracle = format!("FAIL C10: AST value of {text} is {ast_s}, mathematical value {n}");
        } else if asg_s != format!("{n}:true:Int 128 1") {
            oracle = format!("FAIL C10: graph literal of {text} is {asg_s}, expected {n}:true:Int 128 1");
        } else if neg_s != format!("{n}:false") {
            oracle = format!("FAIL C10: graph literal of -{text} is {neg_s}, expected {n}:false");
        }
        writeln!(w, "lit\tint\t{}\t{n}\tast={ast_s};asg={asg_s};neg={neg_s}\t{oracle}", cps(&text)).unwrap();
    }
    // integers that do not fit: the AST accessor must say so (the analyser's handling is C03's business)
    for text in ["340282366920938463463374607431768211456", "0x100000000000000000000000000000000", "999999999999999999999999999999999999999999", "0b12", "0o9", "1_2_3abc", "0x1G", "0B102"] {
        let ast_v = first_literal(&format!("{text};")).and_then(|l| match l.kind() {
            ast::LiteralKind::IntNumber(t) => Some(t.value()),
            _ => None,
        });
        let ast_s = match &ast_v {
            Some(Some(v)) => v.to_string(),
            Some(None) => "none".into(),
            None => "notint".into(),
        };
        writeln!(w, "lit\tintx\t{}\t-\tast={ast_s}\tok", cps(text)).unwrap();
    }
    // ---- floats: nearest double, compared bit for bit
    let floats = ["1.5", "0.1", "1.", ".5", "1e10", "1.5e-3", "2E+5", ".25e2", "123456789.123456789", "1_0.0_1", "1e-320", "1.7976931348623157e308", "0.30000000000000004", "9007199254740993.0", "1e23", "5e-324", "3.14159_26535", "1_000.5e1_0"];
    for (i, f) in floats.iter().enumerate() {
        let _ = i;
        let clean: String = f.replace('_', "");
        let want: Option<f64> = clean.parse::<f64>().ok();
        let ast_v = first_literal(&format!("{f};")).and_then(|l| match l.kind() {
            ast::LiteralKind::FloatNumber(t) => t.value(),
            _ => None,
        });
        let (lit, ty, panic) = asg_first_literal(&format!("{f};"));
        let asg_v: Option<f64> = match &lit {
            Some(d) if d.name() == "Float" => d.arg(0).and_then(|fl| fl.field("value")).and_then(|v| if let D::Str(s) = v { s.parse::<f64>().ok() } else { None }),
            _ => None,
        };
        let (nlit, _, _) = asg_first_literal(&format!("-{f};"));
        let neg_v: Option<f64> = match &nlit {
            Some(d) if d.name() == "Float" => d.arg(0).and_then(|fl| fl.field("value")).and_then(|v| if let D::Str(s) = v { s.parse::<f64>().ok() } else { None }),
            _ => None,
        };
        let bits = |x: Option<f64>| x.map(|v| v.to_bits());
        let mut oracle = "ok".to_string();
        if let Some(p) = panic {
            oracle = format!("FAIL C03: analysis panicked on {f}: {}", &p[..p.len().min(60)]);
        } else if bits(ast_v) != bits(want) {
            oracle = format!("FAIL C10: AST value of {f} is {ast_v:?}, nearest double {want:?}");
        } else if bits(asg_v) != bits(want) {
            oracle = format!("FAIL C10: graph float of {f} is {asg_v:?}, nearest double {want:?}");
        } else if bits(neg_v) != bits(want.map(|v| -v)) {
            oracle = format!("FAIL C10: graph float of -{f} is {neg_v:?}");
        } else if ty.as_deref() != Some("Float n 1") && ty.as_deref() != Some("Float 64 1") {
            oracle = format!("FAIL C08: float literal typed {ty:?}");
        }
        writeln!(w, "lit\tfloat\t{}\t-\t{:?}\t{oracle}", cps(f), bits(asg_v)).unwrap();
    }
    // ---- bit strings
    for i in 0..arg_u64(args, "--bits", 60) {
        let len = if i < 4 { [1usize, 2, 255, 256][i as usize] } else { 1 + rng.below(40) as usize };
        let q = if rng.below(2) == 0 { '"' } else { '\'' };
        let mut body = String::new();
        let mut nbits = 0;
        while nbits < len {
            if !body.is_empty() && !body.ends_with('_') && rng.below(6) == 0 {
                body.push('_');
            } else {
                body.push(if rng.below(2) == 0 { '0' } else { '1' });
                nbits += 1;
            }
        }
        let text = format!("{q}{body}{q}");
        let ast_v = first_literal(&format!("{text};")).and_then(|l| match l.kind() {
            ast::LiteralKind::BitString(t) => t.str().map(|s| s.to_string()),
            _ => None,
        });
        let (lit, ty, panic) = asg_first_literal(&format!("{text};"));
        let asg_v = match &lit {
            Some(d) if d.name() == "BitString" => d.arg(0).and_then(|b| b.field("value")).and_then(|v| if let D::Str(s) = v { Some(s.clone()) } else { None }),
            _ => None,
        };
        let mut oracle = "ok".to_string();
        if let Some(p) = panic {
            oracle = format!("FAIL C03: analysis panicked on {text}: {}", &p[..p.len().min(60)]);
        } else if ast_v.as_deref() != Some(&body) || asg_v.as_deref() != Some(&body) {
            oracle = format!("FAIL C10: bit string {text}: AST {ast_v:?}, graph {asg_v:?}");
        } else if ty.as_deref() != Some(&format!("BitArray D1 {nbits} 1")) {
            oracle = format!("FAIL C10: bit string {text} typed {ty:?}, it has {nbits} bits");
        }
        writeln!(w, "lit\tbits\t{}\t{nbits}\tstr={};ty={}\t{oracle}", cps(&text), asg_v.as_deref().map(cps).unwrap_or("none".into()), ty.unwrap_or_default()).unwrap();
    }
    // ---- timing and imaginary literals, booleans
    // small numbers, and integers of every magnitude up to 2^128-1 in several spellings
    let mut nums: Vec<(String, bool)> = [("10", true), ("0", true), ("2_5", true), ("1.5", false), ("3.", false), ("1e3", false), (".5", false), (".25e1", false), ("1E-3", false), ("2.5e+2", false), ("1_0.5", false)].iter().map(|(a, b)| (a.to_string(), *b)).collect();
    for bits in [31u32, 32, 33, 53, 63, 64, 65, 100, 127, 128] {
        let v: u128 = if bits == 128 { u128::MAX } else { (1u128 << bits) + 1 };
        nums.push((v.to_string(), true));
        nums.push((format!("0x{v:x}"), true));
        let d = v.to_string();
        nums.push((format!("{}_{}", &d[..1], &d[1..]), true));
    }
    for (num, isint) in nums.iter().map(|(a, b)| (a.as_str(), *b)) {
        for unit in ["ns", "us", "µs", "ms", "s", "dt", "im"] {
            if num.starts_with("0x") && (unit == "dt" || unit == "s") {
                continue; // `d` is a hexadecimal digit; keep the spelling unambiguous
            }
            for sp in ["", " "] {
                let text = format!("{num}{sp}{unit}");
                let (lit, ty, panic) = asg_first_literal(&format!("{text};"));
                let want_kind = match (unit, isint) {
                    ("im", true) => "ImaginaryInt",
                    ("im", false) => "ImaginaryFloat",
                    (_, true) => "TimingIntLiteral",
                    (_, false) => "TimingFloatLiteral",
                };
                let want_unit = match unit {
                    "ns" => "NanoSecond",
                    "us" | "µs" => "MicroSecond",
                    "ms" => "MilliSecond",
                    "s" => "Second",
                    "dt" => "Cycle",
                    _ => "",
                };
                let mut oracle = "ok".to_string();
                if let Some(p) = panic {
                    oracle = format!("FAIL C03: analysis panicked on {text}: {}", &p[..p.len().min(60)]);
                } else if let Some(d) = &lit {
                    let inner = d.arg(0).cloned().unwrap_or(D::Atom("".into()));
                    let val = inner.field("value").cloned();
                    let unit_ok = unit == "im" || inner.field("time_unit").map(|u| u.name() == want_unit).unwrap_or(false);
                    let clean = num.replace('_', "");
                    let clean = match clean.strip_prefix("0x") {
                        Some(h) => u128::from_str_radix(h, 16).map(|v| v.to_string()).unwrap_or(clean.clone()),
                        None => clean,
                    };
                    let val_ok = match val {
                        Some(D::Atom(a)) => {
                            if isint { a == clean } else { a.parse::<f64>().ok().map(|x| x.to_bits()) == clean.parse::<f64>().ok().map(|x| x.to_bits()) }
                        }
                        Some(D::Str(s)) => s.parse::<f64>().ok().map(|x| x.to_bits()) == clean.parse::<f64>().ok().map(|x| x.to_bits()),
                        _ => false,
                    };
                    if d.name() != want_kind || !unit_ok || !val_ok {
                        oracle = format!("FAIL C10: {text} became {d:?}");
                    }
                    let want_ty_ok = if unit == "im" { ty.as_deref().map(|t| t.starts_with("Complex")).unwrap_or(false) } else { ty.as_deref() == Some("Duration 1") };
                    if oracle == "ok" && !want_ty_ok {
                        if unit == "im" && isint && ty.as_deref() == Some("Int 64 1") {
                            oracle = "KNOWN C08.imaginary_int_literal_type an imaginary integer literal is typed const int[64], not complex".into();
                        } else {
                            oracle = format!("FAIL C08: {text} typed {ty:?}");
                        }
                    }
                } else {
                    oracle = format!("FAIL C10: {text} is not a literal in the graph");
                }
                writeln!(w, "lit\ttiming\t{}\t-\t{}\t{oracle}", cps(&text), lit.map(|d| d.name().to_string()).unwrap_or_default()).unwrap();
            }
        }
    }
    // negated imaginary integers: folded into the literal with a negative sign
    for (num, isint) in nums.iter().map(|(a, b)| (a.as_str(), *b)) {
        if !isint || num.starts_with("0x") {
            continue;
        }
        let text = format!("-{num}im");
        let (lit, _ty, panic) = asg_first_literal(&format!("{text};"));
        let clean = num.replace('_', "");
        let oracle = if let Some(p) = panic {
            format!("FAIL C03: analysis panicked on {text}: {}", &p[..p.len().min(60)])
        } else {
            match &lit {
                Some(d) if d.name() == "ImaginaryInt" => {
                    let inner = d.arg(0).cloned().unwrap_or(D::Atom("".into()));
                    let v = inner.field("value").map(|x| x.name().to_string()).unwrap_or_default();
                    let sg = inner.field("sign").map(|x| x.name().to_string()).unwrap_or_default();
                    if v == clean && (sg == "false" || clean == "0") {
                        "ok".to_string()
                    } else {
                        format!("FAIL C10: {text} became {d:?}")
                    }
                }
                other => format!("FAIL C10: {text} became {other:?}"),
            }
        };
        writeln!(w, "lit\ttiming\t{}\t-\t{}\t{oracle}", cps(&text), lit.map(|d| d.name().to_string()).unwrap_or_default()).unwrap();
    }
    // negated imaginary floats: an imaginary float of the negated value, typed complex (C10, C08)
    for (num, isint) in nums.iter().map(|(a, b)| (a.as_str(), *b)) {
        if isint {
            continue;
        }
        for sp in ["", " "] {
            let text = format!("-{num}{sp}im");
            let (lit, ty, panic) = asg_first_literal(&format!("{text};"));
            let want = -num.replace('_', "").parse::<f64>().unwrap_or(f64::NAN);
            let oracle = if let Some(p) = panic {
                format!("FAIL C03: analysis panicked on {text}: {}", &p[..p.len().min(60)])
            } else {
                match &lit {
                    Some(d) if d.name() == "ImaginaryFloat" => {
                        let inner = d.arg(0).cloned().unwrap_or(D::Atom("".into()));
                        let v = match inner.field("value") {
                            Some(D::Str(s)) => s.parse::<f64>().ok(),
                            Some(D::Atom(a)) => a.parse::<f64>().ok(),
                            _ => None,
                        };
                        if v.map(|x| x.to_bits()) != Some(want.to_bits()) {
                            format!("FAIL C10: {text} became {d:?}")
                        } else if !ty.as_deref().map(|t| t.starts_with("Complex")).unwrap_or(false) {
                            format!("FAIL C08: {text} typed {ty:?}")
                        } else {
                            "ok".to_string()
                        }
                    }
                    other => format!("FAIL C10,C08: {text} became {other:?}, not an imaginary float literal"),
                }
            };
            writeln!(w, "lit\ttiming\t{}\t-\t{}\t{oracle}", cps(&text), lit.map(|d| d.name().to_string()).unwrap_or_default()).unwrap();
        }
    }
    for (t, v) in [("true", "true"), ("false", "false")] {
        let (lit, ty, _) = asg_first_literal(&format!("{t};"));
        let ok = matches!(&lit, Some(d) if d.name() == "Bool" && d.arg(0).and_then(|b| b.field("value")).map(|x| x.name() == v).unwrap_or(false)) && ty.as_deref() == Some("Bool 1");
        writeln!(w, "lit\tbool\t{}\t-\t{}\t{}", cps(t), v, if ok { "ok".to_string() } else { format!("FAIL C10: {t} became {lit:?} : {ty:?}") }).unwrap();
    }
    finish(w);
}
