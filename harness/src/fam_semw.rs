// Family `semw` (C09): what type the symbol table records for a declaration.
// Line: "semw\t<kind>\t<designator form>\t<const 0|1>\t<type=<enc>;diag=<None|ConstIntegerError|InvalidDesignatorError|...>>\t<oracle>"
use crate::fam_semt::enc_type;
use crate::sema::*;
use crate::util::*;
use std::io::Write;

fn type_text(kind: &str, desig: &str) -> String {
    if desig.is_empty() {
        kind.to_string()
    } else if kind == "complex" {
        format!("complex[float[{desig}]]")
    } else {
        format!("{kind}[{desig}]")
    }
}

fn spell(n: u128, style: u64) -> String {
    match style % 5 {
        0 => n.to_string(),
        1 => format!("0x{n:x}"),
        2 => format!("0b{n:b}"),
        3 => format!("0o{n:o}"),
        _ => {
            // decimal with underscores
            let s = n.to_string();
            let mut o = String::new();
            for (i, c) in s.chars().enumerate() {
                if i > 0 && (s.len() - i) % 3 == 0 {
                    o.push('_');
                }
                o.push(c);
            }
            o
        }
    }
}

pub fn semw_case(kind: &str, form: &str, desig_text: &str, prelude: &str, is_const: bool, scope: u64) -> Option<String> {
    let ty = type_text(kind, desig_text);
    let init = match kind {
        "int" | "uint" => "1",
        "float" | "angle" => "1.5",
        "complex" => "2im",
        "bit" => "\"1\"",
        "bool" => "true",
        "duration" | "stretch" => "3ns",
        _ => "1",
    };
    let decl = if kind == "qubit" {
        format!("{ty} x;")
    } else if is_const {
        format!("const {ty} x = {init};")
    } else {
        format!("{ty} x;")
    };
    let text = match scope {
        0 => format!("{prelude}\n{decl}"),
        1 => format!("{prelude}\nif (true) {{\n{decl} }}"),
        _ => format!("{prelude}\nwhile (true) {{ if (true) {{\n{decl} }} }}"),
    };
    if kind == "qubit" && scope != 0 {
        return None; // qubits outside the global scope are C13's business
    }
    let decl_start = text.find(&decl).unwrap() as u32;
    let decl_end = decl_start + decl.len() as u32;
    let o = run_sema(&text);
    let input = format!("{kind}\t{form}\t{}", is_const as u8);
    if let Some(p) = &o.panic {
        return Some(format!("semw\t{input}\tPANIC {}\tFAIL C03: analysis panicked on an error-free program: {} ;; {}", &p[..p.len().min(50)], &p[..p.len().min(90)], text.replace('\n', " ")));
    }
    if o.any_syntax {
        return None;
    }
    let sym = o.symbols.iter().rev().find(|(n, _)| n == "x").map(|(_, t)| enc_type(&parse_debug(t)))?;
    let diags: Vec<&str> = o
        .errors
        .iter()
        .filter(|(k, s, e, _)| *s >= decl_start && *e <= decl_end && !k.starts_with("IncompatibleTypes"))
        .map(|(k, _, _, _)| k.as_str())
        .collect();
    let d = diags.first().cloned().unwrap_or("None");
    let mut oracle = "ok".to_string();
    if o.scope_depth != 1 {
        oracle = format!("FAIL C03: {} scopes open after analysis", o.scope_depth);
    }
    Some(format!("semw\t{input}\ttype={sym};diag={d}\t{oracle}"))
}

/// the return type of a subroutine whose width is a const identifier, with the name shadowed by a parameter
/// or by a declaration in the body: the signature is written in the enclosing scope
pub fn semw_ret_case(kind: &str, n: u128, shadow: u64) -> Option<String> {
    let ty = type_text(kind, "n");
    let (param, body) = match shadow {
        0 => ("int[8] a", String::new()),
        1 => ("int[8] n", String::new()),
        _ => ("int[8] a", format!("const uint[64] n = {};", n + 3)),
    };
    let text = format!("const uint[64] n = {n};\ndef fr({param}) -> {ty} {{ {body} return 1; }}");
    let o = run_sema(&text);
    let input = format!("{kind}\tconstcast:{n}\t1");
    if let Some(p) = &o.panic {
        return Some(format!("semw\t{input}\tPANIC {}\tFAIL C03: analysis panicked on an error-free program: {} ;; {}", &p[..p.len().min(50)], &p[..p.len().min(90)], text.replace('\n', " ")));
    }
    if o.any_syntax {
        return None;
    }
    let d = o.stmts.iter().map(|s| parse_debug(s)).find(|s| s.name() == "DefStmt")?;
    let rt = enc_type(d.arg(0)?.field("return_type")?);
    let diags: Vec<&str> = o.errors.iter().filter(|(k, _, _, _)| k.contains("Designator") || k.contains("ConstInteger")).map(|(k, _, _, _)| k.as_str()).collect();
    let dg = diags.first().cloned().unwrap_or("None");
    Some(format!("semw\t{input}\ttype={rt};diag={dg}\tok"))
}

/// arities of the standard library (stdgates.inc as the analyser provides it) and of the built-in gate
const STD_GATES: &[(&str, usize, usize)] = &[
    ("x", 0, 1), ("y", 0, 1), ("z", 0, 1), ("h", 0, 1), ("s", 0, 1), ("sdg", 0, 1), ("t", 0, 1), ("tdg", 0, 1), ("sx", 0, 1), ("id", 0, 1),
    ("p", 1, 1), ("rx", 1, 1), ("ry", 1, 1), ("rz", 1, 1), ("phase", 1, 1), ("u1", 1, 1), ("u2", 2, 1), ("u3", 3, 1),
    ("cx", 0, 2), ("cy", 0, 2), ("cz", 0, 2), ("ch", 0, 2), ("swap", 0, 2), ("CX", 0, 2), ("cp", 1, 2), ("crx", 1, 2), ("cry", 1, 2), ("crz", 1, 2),
    ("cphase", 1, 2), ("cu", 4, 2), ("ccx", 0, 3), ("cswap", 0, 3),
];

/// C09 for signatures: gate arity, the types of gate parameters and qubits, subroutine parameter count,
/// parameter types and return type, and the table's gate listing.
pub fn semw_sig_case(rng: &mut Rng) -> String {
    let with_std = rng.below(2) == 0;
    let mut text = String::new();
    if with_std {
        text.push_str("include \"stdgates.inc\";\n");
    }
    // expected (name, type rendering) of every user symbol, in declaration order
    let mut want: Vec<(String, String)> = Vec::new();
    let mut user_gates: Vec<(String, usize, usize)> = Vec::new();
    let n_items = 1 + rng.below(4);
    let ptypes: &[(&str, &str)] = &[
        ("int[8]", "Int(Some(8), False)"), ("int", "Int(None, False)"), ("uint[16]", "UInt(Some(16), False)"), ("float[32]", "Float(Some(32), False)"),
        ("float", "Float(None, False)"), ("angle[4]", "Angle(Some(4), False)"), ("bool", "Bool(False)"), ("bit", "Bit(False)"),
        ("bit[4]", "BitArray(D1(4), False)"), ("qubit", "Qubit"), ("qubit[2]", "QubitArray(D1(2))"), ("complex[float[64]]", "Complex(Some(64), False)"),
        ("duration", "Duration(False)"),
    ];
    let rtypes: &[(&str, &str)] = &[
        ("int[8]", "Int(Some(8), True)"), ("uint[16]", "UInt(Some(16), True)"), ("float[64]", "Float(Some(64), True)"), ("bit", "Bit(True)"),
        ("bool", "Bool(True)"), ("angle[8]", "Angle(Some(8), True)"), ("bit[3]", "BitArray(D1(3), True)"),
    ];
    for i in 0..n_items {
        if rng.below(2) == 0 {
            let np = rng.below(4) as usize;
            let nq = 1 + rng.below(3) as usize;
            let name = format!("ug{i}");
            let ps: Vec<String> = (0..np).map(|j| format!("a{i}_{j}")).collect();
            let qs: Vec<String> = (0..nq).map(|j| format!("w{i}_{j}")).collect();
            let pl = if np == 0 { String::new() } else { format!("({})", ps.join(", ")) };
            text.push_str(&format!("gate {name}{pl} {} {{ }}\n", qs.join(", ")));
            for p in &ps {
                want.push((p.clone(), "Angle(None, True)".into()));
            }
            for q in &qs {
                want.push((q.clone(), "Qubit".into()));
            }
            want.push((name.clone(), format!("Gate({np}, {nq})")));
            user_gates.push((name, np, nq));
        } else {
            let np = rng.below(5) as usize;
            let name = format!("uf{i}");
            let mut ps = Vec::new();
            for j in 0..np {
                let (t, r) = ptypes[rng.below(ptypes.len() as u64) as usize];
                ps.push(format!("{t} b{i}_{j}"));
                want.push((format!("b{i}_{j}"), r.to_string()));
            }
            let (rt, rr) = if rng.below(3) == 0 { ("", "Void") } else { rtypes[rng.below(rtypes.len() as u64) as usize] };
            let arrow = if rt.is_empty() { String::new() } else { format!(" -> {rt}") };
            text.push_str(&format!("def {name}({}){arrow} {{ }}\n", ps.join(", ")));
            want.push((name, format!("SubroutineDef(SubroutineDef {{ num_params: {np}, return_type: {rr} }})")));
        }
    }
    let o = run_sema(&text);
    let flat = text.replace('\n', " ");
    if let Some(p) = &o.panic {
        return format!("semw\tsig\t{flat}\tFAIL C03: analysis panicked on an error-free program: {}", &p[..p.len().min(90)]);
    }
    if o.any_syntax {
        return format!("semw\tsig\t{flat}\tFAIL C04: a generated signature has syntax diagnostics");
    }
    // user symbols in declaration order: those that are neither built-in constants nor library gates
    let got: Vec<(String, String)> = o.symbols.iter().filter(|(n, _)| want.iter().any(|(w, _)| w == n)).cloned().collect();
    if got != want {
        let i = got.iter().zip(want.iter()).position(|(a, b)| a != b).unwrap_or(got.len().min(want.len()));
        return format!("semw\tsig\t{flat}\tFAIL C09: symbol {:?} is recorded as {:?}, the declaration says {:?}", want.get(i).map(|x| &x.0), got.get(i).map(|x| &x.1), want.get(i).map(|x| &x.1));
    }
    if !o.errors.is_empty() {
        return format!("semw\tsig\t{flat}\tFAIL C09: diagnostics on well-formed signatures: {:?}", o.errors.iter().map(|e| &e.0).collect::<Vec<_>>());
    }
    // the gate listing: the library (if included) and the user's gates -- and nothing else (the built-in U is
    // neither, and the property does not list it)
    let mut exp: Vec<(String, usize, usize)> = Vec::new();
    if with_std {
        exp.extend(STD_GATES.iter().map(|(n, a, b)| (n.to_string(), *a, *b)));
    }
    exp.extend(user_gates);
    let mut gl = o.gates.clone();
    gl.sort();
    exp.sort();
    if gl != exp {
        let extra: Vec<_> = gl.iter().filter(|g| !exp.contains(g)).collect();
        let missing: Vec<_> = exp.iter().filter(|g| !gl.contains(g)).collect();
        return format!("semw\tsig\t{flat}\tFAIL C09: the gate listing differs from the declared gates: unexpected {extra:?}, missing {missing:?}");
    }
    format!("semw\tsig\t{flat}\tok")
}

pub fn run(args: &[String]) {
    silence_panics();
    let mut w = out();
    let seed = arg_u64(args, "--seed", 1);
    let mut rng = Rng::new(seed);
    let nrand = arg_u64(args, "--random", 40);
    let mut widths: Vec<u128> = vec![1, 2, 7, 8, 64, 128, 255, 65535, 65536, (1u128 << 31) - 1, 1u128 << 31, (1u128 << 32) - 1, 1u128 << 32, (1u128 << 32) + 1, 1u128 << 33, (1u128 << 33) + 5, 1u128 << 64, u128::MAX, 0];
    for _ in 0..nrand {
        // random widths across magnitudes
        let bits = 1 + rng.below(34);
        widths.push((rng.next() as u128) & ((1u128 << bits) - 1));
    }
    let kinds = ["int", "uint", "float", "angle", "complex", "bit", "qubit"];
    let mut style = 0u64;
    for kind in kinds {
        for is_const in [false, true] {
            if kind == "qubit" && is_const {
                continue;
            }
            for scope in 0..3u64 {
                // no designator
                if let Some(l) = semw_case(kind, "none", "", "", is_const, scope) {
                    writeln!(w, "{l}").unwrap();
                }
                for &n in &widths {
                    style += 1;
                    // literal designator
                    if let Some(l) = semw_case(kind, &format!("lit:{n}"), &spell(n, style), "", is_const, scope) {
                        writeln!(w, "{l}").unwrap();
                    }
                    // const identifier whose value is a cast integer literal (int[64] holds it when n < 2^128 syntactically)
                    let pre = format!("const uint[64] n = {};", spell(n, style + 1));
                    if let Some(l) = semw_case(kind, &format!("constcast:{n}"), "n", &pre, is_const, scope) {
                        writeln!(w, "{l}").unwrap();
                    }
                }
                // other designator forms
                for (form, pre, d) in [
                    ("litother", "", "true"),
                    ("constother", "const float[64] n = 1.5;", "n"),
                    ("constother", "const int[64] n = -3;", "n"),
                    // (a literal of the literal's own type int[128] is recorded without a cast)
                    ("constother", "const int[128] n = -3;", "n"),
                    ("constother", "const int[128] n = -1;", "n"),
                    ("constcast:5", "const int[128] n = 5;", "n"),
                    ("nonconst", "int[32] n = 5;", "n"),
                    ("nonconst", "uint n;", "n"),
                    // a mutable variable whose literal initializer needs no cast (the literal's own type)
                    ("nonconst", "int[128] n = 7;", "n"),
                    ("nonconst", "int[128] n = 7; n = 9;", "n"),
                    ("nonconst", "float[64] n = 2.0;", "n"),
                    ("nonconst", "bool n = true;", "n"),
                ] {
                    if let Some(l) = semw_case(kind, form, d, pre, is_const, scope) {
                        writeln!(w, "{l}").unwrap();
                    }
                }
            }
        }
    }
    // subroutine return types: a const width written in the signature, shadowed inside the subroutine
    for kind in ["int", "uint", "float", "angle", "bit"] {
        for n in [1u128, 8, 16, 64] {
            for shadow in 0..3u64 {
                if let Some(l) = semw_ret_case(kind, n, shadow) {
                    writeln!(w, "{l}").unwrap();
                }
            }
        }
    }
    // gate and subroutine signatures, the gate listing
    for _ in 0..arg_u64(args, "--signatures", 400) {
        writeln!(w, "{}", semw_sig_case(&mut rng)).unwrap();
    }
    for kind in ["bool", "duration", "stretch"] {
        for is_const in [false, true] {
            for scope in 0..3u64 {
                if let Some(l) = semw_case(kind, "none", "", "", is_const, scope) {
                    writeln!(w, "{l}").unwrap();
                }
            }
        }
    }
    finish(w);
}
