// Family `semw` (C09): what type the symbol table records for a declaration.
// Line: "semw\t<kind>\t<designator form>\t<const 0|1>\t<type=<enc>;diag=<None|ConstIntegerError|InvalidDesignatorError|...>>\t<oracle>"
use crate::fam_semt::enc_type;
use crate::sema::*;
use crate::util::*;
use std::io::Write;

fn type_text(kind: &str, desig: &str) -> String {
    if desig.is_empty() {
        kind.to_string()
    } else if kind == "complex" {
        format!("complex[float[{desig}]]")
    } else {
        format!("{kind}[{desig}]")
    }
}

fn spell(n: u128, style: u64) -> String {
    match style % 5 {
        0 => n.to_string(),
        1 => format!("0x{n:x}"),
        2 => format!("0b{n:b}"),
        3 => format!("0o{n:o}"),
        _ => {
            // decimal with underscores
            let s = n.to_string();
            let mut o = String::new();
            for (i, c) in s.chars().enumerate() {
                if i > 0 && (s.len() - i) % 3 == 0 {
                    o.push('_');
                }
                o.push(c);
            }
            o
        }
    }
}

pub fn semw_case(kind: &str, form: &str, desig_text: &str, prelude: &str, is_const: bool, scope: u64) -> Option<String> {
    let ty = type_text(kind, desig_text);
    let init = match kind {
        "int" | "uint" => "1",
        "float" | "angle" => "1.5",
        "complex" => "2im",
        "bit" => "\"1\"",
        "bool" => "true",
        "duration" | "stretch" => "3ns",
        _ => "1",
    };
    let decl = if kind == "qubit" {
        format!("{ty} x;")
    } else if is_const {
        format!("const {ty} x = {init};")
    } else {
        format!("{ty} x;")
    };
    let text = match scope {
        0 => format!("{prelude}\n{decl}"),
        1 => format!("{prelude}\nif (true) {{\n{decl} }}"),
        _ => format!("{prelude}\nwhile (true) {{ if (true) {{\n{decl} }} }}"),
    };
    if kind == "qubit" && scope != 0 {
        return None; // qubits outside the global scope are C13's business
    }
    let decl_start = text.find(&decl).unwrap() as u32;
    let decl_end = decl_start + decl.len() as u32;
    let o = run_sema(&text);
    let input = format!("{kind}\t{form}\t{}", is_const as u8);
    if let Some(p) = &o.panic {
        return Some(format!("semw\t{input}\tPANIC {}\tFAIL C03: analysis panicked on an error-free program: {} ;; {}", &p[..p.len().min(50)], &p[..p.len().min(90)], text.replace('\n', " ")));
    }
    if o.any_syntax {
        return None;
    }
    let sym = o.symbols.iter().rev().find(|(n, _)| n == "x").map(|(_, t)| enc_type(&parse_debug(t)))?;
    let diags: Vec<&str> = o
        .errors
        .iter()
        .filter(|(k, s, e, _)| *s >= decl_start && *e <= decl_end && !k.starts_with("IncompatibleTypes"))
        .map(|(k, _, _, _)| k.as_str())
        .collect();
    let d = diags.first().cloned().unwrap_or("None");
    let mut oracle = "ok".to_string();
    if o.scope_depth != 1 {
        oracle = format!("FAIL C03: {} scopes open after analysis", o.scope_depth);
    }
    Some(format!("semw\t{input}\ttype={sym};diag={d}\t{oracle}"))
}

/// the return type of a subroutine whose width is a const identifier, with the name shadowed by a parameter
/// or by a declaration in the body: the signature is written in the enclosing scope
pub fn semw_ret_case(kind: &str, n: u128, shadow: u64) -> Option<String> {
    let ty = type_text(kind, "n");
    let (param, body) = match shadow {
        0 => ("int[8] a", String::new()),
        1 => ("int[8] n", String::new()),
        _ => ("int[8] a", format!("const uint[64] n = {};", n + 3)),
    };
    let text = format!("const uint[64] n = {n};\ndef fr({param}) -> {ty} {{ {body} return 1; }}");
    let o = run_sema(&text);
    let input = format!("{kind}\tconstcast:{n}\t1");
    if let Some(p) = &o.panic {
        return Some(format!("semw\t{input}\tPANIC {}\tFAIL C03: analysis panicked on an error-free program: {} ;; {}", &p[..p.len().min(50)], &p[..p.len().min(90)], text.replace('\n', " ")));
    }
    if o.any_syntax {
        return None;
    }
    let d = o.stmts.iter().map(|s| parse_debug(s)).find(|s| s.name() == "DefStmt")?;
    let rt = enc_type(d.arg(0)?.field("return_type")?);
    let diags: Vec<&str> = o.errors.iter().filter(|(k, _, _, _)| k.contains("Designator") || k.contains("ConstInteger")).map(|(k, _, _, _)| k.as_str()).collect();
    let dg = diags.first().cloned().unwrap_or("None");
    Some(format!("semw\t{input}\ttype={rt};diag={dg}\tok"))
}

pub fn run(args: &[String]) {
    silence_panics();
    let mut w = out();
    let seed = arg_u64(args, "--seed", 1);
    let mut rng = Rng::new(seed);
    let nrand = arg_u64(args, "--random", 40);
    let mut widths: Vec<u128> = vec![1, 2, 7, 8, 64, 128, 255, 65535, 65536, (1u128 << 31) - 1, 1u128 << 31, (1u128 << 32) - 1, 1u128 << 32, (1u128 << 32) + 1, 1u128 << 33, (1u128 << 33) + 5, 1u128 << 64, u128::MAX, 0];
    for _ in 0..nrand {
        // random widths across magnitudes
        let bits = 1 + rng.below(34);
        widths.push((rng.next() as u128) & ((1u128 << bits) - 1));
    }
    let kinds = ["int", "uint", "float", "angle", "complex", "bit", "qubit"];
    let mut style = 0u64;
    for kind in kinds {
        for is_const in [false, true] {
            if kind == "qubit" && is_const {
                continue;
            }
            for scope in 0..3u64 {
                // no designator
                if let Some(l) = semw_case(kind, "none", "", "", is_const, scope) {
                    writeln!(w, "{l}").unwrap();
                }
                for &n in &widths {
                    style += 1;
                    // literal designator
                    if let Some(l) = semw_case(kind, &format!("lit:{n}"), &spell(n, style), "", is_const, scope) {
                        writeln!(w, "{l}").unwrap();
                    }
                    // const identifier whose value is a cast integer literal (int[64] holds it when n < 2^128 syntactically)
                    let pre = format!("const uint[64] n = {};", spell(n, style + 1));
                    if let Some(l) = semw_case(kind, &format!("constcast:{n}"), "n", &pre, is_const, scope) {
                        writeln!(w, "{l}").unwrap();
                    }
                }
                // other designator forms
                for (form, pre, d) in [
                    ("litother", "", "true"),
                    ("constother", "const float[64] n = 1.5;", "n"),
                    ("constother", "const int[64] n = -3;", "n"),
                    // (a literal of the literal's own type int[128] is recorded without a cast)
                    ("constother", "const int[128] n = -3;", "n"),
                    ("constother", "const int[128] n = -1;", "n"),
                    ("constcast:5", "const int[128] n = 5;", "n"),
                    ("nonconst", "int[32] n = 5;", "n"),
                    ("nonconst", "uint n;", "n"),
                ] {
                    if let Some(l) = semw_case(kind, form, d, pre, is_const, scope) {
                        writeln!(w, "{l}").unwrap();
                    }
                }
            }
        }
    }
    // subroutine return types: a const width written in the signature, shadowed inside the subroutine
    for kind in ["int", "uint", "float", "angle", "bit"] {
        for n in [1u128, 8, 16, 64] {
            for shadow in 0..3u64 {
                if let Some(l) = semw_ret_case(kind, n, shadow) {
                    writeln!(w, "{l}").unwrap();
                }
            }
        }
    }
    for kind in ["bool", "duration", "stretch"] {
        for is_const in [false, true] {
            for scope in 0..3u64 {
                if let Some(l) = semw_case(kind, "none", "", "", is_const, scope) {
                    writeln!(w, "{l}").unwrap();
                }
            }
        }
    }
    finish(w);
}
